#!/bin/bash
# usage: ./run.sh <property-id> [quick|thorough]
# Rebuilds the checker if needed and analyses /repo's current working tree.
# Exit 0: every obligation of the property discharged. Exit 1: VIOLATION line(s) printed.
set -u
cd "$(dirname "$0")"
PROP="${1:?property id}"
TIER="${2:-${VERIF_TIER:-quick}}"
export GOFLAGS=-mod=mod GOPROXY=off GOWORK=off
unset GOTOOLCHAIN GOSUMDB 2>/dev/null
# the repository needs go >= 1.26: the default go switches to the cached go1.26.0 toolchain;
# if that is unavailable fall back to the pre-installed go1.26.8
if ! (cd checker && go version 2>/dev/null | grep -q 'go1\.2[6-9]'); then
  export PATH=/opt/veriftools/go1.26.8/bin:$PATH GOTOOLCHAIN=local
fi
mkdir -p .bin evidence
if ! (cd checker && go build -o ../.bin/sialint ./cmd/sialint) 2>.bin/build.log; then
  cat .bin/build.log
  echo "UNDECIDED rule=${PROP}.build reason=checker does not build"
  echo "VIOLATION property=${PROP} replay=/verif/.bin/build.log"
  exit 1
fi
exec ./.bin/sialint -property "$PROP" -tier "$TIER" -repo /repo -out /verif/evidence -known /verif/known_findings.json
