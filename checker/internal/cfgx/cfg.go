// Copyright 2016 The Go Authors. All rights reserved.
// Use of this source code is governed by a BSD-style
// license that can be found in the LICENSE file.

// Package cfg constructs a simple control-flow graph (CFG) of the
// statements and expressions within a single function.
//
// Use cfg.New to construct the CFG for a function body.
//
// The blocks of the CFG contain all the function's non-control
// statements.  The CFG does not contain control statements such as If,
// Switch, Select, and Branch, but does contain their subexpressions;
// also, each block records the control statement (Block.Stmt) that
// gave rise to it and its relationship (Block.Kind) to that statement.
//
// For example, this source code:
//
//	if x := f(); x != nil {
//		T()
//	} else {
//		F()
//	}
//
// produces this CFG:
//
//	1:  x := f()		Body
//	    x != nil
//	    succs: 2, 3
//	2:  T()			IfThen
//	    succs: 4
//	3:  F()			IfElse
//	    succs: 4
//	4:			IfDone
//
// The CFG does contain Return statements; even implicit returns are
// materialized (at the position of the function's closing brace).
//
// The CFG does not record conditions associated with conditional branch
// edges, nor the short-circuit semantics of the && and || operators,
// nor abnormal control flow caused by panic.  If you need this
// information, use golang.org/x/tools/go/ssa instead.
package cfgx

import (
	"bytes"
	"fmt"
	"go/ast"
	"go/format"
	"go/token"
)

// A CFG represents the control-flow graph of a single function.
//
// The entry point is Blocks[0]; there may be multiple return blocks.
type CFG struct {
	fset   *token.FileSet
	Blocks []*Block // block[0] is entry; order otherwise undefined
}

// A Block represents a basic block: a list of statements and
// expressions that are always evaluated sequentially.
//
// A block may have 0-2 successors: zero for a return block or a block
// that calls a function such as panic that never returns; one for a
// normal (jump) block; and two for a conditional (if) block.
type Block struct {
	Nodes []ast.Node // statements, expressions, and ValueSpecs
	Succs []*Block   // successor nodes in the graph
	Index int32      // index within CFG.Blocks
	Live  bool       // block is reachable from entry
	Kind  BlockKind  // block kind
	Stmt  ast.Stmt   // statement that gave rise to this block (see BlockKind for details)

	Cond     ast.Expr // leaf boolean condition ending this block; Succs[0] is its true edge
	CaseExpr ast.Expr // case expression of a tagged switch ending this block; Succs[0] is the match edge
	Tag      ast.Expr // tag of that switch

	succs2 [2]*Block // underlying array for Succs
}

// A BlockKind identifies the purpose of a block.
// It also determines the possible types of its Stmt field.
type BlockKind uint8

const (
	KindInvalid BlockKind = iota // Stmt=nil

	KindUnreachable     // unreachable block after {Branch,Return}Stmt / no-return call ExprStmt
	KindBody            // function body BlockStmt
	KindForBody         // body of ForStmt
	KindForDone         // block after ForStmt
	KindForLoop         // head of ForStmt
	KindForPost         // post condition of ForStmt
	KindIfDone          // block after IfStmt
	KindIfElse          // else block of IfStmt
	KindIfThen          // then block of IfStmt
	KindLabel           // labeled block of BranchStmt (Stmt may be nil for dangling label)
	KindRangeBody       // body of RangeStmt
	KindRangeDone       // block after RangeStmt
	KindRangeLoop       // head of RangeStmt
	KindSelectCaseBody  // body of SelectStmt
	KindSelectDone      // block after SelectStmt
	KindSelectAfterCase // block after a CommClause
	KindSwitchCaseBody  // body of CaseClause
	KindSwitchDone      // block after {Type.}SwitchStmt
	KindSwitchNextCase  // secondary expression of a multi-expression CaseClause
	KindCondRHS         // right operand of && or ||
)

func (kind BlockKind) String() string {
	return [...]string{
		KindInvalid:         "Invalid",
		KindUnreachable:     "Unreachable",
		KindBody:            "Body",
		KindForBody:         "ForBody",
		KindForDone:         "ForDone",
		KindForLoop:         "ForLoop",
		KindForPost:         "ForPost",
		KindIfDone:          "IfDone",
		KindIfElse:          "IfElse",
		KindIfThen:          "IfThen",
		KindLabel:           "Label",
		KindRangeBody:       "RangeBody",
		KindRangeDone:       "RangeDone",
		KindRangeLoop:       "RangeLoop",
		KindSelectCaseBody:  "SelectCaseBody",
		KindSelectDone:      "SelectDone",
		KindSelectAfterCase: "SelectAfterCase",
		KindSwitchCaseBody:  "SwitchCaseBody",
		KindSwitchDone:      "SwitchDone",
		KindSwitchNextCase:  "SwitchNextCase",
		KindCondRHS:         "CondRHS",
	}[kind]
}

// New returns a new control-flow graph for the specified function body,
// which must be non-nil.
//
// The CFG builder calls mayReturn to determine whether a given function
// call may return.  For example, calls to panic, os.Exit, and log.Fatal
// do not return, so the builder can remove infeasible graph edges
// following such calls.  The builder calls mayReturn only for a
// CallExpr beneath an ExprStmt.
func New(body *ast.BlockStmt, mayReturn func(*ast.CallExpr) bool) *CFG {
	b := builder{
		mayReturn: mayReturn,
		cfg:       new(CFG),
	}
	b.current = b.newBlock(KindBody, body)
	b.stmt(body)

	// Compute liveness (reachability from entry point), breadth-first.
	q := make([]*Block, 0, len(b.cfg.Blocks))
	q = append(q, b.cfg.Blocks[0]) // entry point
	for len(q) > 0 {
		b := q[len(q)-1]
		q = q[:len(q)-1]

		if !b.Live {
			b.Live = true
			q = append(q, b.Succs...)
		}
	}

	// Does control fall off the end of the function's body?
	// Make implicit return explicit.
	if b.current != nil && b.current.Live {
		b.add(&ast.ReturnStmt{
			Return: body.End() - 1,
		})
	}

	return b.cfg
}

func (b *Block) String() string {
	return fmt.Sprintf("block %d (%s)", b.Index, b.comment(nil))
}

func (b *Block) comment(fset *token.FileSet) string {
	s := b.Kind.String()
	if fset != nil && b.Stmt != nil {
		s = fmt.Sprintf("%s@L%d", s, fset.Position(b.Stmt.Pos()).Line)
	}
	return s
}

// Return returns the return statement at the end of this block if present, nil
// otherwise.
//
// When control falls off the end of the function, the ReturnStmt is synthetic
// and its [ast.Node.End] position may be beyond the end of the file.
func (b *Block) Return() (ret *ast.ReturnStmt) {
	if len(b.Nodes) > 0 {
		ret, _ = b.Nodes[len(b.Nodes)-1].(*ast.ReturnStmt)
	}
	return
}

// Format formats the control-flow graph for ease of debugging.
func (g *CFG) Format(fset *token.FileSet) string {
	var buf bytes.Buffer
	for _, b := range g.Blocks {
		fmt.Fprintf(&buf, ".%d: # %s\n", b.Index, b.comment(fset))
		for _, n := range b.Nodes {
			fmt.Fprintf(&buf, "\t%s\n", formatNode(fset, n))
		}
		if len(b.Succs) > 0 {
			fmt.Fprintf(&buf, "\tsuccs:")
			for _, succ := range b.Succs {
				fmt.Fprintf(&buf, " %d", succ.Index)
			}
			buf.WriteByte('\n')
		}
		buf.WriteByte('\n')
	}
	return buf.String()
}

// Dot returns the control-flow graph in the [Dot graph description language].
// Use a command such as 'dot -Tsvg' to render it in a form viewable in a browser.
// This method is provided as a debugging aid; the details of the
// output are unspecified and may change.
//
// [Dot graph description language]: ​​https://en.wikipedia.org/wiki/DOT_(graph_description_language)
func (g *CFG) Dot(fset *token.FileSet) string {
	var buf bytes.Buffer
	buf.WriteString("digraph CFG {\n")
	buf.WriteString("  node [shape=box];\n")
	for _, b := range g.Blocks {
		// node label
		var text bytes.Buffer
		text.WriteString(b.comment(fset))
		for _, n := range b.Nodes {
			fmt.Fprintf(&text, "\n%s", formatNode(fset, n))
		}

		// node and edges
		fmt.Fprintf(&buf, "  n%d [label=%q];\n", b.Index, &text)
		for _, succ := range b.Succs {
			fmt.Fprintf(&buf, "  n%d -> n%d;\n", b.Index, succ.Index)
		}
	}
	buf.WriteString("}\n")
	return buf.String()
}

func formatNode(fset *token.FileSet, n ast.Node) string {
	var buf bytes.Buffer
	format.Node(&buf, fset, n)
	// Indent secondary lines by a tab.
	return string(bytes.Replace(buf.Bytes(), []byte("\n"), []byte("\n\t"), -1))
}
