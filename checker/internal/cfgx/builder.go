// Copyright 2016 The Go Authors. All rights reserved.
// Use of this source code is governed by a BSD-style
// license that can be found in the LICENSE file.

package cfgx

// This file is derived from golang.org/x/tools v0.29.0 go/cfg/builder.go
// (BSD-3-Clause, Copyright The Go Authors). Changes for sialint:
//   - boolean conditions are decomposed at &&, || and ! so that every leaf
//     condition ends its own block (Block.Cond) with Succs[0] the true edge;
//   - tagged switch case expressions are recorded in Block.CaseExpr;
//   - the head block of a range loop carries the RangeStmt as a marker node
//     (its X operand is a node of the preceding block).

// This file implements the CFG construction pass.

import (
	"fmt"
	"go/ast"
	"go/token"
)

type builder struct {
	cfg       *CFG
	mayReturn func(*ast.CallExpr) bool
	current   *Block
	lblocks   map[string]*lblock // labeled blocks
	targets   *targets           // linked stack of branch targets
}

func (b *builder) stmt(_s ast.Stmt) {
	// The label of the current statement.  If non-nil, its _goto
	// target is always set; its _break and _continue are set only
	// within the body of switch/typeswitch/select/for/range.
	// It is effectively an additional default-nil parameter of stmt().
	var label *lblock
start:
	switch s := _s.(type) {
	case *ast.BadStmt,
		*ast.SendStmt,
		*ast.IncDecStmt,
		*ast.GoStmt,
		*ast.DeferStmt,
		*ast.EmptyStmt,
		*ast.AssignStmt:
		// No effect on control flow.
		b.add(s)

	case *ast.ExprStmt:
		b.add(s)
		if call, ok := s.X.(*ast.CallExpr); ok && !b.mayReturn(call) {
			// Calls to panic, os.Exit, etc, never return.
			b.current = b.newBlock(KindUnreachable, s)
		}

	case *ast.DeclStmt:
		// Treat each var ValueSpec as a separate statement.
		d := s.Decl.(*ast.GenDecl)
		if d.Tok == token.VAR {
			for _, spec := range d.Specs {
				if spec, ok := spec.(*ast.ValueSpec); ok {
					b.add(spec)
				}
			}
		}

	case *ast.LabeledStmt:
		label = b.labeledBlock(s.Label, s)
		b.jump(label._goto)
		b.current = label._goto
		_s = s.Stmt
		goto start // effectively: tailcall stmt(g, s.Stmt, label)

	case *ast.ReturnStmt:
		b.add(s)
		b.current = b.newBlock(KindUnreachable, s)

	case *ast.BranchStmt:
		b.branchStmt(s)

	case *ast.BlockStmt:
		b.stmtList(s.List)

	case *ast.IfStmt:
		if s.Init != nil {
			b.stmt(s.Init)
		}
		then := b.newBlock(KindIfThen, s)
		done := b.newBlock(KindIfDone, s)
		_else := done
		if s.Else != nil {
			_else = b.newBlock(KindIfElse, s)
		}
		b.cond(s.Cond, then, _else)
		b.current = then
		b.stmt(s.Body)
		b.jump(done)

		if s.Else != nil {
			b.current = _else
			b.stmt(s.Else)
			b.jump(done)
		}

		b.current = done

	case *ast.SwitchStmt:
		b.switchStmt(s, label)

	case *ast.TypeSwitchStmt:
		b.typeSwitchStmt(s, label)

	case *ast.SelectStmt:
		b.selectStmt(s, label)

	case *ast.ForStmt:
		b.forStmt(s, label)

	case *ast.RangeStmt:
		b.rangeStmt(s, label)

	default:
		panic(fmt.Sprintf("unexpected statement kind: %T", s))
	}
}

func (b *builder) stmtList(list []ast.Stmt) {
	for _, s := range list {
		b.stmt(s)
	}
}

func (b *builder) branchStmt(s *ast.BranchStmt) {
	var block *Block
	switch s.Tok {
	case token.BREAK:
		if s.Label != nil {
			if lb := b.labeledBlock(s.Label, nil); lb != nil {
				block = lb._break
			}
		} else {
			for t := b.targets; t != nil && block == nil; t = t.tail {
				block = t._break
			}
		}

	case token.CONTINUE:
		if s.Label != nil {
			if lb := b.labeledBlock(s.Label, nil); lb != nil {
				block = lb._continue
			}
		} else {
			for t := b.targets; t != nil && block == nil; t = t.tail {
				block = t._continue
			}
		}

	case token.FALLTHROUGH:
		for t := b.targets; t != nil && block == nil; t = t.tail {
			block = t._fallthrough
		}

	case token.GOTO:
		if s.Label != nil {
			block = b.labeledBlock(s.Label, nil)._goto
		}
	}
	if block == nil { // ill-typed (e.g. undefined label)
		block = b.newBlock(KindUnreachable, s)
	}
	b.jump(block)
	b.current = b.newBlock(KindUnreachable, s)
}

func (b *builder) switchStmt(s *ast.SwitchStmt, label *lblock) {
	if s.Init != nil {
		b.stmt(s.Init)
	}
	if s.Tag != nil {
		b.add(s.Tag)
	}
	done := b.newBlock(KindSwitchDone, s)
	if label != nil {
		label._break = done
	}
	// We pull the default case (if present) down to the end.
	// But each fallthrough label must point to the next
	// body block in source order, so we preallocate a
	// body block (fallthru) for the next case.
	// Unfortunately this makes for a confusing block order.
	var defaultBody *[]ast.Stmt
	var defaultFallthrough *Block
	var fallthru, defaultBlock *Block
	ncases := len(s.Body.List)
	for i, clause := range s.Body.List {
		body := fallthru
		if body == nil {
			body = b.newBlock(KindSwitchCaseBody, clause) // first case only
		}

		// Preallocate body block for the next case.
		fallthru = done
		if i+1 < ncases {
			fallthru = b.newBlock(KindSwitchCaseBody, s.Body.List[i+1])
		}

		cc := clause.(*ast.CaseClause)
		if cc.List == nil {
			// Default case.
			defaultBody = &cc.Body
			defaultFallthrough = fallthru
			defaultBlock = body
			continue
		}

		var nextCond *Block
		for _, cond := range cc.List {
			nextCond = b.newBlock(KindSwitchNextCase, cc)
			if s.Tag == nil {
				b.cond(cond, body, nextCond)
			} else {
				b.add(cond) // one half of the tag==cond condition
				b.current.CaseExpr = cond
				b.current.Tag = s.Tag
				b.ifelse(body, nextCond)
			}
			b.current = nextCond
		}
		b.current = body
		b.targets = &targets{
			tail:         b.targets,
			_break:       done,
			_fallthrough: fallthru,
		}
		b.stmtList(cc.Body)
		b.targets = b.targets.tail
		b.jump(done)
		b.current = nextCond
	}
	if defaultBlock != nil {
		b.jump(defaultBlock)
		b.current = defaultBlock
		b.targets = &targets{
			tail:         b.targets,
			_break:       done,
			_fallthrough: defaultFallthrough,
		}
		b.stmtList(*defaultBody)
		b.targets = b.targets.tail
	}
	b.jump(done)
	b.current = done
}

func (b *builder) typeSwitchStmt(s *ast.TypeSwitchStmt, label *lblock) {
	if s.Init != nil {
		b.stmt(s.Init)
	}
	if s.Assign != nil {
		b.add(s.Assign)
	}

	done := b.newBlock(KindSwitchDone, s)
	if label != nil {
		label._break = done
	}
	var default_ *ast.CaseClause
	for _, clause := range s.Body.List {
		cc := clause.(*ast.CaseClause)
		if cc.List == nil {
			default_ = cc
			continue
		}
		body := b.newBlock(KindSwitchCaseBody, cc)
		var next *Block
		for _, casetype := range cc.List {
			next = b.newBlock(KindSwitchNextCase, cc)
			// casetype is a type, so don't call b.add(casetype).
			// This block logically contains a type assertion,
			// x.(casetype), but it's unclear how to represent x.
			_ = casetype
			b.ifelse(body, next)
			b.current = next
		}
		b.current = body
		b.typeCaseBody(cc, done)
		b.current = next
	}
	if default_ != nil {
		b.typeCaseBody(default_, done)
	} else {
		b.jump(done)
	}
	b.current = done
}

func (b *builder) typeCaseBody(cc *ast.CaseClause, done *Block) {
	b.targets = &targets{
		tail:   b.targets,
		_break: done,
	}
	b.stmtList(cc.Body)
	b.targets = b.targets.tail
	b.jump(done)
}

func (b *builder) selectStmt(s *ast.SelectStmt, label *lblock) {
	// First evaluate channel expressions.
	// TODO(adonovan): fix: evaluate only channel exprs here.
	for _, clause := range s.Body.List {
		if comm := clause.(*ast.CommClause).Comm; comm != nil {
			b.stmt(comm)
		}
	}

	done := b.newBlock(KindSelectDone, s)
	if label != nil {
		label._break = done
	}

	var defaultBody *[]ast.Stmt
	for _, cc := range s.Body.List {
		clause := cc.(*ast.CommClause)
		if clause.Comm == nil {
			defaultBody = &clause.Body
			continue
		}
		body := b.newBlock(KindSelectCaseBody, clause)
		next := b.newBlock(KindSelectAfterCase, clause)
		b.ifelse(body, next)
		b.current = body
		b.targets = &targets{
			tail:   b.targets,
			_break: done,
		}
		switch comm := clause.Comm.(type) {
		case *ast.ExprStmt: // <-ch
			// nop
		case *ast.AssignStmt: // x := <-states[state].Chan
			b.add(comm.Lhs[0])
		}
		b.stmtList(clause.Body)
		b.targets = b.targets.tail
		b.jump(done)
		b.current = next
	}
	if defaultBody != nil {
		b.targets = &targets{
			tail:   b.targets,
			_break: done,
		}
		b.stmtList(*defaultBody)
		b.targets = b.targets.tail
		b.jump(done)
	}
	b.current = done
}

func (b *builder) forStmt(s *ast.ForStmt, label *lblock) {
	//	...init...
	//      jump loop
	// loop:
	//      if cond goto body else done
	// body:
	//      ...body...
	//      jump post
	// post:				 (target of continue)
	//      ...post...
	//      jump loop
	// done:                                 (target of break)
	if s.Init != nil {
		b.stmt(s.Init)
	}
	body := b.newBlock(KindForBody, s)
	done := b.newBlock(KindForDone, s) // target of 'break'
	loop := body                       // target of back-edge
	if s.Cond != nil {
		loop = b.newBlock(KindForLoop, s)
	}
	cont := loop // target of 'continue'
	if s.Post != nil {
		cont = b.newBlock(KindForPost, s)
	}
	if label != nil {
		label._break = done
		label._continue = cont
	}
	b.jump(loop)
	b.current = loop
	if loop != body {
		b.cond(s.Cond, body, done)
		b.current = body
	}
	b.targets = &targets{
		tail:      b.targets,
		_break:    done,
		_continue: cont,
	}
	b.stmt(s.Body)
	b.targets = b.targets.tail
	b.jump(cont)

	if s.Post != nil {
		b.current = cont
		b.stmt(s.Post)
		b.jump(loop) // back-edge
	}
	b.current = done
}

func (b *builder) rangeStmt(s *ast.RangeStmt, label *lblock) {
	b.add(s.X)

	//      ...
	// loop:                                   (target of continue)
	// 	if ... goto body else done
	// body:
	//      ...
	// 	jump loop
	// done:                                   (target of break)

	loop := b.newBlock(KindRangeLoop, s)
	b.jump(loop)
	b.current = loop
	b.add(s) // marker: the RangeStmt itself (its parts were added above)

	body := b.newBlock(KindRangeBody, s)
	done := b.newBlock(KindRangeDone, s)
	b.ifelse(body, done)
	b.current = body

	if label != nil {
		label._break = done
		label._continue = loop
	}
	b.targets = &targets{
		tail:      b.targets,
		_break:    done,
		_continue: loop,
	}
	b.stmt(s.Body)
	b.targets = b.targets.tail
	b.jump(loop) // back-edge
	b.current = done
}

// -------- helpers --------

// Destinations associated with unlabeled for/switch/select stmts.
// We push/pop one of these as we enter/leave each construct and for
// each BranchStmt we scan for the innermost target of the right type.
type targets struct {
	tail         *targets // rest of stack
	_break       *Block
	_continue    *Block
	_fallthrough *Block
}

// Destinations associated with a labeled block.
// We populate these as labels are encountered in forward gotos or
// labeled statements.
type lblock struct {
	_goto     *Block
	_break    *Block
	_continue *Block
}

// labeledBlock returns the branch target associated with the
// specified label, creating it if needed.
func (b *builder) labeledBlock(label *ast.Ident, stmt *ast.LabeledStmt) *lblock {
	lb := b.lblocks[label.Name]
	if lb == nil {
		lb = &lblock{_goto: b.newBlock(KindLabel, nil)}
		if b.lblocks == nil {
			b.lblocks = make(map[string]*lblock)
		}
		b.lblocks[label.Name] = lb
	}
	// Fill in the label later (in case of forward goto).
	// Stmt may be set already if labels are duplicated (ill-typed).
	if stmt != nil && lb._goto.Stmt == nil {
		lb._goto.Stmt = stmt
	}
	return lb
}

// newBlock appends a new unconnected basic block to b.cfg's block
// slice and returns it.
// It does not automatically become the current block.
// comment is an optional string for more readable debugging output.
func (b *builder) newBlock(kind BlockKind, stmt ast.Stmt) *Block {
	g := b.cfg
	block := &Block{
		Index: int32(len(g.Blocks)),
		Kind:  kind,
		Stmt:  stmt,
	}
	block.Succs = block.succs2[:0]
	g.Blocks = append(g.Blocks, block)
	return block
}

func (b *builder) add(n ast.Node) {
	b.current.Nodes = append(b.current.Nodes, n)
}

// jump adds an edge from the current block to the target block,
// and sets b.current to nil.
func (b *builder) jump(target *Block) {
	b.current.Succs = append(b.current.Succs, target)
	b.current = nil
}

// ifelse emits edges from the current block to the t and f blocks,
// and sets b.current to nil.
func (b *builder) ifelse(t, f *Block) {
	b.current.Succs = append(b.current.Succs, t, f)
	b.current = nil
}

// cond emits the evaluation of boolean expression e, branching to t when it
// is true and to f when it is false, decomposing short-circuit operators.
func (b *builder) cond(e ast.Expr, t, f *Block) {
	switch e := e.(type) {
	case *ast.ParenExpr:
		b.cond(e.X, t, f)
		return
	case *ast.BinaryExpr:
		switch e.Op {
		case token.LAND:
			rhs := b.newBlock(KindCondRHS, nil)
			b.cond(e.X, rhs, f)
			b.current = rhs
			b.cond(e.Y, t, f)
			return
		case token.LOR:
			rhs := b.newBlock(KindCondRHS, nil)
			b.cond(e.X, t, rhs)
			b.current = rhs
			b.cond(e.Y, t, f)
			return
		}
	case *ast.UnaryExpr:
		if e.Op == token.NOT {
			b.cond(e.X, f, t)
			return
		}
	}
	b.add(e)
	b.current.Cond = e
	b.ifelse(t, f)
}
