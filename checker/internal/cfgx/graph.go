package cfgx

import (
	"go/ast"
	"go/token"
)

// EdgeKind labels an edge of the statement-level graph.
type EdgeKind uint8

const (
	Next    EdgeKind = iota // unconditional
	True                    // leaf condition evaluated to true
	False                   // leaf condition evaluated to false
	Match                   // tagged-switch case matched
	NoMatch                 // tagged-switch case did not match
	Br0                     // first successor of an unlabelled two-way branch (range body, select case, type case)
	Br1                     // second successor (range done, next select/type case)
	ToExit                  // return statement to the synthetic exit node
)

func (k EdgeKind) String() string {
	return [...]string{"next", "true", "false", "match", "nomatch", "br0", "br1", "exit"}[k]
}

// Node is one statement, expression or marker of a function's graph.
type Node struct {
	ID    int
	Block *Block
	AST   ast.Node // nil for synthetic nodes (empty block, exit)
	Succs []*Edge
	Preds []*Edge
	Exit  bool // the synthetic exit node
}

// Pos returns a position for the node (NoPos for synthetic nodes).
func (n *Node) Pos() token.Pos {
	if n.AST != nil {
		return n.AST.Pos()
	}
	if n.Block != nil && n.Block.Stmt != nil {
		return n.Block.Stmt.Pos()
	}
	return token.NoPos
}

// Edge is a labelled edge between two nodes.
type Edge struct {
	From, To *Node
	Kind     EdgeKind
	Cond     ast.Expr // leaf condition (True/False) or case expression (Match/NoMatch)
	Tag      ast.Expr // switch tag for Match/NoMatch
}

// Graph is the statement-level control-flow graph of one function body.
type Graph struct {
	Body  *ast.BlockStmt
	CFG   *CFG
	Nodes []*Node
	Entry *Node
	Exit  *Node
	byAST map[ast.Node]*Node
	live  map[*Node]bool
}

// NewGraph builds the statement-level graph for body.
func NewGraph(body *ast.BlockStmt, mayReturn func(*ast.CallExpr) bool) *Graph {
	c := New(body, mayReturn)
	g := &Graph{Body: body, CFG: c, byAST: map[ast.Node]*Node{}}
	newNode := func(b *Block, a ast.Node) *Node {
		n := &Node{ID: len(g.Nodes), Block: b, AST: a}
		g.Nodes = append(g.Nodes, n)
		if a != nil {
			g.byAST[a] = n
		}
		return n
	}
	first := make([]*Node, len(c.Blocks))
	last := make([]*Node, len(c.Blocks))
	for i, b := range c.Blocks {
		if !b.Live {
			continue
		}
		var prev *Node
		for _, a := range b.Nodes {
			n := newNode(b, a)
			if prev == nil {
				first[i] = n
			} else {
				link(prev, n, Next, nil, nil)
			}
			prev = n
		}
		if prev == nil {
			prev = newNode(b, nil)
			first[i] = prev
		}
		last[i] = prev
	}
	g.Exit = &Node{ID: len(g.Nodes), Exit: true}
	g.Nodes = append(g.Nodes, g.Exit)
	for i, b := range c.Blocks {
		if !b.Live {
			continue
		}
		l := last[i]
		if _, ok := l.AST.(*ast.ReturnStmt); ok {
			link(l, g.Exit, ToExit, nil, nil)
			continue
		}
		switch len(b.Succs) {
		case 1:
			link(l, first[b.Succs[0].Index], Next, nil, nil)
		case 2:
			k0, k1 := Br0, Br1
			var cond ast.Expr
			if b.Cond != nil {
				k0, k1, cond = True, False, b.Cond
			} else if b.CaseExpr != nil {
				k0, k1, cond = Match, NoMatch, b.CaseExpr
			}
			link(l, first[b.Succs[0].Index], k0, cond, b.Tag)
			link(l, first[b.Succs[1].Index], k1, cond, b.Tag)
		}
	}
	g.Entry = first[0]
	return g
}

func link(a, b *Node, k EdgeKind, cond, tag ast.Expr) {
	e := &Edge{From: a, To: b, Kind: k, Cond: cond, Tag: tag}
	a.Succs = append(a.Succs, e)
	b.Preds = append(b.Preds, e)
}

// NodeOf returns the graph node whose AST is exactly a, or nil.
func (g *Graph) NodeOf(a ast.Node) *Node { return g.byAST[a] }

// NodeContaining returns the node whose AST contains position pos and is the
// smallest such node (function literals nested in a node belong to it).
func (g *Graph) NodeContaining(pos token.Pos) *Node {
	// a node one of whose own expressions starts exactly there, when it is the only one: in rewritten bodies a
	// statement can be assembled from parts of different source ranges (`err := <expanded call>`), and its
	// Pos()..End() interval then spans unrelated positions
	var exact *Node
	nExact := 0
	for _, n := range g.Nodes {
		if n.AST == nil {
			continue
		}
		if _, ok := n.AST.(*ast.RangeStmt); ok {
			continue
		}
		found := false
		ast.Inspect(n.AST, func(m ast.Node) bool {
			if m == nil || found {
				return false
			}
			if _, isLit := m.(*ast.FuncLit); isLit {
				return false
			}
			if m.Pos() == pos {
				found = true
			}
			return !found
		})
		if found {
			exact = n
			nExact++
		}
	}
	if nExact == 1 {
		return exact
	}
	var best *Node
	for _, n := range g.Nodes {
		if n.AST == nil {
			continue
		}
		if _, ok := n.AST.(*ast.RangeStmt); ok {
			continue // marker only
		}
		if n.AST.Pos() <= pos && pos < n.AST.End() {
			if best == nil || (n.AST.End()-n.AST.Pos()) < (best.AST.End()-best.AST.Pos()) {
				best = n
			}
		}
	}
	if best != nil {
		return best
	}
	// rewritten bodies: a statement assembled from parts of different source ranges
	for _, n := range g.Nodes {
		if n.AST == nil {
			continue
		}
		if _, ok := n.AST.(*ast.RangeStmt); ok {
			continue
		}
		found := false
		ast.Inspect(n.AST, func(m ast.Node) bool {
			if m == nil || found {
				return false
			}
			if _, isLit := m.(*ast.FuncLit); isLit {
				return false
			}
			if m.Pos() == pos {
				found = true
			}
			return !found
		})
		if found {
			return n
		}
	}
	return nil
}

// Live reports whether n is reachable from the entry (edges pruned as infeasible are gone from the graph).
func (g *Graph) Live(n *Node) bool {
	if g.live == nil {
		g.live = map[*Node]bool{}
		for m := range g.Reach([]*Visit{StartAt(g.Entry, 0)}, nil) {
			g.live[m] = true
		}
	}
	return g.live[n]
}

// Returns lists the return nodes (predecessors of Exit).
func (g *Graph) Returns() []*Node {
	var out []*Node
	for _, e := range g.Exit.Preds {
		out = append(out, e.From)
	}
	return out
}

// State is the small per-path automaton state carried by Explore.
type State uint32

// Visit is one reached (node, state) pair with its predecessor, for witnesses.
type Visit struct {
	Node  *Node
	State State
	Prev  *Visit
	Via   *Edge
}

// Walker customises Explore. AtNode is applied when a path arrives at a node
// (before leaving it): it returns the new state and whether the path continues.
// OnEdge (optional) is applied when leaving over an edge.
type Walker struct {
	AtNode func(n *Node, s State) (State, bool)
	OnEdge func(e *Edge, s State) (State, bool)
}

// Explore enumerates every reachable (node,state) pair starting from the given
// edges/nodes. It returns all visits (including those where AtNode stopped).
func (g *Graph) Explore(start []*Visit, w Walker) []*Visit {
	type key struct {
		n int
		s State
	}
	seen := map[key]bool{}
	var out []*Visit
	queue := append([]*Visit(nil), start...)
	for len(queue) > 0 {
		v := queue[0]
		queue = queue[1:]
		s, cont := v.State, true
		if w.AtNode != nil {
			s, cont = w.AtNode(v.Node, v.State)
		}
		k := key{v.Node.ID, s}
		if seen[k] {
			continue
		}
		seen[k] = true
		v.State = s
		out = append(out, v)
		if !cont {
			continue
		}
		for _, e := range v.Node.Succs {
			ns, ok := s, true
			if w.OnEdge != nil {
				ns, ok = w.OnEdge(e, s)
			}
			if !ok {
				continue
			}
			queue = append(queue, &Visit{Node: e.To, State: ns, Prev: v, Via: e})
		}
	}
	return out
}

// StartAt makes a start visit at node n.
func StartAt(n *Node, s State) *Visit { return &Visit{Node: n, State: s} }

// StartAfter makes a start visit at the target of edge e.
func StartAfter(e *Edge, s State) *Visit { return &Visit{Node: e.To, State: s, Via: e} }

// Reach returns the set of nodes reachable from the start visits without
// entering any node for which avoid returns true (start nodes are entered).
func (g *Graph) Reach(start []*Visit, avoid func(*Node) bool) map[*Node]*Visit {
	res := map[*Node]*Visit{}
	vs := g.Explore(start, Walker{AtNode: func(n *Node, s State) (State, bool) {
		if avoid != nil && avoid(n) {
			return 1, false
		}
		return 0, true
	}})
	for _, v := range vs {
		if v.State == 0 {
			if _, ok := res[v.Node]; !ok {
				res[v.Node] = v
			}
		}
	}
	return res
}

// Path renders the witness chain that led to v, oldest first.
func (v *Visit) Path() []*Visit {
	var rev []*Visit
	for x := v; x != nil; x = x.Prev {
		rev = append(rev, x)
	}
	for i, j := 0, len(rev)-1; i < j; i, j = i+1, j-1 {
		rev[i], rev[j] = rev[j], rev[i]
	}
	return rev
}

// DominatedByEdge reports whether every path from entry to n uses edge e.
func (g *Graph) DominatedByEdge(n *Node, e *Edge) bool {
	vs := g.Explore([]*Visit{StartAt(g.Entry, 0)}, Walker{OnEdge: func(x *Edge, s State) (State, bool) {
		return s, x != e
	}})
	for _, v := range vs {
		if v.Node == n {
			return false
		}
	}
	return true
}

// DominatedByNode reports whether every path from entry to n passes d (d != n).
func (g *Graph) DominatedByNode(n, d *Node) bool {
	if n == d {
		return true
	}
	r := g.Reach([]*Visit{StartAt(g.Entry, 0)}, func(x *Node) bool { return x == d })
	_, ok := r[n]
	return !ok
}
