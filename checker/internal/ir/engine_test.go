package ir

import (
	"go/ast"
	"go/format"
	"go/token"
	"go/types"
	"os"
	"path/filepath"
	"reflect"
	"strings"
	"testing"

	"sialint/internal/cfgx"
)

// The engine's own regression tests: small programs whose expanded views and
// graphs must have the properties the rules rely on. They load a throw-away
// module (no dependencies), so they run offline.

const testSrc = `package x

import (
	"errors"
	"fmt"
)

func a() (int, error)     { return 1, nil }
func b() (int, error)     { return 2, errors.New("b") }
func sink(int)            {}
func wrap(err error) error { return fmt.Errorf("wrapped: %w", err) }
func call() error         { return nil }
func rollback()           {}

// --- result sharing must not alias an operand: x = keep(x)
func keep(p []int) []int {
	var out []int
	for _, e := range p {
		if e > 0 {
			out = append(out, e)
		}
	}
	return out
}

func Filter(x []int) []int {
	x = keep(x)
	return x
}

// --- result sharing when safe
func build(n int) ([]int, error) {
	var acc []int
	for i := 0; i < n; i++ {
		if i == 7 {
			return nil, errors.New("seven")
		}
		acc = append(acc, i)
	}
	return acc, nil
}

func Build(n int) int {
	list, err := build(n)
	if err != nil {
		return -1
	}
	return len(list)
}

// --- named result rewritten by a deferred literal
func guarded() (err error) {
	defer func() {
		if err != nil {
			rollback()
			err = wrap(err)
		}
	}()
	return call()
}

func Guarded() error {
	if err := guarded(); err != nil {
		return err
	}
	sink(1)
	return nil
}

// --- two alternative helpers meeting in one error test
func viaA() (int, error) {
	v, err := a()
	if err != nil {
		return 0, fmt.Errorf("a: %w", err)
	}
	return v, nil
}

func viaB() (int, error) {
	v, err := b()
	if err != nil {
		return 0, wrap(err)
	}
	return v, nil
}

func Two(c bool) error {
	var v int
	var err error
	if c {
		v, err = viaA()
	} else {
		v, err = viaB()
	}
	if err != nil {
		return err
	}
	sink(v)
	return nil
}

// --- classifier + switch
type kind uint8

const (
	kEphemeral kind = iota
	kGone
	kLive
)

func classify(created, gone bool) kind {
	switch {
	case created && gone:
		return kEphemeral
	case gone:
		return kGone
	default:
		return kLive
	}
}

func del() {}
func put() {}

func Apply(created, gone bool) {
	switch classify(created, gone) {
	case kGone:
		del()
	case kLive:
		put()
	}
}

// --- a table of lazy checks
func Table(x, y int) error {
	var err error
	for _, check := range []struct {
		failed func() bool
		reason string
	}{
		{func() bool { return x < 0 }, "negative"},
		{func() bool { return y/x > 3 }, "too steep"},
	} {
		if check.failed() {
			err = errors.New(check.reason)
			break
		}
	}
	if err != nil {
		return err
	}
	sink(x)
	return nil
}

// --- range over a function iterator
func below(n int) func(yield func(int) bool) {
	return func(yield func(int) bool) {
		for i := n; i > 0; i-- {
			if _, err := a(); err != nil {
				return
			}
			if !yield(i - 1) {
				return
			}
		}
	}
}

func Iterate(n int) {
	for v := range below(n) {
		if v == 3 {
			continue
		}
		sink(v)
	}
}

// --- a flag tested twice
func Twice(p *int) error {
	fresh := p == nil
	var err error
	if fresh {
		p = new(int)
		err = call()
	}
	if err != nil {
		return err
	}
	sink(*p)
	if fresh {
		put()
	}
	return nil
}

// --- flag of either polarity with a deferred clean-up
func release() {}
func broadcast() error { return nil }

func Fund(fail bool) error {
	releaseInputs := true
	defer func() {
		if releaseInputs {
			release()
		}
	}()
	if fail {
		return errors.New("failed")
	}
	if err := broadcast(); err != nil {
		return err
	}
	releaseInputs = false
	return nil
}

// --- a strategy interface with an unexported method: closed world, two implementations
type ledger interface {
	credit(n int) error
}
type accounts struct{}
type pools struct{}

func (accounts) credit(n int) error {
	if _, err := a(); err != nil {
		return wrap(err)
	}
	return nil
}
func (pools) credit(n int) error {
	if _, err := b(); err != nil {
		return wrap(err)
	}
	return nil
}

func Replenish(l ledger, n int) error {
	if err := l.credit(n); err != nil {
		return err
	}
	put()
	return nil
}

// --- a helper compared with nil in a condition
var errClosed = errors.New("closed")

func state(c bool) error {
	if c {
		return errClosed
	}
	return nil
}

func Stop(c bool) {
	if state(c) == nil {
		del()
	}
}

// --- a loop over the list a helper builds
func ids(x []int) (out []int) {
	for _, e := range x {
		out = append(out, e+1)
	}
	return
}

func Mark(x []int, seen map[int]bool) {
	for _, id := range ids(x) {
		seen[id] = true
	}
}

// --- a table of steps in a helper that returns from inside the loop, writing through pointers into a local
type pair struct{ first, second int }

func fill(p *pair, x, y int) error {
	for _, step := range [...]struct {
		v    int
		dest *int
	}{{x, &p.first}, {y, &p.second}} {
		if step.v < 0 {
			return errors.New("negative")
		}
		*step.dest = step.v
	}
	return nil
}

// --- an accessor used where only an expression can stand
type bucket struct {
	name string
	db   *store
}
type record struct{ puts map[string]int }
type store struct{ data map[string]record }

func (b bucket) rec() record { return b.db.data[b.name] }

func Count(b bucket) int {
	n := 0
	for range b.rec().puts {
		n++
	}
	return n
}

// --- a variadic runner of step records, a tri-state lookup dispatched by switch and by comparison
type step struct {
	what string
	run  func() error
}

func runSteps(steps ...step) error {
	for _, st := range steps {
		if err := st.run(); err != nil {
			return fmt.Errorf("%s: %w", st.what, err)
		}
	}
	return nil
}

func Steps() error {
	first := func() error { _, err := a(); return err }
	return runSteps(step{"first", first}, step{"second", call})
}

type op uint8

const (
	opNone op = iota
	opPut
	opDel
)

func pending(m map[string]int, d map[string]bool, k string) (int, op) {
	if v, ok := m[k]; ok {
		return v, opPut
	} else if d[k] {
		return 0, opDel
	}
	return 0, opNone
}

func Get(m map[string]int, d map[string]bool, k string) int {
	switch v, o := pending(m, d, k); o {
	case opPut:
		return v
	case opDel:
		del()
		return 0
	default:
		put()
		return -1
	}
}

func Deleted(m map[string]int, d map[string]bool, k string) bool {
	if _, o := pending(m, d, k); o == opDel {
		del()
		return true
	}
	return false
}

func Fill(x, y int) int {
	var p pair
	if err := fill(&p, x, y); err != nil {
		return -1
	}
	return p.first + p.second
}

// --- a helper that yields a zero value next to its error, phases as bound method values, a verdict with a reason
type rec struct{ n int }

func settle(k int) (rec, error) {
	r := rec{n: k}
	if _, err := a(); err != nil {
		return rec{}, err
	}
	r.n++
	return r, nil
}

func Settle(k int) int {
	r, err := settle(k)
	if err != nil {
		return -1
	}
	sink(r.n)
	return r.n
}

type phases struct{ done int }

func (p *phases) one() error { _, err := a(); return err }
func (p *phases) two() error { return call() }

func Phases() error {
	var p phases
	for _, ph := range []func() error{p.one, p.two} {
		if err := ph(); err != nil {
			return err
		}
	}
	return nil
}

type verdict struct {
	reason string
	ban    error
}

func judge(k int) verdict {
	if k < 0 {
		return verdict{ban: errors.New("negative")}
	}
	if k == 0 {
		return verdict{reason: fmt.Sprintf("zero (%d)", k)}
	}
	return verdict{}
}

func Enforce(k int) {
	v := judge(k)
	switch {
	case v.ban != nil:
		rollback()
	case v.reason != "":
		release()
	}
}

var errSentinel = errors.New("sentinel")

func firstFailure(xs []int) error {
	var err error
	for i := 0; i < len(xs) && err == nil; i++ {
		if xs[i] < 0 {
			err = errSentinel
		} else {
			sink(xs[i])
		}
	}
	if err != nil {
		return err
	}
	put()
	return nil
}
`

// leaf: the functions standing for external API (kept as calls in every view).
func leaf(fn *types.Func) bool {
	switch fn.Name() {
	case "a", "b", "sink", "wrap", "call", "rollback", "del", "put", "release", "broadcast":
		return true
	}
	return false
}

func loadTest(t *testing.T) *Prog {
	t.Helper()
	dir := t.TempDir()
	if err := os.WriteFile(filepath.Join(dir, "go.mod"), []byte("module example.test/x\n\ngo 1.23\n"), 0o644); err != nil {
		t.Fatal(err)
	}
	if err := os.WriteFile(filepath.Join(dir, "x.go"), []byte(testSrc), 0o644); err != nil {
		t.Fatal(err)
	}
	p, err := Load(dir, nil)
	if err != nil {
		t.Fatal(err)
	}
	return p
}

func fn(t *testing.T, p *Prog, name string) *Func {
	t.Helper()
	for _, f := range p.Funcs {
		if f.Obj != nil && f.Obj.Name() == name {
			return f
		}
	}
	t.Fatalf("function %s not found", name)
	return nil
}

var tposType = reflect.TypeOf(token.NoPos)

func render(t *testing.T, body ast.Node) string {
	t.Helper()
	ast.Inspect(body, func(m ast.Node) bool {
		if m == nil {
			return false
		}
		v := reflect.ValueOf(m)
		if v.Kind() != reflect.Ptr || v.IsNil() {
			return true
		}
		s := v.Elem()
		if s.Kind() != reflect.Struct {
			return true
		}
		for i := 0; i < s.NumField(); i++ {
			if f := s.Field(i); f.Type() == tposType && f.CanSet() {
				f.SetInt(0)
			}
		}
		return true
	})
	var sb strings.Builder
	if err := format.Node(&sb, token.NewFileSet(), body); err != nil {
		t.Logf("format: %v", err)
	}
	return sb.String()
}

// callNode returns the graph node of f calling the function called name.
func callNode(t *testing.T, f *Func, name string) *cfgx.Node {
	t.Helper()
	g := f.Graph()
	for _, c := range f.Calls(false) {
		if c.Fn != nil && c.Fn.Name() == name {
			if n := g.NodeContaining(c.Pos()); n != nil {
				return n
			}
		}
	}
	t.Fatalf("no call of %s in %s", name, f.Name())
	return nil
}

func successEdges(f *Func, name string) []*cfgx.Edge {
	var out []*cfgx.Edge
	for _, c := range f.Calls(false) {
		if c.Fn != nil && c.Fn.Name() == name {
			out = append(out, f.CheckOf(c.Expr).Succ...)
		}
	}
	return out
}

func TestSharingDoesNotAliasOperand(t *testing.T) {
	p := loadTest(t)
	v := p.Expand(fn(t, p, "Filter"), ExpandOpt{Key: "t", Stop: leaf})
	g := v.Graph()
	// the loop still ranges over the caller's list, and appends go to another variable
	var ranged, appended string
	for _, n := range g.Nodes {
		if rs, ok := n.AST.(*ast.RangeStmt); ok {
			ranged = ExprString(rs.X)
		}
		if as, ok := n.AST.(*ast.AssignStmt); ok && len(as.Lhs) == 1 {
			if call, ok := as.Rhs[0].(*ast.CallExpr); ok {
				if id, ok := call.Fun.(*ast.Ident); ok && id.Name == "append" {
					if v.ObjOf(as.Lhs[0]) == v.ObjOf(rangedExpr(g)) {
						t.Errorf("the result list was merged with the list being filtered")
					}
					appended = ExprString(as.Lhs[0])
				}
			}
		}
	}
	if ranged == "" || appended == "" {
		t.Fatalf("view lost the loop or the append (ranged=%q appended=%q)", ranged, appended)
	}
}

func rangedExpr(g *cfgx.Graph) ast.Expr {
	for _, n := range g.Nodes {
		if rs, ok := n.AST.(*ast.RangeStmt); ok {
			return rs.X
		}
	}
	return nil
}

func TestSharingMergesAccumulator(t *testing.T) {
	p := loadTest(t)
	v := p.Expand(fn(t, p, "Build"), ExpandOpt{Key: "t", Stop: leaf})
	g := v.Graph()
	var acc, used interface{}
	for _, n := range g.Nodes {
		if as, ok := n.AST.(*ast.AssignStmt); ok && len(as.Lhs) == 1 && len(as.Rhs) == 1 {
			if call, ok := as.Rhs[0].(*ast.CallExpr); ok {
				if id, ok := call.Fun.(*ast.Ident); ok && id.Name == "append" {
					acc = v.ObjOf(as.Lhs[0])
				}
			}
		}
		if rs, ok := n.AST.(*ast.ReturnStmt); ok && len(rs.Results) == 1 {
			if call, ok := rs.Results[0].(*ast.CallExpr); ok && len(call.Args) == 1 {
				used = v.ObjOf(call.Args[0])
			}
		}
	}
	if acc == nil || used == nil || acc != used {
		t.Errorf("the helper's accumulator and the caller's list are different variables in the view:\n%s", render(t, v.Body))
	}
}

func TestNamedResultSeenByDeferredLiteral(t *testing.T) {
	p := loadTest(t)
	v := p.Expand(fn(t, p, "Guarded"), ExpandOpt{Key: "t", Stop: leaf})
	g := v.Graph()
	// the success side of call() reaches sink without passing rollback; the failure side passes rollback and
	// cannot reach sink
	sink, rb := callNode(t, v, "sink"), callNode(t, v, "rollback")
	chk := Check{}
	for _, c := range v.Calls(false) {
		if c.Fn != nil && c.Fn.Name() == "call" {
			chk = v.CheckOf(c.Expr)
		}
	}
	if len(chk.Succ) == 0 || len(chk.Fail) == 0 {
		t.Fatalf("outcome of call() not tested in the view:\n%s", render(t, v.Body))
	}
	if _, ok := v.ReachableFromEdges(chk.Fail, nil)[sink]; ok {
		t.Errorf("sink reachable after call() failed:\n%s", render(t, v.Body))
	}
	if _, ok := v.ReachableFromEdges(chk.Fail, nil)[rb]; !ok {
		t.Errorf("rollback not reachable after call() failed")
	}
	if _, ok := v.ReachableFromEdges(chk.Succ, nil)[rb]; ok {
		t.Errorf("rollback reachable after call() succeeded")
	}
	_ = g
}

func TestAlternativeHelpersKeepTheirOutcome(t *testing.T) {
	p := loadTest(t)
	v := p.Expand(fn(t, p, "Two"), ExpandOpt{Key: "t", Stop: leaf})
	sink := callNode(t, v, "sink")
	edges := append(successEdges(v, "a"), successEdges(v, "b")...)
	if len(edges) == 0 {
		t.Fatalf("helpers not expanded:\n%s", render(t, v.Body))
	}
	if !v.OnlyVia(sink, edges) {
		t.Errorf("sink is reachable on a path where neither a() nor b() succeeded:\n%s", render(t, v.Body))
	}
	for _, name := range []string{"a", "b"} {
		for _, c := range v.Calls(false) {
			if c.Fn != nil && c.Fn.Name() == name {
				if _, ok := v.ReachableFromEdges(v.CheckOf(c.Expr).Fail, nil)[sink]; ok {
					t.Errorf("sink reachable after %s() failed", name)
				}
			}
		}
	}
}

func TestClassifierSwitchIsThreaded(t *testing.T) {
	p := loadTest(t)
	v := p.Expand(fn(t, p, "Apply"), ExpandOpt{Key: "t", Stop: leaf})
	g := v.Graph()
	del, put := callNode(t, v, "del"), callNode(t, v, "put")
	// find the leaf conditions `created` and `gone`
	var created, gone []*cfgx.Node
	for _, n := range g.Nodes {
		if n.Block == nil || n.Block.Cond != n.AST || len(n.Succs) != 2 {
			continue
		}
		switch ExprString(n.AST.(ast.Expr)) {
		case "created":
			created = append(created, n)
		case "gone":
			gone = append(gone, n)
		}
	}
	if len(created) == 0 || len(gone) == 0 {
		t.Fatalf("classifier not expanded:\n%s", render(t, v.Body))
	}
	// del only where gone holds; put only where gone does not hold
	var goneTrue, goneFalse []*cfgx.Edge
	for _, n := range gone {
		goneTrue, goneFalse = append(goneTrue, n.Succs[0]), append(goneFalse, n.Succs[1])
	}
	if !v.OnlyVia(del, goneTrue) {
		t.Errorf("del() reachable without `gone`:\n%s", render(t, v.Body))
	}
	if !v.OnlyVia(put, goneFalse) {
		t.Errorf("put() reachable without `!gone`:\n%s", render(t, v.Body))
	}
}

func TestFlagWithDeferredCleanupIsPathExact(t *testing.T) {
	p := loadTest(t)
	v := p.Expand(fn(t, p, "Fund"), ExpandOpt{Key: "t+d", Defers: true, Stop: leaf})
	g := v.Graph()
	// every exit either passes release() or the success edge of broadcast()
	cut := map[*cfgx.Edge]bool{}
	for _, e := range successEdges(v, "broadcast") {
		cut[e] = true
	}
	isRelease := func(n *cfgx.Node) bool {
		for _, c := range v.NodeCalls(n) {
			if c.Fn != nil && c.Fn.Name() == "release" {
				return true
			}
		}
		return false
	}
	for _, vis := range g.Explore([]*cfgx.Visit{cfgx.StartAt(g.Entry, 0)}, cfgx.Walker{
		AtNode: func(n *cfgx.Node, s cfgx.State) (cfgx.State, bool) { return s, !isRelease(n) },
		OnEdge: func(e *cfgx.Edge, s cfgx.State) (cfgx.State, bool) { return s, !cut[e] },
	}) {
		if vis.Node == g.Exit {
			t.Errorf("an exit is reachable without release() and without a successful broadcast():\n%s", render(t, v.Body))
			break
		}
	}
	// and after a successful broadcast the release is not called
	for _, n := range g.Nodes {
		if isRelease(n) {
			if _, ok := v.ReachableFromEdges(successEdges(v, "broadcast"), nil)[n]; ok {
				t.Errorf("release() reachable after the broadcast succeeded")
			}
		}
	}
}

func TestLiteralTableIsUnrolled(t *testing.T) {
	p := loadTest(t)
	v := p.Expand(fn(t, p, "Table"), ExpandOpt{Key: "t", Stop: leaf})
	g := v.Graph()
	sink := callNode(t, v, "sink")
	// the conditions of both rows are leaf conditions of the view, and sink is reached only where both are false
	var neg, steep []*cfgx.Edge
	for _, n := range g.Nodes {
		if n.Block == nil || n.Block.Cond != n.AST || len(n.Succs) != 2 {
			continue
		}
		if be, ok := n.AST.(*ast.BinaryExpr); ok {
			switch be.Op {
			case token.LSS:
				neg = append(neg, n.Succs[1])
			case token.GTR:
				steep = append(steep, n.Succs[1])
			}
		}
	}
	if len(neg) == 0 || len(steep) == 0 {
		t.Fatalf("table rows not expanded:\n%s", render(t, v.Body))
	}
	if !v.OnlyVia(sink, neg) || !v.OnlyVia(sink, steep) {
		t.Errorf("sink reachable although a row's check failed:\n%s", render(t, v.Body))
	}
}

func TestRangeOverFuncIsTheIteratorsLoop(t *testing.T) {
	p := loadTest(t)
	v := p.Expand(fn(t, p, "Iterate"), ExpandOpt{Key: "t", Stop: leaf})
	sink := callNode(t, v, "sink")
	// the body runs only after a() succeeded in the iterator, and not for v == 3
	if !v.OnlyVia(sink, successEdges(v, "a")) {
		t.Errorf("loop body reachable without the iterator's own check:\n%s", render(t, v.Body))
	}
	for _, l := range v.Lits {
		t.Errorf("a literal is left in the view (%s):\n%s", l.Name(), render(t, v.Body))
		break
	}
}

func TestFlagTestedTwiceIsCorrelated(t *testing.T) {
	p := loadTest(t)
	v := p.Expand(fn(t, p, "Twice"), ExpandOpt{Key: "t", Stop: leaf})
	g := v.Graph()
	put := callNode(t, v, "put")
	// put() only after call() succeeded (both are under the same flag), and *p is never nil at sink
	if !v.OnlyVia(put, successEdges(v, "call")) {
		t.Errorf("put() reachable on a path where the flag was false at its first test:\n%s", render(t, v.Body))
	}
	sink := callNode(t, v, "sink")
	var pobj types.Object
	for _, fld := range v.Type.Params.List {
		for _, nm := range fld.Names {
			pobj = v.Info().Defs[nm]
		}
	}
	if mayBeNil, _, tracked := v.NilAt(sink, pobj); tracked && mayBeNil {
		t.Errorf("p may be nil at the dereference according to the per-path analysis")
	}
	_ = g
}

func TestClosedInterfaceIsDevirtualised(t *testing.T) {
	p := loadTest(t)
	v := p.Expand(fn(t, p, "Replenish"), ExpandOpt{Key: "t", Stop: leaf})
	// both implementations are in the view, and put() is reached only after one of a() / b() succeeded
	ea, eb := successEdges(v, "a"), successEdges(v, "b")
	if len(ea) == 0 || len(eb) == 0 {
		t.Fatalf("the implementations were not expanded:\n%s", render(t, v.Body))
	}
	if !v.OnlyVia(callNode(t, v, "put"), append(ea, eb...)) {
		t.Errorf("put() reachable without a successful credit of either implementation:\n%s", render(t, v.Body))
	}
}

func TestHelperComparedWithNilIsExpanded(t *testing.T) {
	p := loadTest(t)
	v := p.Expand(fn(t, p, "Stop"), ExpandOpt{Key: "t", Stop: leaf})
	g := v.Graph()
	del := callNode(t, v, "del")
	// del() only where the helper's own condition was false (it returned nil)
	var falseEdges []*cfgx.Edge
	for _, n := range g.Nodes {
		if n.Block != nil && n.Block.Cond == n.AST && len(n.Succs) == 2 {
			if id, ok := n.AST.(*ast.Ident); ok && id.Name == "c" {
				falseEdges = append(falseEdges, n.Succs[1])
			}
		}
	}
	if len(falseEdges) == 0 || !v.OnlyVia(del, falseEdges) {
		t.Errorf("del() not tied to the helper's nil return:\n%s", render(t, v.Body))
	}
}

func TestRangeOverHelperResult(t *testing.T) {
	p := loadTest(t)
	v := p.Expand(fn(t, p, "Mark"), ExpandOpt{Key: "t", Stop: leaf})
	if len(v.Inlined) == 0 {
		t.Errorf("the list-building helper in the range clause was not expanded:\n%s", render(t, v.Body))
	}
}

func TestTableInHelperWritesThroughToLocal(t *testing.T) {
	p := loadTest(t)
	v := p.Expand(fn(t, p, "Fill"), ExpandOpt{Key: "t", Stop: leaf})
	out := render(t, v.Body)
	// the table is unrolled although the helper returns from inside the loop, and the stores through the row's
	// pointer are stores into the local's fields
	if strings.Contains(out, "range") || strings.Contains(out, "dest") {
		t.Errorf("table not unrolled / pointer rows not resolved:\n%s", out)
	}
}

func TestAccessorIsSubstitutedInExpressions(t *testing.T) {
	p := loadTest(t)
	v := p.Expand(fn(t, p, "Count"), ExpandOpt{Key: "t", Stop: leaf})
	out := render(t, v.Body)
	if strings.Contains(out, "rec()") || !strings.Contains(out, "b.db.data[b.name]") {
		t.Errorf("accessor call left in the range operand:\n%s", out)
	}
}

func TestVariadicStepRunnerIsUnrolled(t *testing.T) {
	p := loadTest(t)
	v := p.Expand(fn(t, p, "Steps"), ExpandOpt{Key: "t", Stop: leaf})
	// call() (the second step) runs only after a() (inside the first step's closure) succeeded
	if !v.OnlyVia(callNode(t, v, "call"), successEdges(v, "a")) {
		t.Errorf("second step reachable without the first having succeeded:\n%s", render(t, v.Body))
	}
}

func TestTriStateResultEntersItsCase(t *testing.T) {
	p := loadTest(t)
	v := p.Expand(fn(t, p, "Get"), ExpandOpt{Key: "t", Stop: leaf})
	g := v.Graph()
	// del() only where the deleted-set lookup hit, put() only where it missed
	var hit, miss []*cfgx.Edge
	for _, n := range g.Nodes {
		if n.Block != nil && n.Block.Cond == n.AST && len(n.Succs) == 2 {
			if ix, ok := n.AST.(*ast.IndexExpr); ok {
				if id, ok := ix.X.(*ast.Ident); ok && id.Name == "d" {
					hit, miss = append(hit, n.Succs[0]), append(miss, n.Succs[1])
				}
			}
		}
	}
	if len(hit) == 0 || !v.OnlyVia(callNode(t, v, "del"), hit) || !v.OnlyVia(callNode(t, v, "put"), miss) {
		t.Errorf("the helper's constant results do not enter their cases:\n%s", render(t, v.Body))
	}
	w := p.Expand(fn(t, p, "Deleted"), ExpandOpt{Key: "t", Stop: leaf})
	hit = nil
	for _, n := range w.Graph().Nodes {
		if n.Block != nil && n.Block.Cond == n.AST && len(n.Succs) == 2 {
			if ix, ok := n.AST.(*ast.IndexExpr); ok {
				if id, ok := ix.X.(*ast.Ident); ok && id.Name == "d" {
					hit = append(hit, n.Succs[0])
				}
			}
		}
	}
	if len(hit) == 0 || !w.OnlyVia(callNode(t, w, "del"), hit) {
		t.Errorf("comparison with a constant not threaded:\n%s", render(t, w.Body))
	}
}

func TestSharingOverZeroValuedFailureReturn(t *testing.T) {
	p := loadTest(t)
	v := p.Expand(fn(t, p, "Settle"), ExpandOpt{Key: "t", Stop: leaf})
	guarded := v.OnlyVia(callNode(t, v, "sink"), successEdges(v, "a"))
	out := render(t, v.Body) // (clears positions: last)
	// the helper's record is the caller's: the increment is a write of the caller's variable, no copy at the return
	if !strings.Contains(out, "r_n++") && !strings.Contains(out, "r.n++") {
		t.Errorf("helper's result variable not shared with the caller:\n%s", out)
	}
	if !guarded {
		t.Errorf("use of the result reachable on the helper's failure path:\n%s", out)
	}
}

func TestTableOfMethodValuesIsUnrolled(t *testing.T) {
	p := loadTest(t)
	v := p.Expand(fn(t, p, "Phases"), ExpandOpt{Key: "t", Stop: leaf})
	if !v.OnlyVia(callNode(t, v, "call"), successEdges(v, "a")) {
		t.Errorf("second phase reachable without the first having succeeded:\n%s", render(t, v.Body))
	}
}

func TestStringReasonIsFollowedLikeANilable(t *testing.T) {
	p := loadTest(t)
	v := p.Expand(fn(t, p, "Enforce"), ExpandOpt{Key: "t", Stop: leaf})
	g := v.Graph()
	// release() only for k == 0, rollback() only for k < 0
	var zero, neg []*cfgx.Edge
	for _, n := range g.Nodes {
		if n.Block != nil && n.Block.Cond == n.AST && len(n.Succs) == 2 {
			if be, ok := n.AST.(*ast.BinaryExpr); ok {
				if id, isID := be.X.(*ast.Ident); isID && id.Name == "k" {
					switch be.Op {
					case token.EQL:
						zero = append(zero, n.Succs[0])
					case token.LSS:
						neg = append(neg, n.Succs[0])
					}
				}
			}
		}
	}
	if len(zero) == 0 || len(neg) == 0 || !v.OnlyVia(callNode(t, v, "release"), zero) || !v.OnlyVia(callNode(t, v, "rollback"), neg) {
		t.Errorf("the verdict's fields are not correlated with the arm that set them:\n%s", render(t, v.Body))
	}
}

func TestSentinelErrorEndsTheLoop(t *testing.T) {
	p := loadTest(t)
	v := p.Expand(fn(t, p, "firstFailure"), ExpandOpt{Key: "t", Stop: leaf})
	g := v.Graph()
	// put() is not reachable once the sentinel was assigned
	var set []*cfgx.Edge
	for _, n := range g.Nodes {
		if as, ok := n.AST.(*ast.AssignStmt); ok && len(as.Rhs) == 1 {
			if id, isID := as.Rhs[0].(*ast.Ident); isID && id.Name == "errSentinel" {
				set = append(set, n.Preds...) // (the walk starts at the assignment, so that it is seen)
			}
		}
	}
	if len(set) == 0 {
		t.Fatalf("assignment of the sentinel not found:\n%s", render(t, v.Body))
	}
	if _, reached := v.ReachableFromEdges(set, nil)[callNode(t, v, "put")]; reached {
		t.Errorf("success continuation reachable with the sentinel error set:\n%s", render(t, v.Body))
	}
}
