package ir

import (
	"go/ast"
	"go/token"
	"go/types"

	"sialint/internal/cfgx"
)

// Check describes how the outcome of a call is tested by the code that
// follows it.
type Check struct {
	Call *ast.CallExpr
	Node *cfgx.Node
	Var  types.Object // the error/bool variable holding the outcome (nil when tested in place)
	Succ []*cfgx.Edge // edges on which the call is known to have succeeded (err == nil / ok / true)
	Fail []*cfgx.Edge // edges on which it is known to have failed
	// Loose lists nodes at which the outcome escapes untested: overwritten,
	// discarded, or the function exit. Returns that mention the variable are
	// listed in Propagated instead.
	Loose      []*cfgx.Node
	Propagated []*cfgx.Node
}

// Checked reports whether the outcome is tested on every path.
func (c Check) Checked() bool { return len(c.Loose) == 0 && len(c.Succ) > 0 }

// errorsIs matches errors.Is(obj, ...)/errors.As(obj, ...).
func (f *Func) errorsIsOn(cond ast.Expr, obj types.Object) bool {
	call, ok := ast.Unparen(cond).(*ast.CallExpr)
	if !ok || len(call.Args) < 1 {
		return false
	}
	fn := f.Callee(call)
	if fn == nil || fn.Pkg() == nil || fn.Pkg().Path() != "errors" || (fn.Name() != "Is" && fn.Name() != "As") {
		return false
	}
	return f.ObjOf(call.Args[0]) == obj
}

// CheckOf analyses how the outcome of call is tested.
func (f *Func) CheckOf(call *ast.CallExpr) Check {
	g := f.Graph()
	n := g.NodeContaining(call.Pos())
	c := Check{Call: call, Node: n}
	if n == nil {
		return c
	}
	// tested in place: the node is a leaf condition
	if n.Block != nil && n.Block.Cond == n.AST && len(n.Succs) == 2 {
		cond := n.AST.(ast.Expr)
		if ast.Unparen(cond) == ast.Expr(call) {
			c.Succ, c.Fail = []*cfgx.Edge{n.Succs[0]}, []*cfgx.Edge{n.Succs[1]}
			return c
		}
		if x, nonNilOnTrue, ok := f.NilTest(cond); ok && ast.Unparen(x) == ast.Expr(call) {
			if nonNilOnTrue {
				c.Fail, c.Succ = []*cfgx.Edge{n.Succs[0]}, []*cfgx.Edge{n.Succs[1]}
			} else {
				c.Succ, c.Fail = []*cfgx.Edge{n.Succs[0]}, []*cfgx.Edge{n.Succs[1]}
			}
			return c
		}
		c.Loose = append(c.Loose, n)
		return c
	}
	// assigned: find the outcome variable
	var lhs []ast.Expr
	var rhs []ast.Expr
	switch s := n.AST.(type) {
	case *ast.AssignStmt:
		lhs, rhs = s.Lhs, s.Rhs
	case *ast.ValueSpec:
		for _, id := range s.Names {
			lhs = append(lhs, id)
		}
		rhs = s.Values
	case *ast.ReturnStmt:
		c.Propagated = append(c.Propagated, n)
		return c
	default:
		c.Loose = append(c.Loose, n)
		return c
	}
	var outcome ast.Expr
	if len(rhs) == 1 && ast.Unparen(rhs[0]) == ast.Expr(call) {
		outcome = lhs[len(lhs)-1]
	} else {
		for i, r := range rhs {
			if ast.Unparen(r) == ast.Expr(call) && i < len(lhs) {
				outcome = lhs[i]
			}
		}
	}
	if outcome == nil {
		c.Loose = append(c.Loose, n)
		return c
	}
	obj := f.ObjOf(outcome)
	if obj == nil || obj.Name() == "_" {
		c.Loose = append(c.Loose, n)
		return c
	}
	t := obj.Type()
	isErr := IsErrorType(t)
	isBool := false
	if b, ok := t.Underlying().(*types.Basic); ok && b.Kind() == types.Bool {
		isBool = true
	}
	if !isErr && !isBool {
		c.Loose = append(c.Loose, n)
		return c
	}
	c.Var = obj
	var start []*cfgx.Visit
	for _, e := range n.Succs {
		start = append(start, cfgx.StartAfter(e, 0))
	}
	g.Explore(start, cfgx.Walker{
		AtNode: func(m *cfgx.Node, s cfgx.State) (cfgx.State, bool) {
			if m.Exit {
				c.Loose = append(c.Loose, m)
				return s, false
			}
			if m.Block != nil && m.Block.Cond == m.AST && len(m.Succs) == 2 {
				cond := m.AST.(ast.Expr)
				if x, nonNilOnTrue, ok := f.NilTest(cond); ok && f.ObjOf(x) == obj {
					if nonNilOnTrue {
						c.Fail, c.Succ = append(c.Fail, m.Succs[0]), append(c.Succ, m.Succs[1])
					} else {
						c.Succ, c.Fail = append(c.Succ, m.Succs[0]), append(c.Fail, m.Succs[1])
					}
					return s, false
				}
				if isBool && f.ObjOf(cond) == obj {
					c.Succ, c.Fail = append(c.Succ, m.Succs[0]), append(c.Fail, m.Succs[1])
					return s, false
				}
				if isErr && f.errorsIsOn(cond, obj) {
					c.Fail = append(c.Fail, m.Succs[0])
					return 1, true // continue only over the false edge (see OnEdge)
				}
			}
			if m != n {
				for _, w := range f.WritesIn(m.AST, false) {
					if f.ObjOf(w.LHS) == obj {
						c.Loose = append(c.Loose, m)
						return s, false
					}
				}
			}
			if _, ok := m.AST.(*ast.ReturnStmt); ok && f.MentionsObj(m.AST, false, obj) {
				c.Propagated = append(c.Propagated, m)
				return s, false
			}
			return 0, true
		},
		OnEdge: func(e *cfgx.Edge, s cfgx.State) (cfgx.State, bool) {
			if s == 1 { // leaving an errors.Is test: only the false edge keeps the outcome open
				return 0, e.Kind == cfgx.False
			}
			return 0, true
		},
	})
	c.Succ, c.Fail = dedupEdges(c.Succ), dedupEdges(c.Fail)
	return c
}

func dedupEdges(es []*cfgx.Edge) []*cfgx.Edge {
	seen := map[*cfgx.Edge]bool{}
	var out []*cfgx.Edge
	for _, e := range es {
		if !seen[e] {
			seen[e] = true
			out = append(out, e)
		}
	}
	return out
}

// OnlyVia reports whether every path from the entry to target crosses one of
// the given edges. With no edges it is false.
func (f *Func) OnlyVia(target *cfgx.Node, edges []*cfgx.Edge) bool {
	if len(edges) == 0 || target == nil {
		return false
	}
	cut := map[*cfgx.Edge]bool{}
	for _, e := range edges {
		cut[e] = true
	}
	g := f.Graph()
	// paths that are infeasible for every valuation of the function's flags (a flag tested twice, an error
	// variable set in one arm and tested later) do not count
	if res, ok := f.exploreFlags(nil, cut, nil); ok {
		_, reached := res[target]
		return !reached
	}
	vs := g.Explore([]*cfgx.Visit{cfgx.StartAt(g.Entry, 0)}, cfgx.Walker{OnEdge: func(e *cfgx.Edge, s cfgx.State) (cfgx.State, bool) {
		return s, !cut[e]
	}})
	for _, v := range vs {
		if v.Node == target {
			return false
		}
	}
	return true
}

// BypassWitness returns a path from the entry to target that crosses none of
// the given edges (nil when OnlyVia holds).
func (f *Func) BypassWitness(target *cfgx.Node, edges []*cfgx.Edge) *cfgx.Visit {
	if target == nil {
		return nil
	}
	cut := map[*cfgx.Edge]bool{}
	for _, e := range edges {
		cut[e] = true
	}
	g := f.Graph()
	if res, ok := f.exploreFlags(nil, cut, nil); ok {
		return res[target]
	}
	for _, v := range g.Explore([]*cfgx.Visit{cfgx.StartAt(g.Entry, 0)}, cfgx.Walker{OnEdge: func(e *cfgx.Edge, s cfgx.State) (cfgx.State, bool) {
		return s, !cut[e]
	}}) {
		if v.Node == target {
			return v
		}
	}
	return nil
}

// ReachableFromEdges returns the nodes reachable from the targets of edges,
// not entering nodes for which avoid is true.
func (f *Func) ReachableFromEdges(edges []*cfgx.Edge, avoid func(*cfgx.Node) bool) map[*cfgx.Node]*cfgx.Visit {
	if len(edges) > 0 {
		f.Graph()
		if res, ok := f.exploreFlags(edges, nil, avoid); ok {
			return res
		}
	}
	var start []*cfgx.Visit
	for _, e := range edges {
		start = append(start, cfgx.StartAfter(e, 0))
	}
	return f.Graph().Reach(start, avoid)
}

// RetKind classifies a return statement by its error result.
type RetKind int

const (
	RetNoErr   RetKind = iota // the function has no error result
	RetSuccess                // error result is definitely nil
	RetError                  // error result is definitely non-nil
	RetMaybe                  // unknown / propagated
)

func (k RetKind) String() string { return [...]string{"noerr", "success", "error", "maybe"}[k] }

// errResult returns the index of the trailing error result and its named object (if any).
func (f *Func) errResult() (idx int, named types.Object) {
	if f.Type.Results == nil {
		return -1, nil
	}
	i := 0
	idx = -1
	for _, fld := range f.Type.Results.List {
		n := len(fld.Names)
		if n == 0 {
			n = 1
		}
		if IsErrorType(f.Info().TypeOf(fld.Type)) {
			idx = i + n - 1
			if len(fld.Names) > 0 {
				named = f.Info().Defs[fld.Names[len(fld.Names)-1]]
			} else {
				named = nil
			}
		} else {
			// only a *trailing* error counts
			idx, named = -1, nil
		}
		i += n
	}
	if idx != i-1 {
		return -1, nil
	}
	return idx, named
}

// ClassifyReturn classifies return node n of f.
func (f *Func) ClassifyReturn(n *cfgx.Node) RetKind {
	idx, named := f.errResult()
	if idx < 0 {
		return RetNoErr
	}
	rs, ok := n.AST.(*ast.ReturnStmt)
	if !ok {
		return RetNoErr
	}
	var e ast.Expr
	switch {
	case len(rs.Results) == 0:
		if named == nil {
			return RetNoErr
		}
		return f.varState(n, named)
	case len(rs.Results) == 1 && idx > 0:
		return RetMaybe // return f() forwarding a tuple
	case idx < len(rs.Results):
		e = rs.Results[idx]
	default:
		return RetMaybe
	}
	return f.errExprKind(n, e, 0)
}

func (f *Func) errExprKind(n *cfgx.Node, e ast.Expr, depth int) RetKind {
	e = ast.Unparen(e)
	if f.IsNil(e) {
		return RetSuccess
	}
	switch x := e.(type) {
	case *ast.Ident:
		obj := f.ObjOf(x)
		if v, ok := obj.(*types.Var); ok {
			if v.Parent() == v.Pkg().Scope() {
				return RetError // package-level sentinel
			}
			return f.varState(n, v)
		}
	case *ast.SelectorExpr:
		if obj, ok := f.Info().Uses[x.Sel].(*types.Var); ok && obj.Pkg() != nil && obj.Parent() == obj.Pkg().Scope() {
			return RetError // pkg.ErrSentinel
		}
	case *ast.CallExpr:
		if f.P.AlwaysErr(f.Callee(x), depth) {
			return RetError
		}
		if callee := f.Callee(x); callee != nil && callee.Pkg() != nil && callee.Pkg().Path() == "errors" && callee.Name() == "Join" {
			for _, a := range x.Args {
				if f.errExprKind(n, a, depth) == RetError {
					return RetError
				}
			}
		}
		if tv, ok := f.Info().Types[x.Fun]; ok && tv.IsType() {
			// conversion such as error(x)
			return RetMaybe
		}
		return RetMaybe
	case *ast.UnaryExpr:
		if x.Op == token.AND {
			return RetError
		}
	case *ast.CompositeLit:
		return RetError
	}
	return RetMaybe
}

// AlwaysErr reports whether fn always returns a non-nil error (in its last result).
func (p *Prog) AlwaysErr(fn *types.Func, depth int) bool {
	if fn == nil || fn.Pkg() == nil {
		return false
	}
	switch fn.Pkg().Path() + "." + fn.Name() {
	case "fmt.Errorf", "errors.New":
		return true
	}
	if depth >= 3 {
		return false
	}
	df := p.DepFunc(fn)
	if df == nil {
		return false
	}
	idx, _ := df.errResult()
	if idx < 0 {
		return false
	}
	rets := df.Graph().Returns()
	if len(rets) == 0 {
		return false
	}
	for _, r := range rets {
		rs, ok := r.AST.(*ast.ReturnStmt)
		if !ok || idx >= len(rs.Results) {
			return false
		}
		if df.errExprKind(r, rs.Results[idx], depth+1) != RetError {
			return false
		}
	}
	return true
}

// varState decides whether error variable v is definitely nil / non-nil at
// node n by walking backwards to the closest tests and writes.
func (f *Func) varState(n *cfgx.Node, v types.Object) RetKind {
	seen := map[*cfgx.Edge]bool{}
	allNonNil, allNil := true, true
	var walk func(m *cfgx.Node)
	walk = func(m *cfgx.Node) {
		if len(m.Preds) == 0 {
			// entry: named results start nil, parameters are unknown
			if _, named := f.errResult(); named == v {
				allNonNil = false
			} else {
				allNonNil, allNil = false, false
			}
			return
		}
		for _, e := range m.Preds {
			if seen[e] {
				continue
			}
			seen[e] = true
			// does the edge establish a fact about v?
			if (e.Kind == cfgx.True || e.Kind == cfgx.False) && e.Cond != nil {
				if x, nonNilOnTrue, ok := f.NilTest(e.Cond); ok && f.ObjOf(x) == v {
					isNonNil := nonNilOnTrue == (e.Kind == cfgx.True)
					if isNonNil {
						allNil = false
					} else {
						allNonNil = false
					}
					continue
				}
				if e.Kind == cfgx.True && f.errorsIsOn(e.Cond, v) {
					allNil = false
					continue
				}
			}
			// does the predecessor node write v?
			p := e.From
			wrote := false
			if p.AST != nil {
				for _, w := range f.WritesIn(p.AST, false) {
					if f.ObjOf(w.LHS) != v {
						continue
					}
					wrote = true
					k := RetMaybe
					if w.RHS != nil {
						k = f.errExprKind(p, w.RHS, 1)
					}
					switch k {
					case RetError:
						allNil = false
					case RetSuccess:
						allNonNil = false
					default:
						allNil, allNonNil = false, false
					}
				}
			}
			if wrote {
				continue
			}
			walk(p)
		}
	}
	walk(n)
	switch {
	case allNonNil && !allNil:
		return RetError
	case allNil && !allNonNil:
		return RetSuccess
	}
	return RetMaybe
}

// Deferred describes a defer statement of the function.
type Deferred struct {
	Node *cfgx.Node
	Stmt *ast.DeferStmt
	Lit  *Func // non-nil for `defer func(){...}()`
	Call Call  // the deferred call itself
}

// Defers lists the defer statements that are nodes of f's graph.
func (f *Func) Defers() []Deferred {
	var out []Deferred
	for _, n := range f.Graph().Nodes {
		ds, ok := n.AST.(*ast.DeferStmt)
		if !ok {
			continue
		}
		d := Deferred{Node: n, Stmt: ds, Call: Call{F: f, Expr: ds.Call, Fn: f.Callee(ds.Call)}}
		if lit, ok := ast.Unparen(ds.Call.Fun).(*ast.FuncLit); ok {
			d.Lit = f.P.LitOf(lit)
		}
		out = append(out, d)
	}
	return out
}

// EnclosingFunc returns the innermost Func (declaration or literal) of the repository containing pos.
func (p *Prog) EnclosingFunc(pos token.Pos) *Func {
	var best *Func
	for _, f := range p.Funcs {
		if f.Body.Pos() <= pos && pos < f.Body.End() {
			if best == nil || f.Body.Pos() >= best.Body.Pos() {
				best = f
			}
		}
	}
	return best
}

// OnlyAfterSuccess reports whether node target is reached from the node of
// call only on paths on which the call's boolean result (comma-ok / found
// flag) was tested and found true. It is OnlyVia(target, CheckOf(call).Succ)
// made path-sensitive in the flag variable: the flag's value is tracked along
// each path (narrowed at tests, forgotten at other assignments), so a flag
// that is re-used — `v, ok := lookup(); if ok { _, ok = other() }; if !ok
// { break }` — is handled: on the path where the lookup failed the second test
// cannot pass. Falls back to the edge criterion when the result is not bound
// to a boolean variable.
func (f *Func) OnlyAfterSuccess(call *ast.CallExpr, target *cfgx.Node) bool {
	chk := f.CheckOf(call)
	if f.OnlyVia(target, chk.Succ) {
		return true
	}
	g := f.Graph()
	cn := g.NodeContaining(call.Pos())
	if cn == nil {
		return false
	}
	// the flag: last left-hand side of the assignment holding the call
	var flag types.Object
	switch s := cn.AST.(type) {
	case *ast.AssignStmt:
		if len(s.Rhs) == 1 && ast.Unparen(s.Rhs[0]) == ast.Expr(call) && len(s.Lhs) >= 2 {
			flag = f.ObjOf(s.Lhs[len(s.Lhs)-1])
		}
	}
	if flag == nil {
		return false
	}
	if b, ok := flag.Type().Underlying().(*types.Basic); !ok || b.Kind() != types.Bool {
		return false
	}
	// state bits: 0-1 value of the flag (0 unknown, 1 true, 2 false); 2-3 outcome of the lookup (0 unknown, 1 ok, 2 failed);
	// bit 4: the flag currently holds the lookup's outcome
	const (
		valMask = 3
		okShift = 2
		bound   = 1 << 4
	)
	bad := false
	var start []*cfgx.Visit
	for _, e := range cn.Succs {
		start = append(start, cfgx.StartAfter(e, bound))
	}
	g.Explore(start, cfgx.Walker{
		AtNode: func(n *cfgx.Node, st cfgx.State) (cfgx.State, bool) {
			if n == target {
				if (st>>okShift)&3 != 1 {
					bad = true
				}
				return st, false
			}
			if n == cn {
				return st, false // next iteration: a new lookup
			}
			if n.AST != nil {
				for _, w := range f.WritesIn(n.AST, false) {
					if f.ObjOf(w.LHS) != flag {
						continue
					}
					st &^= valMask | bound
					if w.RHS != nil {
						if tv, ok := f.Info().Types[w.RHS]; ok && tv.Value != nil {
							if tv.Value.String() == "true" {
								st |= 1
							} else if tv.Value.String() == "false" {
								st |= 2
							}
						}
					}
				}
			}
			return st, true
		},
		OnEdge: func(e *cfgx.Edge, st cfgx.State) (cfgx.State, bool) {
			if e.Cond == nil || (e.Kind != cfgx.True && e.Kind != cfgx.False) || f.ObjOf(e.Cond) != flag {
				return st, true
			}
			want := cfgx.State(2)
			if e.Kind == cfgx.True {
				want = 1
			}
			if cur := st & valMask; cur != 0 && cur != want {
				return st, false
			}
			st = st&^valMask | want
			if st&bound != 0 {
				st = st&^(3<<okShift) | want<<okShift
			}
			return st, true
		},
	})
	return !bad
}

// ReachableAfterFailure is ReachableFromEdges(fail, nil) made path-sensitive in
// error variables: starting on the failing edges of a check (`err != nil`
// true), the set of error variables known to be non-nil is carried along each
// path — copied by `e2 = e1` / `a, b, e2 = x, y, e1`, wrapped by
// `e2 = fmt.Errorf(…)` and other always-error constructors, forgotten on any
// other assignment — and the nil side of a later test of such a variable is
// not followed. This keeps "on failure, hand the error up through an outer
// variable and test it there" from looking like a path back into the success
// code.
func (f *Func) ReachableAfterFailure(fail []*cfgx.Edge) map[*cfgx.Node]*cfgx.Visit {
	g := f.Graph()
	// number the error variables
	idx := map[types.Object]uint{}
	number := func(o types.Object) (uint, bool) {
		if o == nil || !IsErrorType(o.Type()) {
			return 0, false
		}
		if i, ok := idx[o]; ok {
			return i, true
		}
		if len(idx) >= 30 {
			return 0, false
		}
		idx[o] = uint(len(idx))
		return idx[o], true
	}
	var start []*cfgx.Visit
	for _, e := range fail {
		st := cfgx.State(0)
		if e.Cond != nil {
			if x, nonNilOnTrue, ok := f.NilTest(e.Cond); ok && nonNilOnTrue == (e.Kind == cfgx.True) {
				if i, ok := number(f.ObjOf(x)); ok {
					st |= 1 << i
				}
			}
		}
		start = append(start, cfgx.StartAfter(e, st))
	}
	res := map[*cfgx.Node]*cfgx.Visit{}
	vs := g.Explore(start, cfgx.Walker{
		AtNode: func(n *cfgx.Node, st cfgx.State) (cfgx.State, bool) {
			if n.AST == nil {
				return st, true
			}
			for _, w := range f.WritesIn(n.AST, false) {
				i, ok := number(f.ObjOf(w.LHS))
				if !ok {
					continue
				}
				nonNil := false
				if w.RHS != nil {
					if j, ok := number(f.ObjOf(w.RHS)); ok && f.ObjOf(w.RHS) != nil {
						nonNil = st&(1<<j) != 0
					} else if call, isCall := ast.Unparen(w.RHS).(*ast.CallExpr); isCall && f.P.AlwaysErr(f.Callee(call), 0) {
						nonNil = true
					}
				}
				if nonNil {
					st |= 1 << i
				} else {
					st &^= 1 << i
				}
			}
			return st, true
		},
		OnEdge: func(e *cfgx.Edge, st cfgx.State) (cfgx.State, bool) {
			if e.Cond == nil || (e.Kind != cfgx.True && e.Kind != cfgx.False) {
				return st, true
			}
			x, nonNilOnTrue, ok := f.NilTest(e.Cond)
			if !ok {
				return st, true
			}
			i, ok := number(f.ObjOf(x))
			if !ok {
				return st, true
			}
			isNilEdge := nonNilOnTrue != (e.Kind == cfgx.True)
			if isNilEdge && st&(1<<i) != 0 {
				return st, false
			}
			if !isNilEdge {
				st |= 1 << i
			}
			return st, true
		},
	})
	for _, v := range vs {
		if _, ok := res[v.Node]; !ok {
			res[v.Node] = v
		}
	}
	return res
}

// ReturnKindsFrom explores the graph from the start visits and classifies
// every return it reaches by its error result, tracking along each path what
// is known about local error variables (nil / non-nil after an assignment of
// nil, of an always-error constructor or of another tracked variable, and after
// nil tests). A return of a variable is classified by the path's knowledge
// when there is any, otherwise as ClassifyReturn does. The result maps each
// reached return to the set of kinds it can have (bit i set = RetKind i).
// Used for "no error-capable return after X": a helper's results copied into
// named results and returned once at the end keep their per-path meaning.
func (f *Func) ReturnKindsFrom(start []*cfgx.Visit) map[*cfgx.Node]uint {
	return f.ReturnKindsFromAvoiding(start, nil)
}

// ReturnKindsFromAvoiding is ReturnKindsFrom over the paths that do not pass a node accepted by stop.
func (f *Func) ReturnKindsFromAvoiding(start []*cfgx.Visit, stop func(*cfgx.Node) bool) map[*cfgx.Node]uint {
	idx := map[types.Object]uint{}
	number := func(o types.Object) (uint, bool) {
		if o == nil || !IsErrorType(o.Type()) {
			return 0, false
		}
		if v, isVar := o.(*types.Var); !isVar || v.IsField() || (v.Pkg() != nil && v.Parent() == v.Pkg().Scope()) {
			return 0, false
		}
		if i, ok := idx[o]; ok {
			return i, true
		}
		if len(idx) >= 15 {
			return 0, false
		}
		idx[o] = uint(len(idx))
		return idx[o], true
	}
	get := func(st cfgx.State, i uint) cfgx.State { return (st >> (2 * i)) & 3 } // 0 unknown, 1 nil, 2 non-nil
	set := func(st cfgx.State, i uint, v cfgx.State) cfgx.State { return st&^(3<<(2*i)) | v<<(2*i) }
	errIdx, named := f.errResult()
	out := map[*cfgx.Node]uint{}
	g := f.Graph()
	onEdge := func(e *cfgx.Edge, st cfgx.State) (cfgx.State, bool) {
		if e.Cond == nil || (e.Kind != cfgx.True && e.Kind != cfgx.False) {
			return st, true
		}
		x, nonNilOnTrue, ok := f.NilTest(e.Cond)
		if !ok {
			return st, true
		}
		i, ok := number(f.ObjOf(x))
		if !ok {
			return st, true
		}
		want := cfgx.State(1)
		if nonNilOnTrue == (e.Kind == cfgx.True) {
			want = 2
		}
		if cur := get(st, i); cur != 0 && cur != want {
			return st, false
		}
		return set(st, i, want), true
	}
	// a start placed after an edge knows what the edge's condition established
	var begin []*cfgx.Visit
	for _, v := range start {
		if v.Via != nil {
			st, feasible := onEdge(v.Via, v.State)
			if !feasible {
				continue
			}
			v = &cfgx.Visit{Node: v.Node, State: st, Prev: v.Prev, Via: v.Via}
		}
		begin = append(begin, v)
	}
	g.Explore(begin, cfgx.Walker{
		AtNode: func(n *cfgx.Node, st cfgx.State) (cfgx.State, bool) {
			if n.AST == nil {
				return st, true
			}
			if stop != nil && stop(n) {
				return st, false
			}
			if rs, isRet := n.AST.(*ast.ReturnStmt); isRet {
				kind := f.ClassifyReturn(n)
				var e ast.Expr
				switch {
				case errIdx >= 0 && errIdx < len(rs.Results) && len(rs.Results) > errIdx:
					e = rs.Results[errIdx]
				}
				var o types.Object
				if e != nil {
					o = f.ObjOf(e)
				} else if len(rs.Results) == 0 {
					o = named
				}
				if i, ok := number(o); ok && o != nil {
					switch get(st, i) {
					case 1:
						kind = RetSuccess
					case 2:
						kind = RetError
					}
				}
				out[n] |= 1 << uint(kind)
				return st, false
			}
			for _, w := range f.WritesIn(n.AST, false) {
				i, ok := number(f.ObjOf(w.LHS))
				if !ok {
					continue
				}
				v := cfgx.State(0)
				if w.RHS != nil {
					switch {
					case f.IsNil(w.RHS):
						v = 1
					default:
						if j, ok := number(f.ObjOf(w.RHS)); ok && f.ObjOf(w.RHS) != nil {
							v = get(st, j)
						} else if f.errExprKind(n, w.RHS, 0) == RetError { // constructors, sentinels, errors.Join of them
							v = 2
						}
					}
				}
				st = set(st, i, v)
			}
			return st, true
		},
		OnEdge: onEdge,
	})
	return out
}
