package ir

import (
	"go/ast"
	"go/constant"
	"go/token"
	"go/types"

	"golang.org/x/tools/go/types/typeutil"

	"sialint/internal/cfgx"
)

// Callee resolves the statically known callee of a call (function, concrete
// method, interface method or method value); nil for dynamic calls.
func (f *Func) Callee(call *ast.CallExpr) *types.Func {
	fn := typeutil.Callee(f.Info(), call)
	if fn, ok := fn.(*types.Func); ok {
		return fn.Origin()
	}
	// a call through a local function variable that is defined exactly once, by a method value or a
	// function name (e.g. a callback parameter of an expanded helper bound to `s.contractor.Credit…`)
	if id, ok := ast.Unparen(call.Fun).(*ast.Ident); ok {
		if v, ok := f.Info().Uses[id].(*types.Var); ok && !v.IsField() {
			if fn := f.funcValueOf(v); fn != nil {
				return fn
			}
		}
	}
	return nil
}

// funcValueOf: the function or method that local variable v always holds.
func (f *Func) funcValueOf(v *types.Var) *types.Func {
	info := f.Info()
	var out *types.Func
	n := 0
	note := func(lhs, rhs ast.Expr) {
		id, ok := ast.Unparen(lhs).(*ast.Ident)
		if !ok || (info.Defs[id] != v && info.Uses[id] != v) {
			return
		}
		n++
		if rhs == nil {
			return
		}
		switch t := ast.Unparen(rhs).(type) {
		case *ast.Ident:
			if fn, ok := info.Uses[t].(*types.Func); ok {
				out = fn.Origin()
			}
		case *ast.SelectorExpr:
			if fn, ok := info.Uses[t.Sel].(*types.Func); ok {
				out = fn.Origin()
			}
		}
	}
	ast.Inspect(f.Top().Body, func(x ast.Node) bool {
		switch t := x.(type) {
		case *ast.AssignStmt:
			for i, l := range t.Lhs {
				var r ast.Expr
				if len(t.Rhs) == len(t.Lhs) {
					r = t.Rhs[i]
				}
				note(l, r)
			}
		case *ast.ValueSpec:
			for i, nm := range t.Names {
				var r ast.Expr
				if len(t.Values) == len(t.Names) {
					r = t.Values[i]
				}
				note(nm, r)
			}
		case *ast.UnaryExpr:
			if t.Op == token.AND {
				note(t.X, nil)
			}
		}
		return true
	})
	if n == 1 {
		return out
	}
	return nil
}

// Call is a call site.
type Call struct {
	F    *Func
	Expr *ast.CallExpr
	Fn   *types.Func // nil when dynamic
}

// Pos is the call's position.
func (c Call) Pos() token.Pos { return c.Expr.Pos() }

// Recv returns the receiver expression of a method call (nil otherwise).
func (c Call) Recv() ast.Expr {
	if sel, ok := ast.Unparen(c.Expr.Fun).(*ast.SelectorExpr); ok {
		if _, isPkg := c.F.Info().Uses[identOf(sel.X)].(*types.PkgName); !isPkg {
			return sel.X
		}
	}
	return nil
}

func identOf(e ast.Expr) *ast.Ident {
	id, _ := ast.Unparen(e).(*ast.Ident)
	return id
}

// CallsIn lists the calls syntactically inside root. Nested function literal
// bodies are entered only when intoLits is set.
func (f *Func) CallsIn(root ast.Node, intoLits bool) []Call {
	var out []Call
	if root == nil {
		return nil
	}
	Walk(root, intoLits, func(n ast.Node) {
		if c, ok := n.(*ast.CallExpr); ok {
			out = append(out, Call{F: f, Expr: c, Fn: f.Callee(c)})
		}
	})
	return out
}

// Walk visits root's descendants in source order, entering literal bodies
// only if intoLits. A RangeStmt root is treated as a marker (nothing visited);
// a nested RangeStmt is visited fully.
func Walk(root ast.Node, intoLits bool, visit func(ast.Node)) {
	if _, ok := root.(*ast.RangeStmt); ok {
		return
	}
	ast.Inspect(root, func(n ast.Node) bool {
		if n == nil {
			return false
		}
		if _, ok := n.(*ast.FuncLit); ok && !intoLits {
			visit(n)
			return false
		}
		visit(n)
		return true
	})
}

// Calls lists every call in the function body; literal bodies included when intoLits.
func (f *Func) Calls(intoLits bool) []Call { return f.CallsIn(f.Body, intoLits) }

// CallsTo lists the calls in the function (not in nested literals unless intoLits) whose callee is one of fns.
func (f *Func) CallsTo(intoLits bool, fns ...*types.Func) []Call {
	var out []Call
	for _, c := range f.Calls(intoLits) {
		for _, fn := range fns {
			if c.Fn != nil && fn != nil && c.Fn == fn.Origin() {
				out = append(out, c)
			}
		}
	}
	return out
}

// NodeOfPos returns the graph node evaluating the expression at pos.
func (f *Func) NodeOfPos(pos token.Pos) *cfgx.Node { return f.Graph().NodeContaining(pos) }

// NodeCalls lists the calls evaluated at graph node n (not inside literals).
func (f *Func) NodeCalls(n *cfgx.Node) []Call {
	if n == nil || n.AST == nil {
		return nil
	}
	return f.CallsIn(n.AST, false)
}

// NodeCallsTo reports whether node n evaluates a call to one of fns and returns the first.
func (f *Func) NodeCallsTo(n *cfgx.Node, fns ...*types.Func) (Call, bool) {
	for _, c := range f.NodeCalls(n) {
		for _, fn := range fns {
			if c.Fn != nil && fn != nil && c.Fn == fn.Origin() {
				return c, true
			}
		}
	}
	return Call{}, false
}

// ObjOf returns the object an identifier expression denotes (nil otherwise).
func (f *Func) ObjOf(e ast.Expr) types.Object {
	id := identOf(e)
	if id == nil {
		return nil
	}
	if o := f.Info().Uses[id]; o != nil {
		return o
	}
	return f.Info().Defs[id]
}

// RootObj strips selectors, indexing, slicing, stars, parens and & and returns
// the object of the root identifier, plus the chain of selected fields.
func (f *Func) RootObj(e ast.Expr) (types.Object, []*types.Var) {
	var path []*types.Var
	for {
		switch x := ast.Unparen(e).(type) {
		case *ast.SelectorExpr:
			if sel := f.Info().Selections[x]; sel != nil {
				if v, ok := sel.Obj().(*types.Var); ok {
					path = append([]*types.Var{v}, path...)
				}
				e = x.X
				continue
			}
			// qualified identifier pkg.Name
			return f.Info().Uses[x.Sel], path
		case *ast.IndexExpr:
			e = x.X
		case *ast.SliceExpr:
			e = x.X
		case *ast.StarExpr:
			e = x.X
		case *ast.UnaryExpr:
			if x.Op != token.AND {
				return nil, path
			}
			e = x.X
		case *ast.Ident:
			return f.ObjOf(x), path
		case *ast.TypeAssertExpr:
			e = x.X
		default:
			return nil, path
		}
	}
}

// FieldOf returns the field object selected by e (x.f), or nil.
func (f *Func) FieldOf(e ast.Expr) *types.Var {
	if sel, ok := ast.Unparen(e).(*ast.SelectorExpr); ok {
		if s := f.Info().Selections[sel]; s != nil && s.Kind() == types.FieldVal {
			return s.Obj().(*types.Var)
		}
	}
	return nil
}

// MentionsField reports whether root contains a selection of field fld.
func (f *Func) MentionsField(root ast.Node, intoLits bool, fld *types.Var) bool {
	found := false
	Walk(root, intoLits, func(n ast.Node) {
		if e, ok := n.(ast.Expr); ok && f.FieldOf(e) == fld {
			found = true
		}
	})
	return found
}

// MentionsObj reports whether root contains an identifier denoting obj.
func (f *Func) MentionsObj(root ast.Node, intoLits bool, obj types.Object) bool {
	if obj == nil || root == nil {
		return false
	}
	found := false
	Walk(root, intoLits, func(n ast.Node) {
		if id, ok := n.(*ast.Ident); ok && (f.Info().Uses[id] == obj || f.Info().Defs[id] == obj) {
			found = true
		}
	})
	return found
}

// Write is an assignment-like effect on an lvalue.
type Write struct {
	LHS  ast.Expr
	RHS  ast.Expr // nil when not 1:1 (tuple assignment, inc/dec, range)
	Stmt ast.Node
	Tok  token.Token
}

// WritesIn lists the assignment-like effects syntactically inside root:
// assignments, definitions, inc/dec, range key/value, var specs.
func (f *Func) WritesIn(root ast.Node, intoLits bool) []Write {
	var out []Write
	visit := func(n ast.Node) {
		switch s := n.(type) {
		case *ast.AssignStmt:
			for i, l := range s.Lhs {
				var r ast.Expr
				if len(s.Rhs) == len(s.Lhs) {
					r = s.Rhs[i]
				} else if len(s.Rhs) == 1 {
					r = nil
				}
				out = append(out, Write{LHS: l, RHS: r, Stmt: s, Tok: s.Tok})
			}
		case *ast.IncDecStmt:
			out = append(out, Write{LHS: s.X, Stmt: s, Tok: s.Tok})
		case *ast.RangeStmt:
			if s.Key != nil {
				out = append(out, Write{LHS: s.Key, Stmt: s, Tok: s.Tok})
			}
			if s.Value != nil {
				out = append(out, Write{LHS: s.Value, Stmt: s, Tok: s.Tok})
			}
		case *ast.ValueSpec:
			for i, name := range s.Names {
				var r ast.Expr
				if len(s.Values) == len(s.Names) {
					r = s.Values[i]
				}
				out = append(out, Write{LHS: name, RHS: r, Stmt: s, Tok: token.DEFINE})
			}
		}
	}
	if rs, ok := root.(*ast.RangeStmt); ok {
		// marker node: only its key/value definitions
		visit(rs)
		return out
	}
	Walk(root, intoLits, visit)
	return out
}

// TupleRHS returns the single right-hand side of a tuple assignment statement.
func TupleRHS(stmt ast.Node) ast.Expr {
	switch s := stmt.(type) {
	case *ast.AssignStmt:
		if len(s.Rhs) == 1 {
			return s.Rhs[0]
		}
	case *ast.ValueSpec:
		if len(s.Values) == 1 {
			return s.Values[0]
		}
	}
	return nil
}

// IsNil reports whether e is the predeclared nil.
func (f *Func) IsNil(e ast.Expr) bool {
	id := identOf(e)
	if id == nil {
		return false
	}
	_, ok := f.Info().Uses[id].(*types.Nil)
	return ok
}

// NilTest decomposes a leaf condition of the form `x != nil` / `x == nil`
// (either operand order). nonNilOnTrue tells which edge means x is non-nil.
func (f *Func) NilTest(cond ast.Expr) (x ast.Expr, nonNilOnTrue bool, ok bool) {
	be, isBin := ast.Unparen(cond).(*ast.BinaryExpr)
	if !isBin || (be.Op != token.NEQ && be.Op != token.EQL) {
		return nil, false, false
	}
	switch {
	case f.IsNil(be.Y):
		x = be.X
	case f.IsNil(be.X):
		x = be.Y
	default:
		return nil, false, false
	}
	return x, be.Op == token.NEQ, true
}

// NilTestVia is NilTest that also understands a condition that is a boolean
// variable (or its negation) whose only definition is a nil comparison
// (`missing := x == nil; …; if missing {…}`): the edge then tells whether x was
// nil where the variable was defined.
func (f *Func) NilTestVia(cond ast.Expr) (x ast.Expr, nonNilOnTrue bool, ok bool) {
	if x, nn, ok := f.NilTest(cond); ok {
		return x, nn, true
	}
	cond = ast.Unparen(cond)
	neg := false
	if u, isNot := cond.(*ast.UnaryExpr); isNot && u.Op == token.NOT {
		cond, neg = ast.Unparen(u.X), true
	}
	id, isID := cond.(*ast.Ident)
	if !isID {
		return nil, false, false
	}
	obj := f.ObjOf(id)
	if obj == nil {
		return nil, false, false
	}
	var def ast.Expr
	n := 0
	for _, w := range f.WritesIn(f.Top().Body, true) {
		if wid, isW := ast.Unparen(w.LHS).(*ast.Ident); isW && f.ObjOf(wid) == obj {
			n++
			def = w.RHS
		}
	}
	if n != 1 || def == nil {
		return nil, false, false
	}
	x, nn, ok := f.NilTest(def)
	if !ok {
		return nil, false, false
	}
	return x, nn != neg, true
}

// ConstInt returns the constant integer value of e, if it has one.
func (f *Func) ConstInt(e ast.Expr) (int64, bool) {
	tv, ok := f.Info().Types[e]
	if !ok || tv.Value == nil {
		return 0, false
	}
	v, exact := constant.Int64Val(constant.ToInt(tv.Value))
	return v, exact
}

// TypeOf returns the type of an expression.
func (f *Func) TypeOf(e ast.Expr) types.Type { return f.Info().TypeOf(e) }

// IsErrorType reports whether t is the predeclared error type.
func IsErrorType(t types.Type) bool {
	return t != nil && types.Identical(t, types.Universe.Lookup("error").Type())
}

// ExprString renders an expression compactly for reports.
func ExprString(e ast.Expr) string { return types.ExprString(e) }

// NamedOf returns the named type of t after stripping pointers (nil if none).
func NamedOf(t types.Type) *types.Named {
	for {
		switch x := t.(type) {
		case *types.Pointer:
			t = x.Elem()
			continue
		case *types.Named:
			return x
		case *types.Alias:
			t = types.Unalias(x)
			continue
		}
		return nil
	}
}

// IsNamed reports whether t (through pointers) is the named type pkgPath.name.
func IsNamed(t types.Type, pkgPath, name string) bool {
	n := NamedOf(t)
	return n != nil && n.Obj().Name() == name && n.Obj().Pkg() != nil && n.Obj().Pkg().Path() == pkgPath
}
