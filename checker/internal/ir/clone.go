package ir

import (
	"go/ast"
	"go/token"
	"go/types"
	"reflect"
)

// cloner deep-copies typed syntax. Every copied node receives the type
// information of its original (Types, Uses, Defs, Selections, Implicits,
// Instances), so the rules can query a rewritten body exactly like a loaded
// one. Positions are shifted by off into a synthetic file that has the line
// table of the original, so reports still name the original file:line:col.
type cloner struct {
	p    *Prog
	info *types.Info
	off  int
	// objs renames objects declared inside the copied region (parameters,
	// locals, labels), so two copies of one body do not share variables.
	objs map[types.Object]types.Object
	// subst replaces uses of an object (a parameter) by a copy of an expression.
	subst map[types.Object]ast.Expr
	// local decides whether an object belongs to the copied region.
	local func(types.Object) bool
}

var (
	posType   = reflect.TypeOf(token.NoPos)
	objPtr    = reflect.TypeOf((*ast.Object)(nil))
	scopePtr  = reflect.TypeOf((*ast.Scope)(nil))
	nodeIface = reflect.TypeOf((*ast.Node)(nil)).Elem()
)

func (c *cloner) mapObj(o types.Object) types.Object {
	if o == nil {
		return nil
	}
	if n, ok := c.objs[o]; ok {
		return n
	}
	if c.local == nil || !c.local(o) {
		return o
	}
	var n types.Object
	pos := o.Pos()
	if pos.IsValid() {
		pos += token.Pos(c.off)
	}
	switch x := o.(type) {
	case *types.Var:
		if x.IsField() {
			return o
		}
		n = types.NewVar(pos, x.Pkg(), x.Name(), x.Type())
	case *types.Label:
		n = types.NewLabel(pos, x.Pkg(), x.Name())
	default:
		return o
	}
	c.objs[o] = n
	c.p.origObj[n] = c.p.OrigObj(o)
	return n
}

// node copies n.
func (c *cloner) node(n ast.Node) ast.Node {
	if n == nil || reflect.ValueOf(n).IsNil() {
		return n
	}
	// a parameter bound to &x: p.f is x.f and *p is x
	if c.subst != nil {
		switch t := n.(type) {
		case *ast.SelectorExpr:
			if inner := c.addrSubst(t.X); inner != nil {
				out := &ast.SelectorExpr{X: c.substCopy(inner, t.X.Pos()+token.Pos(c.off)), Sel: c.node(t.Sel).(*ast.Ident)}
				c.copyInfo(t, out)
				return out
			}
		case *ast.StarExpr:
			if inner := c.addrSubst(t.X); inner != nil {
				return c.substCopy(inner, t.Pos()+token.Pos(c.off))
			}
		}
	}
	// parameter substitution
	if id, ok := n.(*ast.Ident); ok && c.subst != nil {
		if o := c.info.Uses[id]; o != nil {
			if e, ok := c.subst[o]; ok {
				return c.substCopy(e, id.Pos()+token.Pos(c.off))
			}
		}
	}
	return c.value(reflect.ValueOf(n)).Interface().(ast.Node)
}

// substCopy copies a substituted operand to position at.
func (c *cloner) substCopy(e ast.Expr, at token.Pos) ast.Expr {
	sub := &cloner{p: c.p, info: c.info, objs: map[types.Object]types.Object{}}
	out := sub.node(e).(ast.Expr)
	collapsePos(out, at)
	switch out.(type) {
	case *ast.Ident, *ast.SelectorExpr, *ast.ParenExpr, *ast.BasicLit:
	default:
		p := &ast.ParenExpr{Lparen: at, X: out, Rparen: at}
		if tv, ok := c.info.Types[e]; ok {
			c.info.Types[p] = tv
		}
		out = p
	}
	return out
}

// addrSubst: when e is a parameter substituted by &x, returns x.
func (c *cloner) addrSubst(e ast.Expr) ast.Expr {
	id, ok := ast.Unparen(e).(*ast.Ident)
	if !ok {
		return nil
	}
	o := c.info.Uses[id]
	if o == nil {
		return nil
	}
	s, ok := c.subst[o]
	if !ok {
		return nil
	}
	if u, ok := ast.Unparen(s).(*ast.UnaryExpr); ok && u.Op == token.AND {
		return u.X
	}
	return nil
}

func (c *cloner) value(v reflect.Value) reflect.Value {
	switch v.Kind() {
	case reflect.Ptr:
		if v.IsNil() {
			return v
		}
		if v.Type() == objPtr || v.Type() == scopePtr {
			return reflect.Zero(v.Type())
		}
		if v.Type().Implements(nodeIface) {
			nn := reflect.New(v.Type().Elem())
			c.fields(v.Elem(), nn.Elem())
			c.copyInfo(v.Interface().(ast.Node), nn.Interface().(ast.Node))
			return nn
		}
		nn := reflect.New(v.Type().Elem())
		c.fields(v.Elem(), nn.Elem())
		return nn
	case reflect.Interface:
		if v.IsNil() {
			return v
		}
		if n, ok := v.Interface().(ast.Node); ok {
			return reflect.ValueOf(c.node(n))
		}
		return v
	case reflect.Slice:
		if v.IsNil() {
			return v
		}
		ns := reflect.MakeSlice(v.Type(), v.Len(), v.Len())
		for i := 0; i < v.Len(); i++ {
			ns.Index(i).Set(c.assignable(c.value(v.Index(i)), v.Type().Elem()))
		}
		return ns
	case reflect.Struct:
		ns := reflect.New(v.Type()).Elem()
		c.fields(v, ns)
		return ns
	}
	if v.Type() == posType && v.Int() != 0 {
		return reflect.ValueOf(token.Pos(int(v.Int()) + c.off))
	}
	return v
}

func (c *cloner) assignable(v reflect.Value, t reflect.Type) reflect.Value {
	if !v.IsValid() {
		return reflect.Zero(t)
	}
	if v.Type().AssignableTo(t) {
		return v
	}
	return v.Convert(t)
}

func (c *cloner) fields(src, dst reflect.Value) {
	for i := 0; i < src.NumField(); i++ {
		f := src.Field(i)
		if !dst.Field(i).CanSet() {
			continue
		}
		nv := c.value(f)
		if nv.IsValid() {
			dst.Field(i).Set(c.assignable(nv, f.Type()))
		}
	}
}

func (c *cloner) copyInfo(old, nw ast.Node) {
	info := c.info
	c.p.origNode[nw] = c.p.OrigNode(old)
	if e, ok := old.(ast.Expr); ok {
		if tv, ok := info.Types[e]; ok {
			info.Types[nw.(ast.Expr)] = tv
		}
	}
	switch x := old.(type) {
	case *ast.Ident:
		ni := nw.(*ast.Ident)
		if o, ok := info.Uses[x]; ok {
			m := c.mapObj(o)
			info.Uses[ni] = m
			if m != nil && m != o && m.Name() != ni.Name && ni.Name != "_" {
				ni.Name = m.Name() // mapped onto a variable of the caller
			}
		}
		if o, ok := info.Defs[x]; ok {
			m := c.mapObj(o)
			info.Defs[ni] = m
			if m != nil && o != nil && m != o && m.Name() != ni.Name && ni.Name != "_" {
				ni.Name = m.Name()
			}
		}
		if inst, ok := info.Instances[x]; ok {
			info.Instances[ni] = inst
		}
	case *ast.SelectorExpr:
		if s, ok := info.Selections[x]; ok {
			info.Selections[nw.(*ast.SelectorExpr)] = s
		}
	}
	if o, ok := info.Implicits[old]; ok {
		info.Implicits[nw] = c.mapObj(o)
	}
	if s, ok := info.Scopes[old]; ok {
		info.Scopes[nw] = s
	}
}

// collapsePos sets every position inside n to at (substituted operands have no
// text of their own in the synthetic file).
func collapsePos(n ast.Node, at token.Pos) {
	ast.Inspect(n, func(m ast.Node) bool {
		if m == nil {
			return false
		}
		v := reflect.ValueOf(m)
		if v.Kind() != reflect.Ptr || v.IsNil() {
			return true
		}
		s := v.Elem()
		if s.Kind() != reflect.Struct {
			return true
		}
		for i := 0; i < s.NumField(); i++ {
			f := s.Field(i)
			if f.Type() == posType && f.CanSet() && f.Int() != 0 {
				f.SetInt(int64(at))
			}
		}
		return true
	})
}

// OrigNode maps a copied node back to the loaded node it was copied from
// (identity for loaded nodes).
func (p *Prog) OrigNode(n ast.Node) ast.Node {
	for {
		o, ok := p.origNode[n]
		if !ok || o == n {
			return n
		}
		n = o
	}
}

// OrigObj maps a renamed object back to the declared one.
func (p *Prog) OrigObj(o types.Object) types.Object {
	for {
		n, ok := p.origObj[o]
		if !ok || n == o {
			return o
		}
		o = n
	}
}

// shiftFile allocates a synthetic file with the line table of the file
// holding pos and returns the offset to add to positions of that file.
func (p *Prog) shiftFile(pos token.Pos) int {
	tf := p.Fset.File(pos)
	if tf == nil {
		return 0
	}
	nf := p.Fset.AddFile(tf.Name(), -1, tf.Size())
	nf.SetLines(tf.Lines())
	return nf.Base() - tf.Base()
}
