// Package ir loads the repository under analysis and offers typed-AST,
// control-flow and call-graph views of it to the rules.
package ir

import (
	"fmt"
	"go/ast"
	"go/token"
	"go/types"
	"os"
	"path/filepath"
	"sort"
	"strings"
	"sync"

	"golang.org/x/tools/go/callgraph"
	"golang.org/x/tools/go/callgraph/cha"
	"golang.org/x/tools/go/callgraph/vta"
	"golang.org/x/tools/go/packages"
	"golang.org/x/tools/go/ssa"
	"golang.org/x/tools/go/ssa/ssautil"

	"sialint/internal/cfgx"
)

// Module path of the repository under analysis and of its core dependency.
const (
	RepoMod = "go.sia.tech/coreutils"
	CoreMod = "go.sia.tech/core"
)

// Undecided is panicked by lookups when an anchor cannot be resolved; the rule
// runner turns it into an UNDECIDED verdict.
type Undecided struct{ Reason string }

func (u Undecided) Error() string { return u.Reason }

// Fail panics with an Undecided reason.
func Fail(format string, args ...any) { panic(Undecided{fmt.Sprintf(format, args...)}) }

// Prog is the loaded program.
type Prog struct {
	Root  string // absolute directory of the analysed repository
	Fset  *token.FileSet
	Roots []*packages.Package          // packages of the repository, sorted by path
	All   map[string]*packages.Package // every package incl. dependencies, by path
	Funcs []*Func                      // all functions and literals of the repository's non-test files
	byObj map[*types.Func]*Func
	byLit map[*ast.FuncLit]*Func
	files map[*ast.File]*packages.Package

	ssaOnce sync.Once
	SSAProg *ssa.Program
	ssaPkgs []*ssa.Package
	cgOnce  sync.Once
	cg      *callgraph.Graph

	depFuncs map[*types.Func]*Func // lazily built functions of dependency packages
	frozen   map[*types.Var]*frozenInfo
	depDone  map[string]bool

	origNode    map[ast.Node]ast.Node         // copied node → node it was copied from
	origObj     map[types.Object]types.Object // renamed object → declared object
	views       map[viewKey]*Func
	viewSets    map[string]*ViewSet
	loopEscaped map[types.Object]bool // scratch of canonLoops: variables reachable from outside a loop body
	mutRecv     map[*types.Func]bool
	normSeq     int
}

// Func is a declared function, method or function literal with a body.
type Func struct {
	P      *Prog
	Obj    *types.Func // nil for literals
	Decl   *ast.FuncDecl
	Lit    *ast.FuncLit
	Parent *Func // enclosing function for literals
	Pkg    *packages.Package
	Body   *ast.BlockStmt
	Type   *ast.FuncType
	Lits   []*Func // literals directly or indirectly nested, in source order
	name   string
	graph  *cfgx.Graph

	View         bool              // an expanded view produced by Prog.Expand
	Base         *Func             // the loaded function a view was derived from
	flagM        *flagMachine      // per-path flag analysis of the body's graph (set when the graph is built)
	Inlined      []*types.Func     // callees whose bodies were copied into the view
	InlinedCalls map[ast.Node]bool // loaded call expressions expanded in the view
}

// Load loads dir's packages (pattern ./...) with full syntax for dependencies.
// overlay maps absolute file names to replacement contents.
func Load(dir string, overlay map[string][]byte) (*Prog, error) {
	env := os.Environ()
	env = append(env, "GOFLAGS=-mod=mod", "GOPROXY=off", "GOWORK=off")
	cfg := &packages.Config{
		Mode:    packages.LoadAllSyntax,
		Dir:     dir,
		Env:     env,
		Overlay: overlay,
		Tests:   false,
	}
	pkgs, err := packages.Load(cfg, "./...")
	if err != nil {
		return nil, err
	}
	if len(pkgs) == 0 {
		return nil, fmt.Errorf("no packages loaded from %s", dir)
	}
	absDir, _ := filepath.Abs(dir)
	p := &Prog{Root: absDir, All: map[string]*packages.Package{}, byObj: map[*types.Func]*Func{}, byLit: map[*ast.FuncLit]*Func{}, files: map[*ast.File]*packages.Package{},
		origNode: map[ast.Node]ast.Node{}, origObj: map[types.Object]types.Object{}}
	var errs []string
	packages.Visit(pkgs, nil, func(pkg *packages.Package) {
		p.All[pkg.PkgPath] = pkg
		if p.Fset == nil && pkg.Fset != nil {
			p.Fset = pkg.Fset
		}
		if strings.HasPrefix(pkg.PkgPath, RepoMod) || strings.HasPrefix(pkg.PkgPath, CoreMod) {
			for _, e := range pkg.Errors {
				errs = append(errs, e.Error())
			}
		}
	})
	if len(errs) > 0 {
		return nil, fmt.Errorf("type errors: %s", strings.Join(errs, "; "))
	}
	sort.Slice(pkgs, func(i, j int) bool { return pkgs[i].PkgPath < pkgs[j].PkgPath })
	p.Roots = pkgs
	for _, pkg := range pkgs {
		p.indexPkg(pkg, true)
	}
	if os.Getenv("SIALINT_NODETEMP") == "" {
		// canonical spelling: no variables that merely name an intermediate value
		for _, pkg := range pkgs {
			for _, file := range pkg.Syntax {
				for _, d := range file.Decls {
					if fd, ok := d.(*ast.FuncDecl); ok && fd.Body != nil {
						if os.Getenv("SIALINT_NOSROA") == "" {
							p.sroa(pkg.TypesInfo, fd.Body)
						}
						p.detemp(pkg.TypesInfo, fd.Body)
						if os.Getenv("SIALINT_NOSEARCH") == "" {
							p.desugarSearch(pkg.TypesInfo, fd.Body)
						}
						if os.Getenv("SIALINT_NOLOOPS") == "" {
							p.canonLoops(pkg.TypesInfo, fd.Body)
							p.detemp(pkg.TypesInfo, fd.Body)
						}
					}
				}
			}
		}
	}
	return p, nil
}

func (p *Prog) indexPkg(pkg *packages.Package, repo bool) {
	for _, file := range pkg.Syntax {
		p.files[file] = pkg
		for _, d := range file.Decls {
			fd, ok := d.(*ast.FuncDecl)
			if !ok || fd.Body == nil {
				continue
			}
			obj, _ := pkg.TypesInfo.Defs[fd.Name].(*types.Func)
			f := &Func{P: p, Obj: obj, Decl: fd, Pkg: pkg, Body: fd.Body, Type: fd.Type}
			f.name = funcName(obj)
			if repo {
				p.byObj[obj] = f
				p.Funcs = append(p.Funcs, f)
			} else {
				p.depFuncs[obj] = f
			}
			p.indexLits(f, f, fd.Body, repo)
		}
		// literals in package-level var initialisers
		for _, d := range file.Decls {
			gd, ok := d.(*ast.GenDecl)
			if !ok {
				continue
			}
			ast.Inspect(gd, func(n ast.Node) bool {
				if lit, ok := n.(*ast.FuncLit); ok {
					f := &Func{P: p, Lit: lit, Pkg: pkg, Body: lit.Body, Type: lit.Type, name: pkg.Types.Name() + ".init$lit"}
					p.byLit[lit] = f
					if repo {
						p.Funcs = append(p.Funcs, f)
					}
					p.indexLits(f, f, lit.Body, repo)
					return false
				}
				return true
			})
		}
	}
}

func (p *Prog) indexLits(top, parent *Func, body ast.Node, repo bool) {
	ast.Inspect(body, func(n ast.Node) bool {
		lit, ok := n.(*ast.FuncLit)
		if !ok {
			return true
		}
		f := &Func{P: p, Lit: lit, Parent: parent, Pkg: parent.Pkg, Body: lit.Body, Type: lit.Type}
		top.Lits = append(top.Lits, f)
		if top != parent {
			parent.Lits = append(parent.Lits, f)
		}
		f.name = fmt.Sprintf("%s$%d", top.name, len(top.Lits))
		p.byLit[lit] = f
		if repo {
			p.Funcs = append(p.Funcs, f)
		}
		p.indexLits(top, f, lit.Body, repo)
		return false
	})
}

func funcName(obj *types.Func) string {
	if obj == nil {
		return "?"
	}
	sig := obj.Type().(*types.Signature)
	pkg := ""
	if obj.Pkg() != nil {
		pkg = obj.Pkg().Name()
	}
	if r := sig.Recv(); r != nil {
		t := r.Type()
		ptr := ""
		if pt, ok := t.(*types.Pointer); ok {
			t = pt.Elem()
			ptr = "*"
		}
		tn := "?"
		if nt, ok := t.(*types.Named); ok {
			tn = nt.Obj().Name()
		}
		if ptr != "" {
			return fmt.Sprintf("%s.(*%s).%s", pkg, tn, obj.Name())
		}
		return fmt.Sprintf("%s.%s.%s", pkg, tn, obj.Name())
	}
	return pkg + "." + obj.Name()
}

// Name is the stable display name, e.g. chain.(*Manager).AddBlocks or chain.(*Manager).AddBlocks$1.
func (f *Func) Name() string { return f.name }

// Top returns the outermost enclosing declared function.
func (f *Func) Top() *Func {
	for f.Parent != nil {
		f = f.Parent
	}
	return f
}

// Info returns the type information of the function's package.
func (f *Func) Info() *types.Info { return f.Pkg.TypesInfo }

// Graph returns the (cached) statement-level control-flow graph.
func (f *Func) Graph() *cfgx.Graph {
	if f.graph == nil {
		f.graph = cfgx.NewGraph(f.Body, func(c *ast.CallExpr) bool { return !f.noReturn(c) })
		f.pruneFlagEdges(f.graph)
	}
	return f.graph
}

func (f *Func) noReturn(c *ast.CallExpr) bool {
	if id, ok := c.Fun.(*ast.Ident); ok {
		if b, ok := f.Info().Uses[id].(*types.Builtin); ok && b.Name() == "panic" {
			return true
		}
	}
	if fn := f.Callee(c); fn != nil && fn.Pkg() != nil {
		switch fn.Pkg().Path() + "." + fn.Name() {
		case "os.Exit", "log.Fatal", "log.Fatalf", "log.Fatalln", "log.Panic", "log.Panicf", "runtime.Goexit":
			return true
		}
		if fn.Pkg().Path() == "go.uber.org/zap" && (fn.Name() == "Fatal" || fn.Name() == "Panic") {
			return true
		}
	}
	return false
}

// FuncOf returns the repository function for a types.Func, or nil.
func (p *Prog) FuncOf(obj *types.Func) *Func {
	if obj == nil {
		return nil
	}
	if f := p.byObj[obj.Origin()]; f != nil {
		return f
	}
	return nil
}

// LitOf returns the Func of a function literal.
func (p *Prog) LitOf(l *ast.FuncLit) *Func { return p.byLit[l] }

// DepFunc returns the function body of a dependency-package function (loaded
// with syntax because LoadAllSyntax is used), or nil.
func (p *Prog) DepFunc(obj *types.Func) *Func {
	if obj == nil || obj.Pkg() == nil {
		return nil
	}
	if f := p.FuncOf(obj); f != nil {
		return f
	}
	if p.depFuncs == nil {
		p.depFuncs = map[*types.Func]*Func{}
	}
	obj = obj.Origin()
	if f, ok := p.depFuncs[obj]; ok {
		return f
	}
	pkg := p.All[obj.Pkg().Path()]
	if pkg == nil || len(pkg.Syntax) == 0 {
		return nil
	}
	if !p.depDone[pkg.PkgPath] {
		if p.depDone == nil {
			p.depDone = map[string]bool{}
		}
		p.depDone[pkg.PkgPath] = true
		p.indexPkg(pkg, false)
	}
	return p.depFuncs[obj]
}

// Pos renders a position relative to the repository root.
func (p *Prog) Pos(pos token.Pos) string {
	if !pos.IsValid() {
		return "-"
	}
	ps := p.Fset.Position(pos)
	name := ps.Filename
	if p.Root != "" && strings.HasPrefix(name, p.Root+"/") {
		name = name[len(p.Root)+1:]
	}
	return fmt.Sprintf("%s:%d:%d", name, ps.Line, ps.Column)
}

// ---------------------------------------------------------------------------
// lookups (panic with Undecided when the anchor is gone)

// PkgPath expands a short package name used in rule tables.
func PkgPath(short string) string {
	switch short {
	case "coreutils":
		return RepoMod
	case "chain", "wallet", "syncer", "threadgroup", "testutil":
		return RepoMod + "/" + short
	case "rhp":
		return RepoMod + "/rhp/v4"
	case "consensus", "types", "gateway":
		return CoreMod + "/" + short
	case "rhp4":
		return CoreMod + "/rhp/v4"
	}
	return short
}

// Package returns a loaded package by short name or path.
func (p *Prog) Package(short string) *packages.Package {
	pkg := p.All[PkgPath(short)]
	if pkg == nil {
		Fail("package %s not loaded", short)
	}
	return pkg
}

// Named returns the named type pkg.name.
func (p *Prog) Named(pkg, name string) *types.Named {
	obj := p.Package(pkg).Types.Scope().Lookup(name)
	tn, ok := obj.(*types.TypeName)
	if !ok {
		Fail("type %s.%s not found", pkg, name)
	}
	nt, ok := tn.Type().(*types.Named)
	if !ok {
		Fail("type %s.%s is not a named type", pkg, name)
	}
	return nt
}

// Method returns the method (concrete or interface) name of type pkg.typ.
func (p *Prog) Method(pkg, typ, name string) *types.Func {
	nt := p.Named(pkg, typ)
	obj, _, _ := types.LookupFieldOrMethod(types.NewPointer(nt), true, nt.Obj().Pkg(), name)
	if fn, ok := obj.(*types.Func); ok {
		return fn
	}
	if it, ok := nt.Underlying().(*types.Interface); ok {
		for i := 0; i < it.NumMethods(); i++ {
			if it.Method(i).Name() == name {
				return it.Method(i)
			}
		}
	}
	Fail("method %s.%s.%s not found", pkg, typ, name)
	return nil
}

// HasMethod reports whether pkg.typ has a method called name.
func (p *Prog) HasMethod(pkg, typ, name string) (ok bool) {
	defer func() {
		if r := recover(); r != nil {
			ok = false
		}
	}()
	return p.Method(pkg, typ, name) != nil
}

// Field returns the struct field pkg.typ.name.
func (p *Prog) Field(pkg, typ, name string) *types.Var {
	nt := p.Named(pkg, typ)
	st, ok := nt.Underlying().(*types.Struct)
	if !ok {
		Fail("%s.%s is not a struct", pkg, typ)
	}
	for i := 0; i < st.NumFields(); i++ {
		if st.Field(i).Name() == name {
			return st.Field(i)
		}
	}
	Fail("field %s.%s.%s not found", pkg, typ, name)
	return nil
}

// FuncObj returns the package-level function pkg.name.
func (p *Prog) FuncObj(pkg, name string) *types.Func {
	fn, ok := p.Package(pkg).Types.Scope().Lookup(name).(*types.Func)
	if !ok {
		Fail("function %s.%s not found", pkg, name)
	}
	return fn
}

// Fn returns the repository Func for pkg.name (typ=="" for package functions).
func (p *Prog) Fn(pkg, typ, name string) *Func {
	var obj *types.Func
	if typ == "" {
		obj = p.FuncObj(pkg, name)
	} else {
		obj = p.Method(pkg, typ, name)
	}
	f := p.FuncOf(obj)
	if f == nil {
		Fail("no body for %s.%s.%s", pkg, typ, name)
	}
	return f
}

// MethodsOf lists the repository methods declared on named type pkg.typ, sorted by name.
func (p *Prog) MethodsOf(pkg, typ string) []*Func {
	nt := p.Named(pkg, typ)
	var out []*Func
	for _, f := range p.Funcs {
		if f.Obj == nil {
			continue
		}
		r := f.Obj.Type().(*types.Signature).Recv()
		if r == nil {
			continue
		}
		t := r.Type()
		if pt, ok := t.(*types.Pointer); ok {
			t = pt.Elem()
		}
		if n, ok := t.(*types.Named); ok && n.Obj() == nt.Obj() {
			out = append(out, f)
		}
	}
	sort.Slice(out, func(i, j int) bool { return out[i].Name() < out[j].Name() })
	return out
}

// PkgFuncs lists all declared functions (not literals) of a repository package.
func (p *Prog) PkgFuncs(pkg string) []*Func {
	path := PkgPath(pkg)
	var out []*Func
	for _, f := range p.Funcs {
		if f.Obj != nil && f.Pkg.PkgPath == path {
			out = append(out, f)
		}
	}
	return out
}

// ---------------------------------------------------------------------------
// SSA and call graph (built on demand)

// SSA builds (once) and returns the SSA program and the repository's SSA packages.
func (p *Prog) SSA() (*ssa.Program, []*ssa.Package) {
	p.ssaOnce.Do(func() {
		prog, pkgs := ssautil.AllPackages(p.Roots, ssa.InstantiateGenerics)
		prog.Build()
		p.SSAProg, p.ssaPkgs = prog, pkgs
	})
	return p.SSAProg, p.ssaPkgs
}

// CallGraph builds (once) the VTA call graph over all functions.
func (p *Prog) CallGraph() *callgraph.Graph {
	p.cgOnce.Do(func() {
		prog, _ := p.SSA()
		fns := ssautil.AllFunctions(prog)
		p.cg = vta.CallGraph(fns, cha.CallGraph(prog))
	})
	return p.cg
}

// SSAFunc returns the SSA function of a repository function (nil for literals).
func (p *Prog) SSAFunc(f *Func) *ssa.Function {
	prog, _ := p.SSA()
	if f.Obj == nil {
		return nil
	}
	return prog.FuncValue(f.Obj)
}

// FieldPath resolves a chain of field names starting at struct type pkg.typ,
// descending through anonymous struct types (e.g. Manager.txpool.txns).
func (p *Prog) FieldPath(pkg, typ string, names ...string) *types.Var {
	var t types.Type = p.Named(pkg, typ)
	var v *types.Var
	for _, name := range names {
		for {
			if pt, ok := t.(*types.Pointer); ok {
				t = pt.Elem()
				continue
			}
			break
		}
		st, ok := t.Underlying().(*types.Struct)
		if !ok {
			Fail("%s.%s: %s is not in a struct", pkg, typ, name)
		}
		v = nil
		for i := 0; i < st.NumFields(); i++ {
			if st.Field(i).Name() == name {
				v = st.Field(i)
			}
		}
		if v == nil {
			Fail("field %s.%s...%s not found", pkg, typ, name)
		}
		t = v.Type()
	}
	return v
}

// FieldOr resolves struct field pkg.typ.name; when no field has that name
// (e.g. after a rename) it falls back to the unique field whose type satisfies pred.
func (p *Prog) FieldOr(pkg, typ, name string, pred func(types.Type) bool) *types.Var {
	nt := p.Named(pkg, typ)
	st, ok := nt.Underlying().(*types.Struct)
	if !ok {
		Fail("%s.%s is not a struct", pkg, typ)
	}
	for i := 0; i < st.NumFields(); i++ {
		if st.Field(i).Name() == name {
			return st.Field(i)
		}
	}
	var found *types.Var
	for i := 0; i < st.NumFields(); i++ {
		if pred != nil && pred(st.Field(i).Type()) {
			if found != nil {
				Fail("field %s.%s.%s not found and its type is not unique", pkg, typ, name)
			}
			found = st.Field(i)
		}
	}
	if found == nil {
		Fail("field %s.%s.%s not found", pkg, typ, name)
	}
	return found
}

// FieldDeep is FieldOr that also looks one level down: when typ has neither a
// field called name nor a unique field whose type satisfies pred, the struct
// types of the same package that typ holds as fields (by value or pointer) are
// searched for a unique field satisfying pred (state grouped into a helper type).
func (p *Prog) FieldDeep(pkg, typ, name string, pred func(types.Type) bool) *types.Var {
	nt := p.Named(pkg, typ)
	st, ok := nt.Underlying().(*types.Struct)
	if !ok {
		Fail("%s.%s is not a struct", pkg, typ)
	}
	for i := 0; i < st.NumFields(); i++ {
		if st.Field(i).Name() == name {
			return st.Field(i)
		}
	}
	var found []*types.Var
	for i := 0; i < st.NumFields(); i++ {
		if pred != nil && pred(st.Field(i).Type()) {
			found = append(found, st.Field(i))
		}
	}
	if len(found) == 0 && pred != nil {
		for i := 0; i < st.NumFields(); i++ {
			t := st.Field(i).Type()
			if pt, ok := t.Underlying().(*types.Pointer); ok {
				t = pt.Elem()
			}
			in, ok := t.(*types.Named)
			if !ok || in.Obj().Pkg() != nt.Obj().Pkg() {
				continue
			}
			ist, ok := in.Underlying().(*types.Struct)
			if !ok {
				continue
			}
			for j := 0; j < ist.NumFields(); j++ {
				if pred(ist.Field(j).Type()) {
					found = append(found, ist.Field(j))
				}
			}
		}
	}
	if len(found) != 1 {
		Fail("field %s.%s.%s not found (and no unique field of its type, directly or in a helper struct)", pkg, typ, name)
	}
	return found[0]
}

// frozenVar reports whether the package-level variable v of pkg is initialised by a keyed composite literal and
// never written again anywhere in the package (no assignment to it or to one of its fields, no address taken, no
// inc/dec), and returns that literal.
func (p *Prog) frozenVar(pkg *packages.Package, v *types.Var) (*ast.CompositeLit, bool) {
	if p.frozen == nil {
		p.frozen = map[*types.Var]*frozenInfo{}
	}
	if fi, ok := p.frozen[v]; ok {
		return fi.init, fi.ok
	}
	fi := &frozenInfo{ok: true}
	p.frozen[v] = fi
	rootIs := func(e ast.Expr) bool {
		for {
			switch t := ast.Unparen(e).(type) {
			case *ast.SelectorExpr:
				e = t.X
			case *ast.IndexExpr:
				e = t.X
			case *ast.StarExpr:
				e = t.X
			case *ast.Ident:
				return pkg.TypesInfo.Uses[t] == types.Object(v)
			default:
				return false
			}
		}
	}
	for _, file := range pkg.Syntax {
		ast.Inspect(file, func(n ast.Node) bool {
			switch t := n.(type) {
			case *ast.ValueSpec:
				for i, nm := range t.Names {
					if pkg.TypesInfo.Defs[nm] == types.Object(v) && i < len(t.Values) {
						if cl, ok := ast.Unparen(t.Values[i]).(*ast.CompositeLit); ok {
							fi.init = cl
						}
					}
				}
			case *ast.AssignStmt:
				for _, l := range t.Lhs {
					if rootIs(l) {
						fi.ok = false
					}
				}
			case *ast.IncDecStmt:
				if rootIs(t.X) {
					fi.ok = false
				}
			case *ast.UnaryExpr:
				if t.Op == token.AND && rootIs(t.X) {
					fi.ok = false
				}
			case *ast.RangeStmt:
				for _, e := range []ast.Expr{t.Key, t.Value} {
					if e != nil && rootIs(e) {
						fi.ok = false
					}
				}
			case *ast.CallExpr:
				// a method with a pointer receiver called on the variable takes its address
				if sel, ok := ast.Unparen(t.Fun).(*ast.SelectorExpr); ok {
					if s := pkg.TypesInfo.Selections[sel]; s != nil && s.Kind() == types.MethodVal && rootIs(sel.X) {
						if fn, ok := s.Obj().(*types.Func); ok {
							if r := fn.Type().(*types.Signature).Recv(); r != nil {
								if _, isPtr := r.Type().(*types.Pointer); isPtr {
									fi.ok = false
								}
							}
						}
					}
				}
			}
			return true
		})
	}
	if fi.init == nil {
		fi.ok = false
	}
	return fi.init, fi.ok
}

type frozenInfo struct {
	init *ast.CompositeLit
	ok   bool
}
