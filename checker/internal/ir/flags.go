package ir

import (
	"go/ast"
	"go/token"
	"go/types"
	"os"
	"sort"

	"sialint/internal/cfgx"
)

// pruneFlagEdges removes branch edges that are infeasible because of the value
// of a *local flag*: a variable declared in the function, never address-taken,
// never written inside a function literal, that is either a bool or of a
// nilable type (error and other interfaces, pointers, slices, maps, funcs).
// A forward dataflow keeps, per flag, the set of values it may hold at each
// node — {true,false} for a bool, {non-nil,nil} for a nilable — where a write
// of a constant, of nil, or of a syntactically non-nil value (`&x`, `new`,
// `make`, a function literal, fmt.Errorf, errors.New), or a copy of another
// flag, is exact and every other write is "either". On the true/false edge of a
// leaf condition that is the flag, its negation, or `flag ==/!= nil`, the set
// is narrowed, and an edge with an empty set is deleted. This is what makes
// `ok := false; …; ok = true; …; if !ok { cleanup }`, copies of deferred
// conditional clean-ups (Expand with Defers), and `x, err = helper()` in two
// arms of a branch followed by one joint `if err != nil` (after the helpers are
// inlined) path-exact instead of merged. Only provably infeasible edges are
// removed, so no rule can lose a real path.
func (f *Func) pruneFlagEdges(g *cfgx.Graph) { f.pruneFlagEdgesN(g, 0) }

func (f *Func) pruneFlagEdgesN(g *cfgx.Graph, depth int) {
	if os.Getenv("SIALINT_NOFLAGS") != "" {
		return
	}
	info := f.Info()
	flags := map[types.Object]int{}
	bad := map[types.Object]bool{}
	boolConst := func(e ast.Expr) (bool, bool) {
		tv, ok := info.Types[e]
		if !ok || tv.Value == nil {
			return false, false
		}
		switch tv.Value.String() {
		case "true":
			return true, true
		case "false":
			return false, true
		}
		return false, false
	}
	// kind of a tracked variable: 1 bool, 2 nilable, 0 not tracked
	varKind := func(o types.Object) int {
		v, ok := o.(*types.Var)
		if !ok || v.IsField() {
			return 0
		}
		switch t := v.Type().Underlying().(type) {
		case *types.Basic:
			if t.Kind() == types.Bool {
				return 1
			}
		case *types.Interface, *types.Pointer, *types.Slice, *types.Map, *types.Signature, *types.Chan:
			return 2
		}
		return 0
	}
	objOf := func(e ast.Expr) types.Object {
		id, ok := ast.Unparen(e).(*ast.Ident)
		if !ok {
			return nil
		}
		if o := info.Uses[id]; o != nil {
			return o
		}
		return info.Defs[id]
	}
	isNil := func(e ast.Expr) bool {
		id, ok := ast.Unparen(e).(*ast.Ident)
		if !ok {
			return false
		}
		_, ok = info.Uses[id].(*types.Nil)
		return ok
	}
	// nilTest: `x != nil` / `x == nil` over an identifier
	nilTest := func(e ast.Expr) (types.Object, bool, bool) {
		be, ok := ast.Unparen(e).(*ast.BinaryExpr)
		if !ok || (be.Op != token.NEQ && be.Op != token.EQL) {
			return nil, false, false
		}
		var x ast.Expr
		switch {
		case isNil(be.Y):
			x = be.X
		case isNil(be.X):
			x = be.Y
		default:
			return nil, false, false
		}
		o := objOf(x)
		if o == nil {
			return nil, false, false
		}
		return o, be.Op == token.NEQ, true
	}
	declared := map[types.Object]bool{}
	tested := map[types.Object]bool{}
	var scan func(n ast.Node, inLit bool)
	scan = func(n ast.Node, inLit bool) {
		ast.Inspect(n, func(m ast.Node) bool {
			switch t := m.(type) {
			case *ast.FuncLit:
				if m != n {
					scan(t.Body, true)
					return false
				}
			case *ast.AssignStmt:
				for _, l := range t.Lhs {
					o := objOf(l)
					if o == nil || varKind(o) == 0 {
						continue
					}
					if id, ok := l.(*ast.Ident); ok && t.Tok == token.DEFINE && info.Defs[id] != nil && !inLit {
						declared[o] = true
					}
					if inLit {
						if info.Defs[identOf(l)] == nil { // assigned (not declared) inside a literal
							bad[o] = true
						}
						continue
					}
				}
			case *ast.ValueSpec:
				for _, nm := range t.Names {
					o := info.Defs[nm]
					if o == nil || varKind(o) == 0 || inLit {
						continue
					}
					declared[o] = true
				}
			case *ast.UnaryExpr:
				if t.Op == token.AND {
					if o := objOf(t.X); o != nil {
						bad[o] = true
					}
				}
			case *ast.RangeStmt:
				for _, e := range []ast.Expr{t.Key, t.Value} {
					if e != nil {
						if o := objOf(e); o != nil {
							bad[o] = true
						}
					}
				}
			case *ast.TypeSwitchStmt, *ast.SelectStmt:
				// variables bound by these statements are not tracked
				ast.Inspect(t, func(k ast.Node) bool {
					if as, ok := k.(*ast.AssignStmt); ok && as.Tok == token.DEFINE {
						if _, isTS := t.(*ast.TypeSwitchStmt); isTS && as == t.(*ast.TypeSwitchStmt).Assign {
							for _, l := range as.Lhs {
								if o := objOf(l); o != nil {
									bad[o] = true
								}
							}
						}
					}
					if cc, ok := k.(*ast.CommClause); ok {
						if as, ok := cc.Comm.(*ast.AssignStmt); ok {
							for _, l := range as.Lhs {
								if o := objOf(l); o != nil {
									bad[o] = true
								}
							}
						}
					}
					return true
				})
			}
			return true
		})
	}
	scan(g.Body, false)
	// only variables that some leaf condition tests are worth tracking
	for _, n := range g.Nodes {
		for _, e := range n.Succs {
			if e.Cond == nil {
				continue
			}
			if o := objOf(e.Cond); o != nil && varKind(o) == 1 {
				tested[o] = true
			} else if o, _, ok := nilTest(e.Cond); ok && varKind(o) == 2 {
				tested[o] = true
			}
		}
	}
	var cands []types.Object
	for o := range declared {
		if !bad[o] && tested[o] {
			cands = append(cands, o)
		}
	}
	sort.Slice(cands, func(i, j int) bool { return cands[i].Pos() < cands[j].Pos() })
	if len(cands) > 128 {
		cands = cands[:128]
	}
	for i, o := range cands {
		flags[o] = i
	}
	if os.Getenv("SIALINT_DEBUGFLAGS") != "" {
		println("flags", f.Name(), len(flags), len(declared), len(tested))
		for o := range declared {
			println("  declared", o.Name(), bad[o], tested[o])
		}
	}
	if len(flags) == 0 {
		return
	}
	// state: 2 bits per flag (1 = may be true / non-nil, 2 = may be false / nil)
	type state [4]uint64
	unknownAll := state{^uint64(0), ^uint64(0), ^uint64(0), ^uint64(0)}
	get := func(s state, i int) uint64 { return (s[i/32] >> (2 * uint(i%32))) & 3 }
	set := func(s state, i int, v uint64) state {
		s[i/32] = s[i/32]&^(3<<(2*uint(i%32))) | v<<(2*uint(i%32))
		return s
	}
	join := func(a, b state) state {
		for i := range a {
			a[i] |= b[i]
		}
		return a
	}
	in := map[*cfgx.Node]state{}
	reached := map[*cfgx.Node]bool{}
	// at entry nothing is declared yet; a flag reads as "unknown" until its declaration is seen
	in[g.Entry] = unknownAll
	reached[g.Entry] = true
	// valueOf: what is known about the value of r (for a variable of kind k) in state s
	valueOf := func(s state, r ast.Expr, k int) uint64 {
		r = ast.Unparen(r)
		if k == 1 {
			if v, isConst := boolConst(r); isConst {
				if v {
					return 1
				}
				return 2
			}
		} else {
			if isNil(r) {
				return 2
			}
			switch x := r.(type) {
			case *ast.UnaryExpr:
				if x.Op == token.AND {
					return 1
				}
			case *ast.FuncLit:
				return 1
			case *ast.CallExpr:
				switch fn := ast.Unparen(x.Fun).(type) {
				case *ast.Ident:
					if b, ok := info.Uses[fn].(*types.Builtin); ok && (b.Name() == "new" || b.Name() == "make") {
						return 1
					}
				case *ast.SelectorExpr:
					if o, ok := info.Uses[fn.Sel].(*types.Func); ok && o.Pkg() != nil {
						switch o.Pkg().Path() + "." + o.Name() {
						case "fmt.Errorf", "errors.New":
							return 1
						}
					}
				}
				// a repository constructor of errors (every return of it yields a non-nil error)
				if tv, ok := info.Types[x]; ok && tv.Type != nil && IsErrorType(tv.Type) {
					if callee := f.Callee(x); callee != nil && f.P.AlwaysErr(callee, 1) {
						return 1
					}
				}
			}
		}
		if o := objOf(r); o != nil {
			if j, ok := flags[o]; ok {
				return get(s, j)
			}
		}
		return 3
	}
	transfer := func(n *cfgx.Node, s state) state {
		if n.AST == nil {
			return s
		}
		pre := s
		apply := func(l ast.Expr, r ast.Expr, zero bool) {
			o := objOf(l)
			i, ok := flags[o]
			if o == nil || !ok {
				return
			}
			switch {
			case zero:
				s = set(s, i, 2)
			case r == nil:
				s = set(s, i, 3)
			default:
				s = set(s, i, valueOf(pre, r, varKind(o)))
			}
		}
		switch t := n.AST.(type) {
		case *ast.AssignStmt:
			for i := range t.Lhs {
				if len(t.Lhs) == len(t.Rhs) && (t.Tok == token.ASSIGN || t.Tok == token.DEFINE) {
					apply(t.Lhs[i], t.Rhs[i], false)
				} else {
					apply(t.Lhs[i], nil, false)
				}
			}
		case *ast.ValueSpec: // the graph holds one node per var spec
			for i, nm := range t.Names {
				if len(t.Values) == 0 {
					apply(nm, nil, true)
				} else if len(t.Values) == len(t.Names) {
					apply(nm, t.Values[i], false)
				} else {
					apply(nm, nil, false)
				}
			}
		case *ast.DeclStmt:
			if gd, ok := t.Decl.(*ast.GenDecl); ok {
				for _, sp := range gd.Specs {
					if vs, ok := sp.(*ast.ValueSpec); ok {
						for i, nm := range vs.Names {
							if len(vs.Values) == 0 {
								apply(nm, nil, true)
							} else if len(vs.Values) == len(vs.Names) {
								apply(nm, vs.Values[i], false)
							} else {
								apply(nm, nil, false)
							}
						}
					}
				}
			}
		default:
			// any other statement holding an assignment to a flag (if/for/switch init are separate nodes)
		}
		return s
	}
	// which flag does a leaf condition test?
	condFlag := func(e *cfgx.Edge) (int, bool, bool) {
		if e.Cond == nil || (e.Kind != cfgx.True && e.Kind != cfgx.False) {
			return 0, false, false
		}
		if o := objOf(e.Cond); o != nil {
			if i, ok := flags[o]; ok && varKind(o) == 1 {
				return i, e.Kind == cfgx.True, true
			}
			return 0, false, false
		}
		if o, nonNilOnTrue, ok := nilTest(e.Cond); ok {
			if i, ok := flags[o]; ok && varKind(o) == 2 {
				return i, (e.Kind == cfgx.True) == nonNilOnTrue, true
			}
		}
		return 0, false, false
	}
	refine := func(e *cfgx.Edge, s state) (state, bool) {
		i, wantTrue, ok := condFlag(e)
		if !ok {
			return s, true
		}
		v := get(s, i)
		if wantTrue {
			v &= 1
		} else {
			v &= 2
		}
		if v == 0 {
			return s, false
		}
		return set(s, i, v), true
	}
	work := []*cfgx.Node{g.Entry}
	for len(work) > 0 {
		n := work[len(work)-1]
		work = work[:len(work)-1]
		out := transfer(n, in[n])
		for _, e := range n.Succs {
			ns, feasible := refine(e, out)
			if !feasible {
				continue
			}
			old, was := in[e.To], reached[e.To]
			merged := ns
			if was {
				merged = join(old, ns)
			}
			if !was || merged != old {
				in[e.To] = merged
				reached[e.To] = true
				work = append(work, e.To)
			}
		}
	}
	// jump threading: an edge along which a flag's value is known, and which leads (through empty nodes only) to
	// a condition testing that flag, goes straight to the side of the condition that value selects. This keeps
	// `x, err = a()` / `x, err = b()` in two arms followed by one joint `if err != nil` path-exact.
	isEmpty := func(n *cfgx.Node) bool {
		if n.Exit || n == g.Entry || len(n.Succs) != 1 {
			return false
		}
		if n.AST == nil {
			return true
		}
		_, ok := n.AST.(*ast.EmptyStmt)
		return ok
	}
	redirect := func(e *cfgx.Edge, to *cfgx.Node) {
		var preds []*cfgx.Edge
		for _, p := range e.To.Preds {
			if p != e {
				preds = append(preds, p)
			}
		}
		e.To.Preds = preds
		e.To = to
		to.Preds = append(to.Preds, e)
	}
	threaded := false
	for _, p := range g.Nodes {
		if !reached[p] {
			continue
		}
		out := transfer(p, in[p])
		for _, e := range p.Succs {
			st, feasible := refine(e, out)
			if !feasible {
				continue
			}
			for hops := 0; hops < 8; hops++ {
				n := e.To
				for k := 0; k < 8 && isEmpty(n); k++ {
					n = n.Succs[0].To
				}
				if n == p || len(n.Succs) != 2 {
					break
				}
				i, _, isTest := condFlag(n.Succs[0])
				j, _, isTest2 := condFlag(n.Succs[1])
				if !isTest || !isTest2 || i != j {
					break
				}
				if v := get(st, i); v != 1 && v != 2 {
					break
				}
				var tgt *cfgx.Edge
				cnt := 0
				for _, sc := range n.Succs {
					if _, ok := refine(sc, st); ok {
						tgt = sc
						cnt++
					}
				}
				if cnt != 1 {
					break
				}
				redirect(e, tgt.To)
				reached[tgt.To] = true
				threaded = true
			}
		}
	}
	if threaded && depth < 4 {
		// the states were computed for the old edges: start over on the threaded graph
		f.pruneFlagEdgesN(g, depth+1)
		return
	}
	// delete edges that are infeasible in the fixpoint
	for _, n := range g.Nodes {
		if !reached[n] || len(n.Succs) != 2 {
			continue
		}
		out := transfer(n, in[n])
		var keep []*cfgx.Edge
		for _, e := range n.Succs {
			if _, feasible := refine(e, out); feasible {
				keep = append(keep, e)
				continue
			}
			// unlink from the target's predecessors
			var preds []*cfgx.Edge
			for _, p := range e.To.Preds {
				if p != e {
					preds = append(preds, p)
				}
			}
			e.To.Preds = preds
		}
		n.Succs = keep
	}
	// nodes that lost their last way in are dead: detach them, so that backward walks do not take them for entries
	live := map[*cfgx.Node]bool{g.Entry: true}
	work = []*cfgx.Node{g.Entry}
	for len(work) > 0 {
		n := work[len(work)-1]
		work = work[:len(work)-1]
		for _, e := range n.Succs {
			if !live[e.To] {
				live[e.To] = true
				work = append(work, e.To)
			}
		}
	}
	for _, n := range g.Nodes {
		if live[n] || len(n.Succs) == 0 {
			continue
		}
		for _, e := range n.Succs {
			var preds []*cfgx.Edge
			for _, p := range e.To.Preds {
				if p != e {
					preds = append(preds, p)
				}
			}
			e.To.Preds = preds
		}
		n.Succs = nil
	}
}
