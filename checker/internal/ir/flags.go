package ir

import (
	"go/ast"
	"go/constant"
	"go/token"
	"go/types"
	"os"
	"sort"

	"sialint/internal/cfgx"
)

// pruneFlagEdges removes branch edges that are infeasible because of the value
// of a *local flag*: a variable declared in the function, never address-taken,
// never written inside a function literal, that is either a bool or of a
// nilable type (error and other interfaces, pointers, slices, maps, funcs).
// A forward dataflow keeps, per flag, the set of values it may hold at each
// node — {true,false} for a bool, {non-nil,nil} for a nilable — where a write
// of a constant, of nil, or of a syntactically non-nil value (`&x`, `new`,
// `make`, a function literal, fmt.Errorf, errors.New), or a copy of another
// flag, is exact and every other write is "either". On the true/false edge of a
// leaf condition that is the flag, its negation, or `flag ==/!= nil`, the set
// is narrowed, and an edge with an empty set is deleted. This is what makes
// `ok := false; …; ok = true; …; if !ok { cleanup }`, copies of deferred
// conditional clean-ups (Expand with Defers), and `x, err = helper()` in two
// arms of a branch followed by one joint `if err != nil` (after the helpers are
// inlined) path-exact instead of merged. Only provably infeasible edges are
// removed, so no rule can lose a real path.
func (f *Func) pruneFlagEdges(g *cfgx.Graph) { f.pruneFlagEdgesN(g, 0) }

// fstate holds, per tracked flag, two bits: 1 = may be true / non-nil, 2 = may be false / nil.
type fstate [4]uint64

// flagMachine is the per-path version of the flag analysis: transfer applies a
// node's writes to a valuation, refine narrows it along an edge and reports
// whether the edge is feasible under it.
type flagMachine struct {
	index    map[types.Object]int // tracked variable → position in a valuation
	keep     fstate               // positions whose value is kept along a path (the others are forgotten at once)
	unknown  fstate
	transfer func(*cfgx.Node, fstate) fstate
	refine   func(*cfgx.Edge, fstate) (fstate, bool)
}

// exploreFlags walks the graph from the given start points (an edge to start
// after, or the entry when start is nil), following only paths that are
// feasible for some valuation of the function's flags, never crossing an edge
// in cut and not continuing past a node accepted by stop. It returns one
// witness visit per reached node (nodes accepted by stop are not reported). ok
// is false when the function has no flags worth following or the walk grows
// too large; the caller then uses the path-insensitive graph walk.
func (f *Func) exploreFlags(after []*cfgx.Edge, cut map[*cfgx.Edge]bool, stop func(*cfgx.Node) bool) (map[*cfgx.Node]*cfgx.Visit, bool) {
	g := f.Graph()
	m := f.flagM
	if m == nil {
		return nil, false
	}
	type key struct {
		n *cfgx.Node
		s fstate
	}
	type item struct {
		v *cfgx.Visit
		s fstate
	}
	seen := map[key]bool{}
	res := map[*cfgx.Node]*cfgx.Visit{}
	var queue []item
	if after == nil {
		queue = append(queue, item{cfgx.StartAt(g.Entry, 0), m.unknown})
	}
	for _, e := range after {
		if s, ok := m.refine(e, m.unknown); ok {
			queue = append(queue, item{cfgx.StartAfter(e, 0), s})
		}
	}
	for len(queue) > 0 {
		it := queue[0]
		queue = queue[1:]
		n := it.v.Node
		if stop != nil && stop(n) {
			continue
		}
		s := m.transfer(n, it.s)
		k := key{n, s}
		if seen[k] {
			continue
		}
		seen[k] = true
		if len(seen) > 400000 {
			return nil, false
		}
		if _, ok := res[n]; !ok {
			res[n] = it.v
		}
		for _, e := range n.Succs {
			if cut[e] {
				continue
			}
			ns, ok := m.refine(e, s)
			if !ok {
				continue
			}
			queue = append(queue, item{&cfgx.Visit{Node: e.To, Prev: it.v, Via: e}, ns})
		}
	}
	return res, true
}

func (f *Func) pruneFlagEdgesN(g *cfgx.Graph, depth int) {
	if os.Getenv("SIALINT_NOFLAGS") != "" {
		return
	}
	info := f.Info()
	flags := map[types.Object]int{}
	bad := map[types.Object]bool{}
	boolConst := func(e ast.Expr) (bool, bool) {
		tv, ok := info.Types[e]
		if !ok || tv.Value == nil {
			// a copy of the predeclared constants put in a parameter's place by the expansion
			if id, isID := ast.Unparen(e).(*ast.Ident); isID {
				switch info.Uses[id] {
				case types.Universe.Lookup("true"):
					return true, true
				case types.Universe.Lookup("false"):
					return false, true
				}
				if info.Uses[id] == nil && info.Defs[id] == nil {
					switch id.Name {
					case "true":
						return true, true
					case "false":
						return false, true
					}
				}
			}
			return false, false
		}
		switch tv.Value.String() {
		case "true":
			return true, true
		case "false":
			return false, true
		}
		return false, false
	}
	// kind of a tracked variable: 1 bool, 2 nilable, 0 not tracked
	varKind := func(o types.Object) int {
		v, ok := o.(*types.Var)
		if !ok || v.IsField() {
			return 0
		}
		switch t := v.Type().Underlying().(type) {
		case *types.Basic:
			if t.Kind() == types.Bool {
				return 1
			}
			// a string is followed like a nilable value, the empty string standing for nil (`if reason != ""`)
			if t.Kind() == types.String {
				return 2
			}
		case *types.Interface, *types.Pointer, *types.Slice, *types.Map, *types.Signature, *types.Chan:
			return 2
		}
		return 0
	}
	objOf := func(e ast.Expr) types.Object {
		id, ok := ast.Unparen(e).(*ast.Ident)
		if !ok {
			return nil
		}
		if o := info.Uses[id]; o != nil {
			return o
		}
		return info.Defs[id]
	}
	isNil := func(e ast.Expr) bool {
		if tv, has := info.Types[ast.Unparen(e)]; has && tv.Value != nil && tv.Value.Kind() == constant.String {
			return constant.StringVal(tv.Value) == ""
		}
		// the typed zero the aggregate splitting writes for a field a literal leaves out
		if cl, isLit := ast.Unparen(e).(*ast.CompositeLit); isLit && cl.Type == nil && len(cl.Elts) == 0 {
			if tv, has := info.Types[cl]; has && tv.Type != nil {
				switch t := tv.Type.Underlying().(type) {
				case *types.Interface, *types.Pointer, *types.Slice, *types.Map, *types.Signature, *types.Chan:
					return true
				case *types.Basic:
					return t.Kind() == types.String
				}
			}
			return false
		}
		id, ok := ast.Unparen(e).(*ast.Ident)
		if !ok {
			return false
		}
		_, ok = info.Uses[id].(*types.Nil)
		return ok
	}
	// nilTest: `x != nil` / `x == nil` over an identifier
	nilTest := func(e ast.Expr) (types.Object, bool, bool) {
		be, ok := ast.Unparen(e).(*ast.BinaryExpr)
		if !ok || (be.Op != token.NEQ && be.Op != token.EQL) {
			return nil, false, false
		}
		var x ast.Expr
		switch {
		case isNil(be.Y):
			x = be.X
		case isNil(be.X):
			x = be.Y
		default:
			return nil, false, false
		}
		o := objOf(x)
		if o == nil {
			return nil, false, false
		}
		return o, be.Op == token.NEQ, true
	}
	declared := map[types.Object]bool{}
	tested := map[types.Object]bool{}
	var scan func(n ast.Node, inLit bool)
	scan = func(n ast.Node, inLit bool) {
		ast.Inspect(n, func(m ast.Node) bool {
			switch t := m.(type) {
			case *ast.FuncLit:
				if m != n {
					scan(t.Body, true)
					return false
				}
			case *ast.AssignStmt:
				for _, l := range t.Lhs {
					o := objOf(l)
					if o == nil || varKind(o) == 0 {
						continue
					}
					if id, ok := l.(*ast.Ident); ok && t.Tok == token.DEFINE && info.Defs[id] != nil && !inLit {
						declared[o] = true
					}
					if inLit {
						if info.Defs[identOf(l)] == nil { // assigned (not declared) inside a literal
							bad[o] = true
						}
						continue
					}
				}
			case *ast.ValueSpec:
				for _, nm := range t.Names {
					o := info.Defs[nm]
					if o == nil || varKind(o) == 0 || inLit {
						continue
					}
					declared[o] = true
				}
			case *ast.UnaryExpr:
				if t.Op == token.AND {
					if o := objOf(t.X); o != nil {
						bad[o] = true
					}
				}
			case *ast.RangeStmt:
				for _, e := range []ast.Expr{t.Key, t.Value} {
					if e != nil {
						if o := objOf(e); o != nil {
							bad[o] = true
						}
					}
				}
			case *ast.TypeSwitchStmt, *ast.SelectStmt:
				// variables bound by these statements are not tracked
				ast.Inspect(t, func(k ast.Node) bool {
					if as, ok := k.(*ast.AssignStmt); ok && as.Tok == token.DEFINE {
						if _, isTS := t.(*ast.TypeSwitchStmt); isTS && as == t.(*ast.TypeSwitchStmt).Assign {
							for _, l := range as.Lhs {
								if o := objOf(l); o != nil {
									bad[o] = true
								}
							}
						}
					}
					if cc, ok := k.(*ast.CommClause); ok {
						if as, ok := cc.Comm.(*ast.AssignStmt); ok {
							for _, l := range as.Lhs {
								if o := objOf(l); o != nil {
									bad[o] = true
								}
							}
						}
					}
					return true
				})
			}
			return true
		})
	}
	scan(g.Body, false)
	// named results are locals too (zero at entry; the analysis starts them as "either", which is weaker)
	if f.Type != nil && f.Type.Results != nil {
		for _, fld := range f.Type.Results.List {
			for _, nm := range fld.Names {
				if o := info.Defs[nm]; o != nil && varKind(o) != 0 {
					declared[o] = true
				}
			}
		}
	}
	// only variables that some leaf condition tests are worth tracking
	for _, n := range g.Nodes {
		for _, e := range n.Succs {
			if e.Cond == nil {
				continue
			}
			if o := objOf(e.Cond); o != nil && varKind(o) == 1 {
				tested[o] = true
			} else if o, _, ok := nilTest(e.Cond); ok && varKind(o) == 2 {
				tested[o] = true
			}
		}
	}
	// a bool that is returned as it stands is followed too: rules ask what a path reports at its exit
	for _, n := range g.Nodes {
		if rs, ok := n.AST.(*ast.ReturnStmt); ok {
			for _, r := range rs.Results {
				if o := objOf(r); o != nil && declared[o] && varKind(o) == 1 {
					tested[o] = true
				}
			}
		}
	}
	// a variable that is explicitly set to nil somewhere is followed too: rules ask whether it is empty at an exit
	for _, n := range g.Nodes {
		as, ok := n.AST.(*ast.AssignStmt)
		if !ok || len(as.Lhs) != len(as.Rhs) {
			continue
		}
		for i, l := range as.Lhs {
			if o := objOf(l); o != nil && declared[o] && varKind(o) == 2 && isNil(as.Rhs[i]) {
				tested[o] = true
			}
		}
	}
	// `missing := x == nil` with a tested `missing`: x is followed too, so that the test of the flag tells about x
	for _, n := range g.Nodes {
		as, ok := n.AST.(*ast.AssignStmt)
		if !ok || len(as.Lhs) != 1 || len(as.Rhs) != 1 {
			continue
		}
		if b := objOf(as.Lhs[0]); b != nil && tested[b] && varKind(b) == 1 {
			if xo, _, ok := nilTest(as.Rhs[0]); ok && declared[xo] && varKind(xo) == 2 {
				tested[xo] = true
			}
		}
	}
	// a variable whose value is copied into a tracked one is tracked too (its own test may be in code that the
	// threading of an expanded helper left unreachable)
	for changed := true; changed; {
		changed = false
		for _, n := range g.Nodes {
			as, ok := n.AST.(*ast.AssignStmt)
			if !ok || len(as.Lhs) != len(as.Rhs) {
				continue
			}
			for i, l := range as.Lhs {
				lo, ro := objOf(l), objOf(as.Rhs[i])
				if lo == nil || ro == nil || !tested[lo] || tested[ro] || !declared[ro] || varKind(ro) != varKind(lo) {
					continue
				}
				tested[ro] = true
				changed = true
			}
		}
	}
	var cands []types.Object
	for o := range declared {
		if !bad[o] && tested[o] {
			cands = append(cands, o)
		}
	}
	sort.Slice(cands, func(i, j int) bool { return cands[i].Pos() < cands[j].Pos() })
	if len(cands) > 128 {
		cands = cands[:128]
	}
	for i, o := range cands {
		flags[o] = i
	}
	// links: a bool flag defined exactly once, as a nil comparison of a followed variable. A pseudo flag records
	// whether that variable is unchanged since (then a test of the flag narrows the variable as well)
	type link struct {
		b, x, valid  int
		nilMeansTrue bool
		def          *ast.AssignStmt
	}
	var links []*link
	linkOfB := map[int]*link{}
	linksOfX := map[int][]*link{}
	{
		nwrites := map[types.Object]int{}
		ast.Inspect(g.Body, func(m ast.Node) bool {
			switch t := m.(type) {
			case *ast.AssignStmt:
				for _, l := range t.Lhs {
					if o := objOf(l); o != nil {
						nwrites[o]++
					}
				}
			case *ast.IncDecStmt:
				if o := objOf(t.X); o != nil {
					nwrites[o]++
				}
			}
			return true
		})
		next := len(cands)
		for _, n := range g.Nodes {
			as, ok := n.AST.(*ast.AssignStmt)
			if !ok || len(as.Lhs) != 1 || len(as.Rhs) != 1 || next >= 128 {
				continue
			}
			bo := objOf(as.Lhs[0])
			bi, okB := flags[bo]
			if bo == nil || !okB || varKind(bo) != 1 || nwrites[bo] != 1 {
				continue
			}
			xo, nonNilOnTrue, ok := nilTest(as.Rhs[0])
			xi, okX := flags[xo]
			if !ok || !okX || varKind(xo) != 2 {
				continue
			}
			l := &link{b: bi, x: xi, valid: next, nilMeansTrue: !nonNilOnTrue, def: as}
			next++
			links = append(links, l)
			linkOfB[bi] = l
			linksOfX[xi] = append(linksOfX[xi], l)
		}
	}
	if os.Getenv("SIALINT_DEBUGFLAGS") != "" {
		println("flags", f.Name(), len(flags), len(declared), len(tested))
		for o := range declared {
			println("  declared", o.Name(), bad[o], tested[o])
		}
	}
	if len(flags) == 0 {
		// no variable to follow, but a condition that is a constant (a parameter replaced by `true`) still has one side
		pruned := false
		for _, n := range g.Nodes {
			if len(n.Succs) != 2 {
				continue
			}
			var keep []*cfgx.Edge
			for _, e := range n.Succs {
				if e.Cond != nil && (e.Kind == cfgx.True || e.Kind == cfgx.False) {
					if v, isConst := boolConst(e.Cond); isConst && v != (e.Kind == cfgx.True) {
						var preds []*cfgx.Edge
						for _, p := range e.To.Preds {
							if p != e {
								preds = append(preds, p)
							}
						}
						e.To.Preds = preds
						pruned = true
						continue
					}
				}
				keep = append(keep, e)
			}
			n.Succs = keep
		}
		if pruned {
			live := map[*cfgx.Node]bool{g.Entry: true}
			work := []*cfgx.Node{g.Entry}
			for len(work) > 0 {
				n := work[len(work)-1]
				work = work[:len(work)-1]
				for _, e := range n.Succs {
					if !live[e.To] {
						live[e.To] = true
						work = append(work, e.To)
					}
				}
			}
			for _, n := range g.Nodes {
				if live[n] || len(n.Succs) == 0 {
					continue
				}
				for _, e := range n.Succs {
					var preds []*cfgx.Edge
					for _, p := range e.To.Preds {
						if p != e {
							preds = append(preds, p)
						}
					}
					e.To.Preds = preds
				}
				n.Succs = nil
			}
		}
		return
	}
	// state: 2 bits per flag (1 = may be true / non-nil, 2 = may be false / nil)
	type state = fstate
	unknownAll := state{^uint64(0), ^uint64(0), ^uint64(0), ^uint64(0)}
	get := func(s state, i int) uint64 { return (s[i/32] >> (2 * uint(i%32))) & 3 }
	set := func(s state, i int, v uint64) state {
		s[i/32] = s[i/32]&^(3<<(2*uint(i%32))) | v<<(2*uint(i%32))
		return s
	}
	join := func(a, b state) state {
		for i := range a {
			a[i] |= b[i]
		}
		return a
	}
	in := map[*cfgx.Node]state{}
	reached := map[*cfgx.Node]bool{}
	// at entry nothing is declared yet; a flag reads as "unknown" until its declaration is seen
	in[g.Entry] = unknownAll
	reached[g.Entry] = true
	// valueOf: what is known about the value of r (for a variable of kind k) in state s
	valueOf := func(s state, r ast.Expr, k int) uint64 {
		r = ast.Unparen(r)
		if k == 1 {
			if v, isConst := boolConst(r); isConst {
				if v {
					return 1
				}
				return 2
			}
			if xo, nonNilOnTrue, ok := nilTest(r); ok {
				if j, ok := flags[xo]; ok {
					switch get(s, j) {
					case 1: // non-nil
						if nonNilOnTrue {
							return 1
						}
						return 2
					case 2: // nil
						if nonNilOnTrue {
							return 2
						}
						return 1
					}
				}
			}
		} else {
			if isNil(r) {
				return 2
			}
			if tv, has := info.Types[r]; has && tv.Value != nil && tv.Value.Kind() == constant.String {
				return 1 // a non-empty constant string
			}
			// a package-level error variable (a sentinel such as ErrFutureBlock) is not nil
			switch x := r.(type) {
			case *ast.Ident:
				if v, ok := info.Uses[x].(*types.Var); ok && v.Pkg() != nil && v.Parent() == v.Pkg().Scope() && IsErrorType(v.Type()) {
					return 1
				}
			case *ast.SelectorExpr:
				if v, ok := info.Uses[x.Sel].(*types.Var); ok && !v.IsField() && v.Pkg() != nil && v.Parent() == v.Pkg().Scope() && IsErrorType(v.Type()) {
					return 1
				}
			}
			switch x := r.(type) {
			case *ast.UnaryExpr:
				if x.Op == token.AND {
					return 1
				}
			case *ast.FuncLit:
				return 1
			case *ast.CallExpr:
				switch fn := ast.Unparen(x.Fun).(type) {
				case *ast.Ident:
					if b, ok := info.Uses[fn].(*types.Builtin); ok && (b.Name() == "new" || b.Name() == "make") {
						return 1
					}
				case *ast.SelectorExpr:
					if o, ok := info.Uses[fn.Sel].(*types.Func); ok && o.Pkg() != nil {
						switch o.Pkg().Path() + "." + o.Name() {
						case "fmt.Errorf", "errors.New":
							return 1
						case "fmt.Sprintf":
							// a constant format that starts with literal text yields a non-empty string
							if len(x.Args) > 0 {
								if tv, has := info.Types[ast.Unparen(x.Args[0])]; has && tv.Value != nil && tv.Value.Kind() == constant.String {
									if fs := constant.StringVal(tv.Value); fs != "" && fs[0] != '%' {
										return 1
									}
								}
							}
						}
					}
				}
				// errors.Join is non-nil when one of its operands is (a sentinel, or any of the forms above)
				if callee := f.Callee(x); callee != nil && callee.Pkg() != nil && callee.Pkg().Path() == "errors" && callee.Name() == "Join" {
					for _, a := range x.Args {
						if joinOperandNonNil(f, a) {
							return 1
						}
					}
				}
				// a repository constructor of errors (every return of it yields a non-nil error)
				if tv, ok := info.Types[x]; ok && tv.Type != nil && IsErrorType(tv.Type) {
					if callee := f.Callee(x); callee != nil && f.P.AlwaysErr(callee, 1) {
						return 1
					}
				}
			}
		}
		if o := objOf(r); o != nil {
			if j, ok := flags[o]; ok {
				return get(s, j)
			}
		}
		return 3
	}
	transfer := func(n *cfgx.Node, s state) state {
		if n.AST == nil {
			return s
		}
		pre := s
		apply := func(l ast.Expr, r ast.Expr, zero bool) {
			o := objOf(l)
			i, ok := flags[o]
			if o == nil || !ok {
				return
			}
			switch {
			case zero:
				s = set(s, i, 2)
			case r == nil:
				s = set(s, i, 3)
			default:
				s = set(s, i, valueOf(pre, r, varKind(o)))
			}
			for _, l := range linksOfX[i] { // the variable a flag was computed from changes: the flag no longer tells
				s = set(s, l.valid, 2)
			}
		}
		switch t := n.AST.(type) {
		case *ast.AssignStmt:
			for i := range t.Lhs {
				if len(t.Lhs) == len(t.Rhs) && (t.Tok == token.ASSIGN || t.Tok == token.DEFINE) {
					apply(t.Lhs[i], t.Rhs[i], false)
				} else {
					apply(t.Lhs[i], nil, false)
				}
			}
		case *ast.ValueSpec: // the graph holds one node per var spec
			for i, nm := range t.Names {
				if len(t.Values) == 0 {
					apply(nm, nil, true)
				} else if len(t.Values) == len(t.Names) {
					apply(nm, t.Values[i], false)
				} else {
					apply(nm, nil, false)
				}
			}
		case *ast.DeclStmt:
			if gd, ok := t.Decl.(*ast.GenDecl); ok {
				for _, sp := range gd.Specs {
					if vs, ok := sp.(*ast.ValueSpec); ok {
						for i, nm := range vs.Names {
							if len(vs.Values) == 0 {
								apply(nm, nil, true)
							} else if len(vs.Values) == len(vs.Names) {
								apply(nm, vs.Values[i], false)
							} else {
								apply(nm, nil, false)
							}
						}
					}
				}
			}
		default:
			// any other statement holding an assignment to a flag (if/for/switch init are separate nodes)
		}
		if as, ok := n.AST.(*ast.AssignStmt); ok {
			for _, l := range links {
				if l.def == as {
					s = set(s, l.valid, 1)
				}
			}
		}
		return s
	}
	// which flag does a leaf condition test?
	condFlag := func(e *cfgx.Edge) (int, bool, bool) {
		if e.Cond == nil || (e.Kind != cfgx.True && e.Kind != cfgx.False) {
			return 0, false, false
		}
		if o := objOf(e.Cond); o != nil {
			if i, ok := flags[o]; ok && varKind(o) == 1 {
				return i, e.Kind == cfgx.True, true
			}
			return 0, false, false
		}
		if o, nonNilOnTrue, ok := nilTest(e.Cond); ok {
			if i, ok := flags[o]; ok && varKind(o) == 2 {
				return i, (e.Kind == cfgx.True) == nonNilOnTrue, true
			}
		}
		return 0, false, false
	}
	refine := func(e *cfgx.Edge, s state) (state, bool) {
		i, wantTrue, ok := condFlag(e)
		if !ok {
			// a condition that is a constant (left over from an expanded `return true`) has one feasible side
			if e.Cond != nil && (e.Kind == cfgx.True || e.Kind == cfgx.False) {
				if v, isConst := boolConst(e.Cond); isConst && v != (e.Kind == cfgx.True) {
					return s, false
				}
			}
			return s, true
		}
		v := get(s, i)
		if wantTrue {
			v &= 1
		} else {
			v &= 2
		}
		if v == 0 {
			return s, false
		}
		s = set(s, i, v)
		if l := linkOfB[i]; l != nil && get(s, l.valid) == 1 {
			// the flag was computed from a variable that has not changed since: its test tells about the variable
			want := uint64(1)
			if wantTrue == l.nilMeansTrue {
				want = 2
			}
			xv := get(s, l.x) & want
			if xv == 0 {
				return s, false
			}
			s = set(s, l.x, xv)
		}
		return s, true
	}
	work := []*cfgx.Node{g.Entry}
	for len(work) > 0 {
		n := work[len(work)-1]
		work = work[:len(work)-1]
		out := transfer(n, in[n])
		for _, e := range n.Succs {
			ns, feasible := refine(e, out)
			if !feasible {
				continue
			}
			old, was := in[e.To], reached[e.To]
			merged := ns
			if was {
				merged = join(old, ns)
			}
			if !was || merged != old {
				in[e.To] = merged
				reached[e.To] = true
				work = append(work, e.To)
			}
		}
	}
	// jump threading: an edge along which a flag's value is known, and which leads (through empty nodes only) to
	// a condition testing that flag, goes straight to the side of the condition that value selects. This keeps
	// `x, err = a()` / `x, err = b()` in two arms followed by one joint `if err != nil` path-exact.
	isEmpty := func(n *cfgx.Node) bool {
		if n.Exit || n == g.Entry || len(n.Succs) != 1 {
			return false
		}
		if n.AST == nil {
			return true
		}
		_, ok := n.AST.(*ast.EmptyStmt)
		return ok
	}
	redirect := func(e *cfgx.Edge, to *cfgx.Node) {
		var preds []*cfgx.Edge
		for _, p := range e.To.Preds {
			if p != e {
				preds = append(preds, p)
			}
		}
		e.To.Preds = preds
		e.To = to
		to.Preds = append(to.Preds, e)
	}
	threaded := false
	for _, p := range g.Nodes {
		if !reached[p] {
			continue
		}
		out := transfer(p, in[p])
		for _, e := range p.Succs {
			st, feasible := refine(e, out)
			if !feasible {
				continue
			}
			for hops := 0; hops < 8; hops++ {
				n := e.To
				for k := 0; k < 8 && isEmpty(n); k++ {
					n = n.Succs[0].To
				}
				if n == p || len(n.Succs) != 2 {
					break
				}
				i, _, isTest := condFlag(n.Succs[0])
				j, _, isTest2 := condFlag(n.Succs[1])
				if !isTest || !isTest2 || i != j {
					break
				}
				if v := get(st, i); v != 1 && v != 2 {
					break
				}
				var tgt *cfgx.Edge
				cnt := 0
				for _, sc := range n.Succs {
					if _, ok := refine(sc, st); ok {
						tgt = sc
						cnt++
					}
				}
				if cnt != 1 {
					break
				}
				redirect(e, tgt.To)
				reached[tgt.To] = true
				threaded = true
			}
		}
	}
	if threaded && depth < 4 {
		// the states were computed for the old edges: start over on the threaded graph
		f.pruneFlagEdgesN(g, depth+1)
		return
	}
	// the machine is kept for path-sensitive queries (OnlyVia, ReachableFromEdges): there only the flags whose value
	// can be correlated over a distance matter — tested at two places or more, or written at two places or more
	{
		tests, writes := map[int]int{}, map[int]int{}
		for _, n := range g.Nodes {
			if len(n.Succs) == 2 {
				if i, _, ok := condFlag(n.Succs[0]); ok {
					tests[i]++
				}
			}
			if n.AST == nil {
				continue
			}
			count := func(l ast.Expr) {
				if i, ok := flags[objOf(l)]; ok {
					writes[i]++
				}
			}
			switch t := n.AST.(type) {
			case *ast.AssignStmt:
				for _, l := range t.Lhs {
					count(l)
				}
			case *ast.ValueSpec:
				if len(t.Values) > 0 {
					for _, nm := range t.Names {
						count(nm)
					}
				}
			}
		}
		var mask state
		nTracked := 0
		for _, i := range flags {
			if tests[i] >= 2 || writes[i] >= 2 || tests[i] == 0 {
				mask[i/32] |= 3 << (2 * uint(i%32))
				nTracked++
			}
		}
		for _, l := range links {
			for _, i := range []int{l.b, l.x, l.valid} {
				mask[i/32] |= 3 << (2 * uint(i%32))
			}
			nTracked++
		}
		forget := func(s state) state {
			for k := range s {
				s[k] |= ^mask[k]
			}
			return s
		}
		if nTracked > 0 {
			f.flagM = &flagMachine{
				index:    flags,
				keep:     mask,
				unknown:  unknownAll,
				transfer: func(n *cfgx.Node, s fstate) fstate { return forget(transfer(n, s)) },
				refine: func(e *cfgx.Edge, s fstate) (fstate, bool) {
					ns, ok := refine(e, s)
					return forget(ns), ok
				},
			}
		}
	}
	// delete edges that are infeasible in the fixpoint
	for _, n := range g.Nodes {
		if !reached[n] || len(n.Succs) != 2 {
			continue
		}
		out := transfer(n, in[n])
		var keep []*cfgx.Edge
		for _, e := range n.Succs {
			if _, feasible := refine(e, out); feasible {
				keep = append(keep, e)
				continue
			}
			// unlink from the target's predecessors
			var preds []*cfgx.Edge
			for _, p := range e.To.Preds {
				if p != e {
					preds = append(preds, p)
				}
			}
			e.To.Preds = preds
		}
		n.Succs = keep
	}
	// nodes that lost their last way in are dead: detach them, so that backward walks do not take them for entries
	live := map[*cfgx.Node]bool{g.Entry: true}
	work = []*cfgx.Node{g.Entry}
	for len(work) > 0 {
		n := work[len(work)-1]
		work = work[:len(work)-1]
		for _, e := range n.Succs {
			if !live[e.To] {
				live[e.To] = true
				work = append(work, e.To)
			}
		}
	}
	for _, n := range g.Nodes {
		if live[n] || len(n.Succs) == 0 {
			continue
		}
		for _, e := range n.Succs {
			var preds []*cfgx.Edge
			for _, p := range e.To.Preds {
				if p != e {
					preds = append(preds, p)
				}
			}
			e.To.Preds = preds
		}
		n.Succs = nil
	}
}

// ExploreFeasible is Graph.Explore restricted to paths that are feasible for
// some valuation of the function's flags (see pruneFlagEdges): the walker's own
// state is carried alongside the valuation. A start visit placed after an edge
// begins with what that edge's condition establishes; the entry begins with
// nothing known. Without flags worth following (or when the product grows too
// large) it is Graph.Explore.
func (f *Func) ExploreFeasible(start []*cfgx.Visit, w cfgx.Walker) []*cfgx.Visit {
	return f.ExploreFeasibleWith(start, w, nil)
}

// ExploreFeasibleWith is ExploreFeasible that shows every visit to inspect
// together with what the path knows about followed variables on arrival at the
// node: val(obj) has bit 1 set when obj may be true / non-nil there and bit 2
// when it may be false / nil (3 for a variable that is not followed).
func (f *Func) ExploreFeasibleWith(start []*cfgx.Visit, w cfgx.Walker, inspect func(v *cfgx.Visit, val func(types.Object) uint64)) []*cfgx.Visit {
	g := f.Graph()
	m := f.flagM
	if m == nil {
		vs := g.Explore(start, w)
		if inspect != nil {
			for _, v := range vs {
				inspect(v, func(types.Object) uint64 { return 3 })
			}
		}
		return vs
	}
	type key struct {
		n *cfgx.Node
		u cfgx.State
		s fstate
	}
	type item struct {
		v *cfgx.Visit
		s fstate
	}
	seen := map[key]bool{}
	var out []*cfgx.Visit
	var queue []item
	for _, v := range start {
		s := m.unknown
		if v.Via != nil {
			ns, ok := m.refine(v.Via, s)
			if !ok {
				continue
			}
			s = ns
		}
		queue = append(queue, item{&cfgx.Visit{Node: v.Node, State: v.State, Prev: v.Prev, Via: v.Via}, s})
	}
	for len(queue) > 0 {
		it := queue[0]
		queue = queue[1:]
		v := it.v
		u, cont := v.State, true
		if w.AtNode != nil {
			u, cont = w.AtNode(v.Node, v.State)
		}
		fs := m.transfer(v.Node, it.s)
		k := key{v.Node, u, fs}
		if seen[k] {
			continue
		}
		seen[k] = true
		if len(seen) > 400000 {
			return f.exploreInsensitive(start, w, inspect)
		}
		v.State = u
		out = append(out, v)
		if inspect != nil {
			pre := it.s
			inspect(v, func(o types.Object) uint64 {
				i, ok := m.index[o]
				if !ok || (m.keep[i/32]>>(2*uint(i%32)))&3 != 3 {
					return 3
				}
				return (pre[i/32] >> (2 * uint(i%32))) & 3
			})
		}
		if !cont {
			continue
		}
		for _, e := range v.Node.Succs {
			nu, ok := u, true
			if w.OnEdge != nil {
				nu, ok = w.OnEdge(e, u)
			}
			if !ok {
				continue
			}
			nfs, feasible := m.refine(e, fs)
			if !feasible {
				continue
			}
			queue = append(queue, item{&cfgx.Visit{Node: e.To, State: nu, Prev: v, Via: e}, nfs})
		}
	}
	return out
}

// NilAt reports what the per-path flag analysis knows about the nilable local
// obj when control arrives at node n: mayBeNil is true when some feasible path
// from the entry arrives with obj possibly nil (witness is such a path);
// tracked is false when obj is not a variable the analysis follows (then
// nothing is known).
func (f *Func) NilAt(n *cfgx.Node, obj types.Object) (mayBeNil bool, witness *cfgx.Visit, tracked bool) {
	g := f.Graph()
	m := f.flagM
	if m == nil || n == nil {
		return false, nil, false
	}
	i, ok := m.index[obj]
	if !ok || (m.keep[i/32]>>(2*uint(i%32)))&3 != 3 {
		return false, nil, false
	}
	type key struct {
		n *cfgx.Node
		s fstate
	}
	type item struct {
		v *cfgx.Visit
		s fstate
	}
	seen := map[key]bool{}
	queue := []item{{cfgx.StartAt(g.Entry, 0), m.unknown}}
	for len(queue) > 0 {
		it := queue[0]
		queue = queue[1:]
		if it.v.Node == n && (it.s[i/32]>>(2*uint(i%32)))&2 != 0 {
			return true, it.v, true
		}
		s := m.transfer(it.v.Node, it.s)
		k := key{it.v.Node, s}
		if seen[k] {
			continue
		}
		seen[k] = true
		if len(seen) > 400000 {
			return false, nil, false
		}
		for _, e := range it.v.Node.Succs {
			if ns, ok := m.refine(e, s); ok {
				queue = append(queue, item{&cfgx.Visit{Node: e.To, Prev: it.v, Via: e}, ns})
			}
		}
	}
	return false, nil, true
}

func (f *Func) exploreInsensitive(start []*cfgx.Visit, w cfgx.Walker, inspect func(v *cfgx.Visit, val func(types.Object) uint64)) []*cfgx.Visit {
	vs := f.Graph().Explore(start, w)
	if inspect != nil {
		for _, v := range vs {
			inspect(v, func(types.Object) uint64 { return 3 })
		}
	}
	return vs
}

// joinOperandNonNil: e is syntactically a non-nil error: a package-level
// sentinel, fmt.Errorf / errors.New, or a call of a function that returns a
// non-nil error on every return.
func joinOperandNonNil(f *Func, e ast.Expr) bool {
	e = ast.Unparen(e)
	switch x := e.(type) {
	case *ast.Ident:
		if v, ok := f.Info().Uses[x].(*types.Var); ok && v.Pkg() != nil && v.Parent() == v.Pkg().Scope() && IsErrorType(v.Type()) {
			return true
		}
	case *ast.SelectorExpr:
		if v, ok := f.Info().Uses[x.Sel].(*types.Var); ok && v.Pkg() != nil && v.Parent() == v.Pkg().Scope() && IsErrorType(v.Type()) {
			return true
		}
	case *ast.CallExpr:
		if callee := f.Callee(x); callee != nil {
			if f.P.AlwaysErr(callee, 1) {
				return true
			}
		}
	case *ast.UnaryExpr:
		return x.Op == token.AND
	}
	return false
}
