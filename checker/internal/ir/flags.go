package ir

import (
	"go/ast"
	"go/token"
	"go/types"
	"os"

	"sialint/internal/cfgx"
)

// pruneFlagEdges removes branch edges that are infeasible because of the value
// of a *local boolean flag*: a bool variable declared in the function, never
// address-taken, never written inside a function literal, whose writes are all
// constants (`var b bool`, `b := false`, `b = true`). A forward dataflow keeps,
// per flag, the set of values it may hold at each node; on the true/false edge
// of a leaf condition that is the flag (or its negation) the set is narrowed,
// and an edge with an empty set is deleted. This is what makes
// `ok := false; …; ok = true; …; if !ok { cleanup }` and copies of deferred
// conditional clean-ups (Expand with Defers) path-exact instead of merged.
// Only provably infeasible edges are removed, so no rule can lose a real path.
func (f *Func) pruneFlagEdges(g *cfgx.Graph) {
	if os.Getenv("SIALINT_NOFLAGS") != "" {
		return
	}
	info := f.Info()
	// candidate flags
	type flag struct{ idx int }
	flags := map[types.Object]int{}
	bad := map[types.Object]bool{}
	boolConst := func(e ast.Expr) (bool, bool) {
		tv, ok := info.Types[e]
		if !ok || tv.Value == nil {
			return false, false
		}
		switch tv.Value.String() {
		case "true":
			return true, true
		case "false":
			return false, true
		}
		return false, false
	}
	isBoolVar := func(o types.Object) bool {
		v, ok := o.(*types.Var)
		if !ok || v.IsField() {
			return false
		}
		b, ok := v.Type().Underlying().(*types.Basic)
		return ok && b.Kind() == types.Bool
	}
	objOf := func(e ast.Expr) types.Object {
		id, ok := ast.Unparen(e).(*ast.Ident)
		if !ok {
			return nil
		}
		if o := info.Uses[id]; o != nil {
			return o
		}
		return info.Defs[id]
	}
	declared := map[types.Object]bool{}
	var scan func(n ast.Node, inLit bool)
	scan = func(n ast.Node, inLit bool) {
		ast.Inspect(n, func(m ast.Node) bool {
			switch t := m.(type) {
			case *ast.FuncLit:
				if m != n {
					scan(t.Body, true)
					return false
				}
			case *ast.AssignStmt:
				for i, l := range t.Lhs {
					o := objOf(l)
					if o == nil || !isBoolVar(o) {
						continue
					}
					if id, ok := l.(*ast.Ident); ok && t.Tok == token.DEFINE && info.Defs[id] != nil && !inLit {
						declared[o] = true
					}
					if inLit {
						if info.Defs[identOf(l)] == nil { // assigned (not declared) inside a literal
							bad[o] = true
						}
						continue
					}
					if len(t.Rhs) != len(t.Lhs) || t.Tok == token.AND_ASSIGN || t.Tok == token.OR_ASSIGN {
						bad[o] = true
						continue
					}
					if _, isConst := boolConst(t.Rhs[i]); !isConst {
						bad[o] = true
					}
				}
			case *ast.ValueSpec:
				for i, nm := range t.Names {
					o := info.Defs[nm]
					if o == nil || !isBoolVar(o) || inLit {
						continue
					}
					declared[o] = true
					if len(t.Values) == 0 {
						continue
					}
					if len(t.Values) != len(t.Names) {
						bad[o] = true
					} else if _, isConst := boolConst(t.Values[i]); !isConst {
						bad[o] = true
					}
				}
			case *ast.UnaryExpr:
				if t.Op == token.AND {
					if o := objOf(t.X); o != nil {
						bad[o] = true
					}
				}
			case *ast.RangeStmt:
				for _, e := range []ast.Expr{t.Key, t.Value} {
					if e != nil {
						if o := objOf(e); o != nil {
							bad[o] = true
						}
					}
				}
			}
			return true
		})
	}
	scan(g.Body, false)
	for o := range declared {
		if !bad[o] {
			flags[o] = len(flags)
		}
	}
	if len(flags) == 0 || len(flags) > 16 {
		return
	}
	// state: 2 bits per flag (1 = may be true, 2 = may be false); 0 = unreachable
	type state uint64
	const unknownAll = ^state(0)
	get := func(s state, i int) state { return (s >> (2 * uint(i))) & 3 }
	set := func(s state, i int, v state) state { return s&^(3<<(2*uint(i))) | v<<(2*uint(i)) }
	in := map[*cfgx.Node]state{}
	reached := map[*cfgx.Node]bool{}
	// at entry nothing is declared yet; a flag reads as "unknown" until its declaration is seen
	in[g.Entry] = unknownAll
	reached[g.Entry] = true
	transfer := func(n *cfgx.Node, s state) state {
		if n.AST == nil {
			return s
		}
		apply := func(l ast.Expr, r ast.Expr, zero bool) {
			o := objOf(l)
			i, ok := flags[o]
			if o == nil || !ok {
				return
			}
			if zero {
				s = set(s, i, 2)
				return
			}
			if v, isConst := boolConst(r); isConst {
				if v {
					s = set(s, i, 1)
				} else {
					s = set(s, i, 2)
				}
			} else {
				s = set(s, i, 3)
			}
		}
		switch t := n.AST.(type) {
		case *ast.AssignStmt:
			if len(t.Lhs) == len(t.Rhs) {
				for i := range t.Lhs {
					apply(t.Lhs[i], t.Rhs[i], false)
				}
			}
		case *ast.ValueSpec: // the graph holds one node per var spec
			for i, nm := range t.Names {
				if len(t.Values) == 0 {
					apply(nm, nil, true)
				} else if len(t.Values) == len(t.Names) {
					apply(nm, t.Values[i], false)
				}
			}
		case *ast.DeclStmt:
			if gd, ok := t.Decl.(*ast.GenDecl); ok {
				for _, sp := range gd.Specs {
					if vs, ok := sp.(*ast.ValueSpec); ok {
						for i, nm := range vs.Names {
							if len(vs.Values) == 0 {
								apply(nm, nil, true)
							} else if len(vs.Values) == len(vs.Names) {
								apply(nm, vs.Values[i], false)
							}
						}
					}
				}
			}
		}
		return s
	}
	// which flag does a leaf condition test?
	condFlag := func(e *cfgx.Edge) (int, bool, bool) {
		if e.Cond == nil || (e.Kind != cfgx.True && e.Kind != cfgx.False) {
			return 0, false, false
		}
		o := objOf(e.Cond)
		i, ok := flags[o]
		if o == nil || !ok {
			return 0, false, false
		}
		return i, e.Kind == cfgx.True, true
	}
	refine := func(e *cfgx.Edge, s state) (state, bool) {
		i, wantTrue, ok := condFlag(e)
		if !ok {
			return s, true
		}
		v := get(s, i)
		if wantTrue {
			v &= 1
		} else {
			v &= 2
		}
		if v == 0 {
			return s, false
		}
		return set(s, i, v), true
	}
	work := []*cfgx.Node{g.Entry}
	for len(work) > 0 {
		n := work[len(work)-1]
		work = work[:len(work)-1]
		out := transfer(n, in[n])
		for _, e := range n.Succs {
			ns, feasible := refine(e, out)
			if !feasible {
				continue
			}
			old, was := in[e.To], reached[e.To]
			merged := ns
			if was {
				merged = old | ns
			}
			if !was || merged != old {
				in[e.To] = merged
				reached[e.To] = true
				work = append(work, e.To)
			}
		}
	}
	// delete edges that are infeasible in the fixpoint
	for _, n := range g.Nodes {
		if !reached[n] || len(n.Succs) != 2 {
			continue
		}
		out := transfer(n, in[n])
		var keep []*cfgx.Edge
		for _, e := range n.Succs {
			if _, feasible := refine(e, out); feasible {
				keep = append(keep, e)
				continue
			}
			// unlink from the target's predecessors
			var preds []*cfgx.Edge
			for _, p := range e.To.Preds {
				if p != e {
					preds = append(preds, p)
				}
			}
			e.To.Preds = preds
		}
		n.Succs = keep
	}
	// nodes that lost their last way in are dead: detach them, so that backward walks do not take them for entries
	live := map[*cfgx.Node]bool{g.Entry: true}
	work = []*cfgx.Node{g.Entry}
	for len(work) > 0 {
		n := work[len(work)-1]
		work = work[:len(work)-1]
		for _, e := range n.Succs {
			if !live[e.To] {
				live[e.To] = true
				work = append(work, e.To)
			}
		}
	}
	for _, n := range g.Nodes {
		if live[n] || len(n.Succs) == 0 {
			continue
		}
		for _, e := range n.Succs {
			var preds []*cfgx.Edge
			for _, p := range e.To.Preds {
				if p != e {
					preds = append(preds, p)
				}
			}
			e.To.Preds = preds
		}
		n.Succs = nil
	}
}
