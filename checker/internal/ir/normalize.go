package ir

import (
	"fmt"
	"go/ast"
	"go/constant"
	"go/token"
	"go/types"
	"golang.org/x/tools/go/types/typeutil"
	"os"
	"reflect"
)

// Temporaries. A local variable that only names an intermediate value says
// nothing about behaviour: `h := db.n.RequireHeight; if x <= h` and
// `if x <= db.n.RequireHeight` are the same program. detemp removes such
// variables from a function body (in place), so that every rule sees one
// spelling:
//
//   - single use: `v := E` directly followed by the one statement that uses v,
//     where v is evaluated exactly once by that statement and nothing with an
//     effect is evaluated before it, becomes that statement with E in place of v;
//   - several uses: `v := x.f.g`, a field path without indirection rooted in a
//     local variable that is never written again, is replaced at every use.
//
// v must be defined once, never assigned, never address-taken and not captured
// by a function literal. Typed information of the moved/copied expressions is
// preserved; their positions collapse onto the use, so position lookups resolve
// to the using statement.
func (p *Prog) detemp(info *types.Info, body *ast.BlockStmt) {
	// (one substitution per statement list and round; a struct of a dozen fields split into locals needs a dozen)
	for round := 0; round < 48; round++ {
		d := &detemper{p: p, info: info, body: body}
		d.index()
		if !d.rewriteLists(body) {
			return
		}
	}
}

type detemper struct {
	p    *Prog
	info *types.Info
	body *ast.BlockStmt

	writes      map[types.Object]int          // assignments other than the defining one, &v, partial writes of values
	wholeWrites map[types.Object]int          // of which: assignments to the variable itself
	wsites      map[types.Object][]writeSite  // where those writes are (traversal order, enclosing loops)
	seq         map[ast.Node]int              // traversal order of statements
	loopsOf     map[ast.Node][]ast.Node       // loops enclosing a statement
	uses        map[types.Object][]*ast.Ident // reads (identifier uses) in source order
	captured    map[types.Object]bool         // used inside a function literal other than the one declaring it
}

func (d *detemper) obj(e ast.Expr) types.Object {
	id, ok := ast.Unparen(e).(*ast.Ident)
	if !ok {
		return nil
	}
	if o := d.info.Uses[id]; o != nil {
		return o
	}
	return d.info.Defs[id]
}

type writeSite struct {
	seq   int
	loops []ast.Node
}

func (d *detemper) index() {
	d.writes = map[types.Object]int{}
	d.wholeWrites = map[types.Object]int{}
	d.wsites = map[types.Object][]writeSite{}
	d.seq = map[ast.Node]int{}
	d.loopsOf = map[ast.Node][]ast.Node{}
	counter := 0
	var loopStack []ast.Node
	d.uses = map[types.Object][]*ast.Ident{}
	d.captured = map[types.Object]bool{}
	declLit := map[types.Object]*ast.FuncLit{}
	var lits []*ast.FuncLit
	cur := func() *ast.FuncLit {
		if len(lits) == 0 {
			return nil
		}
		return lits[len(lits)-1]
	}
	markWrite := func(e ast.Expr) {
		whole := true
		for {
			switch t := ast.Unparen(e).(type) {
			case *ast.Ident:
				o := d.obj(t)
				if o == nil {
					return
				}
				// (a store through a pointer does not change the variable, but a variable that is the
				// base of an assignment target is no mere name for a value either)
				if whole {
					d.wholeWrites[o]++
				}
				d.writes[o]++
				d.wsites[o] = append(d.wsites[o], writeSite{counter, append([]ast.Node(nil), loopStack...)})
				return
			case *ast.SelectorExpr:
				if d.info.Selections[t] == nil {
					return
				}
				e, whole = t.X, false
			case *ast.IndexExpr:
				e, whole = t.X, false
			case *ast.StarExpr:
				e, whole = t.X, false
			default:
				return
			}
		}
	}
	var visit func(n ast.Node) bool
	visit = func(n ast.Node) bool {
		if n == nil {
			return false
		}
		counter++
		if st, isStmt := n.(ast.Stmt); isStmt {
			d.seq[st] = counter
			d.loopsOf[st] = append([]ast.Node(nil), loopStack...)
		}
		switch t := n.(type) {
		case *ast.ForStmt, *ast.RangeStmt:
			// children are visited with the loop on the stack
			loopStack = append(loopStack, t)
			switch l := t.(type) {
			case *ast.ForStmt:
				for _, c := range []ast.Node{l.Init, l.Cond, l.Post, l.Body} {
					if c != nil && !isNilNode(c) {
						ast.Inspect(c, visit)
					}
				}
			case *ast.RangeStmt:
				// the range statement's own key/value writes
				for _, e := range []ast.Expr{l.Key, l.Value} {
					if e == nil {
						continue
					}
					if id, ok := e.(*ast.Ident); ok && l.Tok == token.DEFINE && d.info.Defs[id] != nil {
						declLit[d.info.Defs[id]] = cur()
						d.writes[d.info.Defs[id]]++
						continue
					}
					markWrite(e)
				}
				ast.Inspect(l.X, visit)
				ast.Inspect(l.Body, visit)
			}
			loopStack = loopStack[:len(loopStack)-1]
			return false
		case *ast.FuncLit:
			lits = append(lits, t)
			saved := loopStack
			loopStack = append(append([]ast.Node(nil), saved...), t) // a literal may run any number of times
			ast.Inspect(t.Body, visit)
			loopStack = saved
			lits = lits[:len(lits)-1]
			return false
		case *ast.AssignStmt:
			for _, l := range t.Lhs {
				if id, ok := l.(*ast.Ident); ok && t.Tok == token.DEFINE && d.info.Defs[id] != nil {
					declLit[d.info.Defs[id]] = cur()
					continue
				}
				markWrite(l)
			}
		case *ast.ValueSpec:
			for _, nm := range t.Names {
				if o := d.info.Defs[nm]; o != nil {
					declLit[o] = cur()
				}
			}
		case *ast.IncDecStmt:
			markWrite(t.X)
		case *ast.UnaryExpr:
			if t.Op == token.AND {
				x := t.X
				for {
					switch u := ast.Unparen(x).(type) {
					case *ast.SelectorExpr:
						if d.info.Selections[u] != nil {
							x = u.X
							continue
						}
					case *ast.IndexExpr:
						x = u.X
						continue
					}
					break
				}
				if o := d.obj(x); o != nil {
					d.writes[o]++
				}
			}
		case *ast.Ident:
			if o, ok := d.info.Uses[t].(*types.Var); ok && !o.IsField() {
				d.uses[o] = append(d.uses[o], t)
				if dl, known := declLit[o]; known && dl != cur() {
					d.captured[o] = true
				}
			}
		}
		return true
	}
	ast.Inspect(d.body, visit)
}

// rewriteLists applies the rewrite to every statement list below root; reports whether anything changed.
func (d *detemper) rewriteLists(root ast.Node) bool {
	changed := false
	ast.Inspect(root, func(n ast.Node) bool {
		switch t := n.(type) {
		case *ast.BlockStmt:
			var c bool
			t.List, c = d.list(t.List)
			changed = changed || c
		case *ast.CaseClause:
			var c bool
			t.Body, c = d.list(t.Body)
			changed = changed || c
		case *ast.CommClause:
			var c bool
			t.Body, c = d.list(t.Body)
			changed = changed || c
		}
		return true
	})
	return changed
}

func (d *detemper) list(list []ast.Stmt) ([]ast.Stmt, bool) {
	changed := false
	// `a, b := x, y` with effect-free right-hand sides defining fresh variables is `a := x; b := y`
	for i := 0; i < len(list); i++ {
		as, ok := list[i].(*ast.AssignStmt)
		if !ok || as.Tok != token.DEFINE || len(as.Lhs) < 2 || len(as.Lhs) != len(as.Rhs) {
			continue
		}
		split := true
		for j := range as.Lhs {
			id, isID := as.Lhs[j].(*ast.Ident)
			if !isID || (id.Name != "_" && d.info.Defs[id] == nil) || !isPure(d.info, as.Rhs[j]) {
				split = false
			}
		}
		if !split {
			continue
		}
		var parts []ast.Stmt
		for j := range as.Lhs {
			if as.Lhs[j].(*ast.Ident).Name == "_" {
				continue // an effect-free value assigned to the blank identifier
			}
			parts = append(parts, &ast.AssignStmt{Lhs: []ast.Expr{as.Lhs[j]}, TokPos: as.TokPos, Tok: token.DEFINE, Rhs: []ast.Expr{as.Rhs[j]}})
		}
		list = append(list[:i:i], append(parts, list[i+1:]...)...)
		return list, true
	}
	// `if v := E; <cond using v once>` with v not used in the branches: the init only names the condition
	for i := 0; i < len(list); i++ {
		ifs, ok := list[i].(*ast.IfStmt)
		for ok && ifs != nil {
			if ifs.Init != nil {
				if v, e := d.tempDef(ifs.Init); v != nil && len(d.uses[v]) == 1 && !d.captured[v] {
					use := d.uses[v][0]
					inCond := false
					ast.Inspect(ifs.Cond, func(n ast.Node) bool {
						if n == ast.Node(use) {
							inCond = true
						}
						return !inCond
					})
					// the use must be evaluated first and unconditionally: the condition is v, !v, or v op …
					first := ast.Unparen(ifs.Cond)
					for {
						if u, isNot := first.(*ast.UnaryExpr); isNot && u.Op == token.NOT {
							first = ast.Unparen(u.X)
							continue
						}
						if b, isBin := first.(*ast.BinaryExpr); isBin {
							first = ast.Unparen(b.X)
							continue
						}
						break
					}
					if inCond && first == ast.Expr(use) {
						collapsePos(e, use.Pos())
						var repl ast.Expr = e
						switch e.(type) {
						case *ast.Ident, *ast.SelectorExpr, *ast.CallExpr, *ast.IndexExpr, *ast.ParenExpr:
						default:
							repl = &ast.ParenExpr{Lparen: use.Pos(), X: e, Rparen: use.Pos()}
							if tv, has := d.info.Types[e]; has {
								d.info.Types[repl] = tv
							}
						}
						if d.replace(ifs, use, repl) {
							ifs.Init = nil
							return list, true
						}
					}
				}
			}
			ifs, ok = ifs.Else.(*ast.IfStmt)
		}
	}
	for i := 0; i < len(list); i++ {
		v, e := d.tempDef(list[i])
		if v == nil {
			continue
		}
		uses := d.uses[v]
		ok := false
		switch {
		case d.stablePath(e) || d.settledCopy(list[i], e):
			for _, u := range uses {
				d.replace(d.body, u, d.copyExpr(e, u.Pos()))
			}
			simplifyAddrDeref(d.info, d.body)
			ok = true
		case len(uses) == 1 && i+1 < len(list):
			ok = d.substSingle(list[i+1], uses[0], e)
		}
		if ok {
			list = append(list[:i:i], list[i+1:]...)
			i--
			changed = true
			// the index is stale now; finish this list conservatively on the next round
			return list, true
		}
	}
	return list, changed
}

// tempDef recognises `v := E` / `var v = E` defining a removable temporary.
func (d *detemper) tempDef(s ast.Stmt) (*types.Var, ast.Expr) {
	var id *ast.Ident
	var e ast.Expr
	switch t := s.(type) {
	case *ast.AssignStmt:
		if t.Tok != token.DEFINE || len(t.Lhs) != 1 || len(t.Rhs) != 1 {
			return nil, nil
		}
		id, _ = t.Lhs[0].(*ast.Ident)
		e = t.Rhs[0]
	case *ast.DeclStmt:
		gd, ok := t.Decl.(*ast.GenDecl)
		if !ok || gd.Tok != token.VAR || len(gd.Specs) != 1 {
			return nil, nil
		}
		vs := gd.Specs[0].(*ast.ValueSpec)
		if vs.Type != nil || len(vs.Names) != 1 || len(vs.Values) != 1 {
			return nil, nil
		}
		id, e = vs.Names[0], vs.Values[0]
	}
	if id == nil || id.Name == "_" || e == nil {
		return nil, nil
	}
	v, _ := d.info.Defs[id].(*types.Var)
	if v == nil || len(d.uses[v]) == 0 {
		return nil, nil
	}
	if d.writes[v] > 0 {
		// a pointer to a local that is only ever stored *through* is a name for that local
		u, isAddr := ast.Unparen(e).(*ast.UnaryExpr)
		if !isAddr || u.Op != token.AND || d.wholeWrites[v] > 0 || !d.stablePath(e) {
			return nil, nil
		}
	}
	if d.captured[v] && !d.stablePath(e) && !d.settledCopy(s, e) {
		return nil, nil // a closure reads it later: only a value that can never change may be put in its place
	}
	if tv, ok := d.info.Types[e]; ok && tv.Value != nil {
		return nil, nil // constants keep their names
	}
	if _, isLit := ast.Unparen(e).(*ast.FuncLit); isLit {
		return nil, nil // closures are handled by expansion
	}
	if _, isTuple := d.info.TypeOf(e).(*types.Tuple); isTuple {
		return nil, nil
	}
	// an expression holding a function literal stays where it is: its statements have positions of their own,
	// which a substituted operand cannot keep
	hasLit := false
	ast.Inspect(e, func(n ast.Node) bool {
		if _, ok := n.(*ast.FuncLit); ok {
			hasLit = true
		}
		return !hasLit
	})
	if hasLit {
		return nil, nil
	}
	// the variable's type must be the expression's own type (no implicit conversion to an interface etc.)
	if et := d.info.TypeOf(e); et == nil || !types.Identical(et, v.Type()) {
		return nil, nil
	}
	return v, e
}

// stablePath: x.f.g without indirection, rooted in a local variable that is never written (again).
// settledCopy: `v := w` where every write of the local w happens before this statement and outside any
// loop that also contains it: from here on w and v denote the same value.
func (d *detemper) settledCopy(def ast.Stmt, e ast.Expr) bool {
	id, ok := ast.Unparen(e).(*ast.Ident)
	if !ok {
		return false
	}
	o, ok := d.obj(id).(*types.Var)
	if !ok || o.IsField() || o.Pkg() == nil || o.Parent() == o.Pkg().Scope() || d.captured[o] {
		return false
	}
	at, known := d.seq[def]
	if !known {
		return false
	}
	inLoop := map[ast.Node]bool{}
	for _, l := range d.loopsOf[def] {
		inLoop[l] = true
	}
	for _, w := range d.wsites[o] {
		if w.seq >= at {
			return false
		}
		for _, l := range w.loops {
			if inLoop[l] {
				return false
			}
		}
	}
	return true
}

func (d *detemper) stablePath(e ast.Expr) bool {
	// the address of a local variable never changes
	if u, ok := ast.Unparen(e).(*ast.UnaryExpr); ok && u.Op == token.AND {
		// (so does the address of a field of a local reached without indirection: &x.f.g)
		at := ast.Unparen(u.X)
		for {
			sel, ok := at.(*ast.SelectorExpr)
			if !ok {
				break
			}
			s := d.info.Selections[sel]
			// (a recorded selection may stem from a pointer parameter that the expansion replaced by the
			// variable itself: for a directly declared field the operand's own type decides)
			if s == nil || s.Kind() != types.FieldVal || (s.Indirect() && len(s.Index()) != 1) {
				return false
			}
			if _, isPtr := d.info.TypeOf(sel.X).Underlying().(*types.Pointer); isPtr {
				return false
			}
			at = ast.Unparen(sel.X)
		}
		if id, ok := at.(*ast.Ident); ok {
			if o, ok := d.obj(id).(*types.Var); ok && !o.IsField() && o.Pkg() != nil && o.Parent() != o.Pkg().Scope() {
				return true
			}
		}
		return false
	}
	n := 0
	for {
		switch t := ast.Unparen(e).(type) {
		case *ast.SelectorExpr:
			s := d.info.Selections[t]
			if s == nil || s.Kind() != types.FieldVal || s.Indirect() {
				return false
			}
			if _, isPtr := d.info.TypeOf(t.X).Underlying().(*types.Pointer); isPtr {
				return false
			}
			e = t.X
			n++
		case *ast.Ident:
			o, ok := d.obj(t).(*types.Var)
			if !ok || o.IsField() || o.Pkg() == nil || o.Parent() == o.Pkg().Scope() {
				return false
			}
			// (n == 0: a plain rename `v := w` of a variable that is never written again)
			return d.writes[o] == 0 && !d.captured[o]
		default:
			return false
		}
	}
}

// substSingle replaces the single use `use` (which must lie in the header of
// next, evaluated exactly once and before any effect) by e.
func (d *detemper) substSingle(next ast.Stmt, use *ast.Ident, e ast.Expr) bool {
	// the parts of next that are evaluated once when next starts
	var header []ast.Node
	initBefore := false
	switch t := next.(type) {
	case *ast.ExprStmt, *ast.AssignStmt, *ast.ReturnStmt, *ast.IncDecStmt, *ast.SendStmt, *ast.DeclStmt, *ast.GoStmt, *ast.DeferStmt:
		header = []ast.Node{t}
	case *ast.IfStmt:
		if t.Init != nil {
			header = append(header, t.Init)
			initBefore = true
		}
		header = append(header, t.Cond)
	case *ast.SwitchStmt:
		if t.Init != nil {
			header = append(header, t.Init)
		}
		if t.Tag != nil {
			header = append(header, t.Tag)
		}
	case *ast.TypeSwitchStmt:
		if t.Init != nil {
			header = append(header, t.Init)
		}
		header = append(header, t.Assign)
	case *ast.RangeStmt:
		header = []ast.Node{t.X}
	case *ast.ForStmt:
		if t.Init != nil {
			header = []ast.Node{t.Init}
		}
	default:
		return false
	}
	_ = initBefore
	pure := isPure(d.info, e)
	found := false
	effectBefore := false
	underShortCircuit := false
	// variables whose address the expression hands to a call (`f(&resp)`): what is evaluated before the use must not
	// read them, or the substitution would move the call's writes behind those reads
	filled := map[types.Object]bool{}
	ast.Inspect(e, func(n ast.Node) bool {
		if u, ok := n.(*ast.UnaryExpr); ok && u.Op == token.AND {
			x := ast.Unparen(u.X)
			for {
				switch t := x.(type) {
				case *ast.SelectorExpr:
					x = ast.Unparen(t.X)
					continue
				case *ast.IndexExpr:
					x = ast.Unparen(t.X)
					continue
				}
				break
			}
			if id, ok := x.(*ast.Ident); ok {
				if o := d.obj(id); o != nil {
					filled[o] = true
				}
			}
		}
		return true
	})
	readsFilledBefore := false
	for _, h := range header {
		var stack []ast.Node
		ast.Inspect(h, func(n ast.Node) bool {
			if n == nil {
				stack = stack[:len(stack)-1]
				return false
			}
			if _, isLit := n.(*ast.FuncLit); isLit {
				return false
			}
			if n == ast.Node(use) {
				found = true
				for i, a := range stack {
					if b, ok := a.(*ast.BinaryExpr); ok && (b.Op == token.LAND || b.Op == token.LOR) {
						// conditional evaluation only matters on the right-hand side
						var child ast.Node = use
						if i+1 < len(stack) {
							child = stack[i+1]
						}
						if child == ast.Node(b.Y) {
							underShortCircuit = true
						}
					}
				}
			}
			if !found {
				if id, isID := n.(*ast.Ident); isID && len(filled) > 0 && id.End() <= use.Pos() {
					if o := d.obj(id); o != nil && filled[o] {
						readsFilledBefore = true
					}
				}
				switch t := n.(type) {
				case *ast.CallExpr:
					if t.End() <= use.Pos() && !isPureCall(d.info, t) {
						effectBefore = true
					}
				case *ast.UnaryExpr:
					if t.Op == token.ARROW && t.End() <= use.Pos() {
						effectBefore = true
					}
				}
			}
			stack = append(stack, n)
			return true
		})
		if found {
			break
		}
		// a complete earlier header part (the init of an if) runs before the use
		if containsEffect(d.info, h) {
			effectBefore = true
		}
	}
	if !found {
		return false
	}
	if !pure && (effectBefore || underShortCircuit || readsFilledBefore) {
		return false
	}
	if pure && effectBefore && !d.localOnly(e) {
		return false
	}
	collapsePos(e, use.Pos())
	var repl ast.Expr = e
	switch e.(type) {
	case *ast.Ident, *ast.SelectorExpr, *ast.CallExpr, *ast.IndexExpr, *ast.ParenExpr, *ast.CompositeLit, *ast.BasicLit:
	default:
		repl = &ast.ParenExpr{Lparen: use.Pos(), X: e, Rparen: use.Pos()}
		if tv, ok := d.info.Types[e]; ok {
			d.info.Types[repl] = tv
		}
	}
	return d.replace(next, use, repl)
}

// localOnly: e reads only local variables (nothing reachable through a pointer that a call could change).
func (d *detemper) localOnly(e ast.Expr) bool {
	ok := true
	ast.Inspect(e, func(n ast.Node) bool {
		switch t := n.(type) {
		case *ast.SelectorExpr:
			if s := d.info.Selections[t]; s != nil && s.Indirect() {
				ok = false
			}
			if tt := d.info.TypeOf(t.X); tt != nil {
				if _, isPtr := tt.Underlying().(*types.Pointer); isPtr {
					ok = false
				}
			}
		case *ast.IndexExpr, *ast.StarExpr, *ast.CallExpr:
			ok = false
		}
		return ok
	})
	return ok
}

func (d *detemper) copyExpr(e ast.Expr, at token.Pos) ast.Expr {
	c := &cloner{p: d.p, info: d.info, objs: map[types.Object]types.Object{}}
	return c.substCopy(e, at)
}

// replace substitutes repl for the identifier node old below root.
func (d *detemper) replace(root ast.Node, old *ast.Ident, repl ast.Expr) bool {
	done := false
	ast.Inspect(root, func(n ast.Node) bool {
		if done || n == nil {
			return false
		}
		done = replaceChild(n, old, repl)
		return !done
	})
	return done
}

// isPure: evaluation has no effect and cannot observe one (apart from reading memory).
func isPure(info *types.Info, e ast.Expr) bool {
	ok := true
	ast.Inspect(e, func(n ast.Node) bool {
		switch t := n.(type) {
		case *ast.CallExpr:
			if !isPureCall(info, t) {
				ok = false
			}
		case *ast.UnaryExpr:
			if t.Op == token.ARROW {
				ok = false
			}
		case *ast.FuncLit:
			return false
		}
		return ok
	})
	return ok
}

// isPureCall: conversions and the builtins len/cap/min/max.
func isPureCall(info *types.Info, c *ast.CallExpr) bool {
	if tv, ok := info.Types[c.Fun]; ok && tv.IsType() {
		return true
	}
	if id, ok := ast.Unparen(c.Fun).(*ast.Ident); ok {
		if b, ok := info.Uses[id].(*types.Builtin); ok {
			switch b.Name() {
			case "len", "cap", "min", "max":
				return true
			}
		}
	}
	return false
}

func containsEffect(info *types.Info, n ast.Node) bool {
	found := false
	ast.Inspect(n, func(m ast.Node) bool {
		switch t := m.(type) {
		case *ast.CallExpr:
			if !isPureCall(info, t) {
				found = true
			}
		case *ast.UnaryExpr:
			if t.Op == token.ARROW {
				found = true
			}
		case *ast.FuncLit:
			return false
		}
		return !found
	})
	return found
}

var exprIface = reflect.TypeOf((*ast.Expr)(nil)).Elem()

var constantFalse = constant.MakeBool(false)

// replaceChild replaces old by repl where it is a direct child of parent (in an Expr-typed field or slice element).
func replaceChild(parent ast.Node, old *ast.Ident, repl ast.Expr) bool {
	v := reflect.ValueOf(parent)
	if v.Kind() != reflect.Ptr || v.IsNil() {
		return false
	}
	s := v.Elem()
	if s.Kind() != reflect.Struct {
		return false
	}
	for i := 0; i < s.NumField(); i++ {
		f := s.Field(i)
		switch {
		case f.Kind() == reflect.Interface && f.Type() == exprIface:
			if !f.IsNil() && f.Interface() == ast.Expr(old) && f.CanSet() {
				f.Set(reflect.ValueOf(repl))
				return true
			}
		case f.Kind() == reflect.Slice && f.Type().Elem() == exprIface:
			for j := 0; j < f.Len(); j++ {
				el := f.Index(j)
				if !el.IsNil() && el.Interface() == ast.Expr(old) {
					el.Set(reflect.ValueOf(repl))
					return true
				}
			}
		}
	}
	return false
}

// Loops over a container. The element of the current iteration can be spelled
// `v` (range value) or `S[i]` (indexing the ranged container with the range
// key), and a counting loop `for i := 0; i < len(S); i++` is `for i := range S`.
// canonLoops rewrites, in place, towards one spelling — a range statement with
// a value variable — whenever the body neither assigns to S, S[i] or the key,
// nor takes the address of S[i], nor hands S itself to a call:
//
//	for i := 0; i < len(S); i++ { B }        →  for i := range S { B }
//	for i := range S { v := S[i]; B }        →  for i, v := range S { B }
//	for i[, v] := range S { … S[i] … }       →  for i, v := range S { … v … }
func (p *Prog) canonLoops(info *types.Info, body *ast.BlockStmt) {
	// variables that code outside a loop body can change while the body runs: address taken, or mentioned in a
	// function literal
	p.loopEscaped = map[types.Object]bool{}
	var scan func(n ast.Node, inLit bool)
	scan = func(n ast.Node, inLit bool) {
		ast.Inspect(n, func(m ast.Node) bool {
			switch t := m.(type) {
			case *ast.FuncLit:
				if !inLit {
					scan(t.Body, true)
					return false
				}
			case *ast.UnaryExpr:
				if t.Op == token.AND {
					e := ast.Unparen(t.X)
					for {
						if sel, ok := e.(*ast.SelectorExpr); ok {
							e = ast.Unparen(sel.X)
							continue
						}
						if ix, ok := e.(*ast.IndexExpr); ok {
							e = ast.Unparen(ix.X)
							continue
						}
						break
					}
					if id, ok := e.(*ast.Ident); ok {
						if o := info.Uses[id]; o != nil {
							p.loopEscaped[o] = true
						}
					}
				}
			case *ast.Ident:
				if inLit {
					if o := info.Uses[t]; o != nil {
						p.loopEscaped[o] = true
					}
				}
			}
			return true
		})
	}
	scan(body, false)
	var visit func(n ast.Node) bool
	visit = func(n ast.Node) bool {
		switch t := n.(type) {
		case *ast.BlockStmt:
			for i, s := range t.List {
				t.List[i] = p.canonLoopStmt(info, s)
			}
		case *ast.CaseClause:
			for i, s := range t.Body {
				t.Body[i] = p.canonLoopStmt(info, s)
			}
		case *ast.CommClause:
			for i, s := range t.Body {
				t.Body[i] = p.canonLoopStmt(info, s)
			}
		case *ast.LabeledStmt:
			t.Stmt = p.canonLoopStmt(info, t.Stmt)
		}
		return true
	}
	ast.Inspect(body, visit)
}

func (p *Prog) canonLoopStmt(info *types.Info, s ast.Stmt) ast.Stmt {
	if fs, ok := s.(*ast.ForStmt); ok {
		if rs := p.countingLoop(info, fs); rs != nil {
			s = rs
		}
	}
	rs, ok := s.(*ast.RangeStmt)
	if !ok || rs.Tok != token.DEFINE || rs.Key == nil {
		return s
	}
	key, _ := rs.Key.(*ast.Ident)
	if key == nil || key.Name == "_" {
		return s
	}
	kobj := info.Defs[key]
	if kobj == nil || !simplePath(rs.X) {
		return s
	}
	switch info.TypeOf(rs.X).Underlying().(type) {
	case *types.Slice, *types.Map, *types.Array:
	default:
		return s
	}
	if _, isPtr := info.TypeOf(rs.X).Underlying().(*types.Pointer); isPtr {
		return s
	}
	isElem := func(e ast.Expr) bool {
		ix, ok := ast.Unparen(e).(*ast.IndexExpr)
		if !ok {
			return false
		}
		id, ok := ast.Unparen(ix.Index).(*ast.Ident)
		return ok && info.Uses[id] == kobj && sameSimple(info, ix.X, rs.X)
	}
	// may the body change S, S[i] or the key, or let S[i] escape by reference?
	unsafe := false
	var valObj types.Object
	if v, ok := rs.Value.(*ast.Ident); ok && v.Name != "_" {
		valObj = info.Defs[v]
	}
	rootIs := func(e ast.Expr, pred func(ast.Expr) bool) bool {
		for {
			if pred(e) {
				return true
			}
			switch t := ast.Unparen(e).(type) {
			case *ast.SelectorExpr:
				if info.Selections[t] == nil {
					return false
				}
				e = t.X
			case *ast.IndexExpr:
				e = t.X
			case *ast.StarExpr:
				e = t.X
			case *ast.SliceExpr:
				e = t.X
			default:
				return false
			}
		}
	}
	isS := func(e ast.Expr) bool { return sameSimple(info, e, rs.X) }
	isKey := func(e ast.Expr) bool {
		id, ok := ast.Unparen(e).(*ast.Ident)
		return ok && (info.Uses[id] == kobj)
	}
	isVal := func(e ast.Expr) bool {
		id, ok := ast.Unparen(e).(*ast.Ident)
		return ok && valObj != nil && info.Uses[id] == valObj
	}
	written := func(l ast.Expr) {
		if rootIs(l, isS) || isKey(l) || rootIs(l, isVal) {
			unsafe = true
		}
	}
	ast.Inspect(rs.Body, func(n ast.Node) bool {
		switch t := n.(type) {
		case *ast.AssignStmt:
			for _, l := range t.Lhs {
				if id, ok := l.(*ast.Ident); ok && t.Tok == token.DEFINE && info.Defs[id] != nil {
					continue
				}
				written(l)
			}
		case *ast.IncDecStmt:
			written(t.X)
		case *ast.RangeStmt:
			if t.Tok == token.ASSIGN {
				if t.Key != nil {
					written(t.Key)
				}
				if t.Value != nil {
					written(t.Value)
				}
			}
		case *ast.UnaryExpr:
			if t.Op == token.AND && (rootIs(t.X, isS) || rootIs(t.X, isVal)) {
				unsafe = true
			}
		case *ast.CallExpr:
			for _, a := range t.Args {
				if isS(a) {
					if id, ok := ast.Unparen(t.Fun).(*ast.Ident); ok {
						if b, ok := info.Uses[id].(*types.Builtin); ok && (b.Name() == "len" || b.Name() == "cap") {
							continue
						}
					}
					unsafe = true
				}
			}
			// a method with a pointer receiver called on S[i] may modify the element
			if sel, ok := ast.Unparen(t.Fun).(*ast.SelectorExpr); ok {
				if s := info.Selections[sel]; s != nil && s.Kind() == types.MethodVal && rootIs(sel.X, isElem) {
					if sig, ok := s.Obj().Type().(*types.Signature); ok && sig.Recv() != nil {
						if _, ptr := sig.Recv().Type().(*types.Pointer); ptr {
							if _, elemPtr := info.TypeOf(sel.X).Underlying().(*types.Pointer); !elemPtr {
								if fn, ok := s.Obj().(*types.Func); !ok || p.mutatesReceiver(fn, 2) {
									unsafe = true
								}
							}
						}
					}
				}
			}
		}
		return !unsafe
	})
	if unsafe {
		return s
	}
	// `v := S[i]` as the first statement becomes the range value
	if valObj == nil && len(rs.Body.List) > 0 {
		if as, ok := rs.Body.List[0].(*ast.AssignStmt); ok && as.Tok == token.DEFINE && len(as.Lhs) == 1 && len(as.Rhs) == 1 && isElem(as.Rhs[0]) {
			if id, ok := as.Lhs[0].(*ast.Ident); ok && id.Name != "_" && info.Defs[id] != nil {
				if et := info.TypeOf(as.Rhs[0]); et != nil && types.Identical(et, info.Defs[id].Type()) {
					rs.Value = id
					valObj = info.Defs[id]
					rs.Body.List = rs.Body.List[1:]
				}
			}
		}
	}
	// remaining S[i] → v
	var elems []*ast.IndexExpr
	ast.Inspect(rs.Body, func(n ast.Node) bool {
		if ix, ok := n.(*ast.IndexExpr); ok && isElem(ix) {
			elems = append(elems, ix)
			return false
		}
		return true
	})
	if len(elems) == 0 {
		return s
	}
	if valObj == nil {
		et := info.TypeOf(elems[0])
		if et == nil {
			return s
		}
		v := types.NewVar(key.Pos(), kobj.Pkg(), key.Name+"_elem", et)
		id := &ast.Ident{NamePos: key.Pos(), Name: v.Name()}
		info.Defs[id] = v
		rs.Value = id
		valObj = v
	}
	for _, ix := range elems {
		use := &ast.Ident{NamePos: ix.Pos(), Name: valObj.Name()}
		info.Uses[use] = valObj
		if tv, ok := info.Types[ix]; ok {
			info.Types[use] = tv
		}
		replaceExpr(rs.Body, ix, use)
	}
	return s
}

// countingLoop recognises `for i := 0; i < len(S); i++ { B }` with B not writing i and not
// assigning S, and returns the equivalent `for i := range S { B }`.
func (p *Prog) countingLoop(info *types.Info, fs *ast.ForStmt) *ast.RangeStmt {
	init, ok := fs.Init.(*ast.AssignStmt)
	if !ok || init.Tok != token.DEFINE || len(init.Lhs) != 1 || len(init.Rhs) != 1 {
		return nil
	}
	key, ok := init.Lhs[0].(*ast.Ident)
	if !ok || info.Defs[key] == nil {
		return nil
	}
	kobj := info.Defs[key]
	if tv, ok := info.Types[init.Rhs[0]]; !ok || tv.Value == nil || tv.Value.String() != "0" {
		return nil
	}
	cond, ok := ast.Unparen(fs.Cond).(*ast.BinaryExpr)
	if !ok || cond.Op != token.LSS {
		return nil
	}
	if id, ok := ast.Unparen(cond.X).(*ast.Ident); !ok || info.Uses[id] != kobj {
		return nil
	}
	lc, ok := ast.Unparen(cond.Y).(*ast.CallExpr)
	if !ok || len(lc.Args) != 1 {
		return nil
	}
	if id, ok := ast.Unparen(lc.Fun).(*ast.Ident); !ok || id.Name != "len" {
		return nil
	} else if _, isB := info.Uses[id].(*types.Builtin); !isB {
		return nil
	}
	S := lc.Args[0]
	if !simplePath(S) {
		return nil
	}
	switch info.TypeOf(S).Underlying().(type) {
	case *types.Slice, *types.Array:
	default:
		return nil
	}
	post, ok := fs.Post.(*ast.IncDecStmt)
	if !ok || post.Tok != token.INC {
		return nil
	}
	if id, ok := ast.Unparen(post.X).(*ast.Ident); !ok || info.Uses[id] != kobj {
		return nil
	}
	bad := false
	ast.Inspect(fs.Body, func(n ast.Node) bool {
		chk := func(l ast.Expr) {
			if id, ok := ast.Unparen(l).(*ast.Ident); ok && info.Uses[id] == kobj {
				bad = true
			}
			if sameSimple(info, l, S) {
				bad = true
			}
		}
		switch t := n.(type) {
		case *ast.AssignStmt:
			for _, l := range t.Lhs {
				chk(l)
			}
		case *ast.IncDecStmt:
			chk(t.X)
		case *ast.UnaryExpr:
			if t.Op == token.AND {
				chk(t.X)
			}
		case *ast.BranchStmt:
			// `continue` in a 3-clause loop runs the post statement; a range loop advances too: same
		}
		return !bad
	})
	if bad {
		return nil
	}
	// `len(S)` is re-evaluated by every iteration of the counting loop but only once by a range loop: the two
	// agree only if nothing the body calls can change S. That is so when S is rooted at a plain local value that
	// nothing else can reach; otherwise (S behind a pointer, a receiver, a captured or address-taken variable)
	// the body may only call builtins, conversions and functions of other packages
	reachable := false
	for e := ast.Unparen(S); ; {
		if sel, ok := e.(*ast.SelectorExpr); ok {
			if s := info.Selections[sel]; s == nil || s.Indirect() {
				reachable = true
			} else if _, isPtr := info.TypeOf(sel.X).Underlying().(*types.Pointer); isPtr {
				reachable = true
			}
			e = ast.Unparen(sel.X)
			continue
		}
		if id, ok := e.(*ast.Ident); ok {
			o := info.Uses[id]
			v, isVar := o.(*types.Var)
			if !isVar || (v.Pkg() != nil && v.Parent() == v.Pkg().Scope()) || p.loopEscaped[o] {
				reachable = true
			}
		} else {
			reachable = true
		}
		break
	}
	if reachable {
		var home *types.Package
		if o := info.Defs[key]; o != nil {
			home = o.Pkg()
		}
		ast.Inspect(fs.Body, func(n ast.Node) bool {
			call, ok := n.(*ast.CallExpr)
			if !ok || bad {
				return !bad
			}
			if tv, ok := info.Types[call.Fun]; ok && (tv.IsType() || tv.IsBuiltin()) {
				return true
			}
			callee := typeutil.StaticCallee(info, call)
			if callee == nil || callee.Pkg() == nil || callee.Pkg() == home {
				bad = true
			}
			return !bad
		})
		if bad {
			return nil
		}
	}
	return &ast.RangeStmt{For: fs.For, Key: key, TokPos: init.TokPos, Tok: token.DEFINE, Range: init.TokPos, X: S, Body: fs.Body}
}

// simplePath: identifiers and field selections only.
func simplePath(e ast.Expr) bool {
	for {
		switch t := ast.Unparen(e).(type) {
		case *ast.Ident:
			return true
		case *ast.SelectorExpr:
			e = t.X
		default:
			return false
		}
	}
}

// sameSimple: two simple paths denote the same variable / field path.
func sameSimple(info *types.Info, a, b ast.Expr) bool {
	a, b = ast.Unparen(a), ast.Unparen(b)
	switch x := a.(type) {
	case *ast.Ident:
		y, ok := b.(*ast.Ident)
		if !ok {
			return false
		}
		ox, oy := info.Uses[x], info.Uses[y]
		if ox == nil {
			ox = info.Defs[x]
		}
		if oy == nil {
			oy = info.Defs[y]
		}
		return ox != nil && ox == oy
	case *ast.SelectorExpr:
		y, ok := b.(*ast.SelectorExpr)
		if !ok || x.Sel.Name != y.Sel.Name {
			return false
		}
		if info.Selections[x] == nil || info.Selections[y] == nil {
			return info.Uses[x.Sel] != nil && info.Uses[x.Sel] == info.Uses[y.Sel]
		}
		return sameSimple(info, x.X, y.X)
	}
	return false
}

// replaceExpr substitutes repl for the expression node old below root.
func replaceExpr(root ast.Node, old ast.Expr, repl ast.Expr) bool {
	done := false
	ast.Inspect(root, func(n ast.Node) bool {
		if done || n == nil {
			return false
		}
		v := reflect.ValueOf(n)
		if v.Kind() != reflect.Ptr || v.IsNil() {
			return true
		}
		s := v.Elem()
		if s.Kind() != reflect.Struct {
			return true
		}
		for i := 0; i < s.NumField() && !done; i++ {
			f := s.Field(i)
			switch {
			case f.Kind() == reflect.Interface && f.Type() == exprIface:
				if !f.IsNil() && f.Interface() == old && f.CanSet() {
					f.Set(reflect.ValueOf(repl))
					done = true
				}
			case f.Kind() == reflect.Slice && f.Type().Elem() == exprIface:
				for j := 0; j < f.Len(); j++ {
					el := f.Index(j)
					if !el.IsNil() && el.Interface() == old {
						el.Set(reflect.ValueOf(repl))
						done = true
						break
					}
				}
			}
		}
		return !done
	})
	return done
}

// mutatesReceiver reports whether a method may write through its receiver
// (conservatively: unknown bodies, stores rooted at the receiver, its address
// or the receiver itself handed on to anything but a non-mutating method).
func (p *Prog) mutatesReceiver(fn *types.Func, depth int) bool {
	if v, ok := p.mutRecv[fn]; ok {
		return v
	}
	if p.mutRecv == nil {
		p.mutRecv = map[*types.Func]bool{}
	}
	p.mutRecv[fn] = true // recursion guard: assume the worst
	f := p.DepFunc(fn)
	if f == nil || f.Decl == nil || f.Decl.Recv == nil || len(f.Decl.Recv.List) != 1 || depth < 0 {
		return true
	}
	if len(f.Decl.Recv.List[0].Names) == 0 {
		p.mutRecv[fn] = false
		return false
	}
	info := f.Info()
	recv := info.Defs[f.Decl.Recv.List[0].Names[0]]
	if recv == nil {
		p.mutRecv[fn] = false
		return false
	}
	isRecv := func(e ast.Expr) bool {
		id, ok := ast.Unparen(e).(*ast.Ident)
		return ok && info.Uses[id] == recv
	}
	rooted := func(e ast.Expr) bool {
		for {
			if isRecv(e) {
				return true
			}
			switch t := ast.Unparen(e).(type) {
			case *ast.SelectorExpr:
				if info.Selections[t] == nil {
					return false
				}
				e = t.X
			case *ast.IndexExpr:
				e = t.X
			case *ast.StarExpr:
				e = t.X
			case *ast.SliceExpr:
				e = t.X
			default:
				return false
			}
		}
	}
	mut := false
	ast.Inspect(f.Body, func(n ast.Node) bool {
		switch t := n.(type) {
		case *ast.AssignStmt:
			for _, l := range t.Lhs {
				if rooted(l) && !isRecv(l) {
					mut = true
				}
			}
			// aliasing the receiver (q := r) is not followed
			for _, r := range t.Rhs {
				if isRecv(r) {
					mut = true
				}
			}
		case *ast.IncDecStmt:
			if rooted(t.X) {
				mut = true
			}
		case *ast.UnaryExpr:
			if t.Op == token.AND && rooted(t.X) {
				mut = true
			}
		case *ast.CallExpr:
			for _, a := range t.Args {
				if isRecv(a) {
					mut = true
				}
			}
			if sel, ok := ast.Unparen(t.Fun).(*ast.SelectorExpr); ok && rooted(sel.X) {
				if s := info.Selections[sel]; s != nil && s.Kind() == types.MethodVal {
					if callee, ok := s.Obj().(*types.Func); ok {
						sig := callee.Type().(*types.Signature)
						if _, ptr := sig.Recv().Type().(*types.Pointer); ptr {
							if _, isIface := sig.Recv().Type().Underlying().(*types.Interface); isIface || p.mutatesReceiver(callee.Origin(), depth-1) {
								mut = true
							}
						}
					}
				}
			}
		}
		return !mut
	})
	p.mutRecv[fn] = mut
	return mut
}

// Searches. `slices.ContainsFunc(S, p)`, `slices.IndexFunc(S, p)`,
// `slices.Contains(S, v)`, `slices.Index(S, v)` and `slices.EqualFunc(X, Y, p)`
// tested directly by an if statement are loops in library clothing. desugarSearch
// rewrites (in place) such an if into the loop it abbreviates, jumping into
// the branch that the search result selects:
//
//	if slices.ContainsFunc(S, p) { A } else { B }
//	  →  { for _, e := range S { if p(e) { goto then } }; goto else; if _ { then: A } else { else: B } }
//
// so that path rules see `p(e)` guarding A per element, exactly as for the
// hand-written loop. The residual if is never evaluated (both branches are
// entered by jumps only); it just keeps the two branches in place.
func (p *Prog) desugarSearch(info *types.Info, body *ast.BlockStmt) {
	ast.Inspect(body, func(n ast.Node) bool {
		switch t := n.(type) {
		case *ast.BlockStmt:
			t.List = p.desugarList(info, t.List)
		case *ast.CaseClause:
			t.Body = p.desugarList(info, t.Body)
		case *ast.CommClause:
			t.Body = p.desugarList(info, t.Body)
		}
		return true
	})
}

// hasSearchLeaf: e is a condition built with !, && and || one of whose leaves is a slices search.
func hasSearchLeaf(info *types.Info, e ast.Expr) (compound, found bool) {
	var scan func(e ast.Expr, root bool)
	scan = func(e ast.Expr, root bool) {
		e = ast.Unparen(e)
		switch t := e.(type) {
		case *ast.UnaryExpr:
			if t.Op == token.NOT {
				scan(t.X, root)
				return
			}
		case *ast.BinaryExpr:
			if t.Op == token.LAND || t.Op == token.LOR {
				compound = true
				scan(t.X, false)
				scan(t.Y, false)
				return
			}
		}
		if _, name := slicesCall(info, e); name == "ContainsFunc" || name == "Contains" || name == "EqualFunc" {
			found = true
		}
	}
	scan(e, true)
	return
}

// lowerSearchCond makes the short-circuit evaluation of `if c { T } else { E }`
// explicit (one `if` per leaf, jumps into the two branches) when c is a compound
// condition with a slices search among its leaves, so that the search can be
// desugared where it stands.
func (p *Prog) lowerSearchCond(info *types.Info, ifs *ast.IfStmt) []ast.Stmt {
	if ifs.Init != nil {
		return nil
	}
	if compound, found := hasSearchLeaf(info, ifs.Cond); !compound || !found {
		return nil
	}
	label := func(kind string) string {
		p.normSeq++
		return fmt.Sprintf("srch%d_%s", p.normSeq, kind)
	}
	at := ifs.Pos()
	lbl := func(name string, pos token.Pos) ast.Stmt {
		return &ast.LabeledStmt{Label: &ast.Ident{NamePos: pos, Name: name}, Colon: pos, Stmt: &ast.EmptyStmt{Semicolon: pos, Implicit: true}}
	}
	jump := func(name string, pos token.Pos) ast.Stmt {
		return &ast.BranchStmt{TokPos: pos, Tok: token.GOTO, Label: &ast.Ident{NamePos: pos, Name: name}}
	}
	var lower func(e ast.Expr, thenL, elseL string) []ast.Stmt
	lower = func(e ast.Expr, thenL, elseL string) []ast.Stmt {
		e = ast.Unparen(e)
		switch t := e.(type) {
		case *ast.UnaryExpr:
			if t.Op == token.NOT {
				return lower(t.X, elseL, thenL)
			}
		case *ast.BinaryExpr:
			switch t.Op {
			case token.LAND:
				mid := label("and")
				out := lower(t.X, mid, elseL)
				out = append(out, lbl(mid, t.OpPos))
				return append(out, lower(t.Y, thenL, elseL)...)
			case token.LOR:
				mid := label("or")
				out := lower(t.X, thenL, mid)
				out = append(out, lbl(mid, t.OpPos))
				return append(out, lower(t.Y, thenL, elseL)...)
			}
		}
		pos := e.Pos()
		return []ast.Stmt{&ast.IfStmt{If: pos, Cond: e,
			Body: &ast.BlockStmt{Lbrace: pos, List: []ast.Stmt{jump(thenL, pos)}, Rbrace: e.End()},
			Else: &ast.BlockStmt{Lbrace: e.End(), List: []ast.Stmt{jump(elseL, e.End())}, Rbrace: e.End()}}}
	}
	thenL, elseL, endL := label("then"), label("else"), label("end")
	out := lower(ifs.Cond, thenL, elseL)
	out = append(out, lbl(thenL, ifs.Body.Lbrace))
	out = append(out, ifs.Body.List...)
	out = append(out, jump(endL, ifs.Body.Rbrace), lbl(elseL, ifs.Body.Rbrace))
	switch e := ifs.Else.(type) {
	case *ast.BlockStmt:
		out = append(out, e.List...)
	case nil:
	default:
		out = append(out, e)
	}
	out = append(out, lbl(endL, ifs.End()))
	_ = at
	return out
}

func (p *Prog) desugarList(info *types.Info, list []ast.Stmt) []ast.Stmt {
	// `return <condition with a search>` reads `if <condition> { return true }; return false`
	var pre []ast.Stmt
	for _, s := range list {
		if rs, ok := s.(*ast.ReturnStmt); ok && len(rs.Results) == 1 {
			if _, found := hasSearchLeaf(info, rs.Results[0]); found {
				if b, isBool := info.TypeOf(rs.Results[0]).Underlying().(*types.Basic); isBool && b.Kind() == types.Bool {
					mk := func(v bool, pos token.Pos) *ast.ReturnStmt {
						name := "false"
						if v {
							name = "true"
						}
						id := &ast.Ident{NamePos: pos, Name: name}
						info.Uses[id] = types.Universe.Lookup(name)
						info.Types[id] = types.TypeAndValue{Type: types.Typ[types.Bool], Value: constant.MakeBool(v)}
						return &ast.ReturnStmt{Return: pos, Results: []ast.Expr{id}}
					}
					ifs := &ast.IfStmt{If: rs.Pos(), Cond: rs.Results[0], Body: &ast.BlockStmt{Lbrace: rs.Pos(), List: []ast.Stmt{mk(true, rs.Pos())}, Rbrace: rs.End()}}
					pre = append(pre, ifs, mk(false, rs.End()))
					continue
				}
			}
		}
		pre = append(pre, s)
	}
	list = pre
	// compound conditions holding a search are split into their leaves first
	var split []ast.Stmt
	for _, s := range list {
		if ifs, ok := s.(*ast.IfStmt); ok {
			if repl := p.lowerSearchCond(info, ifs); repl != nil {
				split = append(split, repl...)
				continue
			}
		}
		split = append(split, s)
	}
	list = split
	var out []ast.Stmt
	for _, s := range list {
		if ifs, ok := s.(*ast.IfStmt); ok {
			if repl := p.desugarIf(info, ifs); repl != nil {
				out = append(out, repl...)
				continue
			}
		}
		out = append(out, s)
	}
	return out
}

func slicesCall(info *types.Info, e ast.Expr) (*ast.CallExpr, string) {
	call, ok := ast.Unparen(e).(*ast.CallExpr)
	if !ok {
		return nil, ""
	}
	sel, ok := ast.Unparen(call.Fun).(*ast.SelectorExpr)
	if !ok {
		// explicit instantiation slices.F[T]
		if ix, ok := ast.Unparen(call.Fun).(*ast.IndexExpr); ok {
			sel, _ = ast.Unparen(ix.X).(*ast.SelectorExpr)
		}
		if sel == nil {
			return nil, ""
		}
	}
	fn, ok := info.Uses[sel.Sel].(*types.Func)
	if !ok || fn.Pkg() == nil || fn.Pkg().Path() != "slices" {
		return nil, ""
	}
	return call, fn.Name()
}

func (p *Prog) desugarIf(info *types.Info, ifs *ast.IfStmt) []ast.Stmt {
	at := ifs.Pos()
	// which search, and on which outcome is the then-branch taken?
	var call *ast.CallExpr
	var name string
	thenOnFound := true
	var idxObj types.Object
	var idxIdent *ast.Ident
	if ifs.Init == nil {
		cond := ast.Unparen(ifs.Cond)
		if u, ok := cond.(*ast.UnaryExpr); ok && u.Op == token.NOT {
			cond, thenOnFound = ast.Unparen(u.X), false
		}
		call, name = slicesCall(info, cond)
		switch name {
		case "ContainsFunc", "Contains", "EqualFunc":
		default:
			return nil
		}
	} else {
		as, ok := ifs.Init.(*ast.AssignStmt)
		if !ok || as.Tok != token.DEFINE || len(as.Lhs) != 1 || len(as.Rhs) != 1 {
			return nil
		}
		call, name = slicesCall(info, as.Rhs[0])
		if name != "IndexFunc" && name != "Index" {
			return nil
		}
		idxIdent, _ = as.Lhs[0].(*ast.Ident)
		if idxIdent == nil || info.Defs[idxIdent] == nil {
			return nil
		}
		idxObj = info.Defs[idxIdent]
		be, ok := ast.Unparen(ifs.Cond).(*ast.BinaryExpr)
		if !ok {
			return nil
		}
		id, ok := ast.Unparen(be.X).(*ast.Ident)
		if !ok || info.Uses[id] != idxObj {
			return nil
		}
		tv, ok := info.Types[be.Y]
		if !ok || tv.Value == nil {
			return nil
		}
		switch be.Op.String() + tv.Value.String() {
		case ">=0", "!=-1", ">-1":
			thenOnFound = true
		case "<0", "==-1", "<=-1":
			thenOnFound = false
		default:
			return nil
		}
		// the index is meaningless on the not-found side: it must not be used there
		notFound := ast.Node(ifs.Else)
		if !thenOnFound {
			notFound = ifs.Body
		}
		used := false
		if notFound != nil && !isNilNode(notFound) {
			ast.Inspect(notFound, func(n ast.Node) bool {
				if x, ok := n.(*ast.Ident); ok && info.Uses[x] == idxObj {
					used = true
				}
				return !used
			})
		}
		if used {
			return nil
		}
	}
	if call == nil || call.Ellipsis.IsValid() {
		return nil
	}
	nargs := 2
	if name == "EqualFunc" {
		nargs = 3
	}
	if len(call.Args) != nargs {
		return nil
	}
	S := call.Args[0]
	st, ok := info.TypeOf(S).Underlying().(*types.Slice)
	if !ok {
		return nil
	}
	if containsEffect(info, S) {
		return nil
	}
	pkg := p.pkgOf(info)
	p.normSeq++
	seq := p.normSeq
	mkVar := func(name string, t types.Type) (*types.Var, *ast.Ident) {
		v := types.NewVar(at, pkg, fmt.Sprintf("%s%d", name, seq), t)
		id := &ast.Ident{NamePos: at, Name: v.Name()}
		info.Defs[id] = v
		return v, id
	}
	use := func(v types.Object) *ast.Ident {
		id := &ast.Ident{NamePos: at, Name: v.Name()}
		info.Uses[id] = v
		return id
	}
	boolT := types.Typ[types.Bool]
	thenL, elseL := fmt.Sprintf("srch%d_then", seq), fmt.Sprintf("srch%d_else", seq)
	foundL, missL := thenL, elseL
	if !thenOnFound {
		foundL, missL = elseL, thenL
	}
	elem, elemDef := mkVar("elem", st.Elem())
	var key ast.Expr = &ast.Ident{NamePos: at, Name: "_"}
	if idxIdent != nil {
		key = idxIdent // the search's index variable becomes the loop's key
	}
	// the per-element test
	var test ast.Expr
	var pre []ast.Stmt
	switch name {
	case "ContainsFunc", "IndexFunc":
		c := &ast.CallExpr{Fun: call.Args[1], Lparen: at, Args: []ast.Expr{use(elem)}, Rparen: at}
		info.Types[c] = types.TypeAndValue{Type: boolT}
		test = c
	case "Contains", "Index":
		if containsEffect(info, call.Args[1]) {
			return nil
		}
		b := &ast.BinaryExpr{X: use(elem), OpPos: at, Op: token.EQL, Y: call.Args[1]}
		info.Types[b] = types.TypeAndValue{Type: boolT}
		test = b
	case "EqualFunc":
		Y := call.Args[1]
		if _, ok := info.TypeOf(Y).Underlying().(*types.Slice); !ok || containsEffect(info, Y) || !simplePath(Y) || !simplePath(S) {
			return nil
		}
		yt := info.TypeOf(Y).Underlying().(*types.Slice)
		kv, kid := mkVar("i", types.Typ[types.Int])
		key = kid
		lenOf := func(x ast.Expr) ast.Expr {
			lid := &ast.Ident{NamePos: at, Name: "len"}
			info.Uses[lid] = types.Universe.Lookup("len")
			cp := &cloner{p: p, info: info, objs: map[types.Object]types.Object{}}
			c := &ast.CallExpr{Fun: lid, Lparen: at, Args: []ast.Expr{cp.substCopy(x, at)}, Rparen: at}
			info.Types[c] = types.TypeAndValue{Type: types.Typ[types.Int]}
			return c
		}
		ne := &ast.BinaryExpr{X: lenOf(S), OpPos: at, Op: token.NEQ, Y: lenOf(Y)}
		info.Types[ne] = types.TypeAndValue{Type: boolT}
		// unequal lengths: not equal
		pre = append(pre, &ast.IfStmt{If: at, Cond: ne, Body: &ast.BlockStmt{Lbrace: at, List: []ast.Stmt{gotoStmt(missL, at)}, Rbrace: at}})
		cp := &cloner{p: p, info: info, objs: map[types.Object]types.Object{}}
		yi := &ast.IndexExpr{X: cp.substCopy(Y, at), Lbrack: at, Index: use(kv), Rbrack: at}
		info.Types[yi] = types.TypeAndValue{Type: yt.Elem()}
		c := &ast.CallExpr{Fun: call.Args[2], Lparen: at, Args: []ast.Expr{use(elem), yi}, Rparen: at}
		info.Types[c] = types.TypeAndValue{Type: boolT}
		nc := &ast.UnaryExpr{OpPos: at, Op: token.NOT, X: c}
		info.Types[nc] = types.TypeAndValue{Type: boolT}
		// EqualFunc is "all match": a mismatch is the search's hit, and it means not-equal
		test = nc
		foundL, missL = missL, foundL
	}
	loop := &ast.RangeStmt{For: at, Key: key, Value: elemDef, TokPos: at, Tok: token.DEFINE, Range: at, X: S,
		Body: &ast.BlockStmt{Lbrace: at, Rbrace: at, List: []ast.Stmt{
			&ast.IfStmt{If: at, Cond: test, Body: &ast.BlockStmt{Lbrace: at, List: []ast.Stmt{gotoStmt(foundL, at)}, Rbrace: at}},
		}}}
	// the residual if keeps the branches; it is entered by jumps only
	_, nvDef := mkVar("unreached", boolT)
	decl := &ast.DeclStmt{Decl: &ast.GenDecl{TokPos: at, Tok: token.VAR, Specs: []ast.Spec{&ast.ValueSpec{Names: []*ast.Ident{nvDef}}}}}
	ifs.Init = nil
	ifs.Cond = use(info.Defs[nvDef])
	ifs.Body.List = append([]ast.Stmt{labeled(thenL, at)}, ifs.Body.List...)
	var tail []ast.Stmt
	switch e := ifs.Else.(type) {
	case nil:
		tail = append(tail, labeled(elseL, ifs.End()))
	case *ast.BlockStmt:
		e.List = append([]ast.Stmt{labeled(elseL, at)}, e.List...)
	default:
		ifs.Else = &ast.LabeledStmt{Label: &ast.Ident{NamePos: at, Name: elseL}, Colon: at, Stmt: e}
	}
	out := []ast.Stmt{decl}
	out = append(out, pre...)
	out = append(out, loop, gotoStmt(missL, at), ifs)
	out = append(out, tail...)
	return []ast.Stmt{&ast.BlockStmt{Lbrace: at, List: out, Rbrace: ifs.End()}}
}

func isNilNode(n ast.Node) bool {
	v := reflect.ValueOf(n)
	return v.Kind() == reflect.Ptr && v.IsNil()
}

func (p *Prog) pkgOf(info *types.Info) *types.Package {
	for _, pkg := range p.Roots {
		if pkg.TypesInfo == info {
			return pkg.Types
		}
	}
	return nil
}

// Aggregates. A local struct (or a pointer to a struct literal created on the
// spot) that is only ever used field by field is a bundle of independent local
// variables: `f := &funded{txn: &t}; …; f.broadcast = true; …; if f.broadcast`
// is `f_txn := &t; var f_broadcast bool; …; f_broadcast = true; …`. sroa replaces
// such a variable by one variable per field (in place), which lets the flag
// pruning, the temporaries pass and the rules see through "group the values
// that travel together in a small struct" refactorings. The variable must be
// defined by composite literals / zero declarations only, and every other use
// must be a field selection (no whole-value use, no address of the variable, no
// method call that was not expanded).
func (p *Prog) sroa(info *types.Info, body *ast.BlockStmt) bool {
	type cand struct {
		obj    *types.Var
		st     *types.Struct
		ok     bool
		fields map[string]*types.Var
	}
	cands := map[types.Object]*cand{}
	structOf := func(t types.Type) *types.Struct {
		if pt, ok := t.Underlying().(*types.Pointer); ok {
			t = pt.Elem()
		}
		s, _ := t.Underlying().(*types.Struct)
		return s
	}
	litOf := func(e ast.Expr) *ast.CompositeLit {
		e = ast.Unparen(e)
		if u, ok := e.(*ast.UnaryExpr); ok && u.Op == token.AND {
			e = ast.Unparen(u.X)
		}
		cl, _ := e.(*ast.CompositeLit)
		return cl
	}
	obj := func(e ast.Expr) types.Object {
		id, ok := ast.Unparen(e).(*ast.Ident)
		if !ok {
			return nil
		}
		if o := info.Uses[id]; o != nil {
			return o
		}
		return info.Defs[id]
	}
	consider := func(id *ast.Ident, rhs ast.Expr, zeroDecl bool) {
		v, ok := info.Defs[id].(*types.Var)
		if !ok || v.IsField() {
			return
		}
		st := structOf(v.Type())
		if st == nil {
			return
		}
		if !zeroDecl && litOf(rhs) == nil {
			return
		}
		if _, isPtr := v.Type().Underlying().(*types.Pointer); isPtr && zeroDecl {
			return // a nil pointer is not an aggregate
		}
		if c := cands[v]; c == nil {
			cands[v] = &cand{obj: v, st: st, ok: true, fields: map[string]*types.Var{}}
		}
	}
	// pass 1: definitions
	ast.Inspect(body, func(n ast.Node) bool {
		switch t := n.(type) {
		case *ast.AssignStmt:
			if t.Tok == token.DEFINE && len(t.Lhs) == len(t.Rhs) {
				for i, l := range t.Lhs {
					if id, ok := l.(*ast.Ident); ok && info.Defs[id] != nil {
						consider(id, t.Rhs[i], false)
					}
				}
			}
		case *ast.ValueSpec:
			for i, nm := range t.Names {
				if len(t.Values) == 0 {
					consider(nm, nil, true)
				} else if len(t.Values) == len(t.Names) {
					consider(nm, t.Values[i], false)
				}
			}
		}
		return true
	})
	if len(cands) == 0 {
		return false
	}
	// pass 2: every use must be a definition site, a whole assignment from a literal, or the base of a field selection
	allowed := map[*ast.Ident]bool{}
	var wholeReturns []*ast.Ident
	ast.Inspect(body, func(n ast.Node) bool {
		switch t := n.(type) {
		case *ast.SelectorExpr:
			if id, ok := ast.Unparen(t.X).(*ast.Ident); ok {
				if c := cands[obj(id)]; c != nil {
					// a direct field, or a field promoted from a struct embedded by value
					if s := info.Selections[t]; s != nil && s.Kind() == types.FieldVal {
						ok := len(s.Index()) == 1
						if !ok {
							// every embedding step is a struct held by value (the selection's own Indirect flag may
							// stem from a pointer receiver that the expansion replaced by the variable)
							ok = true
							st := c.st
							for _, ix := range s.Index()[:len(s.Index())-1] {
								if st == nil || ix >= st.NumFields() {
									ok = false
									break
								}
								st, _ = st.Field(ix).Type().Underlying().(*types.Struct)
								if st == nil {
									ok = false
								}
							}
							if _, isPtr := c.obj.Type().Underlying().(*types.Pointer); isPtr {
								ok = false
							}
						}
						if ok {
							allowed[id] = true
						}
					}
				}
			}
		case *ast.AssignStmt:
			if len(t.Lhs) == len(t.Rhs) {
				for i, l := range t.Lhs {
					if id, ok := l.(*ast.Ident); ok && cands[obj(id)] != nil {
						if litOf(t.Rhs[i]) != nil && (t.Tok == token.DEFINE || t.Tok == token.ASSIGN) {
							allowed[id] = true
						}
					}
				}
			}
		case *ast.ValueSpec:
			for _, nm := range t.Names {
				if cands[info.Defs[nm]] != nil {
					allowed[nm] = true
				}
			}
		case *ast.ReturnStmt:
			// a struct value built field by field and returned whole is returned as a literal of its fields
			for _, r := range t.Results {
				if id, ok := ast.Unparen(r).(*ast.Ident); ok {
					if c := cands[obj(id)]; c != nil {
						if _, isPtr := c.obj.Type().Underlying().(*types.Pointer); !isPtr {
							allowed[id] = true
							wholeReturns = append(wholeReturns, id)
						}
					}
				}
			}
		}
		return true
	})
	ast.Inspect(body, func(n ast.Node) bool {
		if id, ok := n.(*ast.Ident); ok {
			if c := cands[obj(id)]; c != nil && !allowed[id] {
				if c.ok && os.Getenv("SIALINT_DEBUGSROA") != "" {
					println("sroa: whole use of", id.Name, "at", p.Fset.Position(id.Pos()).String())
				}
				c.ok = false
			}
		}
		return true
	})
	// literals must be keyed (or empty)
	ast.Inspect(body, func(n ast.Node) bool {
		check := func(l, r ast.Expr) {
			c := cands[obj(l)]
			if c == nil || r == nil {
				return
			}
			if cl := litOf(r); cl != nil {
				for _, el := range cl.Elts {
					if _, keyed := el.(*ast.KeyValueExpr); !keyed {
						if len(cl.Elts) != c.st.NumFields() {
							c.ok = false
						}
					}
				}
			}
		}
		switch t := n.(type) {
		case *ast.AssignStmt:
			if len(t.Lhs) == len(t.Rhs) {
				for i := range t.Lhs {
					check(t.Lhs[i], t.Rhs[i])
				}
			} else {
				for _, l := range t.Lhs {
					if c := cands[obj(l)]; c != nil {
						c.ok = false
					}
				}
			}
		case *ast.ValueSpec:
			if len(t.Values) == len(t.Names) {
				for i := range t.Names {
					check(t.Names[i], t.Values[i])
				}
			}
		}
		return true
	})
	any := false
	for _, c := range cands {
		if c.ok {
			any = true
		}
	}
	if !any {
		return false
	}
	fieldVar := func(c *cand, f *types.Var, pos token.Pos) *types.Var {
		if v, ok := c.fields[f.Name()]; ok {
			return v
		}
		v := types.NewVar(pos, c.obj.Pkg(), c.obj.Name()+"_"+f.Name(), f.Type())
		c.fields[f.Name()] = v
		return v
	}
	// rewrite field selections
	var rewriteExprs func(n ast.Node)
	rewriteExprs = func(n ast.Node) {
		ast.Inspect(n, func(m ast.Node) bool {
			sel, ok := m.(*ast.SelectorExpr)
			if !ok {
				return true
			}
			id, ok := ast.Unparen(sel.X).(*ast.Ident)
			if !ok {
				return true
			}
			c := cands[obj(id)]
			if c == nil || !c.ok {
				return true
			}
			s := info.Selections[sel]
			if s == nil || s.Kind() != types.FieldVal {
				return true
			}
			if len(s.Index()) > 1 {
				// promoted: x.F where F lives in an embedded struct E becomes x_E.F
				first := c.st.Field(s.Index()[0])
				fv := fieldVar(c, first, c.obj.Pos())
				use := &ast.Ident{NamePos: sel.Pos(), Name: fv.Name()}
				info.Uses[use] = fv
				info.Types[use] = types.TypeAndValue{Type: first.Type()}
				nsel := &ast.SelectorExpr{X: use, Sel: sel.Sel}
				info.Selections[nsel] = s
				if tv, ok := info.Types[sel]; ok {
					info.Types[nsel] = tv
				}
				replaceExpr(body, sel, nsel)
				return false
			}
			fv := fieldVar(c, s.Obj().(*types.Var), c.obj.Pos())
			use := &ast.Ident{NamePos: sel.Pos(), Name: fv.Name()}
			info.Uses[use] = fv
			if tv, ok := info.Types[sel]; ok {
				info.Types[use] = tv
			}
			replaceExpr(body, sel, use)
			return false
		})
	}
	rewriteExprs(body)
	// whole-value returns become literals of the field variables
	for _, id := range wholeReturns {
		c := cands[obj(id)]
		if c == nil || !c.ok {
			continue
		}
		lit := &ast.CompositeLit{Lbrace: id.Pos(), Rbrace: id.End()}
		for i := 0; i < c.st.NumFields(); i++ {
			f := c.st.Field(i)
			fv := fieldVar(c, f, c.obj.Pos())
			key := &ast.Ident{NamePos: id.Pos(), Name: f.Name()}
			use := &ast.Ident{NamePos: id.Pos(), Name: fv.Name()}
			info.Uses[use] = fv
			info.Types[use] = types.TypeAndValue{Type: f.Type()}
			lit.Elts = append(lit.Elts, &ast.KeyValueExpr{Key: key, Colon: id.Pos(), Value: use})
		}
		if tv, ok := info.Types[id]; ok {
			info.Types[lit] = tv
		}
		replaceExpr(body, id, lit)
	}
	// rewrite definitions / whole assignments into per-field statements
	expand := func(c *cand, lit *ast.CompositeLit, at token.Pos, define bool) []ast.Stmt {
		given := map[string]ast.Expr{}
		if lit != nil {
			for i, el := range lit.Elts {
				if kv, ok := el.(*ast.KeyValueExpr); ok {
					if k, ok := kv.Key.(*ast.Ident); ok {
						given[k.Name] = kv.Value
					}
				} else {
					given[c.st.Field(i).Name()] = el
				}
			}
		}
		var out []ast.Stmt
		for i := 0; i < c.st.NumFields(); i++ {
			f := c.st.Field(i)
			fv, used := c.fields[f.Name()]
			val := given[f.Name()]
			if !used {
				if val != nil && containsEffect(info, val) {
					out = append(out, &ast.AssignStmt{Lhs: []ast.Expr{&ast.Ident{NamePos: at, Name: "_"}}, TokPos: at, Tok: token.ASSIGN, Rhs: []ast.Expr{val}})
				}
				continue
			}
			id := &ast.Ident{NamePos: at, Name: fv.Name()}
			switch {
			case define && val != nil:
				info.Defs[id] = fv
				out = append(out, &ast.AssignStmt{Lhs: []ast.Expr{id}, TokPos: at, Tok: token.DEFINE, Rhs: []ast.Expr{val}})
			case define:
				info.Defs[id] = fv
				out = append(out, &ast.DeclStmt{Decl: &ast.GenDecl{TokPos: at, Tok: token.VAR, Specs: []ast.Spec{&ast.ValueSpec{Names: []*ast.Ident{id}}}}})
			case val != nil:
				info.Uses[id] = fv
				out = append(out, &ast.AssignStmt{Lhs: []ast.Expr{id}, TokPos: at, Tok: token.ASSIGN, Rhs: []ast.Expr{val}})
			default:
				// whole assignment resets the field to its zero value: not expressible without a typed zero; give up on precision
				info.Uses[id] = fv
				zero := &ast.CompositeLit{Lbrace: at, Rbrace: at}
				info.Types[zero] = types.TypeAndValue{Type: f.Type()}
				if b, isBasic := f.Type().Underlying().(*types.Basic); isBasic && b.Kind() == types.Bool {
					fid := &ast.Ident{NamePos: at, Name: "false"}
					info.Uses[fid] = types.Universe.Lookup("false")
					info.Types[fid] = types.TypeAndValue{Type: types.Typ[types.Bool], Value: constantFalse}
					out = append(out, &ast.AssignStmt{Lhs: []ast.Expr{id}, TokPos: at, Tok: token.ASSIGN, Rhs: []ast.Expr{fid}})
				} else {
					out = append(out, &ast.AssignStmt{Lhs: []ast.Expr{id}, TokPos: at, Tok: token.ASSIGN, Rhs: []ast.Expr{zero}})
				}
			}
		}
		return out
	}
	var rewriteList func(list []ast.Stmt) []ast.Stmt
	rewriteList = func(list []ast.Stmt) []ast.Stmt {
		var out []ast.Stmt
		for _, s := range list {
			switch t := s.(type) {
			case *ast.AssignStmt:
				if len(t.Lhs) == 1 && len(t.Rhs) == 1 {
					if c := cands[obj(t.Lhs[0])]; c != nil && c.ok {
						out = append(out, expand(c, litOf(t.Rhs[0]), t.Pos(), t.Tok == token.DEFINE)...)
						continue
					}
				}
				if len(t.Lhs) > 1 && len(t.Lhs) == len(t.Rhs) {
					// `x, err = T{…}, e`: the aggregate's fields are assigned one by one, the rest stays together
					var restL, restR []ast.Expr
					var parts []ast.Stmt
					for i := range t.Lhs {
						if c := cands[obj(t.Lhs[i])]; c != nil && c.ok && litOf(t.Rhs[i]) != nil {
							parts = append(parts, expand(c, litOf(t.Rhs[i]), t.Pos(), t.Tok == token.DEFINE)...)
							continue
						}
						restL, restR = append(restL, t.Lhs[i]), append(restR, t.Rhs[i])
					}
					if len(parts) > 0 {
						if len(restL) > 0 {
							out = append(out, &ast.AssignStmt{Lhs: restL, TokPos: t.TokPos, Tok: t.Tok, Rhs: restR})
						}
						out = append(out, parts...)
						continue
					}
				}
			case *ast.DeclStmt:
				if gd, ok := t.Decl.(*ast.GenDecl); ok && gd.Tok == token.VAR && len(gd.Specs) == 1 {
					vs := gd.Specs[0].(*ast.ValueSpec)
					if len(vs.Names) == 1 {
						if c := cands[info.Defs[vs.Names[0]]]; c != nil && c.ok {
							var lit *ast.CompositeLit
							if len(vs.Values) == 1 {
								lit = litOf(vs.Values[0])
							}
							out = append(out, expand(c, lit, t.Pos(), true)...)
							continue
						}
					}
				}
			}
			out = append(out, s)
		}
		return out
	}
	ast.Inspect(body, func(n ast.Node) bool {
		switch t := n.(type) {
		case *ast.BlockStmt:
			t.List = rewriteList(t.List)
		case *ast.CaseClause:
			t.Body = rewriteList(t.Body)
		case *ast.CommClause:
			t.Body = rewriteList(t.Body)
		}
		return true
	})
	return true
}

// simplifyAddrDeref rewrites *(&x) to x and (&x).f to x.f.
func simplifyAddrDeref(info *types.Info, body ast.Node) {
	addrOf := func(e ast.Expr) ast.Expr {
		if u, ok := ast.Unparen(e).(*ast.UnaryExpr); ok && u.Op == token.AND {
			return u.X
		}
		return nil
	}
	for changed := true; changed; {
		changed = false
		ast.Inspect(body, func(n ast.Node) bool {
			switch t := n.(type) {
			case *ast.StarExpr:
				if x := addrOf(t.X); x != nil {
					if replaceExpr(body, t, x) {
						changed = true
						return false
					}
				}
			case *ast.SelectorExpr:
				if x := addrOf(t.X); x != nil && info.Selections[t] != nil {
					t.X = x
					changed = true
				}
			}
			return !changed
		})
	}
}
