package ir

import (
	"fmt"
	"go/ast"
	"go/constant"
	"go/token"
	"go/types"
	"os"
	"reflect"

	"sialint/internal/cfgx"
)

// ExpandOpt configures Expand.
type ExpandOpt struct {
	// Key identifies the option set for caching.
	Key string
	// Stop names callees that stay calls (functions the rules treat as a unit).
	Stop func(*types.Func) bool
	// Depth bounds nested expansion (default 8).
	Depth int
	// Defers makes deferred calls explicit before every return (see expandDefers).
	Defers bool
	// GoLits rewrites `go h(a)` with stable operands into `go func(){ h(a) }()` and expands h there, so that
	// the body of a goroutine is seen where it is started whether it is a literal or a method.
	GoLits bool
}

// Expand returns a view of the declared function f in which every call (in a
// supported statement position) to an unexported function of f's own package
// with a body, and every call of a local closure, is replaced by a renamed
// copy of the callee's body. Returns of the callee become assignments to the
// call's left-hand sides followed by a jump to the end of the copy; when the
// caller immediately tests the assigned error / bool and the returned value
// is syntactically nil / non-nil / true / false, the jump goes straight to
// the corresponding branch, so no infeasible path is introduced. The view is
// not compilable Go (jumps into blocks), but it is a faithful control-flow and
// data-flow rendering of caller+helpers, which makes intra-procedural rules
// indifferent to helper extraction and inlining.
//
// Callees that defer, recover, are variadic, generic or recursive stay calls.
func (p *Prog) Expand(f *Func, opt ExpandOpt) *Func {
	if f.View {
		return f
	}
	key := viewKey{f, opt.Key}
	if v, ok := p.views[key]; ok {
		return v
	}
	if opt.Depth == 0 {
		opt.Depth = 8
	}
	x := &expander{p: p, top: f, info: f.Info(), opt: opt, closures: map[types.Object]*ast.FuncLit{}}
	cl := &cloner{p: p, info: x.info, objs: map[types.Object]types.Object{}}
	body := cl.node(f.Body).(*ast.BlockStmt)
	x.findClosures(body)
	if f.Obj != nil {
		x.stack = append(x.stack, f.Obj)
		x.results = append(x.results, f.Obj.Type().(*types.Signature).Results())
	} else if s, ok := x.info.TypeOf(f.Lit).(*types.Signature); ok {
		x.results = append(x.results, s.Results())
	}
	x.topWritten = x.writtenObjs(f.Body)
	body.List = x.blockT(body.List, 0, true)
	x.dropDeadClosures(body)
	if opt.Defers {
		var named []types.Object
		if f.Type.Results != nil {
			for _, fld := range f.Type.Results.List {
				for _, nm := range fld.Names {
					named = append(named, x.info.Defs[nm])
				}
			}
		}
		if x.expandDefers(body, f.Type, named) && x.inlinedCalls == nil {
			x.inlinedCalls = map[ast.Node]bool{}
		}
	}
	if (len(x.inlinedCalls) > 0 || x.rewrote) && os.Getenv("SIALINT_NODETEMP") == "" {
		// parameter bindings and result copies introduced by the expansion are temporaries like any other,
		// and a struct that only bundled values for a helper is now a set of locals
		p.detemp(x.info, body)
		if os.Getenv("SIALINT_NOSROA") == "" && p.sroa(x.info, body) {
			p.detemp(x.info, body)
			// a struct of function values handed to a helper is now a set of local closures: expand their calls
			n := len(x.inlinedCalls) + len(x.inlined)
			x.findClosures(body)
			body.List = x.blockT(body.List, 0, true)
			if len(x.inlinedCalls)+len(x.inlined) != n {
				x.dropDeadClosures(body)
				p.detemp(x.info, body)
			}
		}
	}
	v := &Func{P: p, Obj: f.Obj, Decl: f.Decl, Lit: f.Lit, Parent: f.Parent, Pkg: f.Pkg, Body: body, Type: f.Type, name: f.name, View: true, Base: f, Inlined: x.inlined, InlinedCalls: x.inlinedCalls}
	p.indexLits(v, v, body, false)
	if p.views == nil {
		p.views = map[viewKey]*Func{}
	}
	p.views[key] = v
	return v
}

type viewKey struct {
	f   *Func
	key string
}

// LitFor returns the literal of view v copied from the loaded literal orig (first copy), or nil.
func (v *Func) LitFor(orig *Func) *Func {
	for _, l := range v.Lits {
		if v.P.OrigNode(l.Lit) == ast.Node(orig.Lit) {
			return l
		}
	}
	return nil
}

type expander struct {
	p        *Prog
	top      *Func
	info     *types.Info
	opt      ExpandOpt
	seq      int
	stack    []*types.Func
	litStack []*ast.FuncLit
	closures map[types.Object]*ast.FuncLit
	after    map[ast.Stmt][]ast.Stmt
	rewrote  bool                     // a statement was rewritten into another form (unrolled table, iterator loop)
	open     []ast.Node               // bodies of the callee copies currently being rewritten
	ifNext   map[*ast.IfStmt]ast.Stmt // the statement following each if statement being rewritten
	inlined  []*types.Func
	results  []*types.Tuple // result tuples of the functions enclosing the statement being rewritten

	inlinedCalls map[ast.Node]bool // loaded call expressions that were expanded
	tail         bool              // the statement being rewritten is the last of a function body
	topWritten   map[types.Object]bool
}

// findClosures records the variables of body that are defined exactly once, by a function literal.
func (x *expander) findClosures(body ast.Node) {
	count := map[types.Object]int{}
	cand := map[types.Object]*ast.FuncLit{}
	note := func(lhs ast.Expr, rhs ast.Expr) {
		id, ok := ast.Unparen(lhs).(*ast.Ident)
		if !ok {
			return
		}
		obj := x.objOf(id)
		if obj == nil {
			return
		}
		count[obj]++
		if rhs != nil {
			if lit, ok := ast.Unparen(rhs).(*ast.FuncLit); ok {
				cand[obj] = lit
			}
		}
	}
	ast.Inspect(body, func(n ast.Node) bool {
		switch t := n.(type) {
		case *ast.AssignStmt:
			for i, l := range t.Lhs {
				var r ast.Expr
				if len(t.Rhs) == len(t.Lhs) {
					r = t.Rhs[i]
				}
				note(l, r)
			}
		case *ast.ValueSpec:
			for i, nm := range t.Names {
				var r ast.Expr
				if len(t.Values) == len(t.Names) {
					r = t.Values[i]
				}
				if r != nil {
					note(nm, r)
				}
			}
		case *ast.IncDecStmt:
			note(t.X, nil)
		case *ast.RangeStmt:
			if t.Key != nil {
				note(t.Key, nil)
			}
			if t.Value != nil {
				note(t.Value, nil)
			}
		case *ast.UnaryExpr:
			if t.Op == token.AND {
				note(t.X, nil)
			}
		}
		return true
	})
	for obj, lit := range cand {
		if count[obj] == 1 {
			x.closures[obj] = lit
		}
	}
}

func (x *expander) label(kind string) string {
	x.seq++
	return fmt.Sprintf("inl%d_%s", x.seq, kind)
}

func labeled(name string, pos token.Pos) ast.Stmt {
	return &ast.LabeledStmt{Label: &ast.Ident{NamePos: pos, Name: name}, Colon: pos, Stmt: &ast.EmptyStmt{Semicolon: pos, Implicit: true}}
}

func gotoStmt(name string, pos token.Pos) ast.Stmt {
	return &ast.BranchStmt{TokPos: pos, Tok: token.GOTO, Label: &ast.Ident{NamePos: pos, Name: name}}
}

// block rewrites a statement list.
func (x *expander) block(list []ast.Stmt, depth int) []ast.Stmt {
	return x.blockT(list, depth, false)
}

// blockT rewrites a statement list; fnBody marks the top-level list of a
// function (literal) body, whose last statement is in tail position: a callee
// expanded there may defer, because its deferred calls run at the same point
// relative to everything else (after the callee's body, before the deferred
// calls registered earlier by the enclosing function).
func (x *expander) blockT(list []ast.Stmt, depth int, fnBody bool) []ast.Stmt {
	return x.blockC(list, depth, fnBody, nil)
}

// blockC is blockT for a list whose last statement is followed, in execution
// order, by cont (the statement after the if statement the list is an arm of).
func (x *expander) blockC(list []ast.Stmt, depth int, fnBody bool, cont ast.Stmt) []ast.Stmt {
	var out []ast.Stmt
	for i := 0; i < len(list); i++ {
		s := list[i]
		var next ast.Stmt
		if i+1 < len(list) {
			next = list[i+1]
		} else {
			next = cont
		}
		x.tail = fnBody && i == len(list)-1
		out = append(out, x.stmt(s, next, depth)...)
		x.tail = false
		if x.after != nil {
			if extra, ok := x.after[s]; ok {
				out = append(out, extra...)
				delete(x.after, s)
			}
		}
	}
	return out
}

// stmt rewrites one statement (possibly into several).
func (x *expander) stmt(s ast.Stmt, next ast.Stmt, depth int) []ast.Stmt {
	var pre []ast.Stmt
	tail := x.tail
	if repl := x.devirt(s, depth); repl != nil {
		x.tail = tail
		return x.blockC(repl, depth, false, next)
	}
	x.accessors(s, depth)
	x.tail = false
	switch t := s.(type) {
	case *ast.DeferStmt:
		pre = x.stabilise(t.Call, depth)
		x.litForm(&t.Call, depth)
		if len(pre) > 0 {
			x.descend(s, depth)
			return append(pre, s)
		}
	case *ast.GoStmt:
		if x.opt.GoLits {
			pre = x.stabilise(t.Call, depth)
			x.litForm(&t.Call, depth)
			if len(pre) > 0 {
				x.descend(s, depth)
				return append(pre, s)
			}
		}
	case *ast.SendStmt:
		// `ch <- helper(x)`: the value is computed first, like any assigned call
		if call, ok := ast.Unparen(t.Value).(*ast.CallExpr); ok && isPure(x.info, t.Chan) {
			if _, exp := x.target(call, depth); exp {
				if typ := x.info.TypeOf(call); typ != nil {
					if _, isTuple := typ.(*types.Tuple); !isTuple {
						x.seq++
						tmp := types.NewVar(call.Pos(), x.top.Pkg.Types, fmt.Sprintf("inl%d_send", x.seq), typ)
						def := &ast.Ident{NamePos: call.Pos(), Name: tmp.Name()}
						x.info.Defs[def] = tmp
						as := &ast.AssignStmt{Lhs: []ast.Expr{def}, TokPos: call.Pos(), Tok: token.DEFINE, Rhs: []ast.Expr{call}}
						use := &ast.Ident{NamePos: call.Pos(), Name: tmp.Name()}
						x.info.Uses[use] = tmp
						x.info.Types[use] = types.TypeAndValue{Type: typ}
						t.Value = use
						x.rewrote = true
						return x.blockC([]ast.Stmt{as, t}, depth, false, next)
					}
				}
			}
		}
	case *ast.ExprStmt:
		if call, ok := ast.Unparen(t.X).(*ast.CallExpr); ok {
			pre = x.hoistArgs(call, depth)
			if repl, ok := x.inline(call, &callCtx{kind: ctxDiscard, pos: s.Pos(), tail: tail}, depth); ok {
				return append(pre, repl...)
			}
		}
	case *ast.AssignStmt:
		if repl := x.boolAssignToIf(t, depth); repl != nil {
			return x.block(repl, depth)
		}
		if len(t.Rhs) > 1 && len(t.Rhs) == len(t.Lhs) && (t.Tok == token.ASSIGN || t.Tok == token.DEFINE) && pureLvalues(t.Lhs) {
			pre = x.hoistList(t.Rhs, depth)
		}
		if len(t.Rhs) == 1 && (t.Tok == token.ASSIGN || t.Tok == token.DEFINE) {
			if call, ok := ast.Unparen(t.Rhs[0]).(*ast.CallExpr); ok {
				pre = x.hoistArgs(call, depth)
				if repl, ok := x.inline(call, &callCtx{kind: ctxAssign, assign: t, next: next, pos: s.Pos()}, depth); ok {
					return append(pre, repl...)
				}
			}
		}
	case *ast.ReturnStmt:
		if len(t.Results) > 1 {
			pre = x.hoistList(t.Results, depth)
		}
		if len(t.Results) == 1 {
			if call, ok := ast.Unparen(t.Results[0]).(*ast.CallExpr); ok {
				pre = x.hoistArgs(call, depth)
				if repl, ok := x.inline(call, &callCtx{kind: ctxReturn, pos: s.Pos(), tail: true}, depth); ok {
					return append(pre, repl...)
				}
			}
		}
	case *ast.IfStmt:
		if x.ifNext == nil {
			x.ifNext = map[*ast.IfStmt]ast.Stmt{}
		}
		x.ifNext[t] = next
		if t.Init != nil {
			if x.inlinableStmt(t.Init, depth) {
				init := t.Init
				t.Init = nil
				repl := x.stmt(init, t, depth)
				rest := x.stmt(t, next, depth)
				var tail []ast.Stmt
				if x.after != nil {
					tail = x.after[t]
					delete(x.after, t)
				}
				blk := &ast.BlockStmt{Lbrace: s.Pos(), Rbrace: s.End()}
				blk.List = append(append(repl, rest...), tail...)
				return []ast.Stmt{blk}
			}
		} else {
			if x.cmpCallToInit(t, depth) {
				return x.stmt(t, next, depth)
			}
			if lowered := x.lowerCond(t, depth); lowered != nil {
				return x.block(lowered, depth)
			}
			cond := ast.Unparen(t.Cond)
			neg := false
			if u, ok := cond.(*ast.UnaryExpr); ok && u.Op == token.NOT {
				cond, neg = ast.Unparen(u.X), true
			}
			if call, ok := cond.(*ast.CallExpr); ok {
				pre = x.hoistArgs(call, depth)
				if repl, ok := x.inline(call, &callCtx{kind: ctxCond, ifStmt: t, neg: neg, pos: s.Pos()}, depth); ok {
					x.descend(t, depth)
					return append(append(pre, repl...), t)
				}
			}
		}
	case *ast.ForStmt:
		// `for cond() { … }` with an expandable call in the condition: the test moves into the body
		// (`for { if !cond() { break }; … }`), where it is expanded like any other condition
		if t.Cond != nil && t.Post == nil {
			has := false
			ast.Inspect(t.Cond, func(n ast.Node) bool {
				if call, ok := n.(*ast.CallExpr); ok {
					if _, exp := x.target(call, depth); exp {
						has = true
					}
				}
				if _, isLit := n.(*ast.FuncLit); isLit {
					return false
				}
				return !has
			})
			if has {
				at := t.Cond.Pos()
				boolT := types.TypeAndValue{Type: types.Typ[types.Bool]}
				par := &ast.ParenExpr{Lparen: at, X: t.Cond, Rparen: t.Cond.End()}
				not := &ast.UnaryExpr{OpPos: at, Op: token.NOT, X: par}
				x.info.Types[par], x.info.Types[not] = boolT, boolT
				guard := &ast.IfStmt{If: at, Cond: not, Body: &ast.BlockStmt{Lbrace: at, List: []ast.Stmt{&ast.BranchStmt{TokPos: at, Tok: token.BREAK}}, Rbrace: t.Cond.End()}}
				t.Cond = nil
				t.Body.List = append([]ast.Stmt{guard}, t.Body.List...)
			}
		}
	case *ast.RangeStmt:
		if un := x.unrollTable(t); un != nil {
			return x.blockC(un, depth, false, next)
		}
		// `for … := range helper(args)` over a list the helper builds: the list is computed first, like any
		// assigned call
		if call, ok := ast.Unparen(t.X).(*ast.CallExpr); ok {
			if _, exp := x.target(call, depth); exp {
				if typ := x.info.TypeOf(call); typ != nil {
					if _, isFunc := typ.Underlying().(*types.Signature); !isFunc {
						if _, isTuple := typ.(*types.Tuple); !isTuple {
							x.seq++
							tmp := types.NewVar(call.Pos(), x.top.Pkg.Types, fmt.Sprintf("inl%d_seq", x.seq), typ)
							def := &ast.Ident{NamePos: call.Pos(), Name: tmp.Name()}
							x.info.Defs[def] = tmp
							as := &ast.AssignStmt{Lhs: []ast.Expr{def}, TokPos: call.Pos(), Tok: token.DEFINE, Rhs: []ast.Expr{call}}
							use := &ast.Ident{NamePos: call.Pos(), Name: tmp.Name()}
							x.info.Uses[use] = tmp
							x.info.Types[use] = types.TypeAndValue{Type: typ}
							t.X = use
							x.rewrote = true
							return x.blockC([]ast.Stmt{as, t}, depth, false, next)
						}
					}
				}
			}
		}
		if un := x.rangeOverFunc(t, depth); un != nil {
			// the iterator first (its expansion yields the literal it returns), then the loop body as a closure,
			// then the call of the one on the other
			first := x.blockC(un[:2], depth, false, nil)
			x.findClosures(&ast.BlockStmt{List: first})
			return append(first, x.blockC(un[2:], depth, false, next)...)
		}
	case *ast.SwitchStmt:
		// `switch v, k := helper(x); k {…}`: the initialiser is a statement of its own before the switch
		if t.Init != nil && t.Tag != nil && x.inlinableStmt(t.Init, depth) {
			init := t.Init
			t.Init = nil
			x.rewrote = true
			return []ast.Stmt{&ast.BlockStmt{Lbrace: s.Pos(), List: x.blockC([]ast.Stmt{init, t}, depth, false, next), Rbrace: s.End()}}
		}
		// `switch helper(args) {…}`: the tag is computed into a temporary first, so that the helper is expanded
		// like any assigned call (and its constant returns can enter their case directly)
		if call, ok := ast.Unparen(t.Tag).(*ast.CallExpr); ok && t.Init == nil {
			if _, exp := x.target(call, depth); exp {
				if typ := x.info.TypeOf(call); typ != nil {
					if _, isTuple := typ.(*types.Tuple); !isTuple {
						x.seq++
						tmp := types.NewVar(call.Pos(), x.top.Pkg.Types, fmt.Sprintf("inl%d_tag", x.seq), typ)
						def := &ast.Ident{NamePos: call.Pos(), Name: tmp.Name()}
						x.info.Defs[def] = tmp
						as := &ast.AssignStmt{Lhs: []ast.Expr{def}, TokPos: call.Pos(), Tok: token.DEFINE, Rhs: []ast.Expr{call}}
						use := &ast.Ident{NamePos: call.Pos(), Name: tmp.Name()}
						x.info.Uses[use] = tmp
						if tv, ok := x.info.Types[call]; ok {
							x.info.Types[use] = tv
						}
						t.Tag = use
						return x.blockC([]ast.Stmt{as, t}, depth, false, next)
					}
				}
			}
		}
	case *ast.LabeledStmt:
		inner := x.stmt(t.Stmt, next, depth)
		if len(inner) == 1 {
			t.Stmt = inner[0]
			return []ast.Stmt{t}
		}
		t.Stmt = &ast.EmptyStmt{Semicolon: t.Colon, Implicit: true}
		return append([]ast.Stmt{t}, inner...)
	}
	x.descend(s, depth)
	return append(pre, s)
}

// constSwitch: every case expression of sw is a constant, tags are compared by
// value only, and no clause falls through (so entering a clause body directly
// is what the switch would do for that value).
func (x *expander) constSwitch(sw *ast.SwitchStmt) bool {
	if _, ok := ast.Unparen(sw.Tag).(*ast.Ident); !ok {
		return false
	}
	for _, st := range sw.Body.List {
		cc, ok := st.(*ast.CaseClause)
		if !ok {
			return false
		}
		for _, e := range cc.List {
			if tv, ok := x.info.Types[e]; !ok || tv.Value == nil {
				return false
			}
		}
		if n := len(cc.Body); n > 0 {
			if br, ok := cc.Body[n-1].(*ast.BranchStmt); ok && br.Tok == token.FALLTHROUGH {
				return false
			}
		}
	}
	return true
}

// pureLvalues: every left-hand side is a plain identifier (evaluating it has no effect and calls nothing).
func pureLvalues(lhs []ast.Expr) bool {
	for _, l := range lhs {
		if _, ok := ast.Unparen(l).(*ast.Ident); !ok {
			return false
		}
	}
	return true
}

// inlinableStmt reports whether s is a statement form whose call would be expanded.
func (x *expander) inlinableStmt(s ast.Stmt, depth int) bool {
	var call *ast.CallExpr
	switch t := s.(type) {
	case *ast.ExprStmt:
		call, _ = ast.Unparen(t.X).(*ast.CallExpr)
	case *ast.AssignStmt:
		if len(t.Rhs) == 1 && (t.Tok == token.ASSIGN || t.Tok == token.DEFINE) {
			call, _ = ast.Unparen(t.Rhs[0]).(*ast.CallExpr)
		}
	}
	if call == nil {
		return false
	}
	if _, ok := x.target(call, depth); ok {
		return true
	}
	if _, impls := x.closedIface(call, depth); len(impls) > 0 {
		return true
	}
	for _, a := range call.Args {
		if c, ok := ast.Unparen(a).(*ast.CallExpr); ok {
			if _, ok := x.target(c, depth); ok {
				return true
			}
		}
	}
	return false
}

// descend rewrites the statement lists nested in s (and in its function literals).
func (x *expander) descend(s ast.Node, depth int) {
	ast.Inspect(s, func(n ast.Node) bool {
		switch t := n.(type) {
		case *ast.FuncLit:
			if s, ok := x.info.TypeOf(t).(*types.Signature); ok {
				x.results = append(x.results, s.Results())
				t.Body.List = x.blockT(t.Body.List, depth, true)
				x.results = x.results[:len(x.results)-1]
			}
			return false
		case *ast.BlockStmt:
			t.List = x.block(t.List, depth)
			return false
		case *ast.CaseClause:
			t.Body = x.block(t.Body, depth)
			for _, e := range t.List {
				x.descend(e, depth)
			}
			return false
		case *ast.CommClause:
			if t.Comm != nil {
				x.descend(t.Comm, depth)
			}
			t.Body = x.block(t.Body, depth)
			return false
		case *ast.IfStmt:
			if t != s {
				// an else-if: rewrite it as a statement of its own
				return true
			}
			if t.Init != nil {
				x.descend(t.Init, depth)
			}
			x.descend(t.Cond, depth)
			// the statement executed after either arm falls off its end
			nx := x.ifNext[t]
			t.Body.List = x.blockC(t.Body.List, depth, false, nx)
			switch e := t.Else.(type) {
			case *ast.BlockStmt:
				e.List = x.blockC(e.List, depth, false, nx)
			case *ast.LabeledStmt:
				// an else-if that a jump-threaded return enters directly
				repl := x.stmt(e.Stmt, nx, depth)
				var tail []ast.Stmt
				if x.after != nil {
					tail = x.after[e.Stmt]
					delete(x.after, e.Stmt)
				}
				if len(repl) == 1 && len(tail) == 0 {
					e.Stmt = repl[0]
				} else {
					e.Stmt = &ast.BlockStmt{Lbrace: e.Pos(), List: append(repl, tail...), Rbrace: e.End()}
				}
			case *ast.IfStmt:
				repl := x.stmt(e, nx, depth)
				var tail []ast.Stmt
				if x.after != nil {
					tail = x.after[e]
					delete(x.after, e)
				}
				if len(repl) == 1 && len(tail) == 0 {
					t.Else = repl[0]
				} else {
					t.Else = &ast.BlockStmt{Lbrace: e.Pos(), List: append(repl, tail...), Rbrace: e.End()}
				}
			}
			return false
		}
		return true
	})
}

type ctxKind int

const (
	ctxDiscard ctxKind = iota
	ctxAssign
	ctxReturn
	ctxCond
)

type callCtx struct {
	kind   ctxKind
	assign *ast.AssignStmt
	next   ast.Stmt
	ifStmt *ast.IfStmt
	neg    bool
	pos    token.Pos
	tail   bool // the call's completion is the enclosing function's completion
}

// callee describes what a call expands to.
type callee struct {
	fn   *Func        // declared function or literal
	obj  *types.Func  // nil for closures
	recv ast.Expr     // receiver operand of a method call
	lit  *ast.FuncLit // closure literal (copy inside the view)
}

// target resolves call to an expandable callee.
func (x *expander) target(call *ast.CallExpr, depth int) (callee, bool) {
	return x.targetD(call, depth, false)
}

func (x *expander) targetD(call *ast.CallExpr, depth int, allowDefer bool) (callee, bool) {
	if depth >= x.opt.Depth {
		return callee{}, false
	}
	if call.Ellipsis.IsValid() {
		return callee{}, false
	}
	fun := ast.Unparen(call.Fun)
	// local closure or immediately invoked literal
	var lit *ast.FuncLit
	if l, ok := fun.(*ast.FuncLit); ok {
		lit = l
	} else if id, ok := fun.(*ast.Ident); ok {
		if obj := x.info.Uses[id]; obj != nil {
			lit = x.closures[obj]
		}
	}
	if lit != nil {
		for _, l := range x.litStack {
			if l == lit {
				return callee{}, false
			}
		}
		orig, _ := x.p.OrigNode(lit).(*ast.FuncLit)
		fn := x.p.byLit[orig]
		if fn == nil || !x.eligibleBody(fn, call, allowDefer) {
			return callee{}, false
		}
		return callee{fn: fn, lit: lit}, true
	}
	obj, _ := calleeOf(x.info, call)
	if obj == nil || obj.Pkg() == nil || obj.Pkg() != x.top.Pkg.Types || obj.Exported() {
		return callee{}, false
	}
	if x.opt.Stop != nil && x.opt.Stop(obj) {
		return callee{}, false
	}
	for _, s := range x.stack {
		if s == obj {
			return callee{}, false
		}
	}
	fn := x.p.byObj[obj]
	if fn == nil || !x.eligibleBody(fn, call, allowDefer) {
		return callee{}, false
	}
	// (generic callees are expanded too: the copy keeps the type parameters in its type information, which the
	// rules do not look at; control flow, objects and callees are what matters)
	sig := obj.Type().(*types.Signature)
	c := callee{fn: fn, obj: obj}
	if sig.Recv() != nil {
		sel, ok := fun.(*ast.SelectorExpr)
		if !ok {
			return callee{}, false
		}
		s := x.info.Selections[sel]
		if s == nil || s.Kind() != types.MethodVal || len(s.Index()) != 1 {
			return callee{}, false
		}
		c.recv = sel.X
	}
	return c, true
}

func calleeOf(info *types.Info, call *ast.CallExpr) (*types.Func, bool) {
	var id *ast.Ident
	fun := ast.Unparen(call.Fun)
	// an explicitly instantiated generic function: helper[T](…)
	switch ix := fun.(type) {
	case *ast.IndexExpr:
		if tv, ok := info.Types[ix.Index]; ok && tv.IsType() {
			fun = ast.Unparen(ix.X)
		}
	case *ast.IndexListExpr:
		fun = ast.Unparen(ix.X)
	}
	switch f := fun.(type) {
	case *ast.Ident:
		id = f
	case *ast.SelectorExpr:
		id = f.Sel
	default:
		return nil, false
	}
	fn, ok := info.Uses[id].(*types.Func)
	if !ok {
		return nil, false
	}
	if recv := fn.Type().(*types.Signature).Recv(); recv != nil {
		if _, isIface := recv.Type().Underlying().(*types.Interface); isIface {
			return nil, false
		}
	}
	return fn.Origin(), true
}

func (x *expander) eligibleBody(fn *Func, call *ast.CallExpr, allowDefer bool) bool {
	var sig *types.Signature
	if t := x.info.TypeOf(call.Fun); t != nil {
		sig, _ = t.Underlying().(*types.Signature)
	}
	if sig == nil {
		return false
	}
	if sig.Variadic() {
		// explicit trailing operands only (not `f(xs...)`), so that they can be read as a slice literal
		if call.Ellipsis.IsValid() || len(call.Args) < sig.Params().Len()-1 {
			return false
		}
		if len(call.Args) == 1 && sig.Params().Len() > 1 {
			return false
		}
	} else if sig.Params().Len() != len(call.Args) {
		return false // f(g()) with a tuple argument
	}
	ok := true
	Walk(fn.Body, false, func(n ast.Node) {
		switch t := n.(type) {
		case *ast.CallExpr:
			if id, isID := t.Fun.(*ast.Ident); isID && id.Name == "recover" {
				if _, b := fn.Info().Uses[id].(*types.Builtin); b {
					ok = false
				}
			}
		}
	})
	return ok
}

// hoistArgs moves expandable calls that are direct operands of call into
// temporaries evaluated just before the statement, when nothing with an
// effect is evaluated before them, and returns the (already expanded)
// statements computing the temporaries.
func (x *expander) hoistArgs(call *ast.CallExpr, depth int) []ast.Stmt {
	hasCall := func(e ast.Expr) bool {
		found := false
		ast.Inspect(e, func(n ast.Node) bool {
			if _, ok := n.(*ast.CallExpr); ok {
				found = true
			}
			return !found
		})
		return found
	}
	if sel, ok := ast.Unparen(call.Fun).(*ast.SelectorExpr); ok && hasCall(sel.X) {
		return nil
	}
	return x.hoistList(call.Args, depth)
}

// hoistList moves operands of list that are expandable single-result calls
// into temporaries declared just before the statement (and expands them
// there), left to right, stopping at the first operand holding a call that
// stays in place, so the order of evaluation of calls is unchanged.
func (x *expander) hoistList(list []ast.Expr, depth int) []ast.Stmt {
	var pre []ast.Stmt
	hasCall := func(e ast.Expr) bool {
		found := false
		ast.Inspect(e, func(n ast.Node) bool {
			if _, ok := n.(*ast.CallExpr); ok {
				found = true
			}
			return !found
		})
		return found
	}
	for i, a := range list {
		inner, ok := ast.Unparen(a).(*ast.CallExpr)
		if ok {
			if _, exp := x.target(inner, depth); exp {
				typ := x.info.TypeOf(inner)
				if _, isTuple := typ.(*types.Tuple); isTuple || typ == nil {
					return pre
				}
				x.seq++
				tmp := types.NewVar(inner.Pos(), x.top.Pkg.Types, fmt.Sprintf("inl%d_arg", x.seq), typ)
				def := &ast.Ident{NamePos: inner.Pos(), Name: tmp.Name()}
				x.info.Defs[def] = tmp
				as := &ast.AssignStmt{Lhs: []ast.Expr{def}, TokPos: inner.Pos(), Tok: token.DEFINE, Rhs: []ast.Expr{inner}}
				use := &ast.Ident{NamePos: inner.Pos(), Name: tmp.Name()}
				x.info.Uses[use] = tmp
				if tv, ok := x.info.Types[inner]; ok {
					x.info.Types[use] = tv
				}
				list[i] = use
				pre = append(pre, x.stmt(as, nil, depth)...)
				continue
			}
		}
		if hasCall(a) {
			return pre
		}
	}
	return pre
}

// shareResults maps, for each result position that qualifies, the callee's
// local variable returned there to the caller's variable assigned from it.
// It qualifies when every return of the callee yields either that one local
// variable or nil at the position, the types are identical, neither variable
// has its address taken or is mentioned inside a function literal, and the
// caller's variable is a plain local that the call's operands do not mention:
// then no code can tell the two apart.
func (x *expander) shareResults(cl *cloner, as *ast.AssignStmt, call *ast.CallExpr, body *ast.BlockStmt, typ *ast.FuncType, declared map[types.Object]bool) {
	if typ.Results == nil {
		return
	}
	var named []types.Object
	for _, fld := range typ.Results.List {
		for _, nm := range fld.Names {
			named = append(named, x.info.Defs[nm])
		}
	}
	n := len(as.Lhs)
	cand := make([]types.Object, n)
	ok := make([]bool, n)
	for i := range ok {
		ok[i] = true
	}
	nret := 0
	Walk(body, false, func(m ast.Node) {
		r, isRet := m.(*ast.ReturnStmt)
		if !isRet {
			return
		}
		nret++
		for i := 0; i < n; i++ {
			var o types.Object
			switch {
			case len(r.Results) == n:
				e := ast.Unparen(r.Results[i])
				if id, isID := e.(*ast.Ident); isID {
					if _, isNil := x.info.Uses[id].(*types.Nil); isNil {
						continue
					}
					o = x.info.Uses[id]
				}
				// the zero value a failure return yields in this position (`return T{}, err`): the shared variable
				// is set to it there, which is what the caller observes
				if cl, isLit := e.(*ast.CompositeLit); isLit && len(cl.Elts) == 0 {
					continue
				}
				if tv, has := x.info.Types[e]; has && tv.Value != nil {
					switch tv.Value.Kind() {
					case constant.Bool:
						if !constant.BoolVal(tv.Value) {
							continue
						}
					case constant.String:
						if constant.StringVal(tv.Value) == "" {
							continue
						}
					case constant.Int, constant.Float:
						if constant.Sign(tv.Value) == 0 {
							continue
						}
					}
				}
			case len(r.Results) == 0 && len(named) == n:
				o = named[i]
			}
			if o == nil || !declared[o] || (cand[i] != nil && cand[i] != o) {
				ok[i] = false
				continue
			}
			cand[i] = o
		}
	})
	if nret == 0 {
		return
	}
	params := map[types.Object]bool{}
	for _, fld := range typ.Params.List {
		for _, nm := range fld.Names {
			params[x.info.Defs[nm]] = true
		}
	}
	used := map[types.Object]bool{}
	for i := 0; i < n; i++ {
		v := cand[i]
		if !ok[i] || v == nil || params[v] || used[v] {
			continue
		}
		if _, isVar := v.(*types.Var); !isVar {
			continue
		}
		id, isID := ast.Unparen(as.Lhs[i]).(*ast.Ident)
		if !isID || id.Name == "_" {
			continue
		}
		lo := x.objOf(id)
		lv, isVar := lo.(*types.Var)
		if !isVar || lv.IsField() || (lv.Pkg() != nil && lv.Parent() == lv.Pkg().Scope()) || !types.Identical(lv.Type(), v.Type()) {
			continue
		}
		// the callee must not see the caller's variable under another name: `x = f(x)` reads x while building the result
		operand := false
		ast.Inspect(call, func(n ast.Node) bool {
			if id, ok := n.(*ast.Ident); ok && x.info.Uses[id] == lo {
				operand = true
			}
			return !operand
		})
		if operand {
			continue
		}
		esc := x.escapesIn(x.top.Body, lo, call) || x.escapesIn(body, v, nil)
		for _, b := range x.open { // callee copies being rewritten, not yet attached to the top body
			esc = esc || x.escapesIn(b, lo, call)
		}
		if esc {
			continue
		}
		used[v] = true
		cl.objs[v] = lo
	}
}

// escapesIn: within root, obj has its address taken or is mentioned inside a
// function literal other than the ones the call site itself lies in.
func (x *expander) escapesIn(root ast.Node, obj types.Object, site ast.Node) bool {
	found := false
	var walk func(n ast.Node, inLit bool)
	walk = func(n ast.Node, inLit bool) {
		ast.Inspect(n, func(m ast.Node) bool {
			if found || m == nil {
				return false
			}
			switch t := m.(type) {
			case *ast.FuncLit:
				if site != nil && t.Pos() <= site.Pos() && site.Pos() < t.End() {
					return true // the literal the call is written in: the same activation
				}
				if !inLit {
					walk(t.Body, true)
					return false
				}
			case *ast.UnaryExpr:
				if t.Op == token.AND {
					if id, ok := ast.Unparen(t.X).(*ast.Ident); ok && (x.info.Uses[id] == obj) {
						found = true
					}
				}
			case *ast.Ident:
				if inLit && (x.info.Uses[t] == obj || x.info.Defs[t] == obj) {
					found = true
				}
			}
			return true
		})
	}
	walk(root, false)
	return found
}

// inline expands call in context ctx.
func (x *expander) inline(call *ast.CallExpr, ctx *callCtx, depth int) ([]ast.Stmt, bool) {
	c, ok := x.targetD(call, depth, ctx.tail && (ctx.kind == ctxDiscard || ctx.kind == ctxReturn))
	if !ok {
		return nil, false
	}
	fn := c.fn
	sig := x.info.TypeOf(call.Fun).Underlying().(*types.Signature)
	nres := sig.Results().Len()
	switch ctx.kind {
	case ctxAssign:
		if len(ctx.assign.Lhs) != nres {
			return nil, false
		}
	case ctxReturn:
		// the caller must return exactly the callee's results
	case ctxCond:
		if nres != 1 {
			return nil, false
		}
		if b, ok := sig.Results().At(0).Type().Underlying().(*types.Basic); !ok || b.Kind() != types.Bool {
			return nil, false
		}
	}
	if ctx.kind == ctxReturn && !x.returnCompatible(sig) {
		return nil, false
	}

	// classify the callee's returns on its own graph
	g := fn.Graph()
	retKinds := map[*ast.ReturnStmt][]int{} // 0 unknown, 1 nil/false, 2 non-nil/true
	for _, rn := range g.Returns() {
		rs, ok := rn.AST.(*ast.ReturnStmt)
		if !ok {
			continue
		}
		ks := make([]int, nres)
		if len(rs.Results) == nres {
			for i, e := range rs.Results {
				rt := sig.Results().At(i).Type()
				switch {
				case IsErrorType(rt):
					switch fn.errExprKind(rn, e, 0) {
					case RetSuccess:
						ks[i] = 1
					case RetError:
						ks[i] = 2
					}
				default:
					if tv, ok := fn.Info().Types[e]; ok && tv.Value != nil && tv.Value.Kind() == constant.Bool {
						if constant.BoolVal(tv.Value) {
							ks[i] = 2
						} else {
							ks[i] = 1
						}
					}
				}
			}
		}
		retKinds[rs] = ks
	}

	if fn.Pkg.TypesInfo != x.info {
		return nil, false
	}
	region := ast.Node(fn.Decl)
	if fn.Lit != nil {
		region = fn.Lit
	}
	srcBody := fn.Body
	srcType := fn.Type
	if c.lit != nil {
		// the copy inside the view: its captured variables are the view's (renamed) ones
		region, srcBody, srcType = c.lit, c.lit.Body, c.lit.Type
	}
	// the objects declared inside the callee (its parameters, results, locals and labels, including those of
	// code expanded into it earlier) are renamed per copy
	declared := map[types.Object]bool{}
	ast.Inspect(region, func(n ast.Node) bool {
		if id, ok := n.(*ast.Ident); ok {
			if o := x.info.Defs[id]; o != nil {
				declared[o] = true
			}
		}
		if o, ok := x.info.Implicits[n]; ok && n != nil {
			declared[o] = true
		}
		return true
	})
	off := x.p.shiftFile(srcBody.Pos())
	cl := &cloner{p: x.p, info: x.info, off: off, objs: map[types.Object]types.Object{}, subst: map[types.Object]ast.Expr{},
		local: func(o types.Object) bool { return declared[o] }}
	at := call.Pos()
	var out []ast.Stmt

	// bind parameters
	var variadicLit ast.Expr
	written := x.writtenObjs(srcBody)
	bind := func(nameID *ast.Ident, arg ast.Expr) {
		if nameID == nil || nameID.Name == "_" {
			if arg != nil && containsCall(arg) {
				blank := &ast.Ident{NamePos: at, Name: "_"}
				out = append(out, &ast.AssignStmt{Lhs: []ast.Expr{blank}, TokPos: at, Tok: token.ASSIGN, Rhs: []ast.Expr{arg}})
			}
			return
		}
		pobj := x.info.Defs[nameID]
		if pobj == nil {
			return
		}
		if !written[pobj] && x.substitutable(arg) {
			cl.subst[pobj] = arg
			return
		}
		// the slice literal standing for the trailing operands of a variadic call, read exactly once by the
		// callee (`for _, s := range rest`): the literal takes the parameter's place, so the loop is a table loop
		if arg == variadicLit && !written[pobj] {
			uses := 0
			ast.Inspect(srcBody, func(n ast.Node) bool {
				if id, ok := n.(*ast.Ident); ok && x.info.Uses[id] == pobj {
					uses++
				}
				return true
			})
			inLit := false
			ast.Inspect(srcBody, func(n ast.Node) bool {
				if fl, ok := n.(*ast.FuncLit); ok {
					ast.Inspect(fl, func(m ast.Node) bool {
						if id, ok := m.(*ast.Ident); ok && x.info.Uses[id] == pobj {
							inLit = true
						}
						return true
					})
					return false
				}
				return true
			})
			if uses == 1 && !inLit {
				cl.subst[pobj] = arg
				return
			}
		}
		// positioned at the operand, so that the binding occupies the operand's source range
		def := &ast.Ident{NamePos: arg.Pos(), Name: nameID.Name}
		x.info.Defs[def] = cl.mapObj(pobj)
		if lit, isLit := ast.Unparen(arg).(*ast.FuncLit); isLit {
			// a function literal handed to a helper that calls it: the call is expanded like any local closure's
			x.closures[cl.mapObj(pobj)] = lit
		}
		out = append(out, &ast.AssignStmt{Lhs: []ast.Expr{def}, TokPos: arg.Pos(), Tok: token.DEFINE, Rhs: []ast.Expr{arg}})
	}
	if c.recv != nil && fn.Decl != nil && fn.Decl.Recv != nil && len(fn.Decl.Recv.List) == 1 {
		var nm *ast.Ident
		if len(fn.Decl.Recv.List[0].Names) == 1 {
			nm = fn.Decl.Recv.List[0].Names[0]
		}
		bind(nm, c.recv)
	}
	i := 0
	args := call.Args
	if sig, ok := x.info.TypeOf(call.Fun).Underlying().(*types.Signature); ok && sig.Variadic() && !call.Ellipsis.IsValid() {
		// f(a, b, c) with f(a T, rest ...U): the trailing operands are the elements of a slice literal
		fixed := sig.Params().Len() - 1
		st, _ := sig.Params().At(fixed).Type().(*types.Slice)
		if st != nil && len(args) >= fixed {
			lit := &ast.CompositeLit{Lbrace: at, Elts: append([]ast.Expr(nil), args[fixed:]...), Rbrace: at}
			elemID := &ast.Ident{NamePos: at, Name: types.TypeString(st.Elem(), func(*types.Package) string { return "" })}
			x.info.Types[elemID] = types.TypeAndValue{Type: st.Elem()}
			lit.Type = &ast.ArrayType{Lbrack: at, Elt: elemID}
			x.info.Types[lit.Type] = types.TypeAndValue{Type: st}
			x.info.Types[lit] = types.TypeAndValue{Type: st}
			args = append(append([]ast.Expr(nil), args[:fixed]...), lit)
			variadicLit = lit
		}
	}
	for _, fld := range srcType.Params.List {
		if len(fld.Names) == 0 {
			bind(nil, args[i])
			i++
			continue
		}
		for _, nm := range fld.Names {
			bind(nm, args[i])
			i++
		}
	}
	// a result that the callee accumulates in one local variable and returns at every return (or a zero value
	// on the others) is accumulated directly in the caller's variable receiving it: `out := helper()` with
	// `var acc []T; …; acc = append(acc, v); …; return acc` reads as if the caller had built `out` itself
	if ctx.kind == ctxAssign && (ctx.assign.Tok == token.ASSIGN || ctx.assign.Tok == token.DEFINE) && os.Getenv("SIALINT_NOSHARE") == "" {
		x.shareResults(cl, ctx.assign, call, srcBody, srcType, declared)
	}
	// named results
	var named []types.Object
	if srcType.Results != nil {
		for _, fld := range srcType.Results.List {
			for _, nm := range fld.Names {
				o := x.info.Defs[nm]
				if o == nil || nm.Name == "_" {
					named = append(named, nil)
					continue
				}
				no := cl.mapObj(o)
				def := &ast.Ident{NamePos: nm.Pos() + token.Pos(off), Name: no.Name()}
				x.info.Defs[def] = no
				named = append(named, no)
				out = append(out, &ast.DeclStmt{Decl: &ast.GenDecl{TokPos: at, Tok: token.VAR, Specs: []ast.Spec{&ast.ValueSpec{Names: []*ast.Ident{def}}}}})
			}
		}
	}

	body := cl.node(srcBody).(*ast.BlockStmt)
	x.findClosures(body)
	x.seq++
	suffix := fmt.Sprintf("_i%d", x.seq)
	Walk(body, false, func(n ast.Node) {
		switch t := n.(type) {
		case *ast.LabeledStmt:
			t.Label.Name += suffix
		case *ast.BranchStmt:
			if t.Label != nil {
				t.Label.Name += suffix
			}
		}
	})

	// a callee that defers: in tail position its deferred calls simply join the caller's; elsewhere they are
	// made explicit before each of the callee's returns (or the call stays a call)
	hasDefer := false
	Walk(body, false, func(n ast.Node) {
		if _, ok := n.(*ast.DeferStmt); ok {
			hasDefer = true
		}
	})
	if hasDefer && !(ctx.tail && (ctx.kind == ctxDiscard || ctx.kind == ctxReturn)) {
		if !x.expandDefers(body, srcType, named) {
			return nil, false
		}
	}

	// single trailing return?
	var rets []*ast.ReturnStmt
	Walk(body, false, func(n ast.Node) {
		if r, ok := n.(*ast.ReturnStmt); ok {
			rets = append(rets, r)
		}
	})
	single := len(rets) == 0 || (len(rets) == 1 && len(body.List) > 0 && body.List[len(body.List)-1] == ast.Stmt(rets[0]))

	end := x.label("end")
	usedEnd := false
	var thenL, elseL, testL string
	var condVar types.Object
	var target *ast.IfStmt // the if statement testing the outcome
	var testIdx = -1       // which result it tests
	var nonNilOnTrue bool
	cmpIdx := -1 // which result an `if v == C` after the call compares with the constant cmpVal
	var cmpVal constant.Value
	var cmpEqOnTrue bool
	switch ctx.kind {
	case ctxAssign:
		if ifs, ok := ctx.next.(*ast.IfStmt); ok && ifs.Init == nil {
			for i, l := range ctx.assign.Lhs {
				obj := x.objOf(l)
				if obj == nil {
					continue
				}
				if k, pos, ok := x.testOf(ifs.Cond, obj); ok {
					target, testIdx, nonNilOnTrue = ifs, i, pos
					_ = k
				}
			}
			// `if v == C` / `if v != C` with a constant C: a return that yields a constant at that position enters
			// the branch the comparison selects
			if target == nil {
				if be, ok := ast.Unparen(ifs.Cond).(*ast.BinaryExpr); ok && (be.Op == token.EQL || be.Op == token.NEQ) {
					for i, l := range ctx.assign.Lhs {
						obj := x.objOf(l)
						if obj == nil || obj.Name() == "_" {
							continue
						}
						var other ast.Expr
						switch {
						case x.objOf(be.X) == obj:
							other = be.Y
						case x.objOf(be.Y) == obj:
							other = be.X
						default:
							continue
						}
						if tv, ok := x.info.Types[other]; ok && tv.Value != nil {
							target, cmpIdx, cmpVal, cmpEqOnTrue = ifs, i, tv.Value, be.Op == token.EQL
						}
					}
				}
			}
		}
	case ctxCond:
		target, testIdx, nonNilOnTrue = ctx.ifStmt, 0, !ctx.neg
	}
	// the outcome is dispatched by `switch v { case C1: … }` over constants right after the call
	var swTarget *ast.SwitchStmt
	swIdx := -1
	swLabels := map[*ast.CaseClause]string{}
	swAfter := ""
	if ctx.kind == ctxAssign && target == nil {
		if sw, ok := ctx.next.(*ast.SwitchStmt); ok && sw.Init == nil && sw.Tag != nil && x.constSwitch(sw) {
			for i, l := range ctx.assign.Lhs {
				if obj := x.objOf(l); obj != nil && x.objOf(sw.Tag) == obj {
					swTarget, swIdx = sw, i
				}
			}
		}
	}
	// caseLabel returns the label to jump to when the switch's tag holds the constant v
	caseLabel := func(v constant.Value, pos token.Pos) string {
		var hit, dflt *ast.CaseClause
		for _, st := range swTarget.Body.List {
			cc := st.(*ast.CaseClause)
			if cc.List == nil {
				dflt = cc
			}
			for _, e := range cc.List {
				if tv, ok := x.info.Types[e]; ok && tv.Value != nil && hit == nil && constant.Compare(tv.Value, token.EQL, v) {
					hit = cc
				}
			}
		}
		if hit == nil {
			hit = dflt
		}
		if hit == nil {
			if swAfter == "" {
				swAfter = x.label("swend")
				if x.after == nil {
					x.after = map[ast.Stmt][]ast.Stmt{}
				}
				x.after[swTarget] = append(x.after[swTarget], labeled(swAfter, swTarget.End()))
			}
			return swAfter
		}
		if l, ok := swLabels[hit]; ok {
			return l
		}
		l := x.label("case")
		swLabels[hit] = l
		hit.Body = append([]ast.Stmt{labeled(l, hit.Colon)}, hit.Body...)
		return l
	}
	ensureBranchLabels := func() {
		if thenL != "" || target == nil {
			return
		}
		thenL, elseL = x.label("then"), x.label("else")
		target.Body.List = append([]ast.Stmt{labeled(thenL, target.Body.Lbrace)}, target.Body.List...)
		switch e := target.Else.(type) {
		case nil:
			if x.after == nil {
				x.after = map[ast.Stmt][]ast.Stmt{}
			}
			x.after[target] = append(x.after[target], labeled(elseL, target.End()))
		case *ast.BlockStmt:
			e.List = append([]ast.Stmt{labeled(elseL, e.Lbrace)}, e.List...)
		default:
			target.Else = &ast.LabeledStmt{Label: &ast.Ident{NamePos: e.Pos(), Name: elseL}, Colon: e.Pos(), Stmt: e}
		}
	}

	// declare := variables up front when the callee has several returns
	lhsUse := func(l ast.Expr, pos token.Pos) ast.Expr {
		if id, ok := ast.Unparen(l).(*ast.Ident); ok {
			n := &ast.Ident{NamePos: pos, Name: id.Name}
			if id.Name != "_" {
				if o := x.objOf(id); o != nil {
					x.info.Uses[n] = o
				}
			}
			return n
		}
		c2 := &cloner{p: x.p, info: x.info, objs: map[types.Object]types.Object{}}
		e := c2.node(l).(ast.Expr)
		collapsePos(e, pos)
		return e
	}
	if ctx.kind == ctxAssign && !single && ctx.assign.Tok == token.DEFINE {
		for _, l := range ctx.assign.Lhs {
			if id, ok := l.(*ast.Ident); ok && id.Name != "_" && x.info.Defs[id] != nil {
				out = append(out, &ast.DeclStmt{Decl: &ast.GenDecl{TokPos: at, Tok: token.VAR, Specs: []ast.Spec{&ast.ValueSpec{Names: []*ast.Ident{id}}}}})
			}
		}
	}
	if ctx.kind == ctxCond && !single {
		x.seq++
		cv := types.NewVar(at, x.top.Pkg.Types, fmt.Sprintf("inl%d_cond", x.seq), types.Typ[types.Bool])
		condVar = cv
		def := &ast.Ident{NamePos: at, Name: cv.Name()}
		x.info.Defs[def] = cv
		out = append(out, &ast.DeclStmt{Decl: &ast.GenDecl{TokPos: at, Tok: token.VAR, Specs: []ast.Spec{&ast.ValueSpec{Names: []*ast.Ident{def}}}}})
		testL = x.label("test")
	}

	namedUses := func(pos token.Pos) []ast.Expr {
		var es []ast.Expr
		for _, o := range named {
			if o == nil {
				return nil
			}
			id := &ast.Ident{NamePos: pos, Name: o.Name()}
			x.info.Uses[id] = o
			es = append(es, id)
		}
		return es
	}

	// replace returns
	replaceRet := func(r *ast.ReturnStmt, isLast bool) []ast.Stmt {
		pos := r.Pos()
		results := r.Results
		if len(results) == 0 && nres > 0 {
			results = namedUses(pos)
		}
		orig, _ := x.p.OrigNode(r).(*ast.ReturnStmt)
		ks := retKinds[orig]
		jump := func() []ast.Stmt {
			if isLast && fallsOffAfter(body, r) {
				return nil
			}
			usedEnd = true
			return []ast.Stmt{gotoStmt(end, pos)}
		}
		thread := func(k int) ([]ast.Stmt, bool) {
			if target == nil || k == 0 {
				return nil, false
			}
			ensureBranchLabels()
			isTrue := (k == 2) == nonNilOnTrue
			if isTrue {
				return []ast.Stmt{gotoStmt(thenL, pos)}, true
			}
			return []ast.Stmt{gotoStmt(elseL, pos)}, true
		}
		switch ctx.kind {
		case ctxDiscard:
			var st []ast.Stmt
			for _, e := range results {
				if containsCall(e) {
					st = append(st, &ast.AssignStmt{Lhs: []ast.Expr{&ast.Ident{NamePos: pos, Name: "_"}}, TokPos: pos, Tok: token.ASSIGN, Rhs: []ast.Expr{e}})
				}
			}
			return append(st, jump()...)
		case ctxReturn:
			return []ast.Stmt{&ast.ReturnStmt{Return: pos, Results: results}}
		case ctxAssign:
			as := ctx.assign
			if single {
				// the call's own left-hand sides, defined where the value is produced
				if len(results) == 0 {
					return nil
				}
				if len(as.Lhs) == len(results) {
					// `v = v` (a result accumulated directly in the receiving variable) is no assignment
					var l2, r2 []ast.Expr
					for i := range as.Lhs {
						if o := x.objOf(as.Lhs[i]); o != nil && o.Name() != "_" && x.objOf(results[i]) == o {
							if _, isID := ast.Unparen(results[i]).(*ast.Ident); isID {
								continue
							}
						}
						l2, r2 = append(l2, as.Lhs[i]), append(r2, results[i])
					}
					if len(l2) == 0 {
						return nil
					}
					return []ast.Stmt{&ast.AssignStmt{Lhs: l2, TokPos: pos, Tok: as.Tok, Rhs: r2}}
				}
				return []ast.Stmt{&ast.AssignStmt{Lhs: as.Lhs, TokPos: pos, Tok: as.Tok, Rhs: results}}
			}
			var lhs []ast.Expr
			for _, l := range as.Lhs {
				lhs = append(lhs, lhsUse(l, pos))
			}
			st := []ast.Stmt{&ast.AssignStmt{Lhs: lhs, TokPos: pos, Tok: token.ASSIGN, Rhs: results}}
			if len(lhs) == len(results) {
				// `v = v` (a result accumulated directly in the receiving variable) is no assignment
				var l2, r2 []ast.Expr
				for i := range lhs {
					if o := x.objOf(lhs[i]); o != nil && o.Name() != "_" && x.objOf(results[i]) == o {
						if _, isID := ast.Unparen(results[i]).(*ast.Ident); isID {
							continue
						}
					}
					l2, r2 = append(l2, lhs[i]), append(r2, results[i])
				}
				if len(l2) == 0 {
					st = nil
				} else if len(l2) < len(lhs) {
					st = []ast.Stmt{&ast.AssignStmt{Lhs: l2, TokPos: pos, Tok: token.ASSIGN, Rhs: r2}}
				}
			}
			if testIdx >= 0 && ks != nil && len(results) == nres {
				if j, ok := thread(ks[testIdx]); ok {
					return append(st, j...)
				}
			}
			if swTarget != nil && len(results) == nres {
				if tv, ok := x.info.Types[results[swIdx]]; ok && tv.Value != nil {
					return append(st, gotoStmt(caseLabel(tv.Value, pos), pos))
				}
			}
			// `v, err := helper(…); return conv(v), err`: every return of the helper becomes a return of its own
			// (the returned error is then nil, or an error, at each of them instead of "either" at one shared exit)
			if fwd, ok := ctx.next.(*ast.ReturnStmt); ok && !single && target == nil && swTarget == nil && cmpIdx < 0 && x.forwardable(fwd, ctx.assign) {
				c2 := &cloner{p: x.p, info: x.info, off: x.p.shiftFile(fwd.Pos()), objs: map[types.Object]types.Object{}, local: func(types.Object) bool { return false }}
				return append(st, c2.node(fwd).(ast.Stmt))
			}
			if cmpIdx >= 0 && len(results) == nres {
				if tv, ok := x.info.Types[results[cmpIdx]]; ok && tv.Value != nil && tv.Value.Kind() == cmpVal.Kind() {
					ensureBranchLabels()
					if constant.Compare(tv.Value, token.EQL, cmpVal) == cmpEqOnTrue {
						return append(st, gotoStmt(thenL, pos))
					}
					return append(st, gotoStmt(elseL, pos))
				}
			}
			return append(st, jump()...)
		case ctxCond:
			if single {
				return nil
			}
			if ks != nil && len(results) == 1 {
				if j, ok := thread(ks[0]); ok {
					if containsCall(results[0]) {
						return append([]ast.Stmt{&ast.AssignStmt{Lhs: []ast.Expr{&ast.Ident{NamePos: pos, Name: "_"}}, TokPos: pos, Tok: token.ASSIGN, Rhs: results}}, j...)
					}
					return j
				}
			}
			cu := &ast.Ident{NamePos: pos, Name: condVar.Name()}
			x.info.Uses[cu] = condVar
			return []ast.Stmt{&ast.AssignStmt{Lhs: []ast.Expr{cu}, TokPos: pos, Tok: token.ASSIGN, Rhs: results}, gotoStmt(testL, pos)}
		}
		return nil
	}
	var singleResults []ast.Expr
	if single && len(rets) == 1 {
		singleResults = rets[0].Results
		if len(singleResults) == 0 && nres > 0 {
			singleResults = namedUses(rets[0].Pos())
		}
	}
	body.List = mapReturns(body.List, func(r *ast.ReturnStmt) []ast.Stmt {
		isLast := len(rets) > 0 && r == rets[len(rets)-1]
		return replaceRet(r, isLast)
	})
	if single && len(rets) == 0 && nres > 0 && ctx.kind != ctxDiscard {
		// falls off the end with named results
		switch ctx.kind {
		case ctxAssign:
			if rs := namedUses(at); rs != nil {
				body.List = append(body.List, &ast.AssignStmt{Lhs: ctx.assign.Lhs, TokPos: at, Tok: ctx.assign.Tok, Rhs: rs})
			}
		case ctxReturn:
			body.List = append(body.List, &ast.ReturnStmt{Return: at, Results: namedUses(at)})
		}
	}

	// expand inside the copy
	if x.inlinedCalls == nil {
		x.inlinedCalls = map[ast.Node]bool{}
	}
	x.inlinedCalls[x.p.OrigNode(call)] = true
	if c.obj != nil {
		x.stack = append(x.stack, c.obj)
		x.inlined = append(x.inlined, c.obj)
	} else {
		x.litStack = append(x.litStack, c.lit)
	}
	x.open = append(x.open, body)
	body.List = x.blockT(body.List, depth+1, ctx.tail && (ctx.kind == ctxDiscard || ctx.kind == ctxReturn))
	x.open = x.open[:len(x.open)-1]
	if c.obj != nil {
		x.stack = x.stack[:len(x.stack)-1]
	} else {
		x.litStack = x.litStack[:len(x.litStack)-1]
	}

	out = append(out, body.List...)
	switch ctx.kind {
	case ctxCond:
		if single {
			if len(singleResults) == 1 {
				var cond ast.Expr = singleResults[0]
				if ctx.neg {
					cond = &ast.UnaryExpr{OpPos: at, Op: token.NOT, X: &ast.ParenExpr{Lparen: at, X: cond, Rparen: at}}
					x.info.Types[cond] = x.info.Types[ctx.ifStmt.Cond]
				}
				ctx.ifStmt.Cond = cond
			}
		} else {
			cu := &ast.Ident{NamePos: at, Name: condVar.Name()}
			x.info.Uses[cu] = condVar
			var cond ast.Expr = cu
			if ctx.neg {
				cond = &ast.UnaryExpr{OpPos: at, Op: token.NOT, X: cu}
			}
			ctx.ifStmt.Cond = cond
			out = append(out, labeled(testL, at))
		}
	}
	if usedEnd && ctx.kind != ctxCond {
		out = append(out, labeled(end, call.End()))
	}
	return out, true
}

// returnCompatible: `return h(...)` can be expanded when the view's function
// (or the closure being expanded) returns the callee's result tuple.
func (x *expander) returnCompatible(sig *types.Signature) bool {
	if len(x.results) == 0 {
		return false
	}
	want := x.results[len(x.results)-1]
	if want == nil {
		return sig.Results().Len() == 0
	}
	return want.Len() == sig.Results().Len()
}

func (x *expander) objOf(e ast.Expr) types.Object {
	id, ok := ast.Unparen(e).(*ast.Ident)
	if !ok {
		return nil
	}
	if o := x.info.Uses[id]; o != nil {
		return o
	}
	return x.info.Defs[id]
}

// testOf recognises cond as a test of obj: `obj != nil`, `obj == nil`, `obj`, `!obj`.
// positiveOnTrue tells whether the true edge means non-nil / true.
func (x *expander) testOf(cond ast.Expr, obj types.Object) (kind int, positiveOnTrue bool, ok bool) {
	cond = ast.Unparen(cond)
	switch c := cond.(type) {
	case *ast.Ident:
		if x.objOf(c) == obj {
			return 1, true, true
		}
	case *ast.UnaryExpr:
		if c.Op == token.NOT && x.objOf(c.X) == obj {
			return 1, false, true
		}
	case *ast.BinaryExpr:
		if c.Op != token.NEQ && c.Op != token.EQL {
			return 0, false, false
		}
		isNil := func(e ast.Expr) bool {
			id, ok := ast.Unparen(e).(*ast.Ident)
			if !ok {
				return false
			}
			_, n := x.info.Uses[id].(*types.Nil)
			return n
		}
		var v ast.Expr
		switch {
		case isNil(c.Y):
			v = c.X
		case isNil(c.X):
			v = c.Y
		default:
			return 0, false, false
		}
		if x.objOf(v) == obj {
			return 2, c.Op == token.NEQ, true
		}
	}
	return 0, false, false
}

// substitutable: operands whose value cannot change while the callee runs and
// whose evaluation has no effect: identifiers of variables, constants, nil, and
// field selections from them that do not pass through a pointer.
func (x *expander) substitutable(e ast.Expr) bool {
	e = ast.Unparen(e)
	if tv, ok := x.info.Types[e]; ok && tv.Value != nil {
		return true
	}
	switch t := e.(type) {
	case *ast.BasicLit:
		return true
	case *ast.Ident:
		switch o := x.info.Uses[t].(type) {
		case *types.Nil, *types.Const, *types.Func:
			return true
		case *types.Var:
			return !o.IsField()
		}
		return false
	case *ast.BinaryExpr:
		// a boolean combination / comparison of stable operands (`!d.Spent`, `a == b`, `p && q`) is as stable as they are
		switch t.Op {
		case token.LAND, token.LOR, token.EQL, token.NEQ:
			if b, ok := x.info.TypeOf(t).Underlying().(*types.Basic); ok && b.Info()&types.IsBoolean != 0 {
				return x.substitutable(t.X) && x.substitutable(t.Y)
			}
		}
		return false
	case *ast.UnaryExpr:
		if t.Op == token.NOT {
			return x.substitutable(t.X)
		}
		// the address of a variable (or of a field reached without indirection) is stable
		if t.Op != token.AND {
			return false
		}
		if _, isLit := ast.Unparen(t.X).(*ast.CompositeLit); isLit {
			return false
		}
		return x.substitutable(t.X)
	case *ast.SelectorExpr:
		s := x.info.Selections[t]
		if s == nil {
			// pkg.Name: a function or constant of another package never changes
			switch x.info.Uses[t.Sel].(type) {
			case *types.Func, *types.Const:
				return true
			}
			return false
		}
		if s.Kind() != types.FieldVal || s.Indirect() {
			return false
		}
		if _, isPtr := x.info.TypeOf(t.X).Underlying().(*types.Pointer); isPtr {
			return false
		}
		return x.substitutable(t.X)
	}
	return false
}

// writtenObjs lists the variables assigned, inc/dec'ed or address-taken inside body (closures included).
func (x *expander) writtenObjs(body ast.Node) map[types.Object]bool {
	out := map[types.Object]bool{}
	root := func(e ast.Expr) (types.Object, bool) {
		whole := true
		for {
			switch t := ast.Unparen(e).(type) {
			case *ast.Ident:
				return x.objOf(t), whole
			case *ast.SelectorExpr:
				if x.info.Selections[t] == nil {
					return nil, false
				}
				e, whole = t.X, false
			case *ast.IndexExpr:
				e, whole = t.X, false
			case *ast.StarExpr:
				e, whole = t.X, false
			default:
				return nil, false
			}
		}
	}
	mark := func(e ast.Expr) {
		o, whole := root(e)
		if o == nil {
			return
		}
		if whole {
			out[o] = true
			return
		}
		// a partial write changes the variable only when it is not reached through a pointer, map or slice
		switch o.Type().Underlying().(type) {
		case *types.Pointer, *types.Map, *types.Slice:
		default:
			out[o] = true
		}
	}
	ast.Inspect(body, func(n ast.Node) bool {
		switch t := n.(type) {
		case *ast.AssignStmt:
			if t.Tok != token.DEFINE {
				for _, l := range t.Lhs {
					mark(l)
				}
			}
		case *ast.IncDecStmt:
			mark(t.X)
		case *ast.UnaryExpr:
			if t.Op == token.AND {
				// &x.f / &a[i] (array) expose the variable itself; &s[i] (slice), &p.f (through a pointer) and &m[k]
				// address memory the variable merely refers to
				indirect := false
				for e := ast.Unparen(t.X); ; {
					switch u := e.(type) {
					case *ast.IndexExpr:
						switch x.info.TypeOf(u.X).Underlying().(type) {
						case *types.Slice, *types.Pointer, *types.Map:
							indirect = true
						}
						e = ast.Unparen(u.X)
						continue
					case *ast.SelectorExpr:
						if s := x.info.Selections[u]; s != nil && s.Indirect() {
							indirect = true
						} else if _, isPtr := x.info.TypeOf(u.X).Underlying().(*types.Pointer); isPtr {
							indirect = true
						}
						e = ast.Unparen(u.X)
						continue
					case *ast.StarExpr:
						indirect = true
						e = ast.Unparen(u.X)
						continue
					}
					break
				}
				if o, _ := root(t.X); o != nil && !indirect {
					out[o] = true
				}
			}
		case *ast.RangeStmt:
			if t.Tok == token.ASSIGN {
				if t.Key != nil {
					mark(t.Key)
				}
				if t.Value != nil {
					mark(t.Value)
				}
			}
		}
		return true
	})
	return out
}

func containsCall(e ast.Expr) bool {
	found := false
	ast.Inspect(e, func(n ast.Node) bool {
		if _, ok := n.(*ast.CallExpr); ok {
			found = true
		}
		return !found
	})
	return found
}

func isTerminating(s ast.Stmt) bool {
	switch t := s.(type) {
	case *ast.ReturnStmt:
		return true
	case *ast.BranchStmt:
		return t.Tok == token.GOTO
	}
	return false
}

// fallsOffAfter reports whether r is the last top-level statement of body.
func fallsOffAfter(body *ast.BlockStmt, r *ast.ReturnStmt) bool {
	return len(body.List) > 0 && body.List[len(body.List)-1] == ast.Stmt(r)
}

// mapReturns rebuilds statement lists, replacing each return (outside function literals).
func mapReturns(list []ast.Stmt, fn func(*ast.ReturnStmt) []ast.Stmt) []ast.Stmt {
	var out []ast.Stmt
	for _, s := range list {
		if r, ok := s.(*ast.ReturnStmt); ok {
			out = append(out, fn(r)...)
			continue
		}
		mapReturnsIn(s, fn)
		out = append(out, s)
	}
	return out
}

func mapReturnsIn(s ast.Node, fn func(*ast.ReturnStmt) []ast.Stmt) {
	ast.Inspect(s, func(n ast.Node) bool {
		switch t := n.(type) {
		case *ast.FuncLit:
			return false
		case *ast.BlockStmt:
			t.List = mapReturns(t.List, fn)
			return false
		case *ast.CaseClause:
			t.Body = mapReturns(t.Body, fn)
			return false
		case *ast.CommClause:
			t.Body = mapReturns(t.Body, fn)
			return false
		case *ast.LabeledStmt:
			if r, ok := t.Stmt.(*ast.ReturnStmt); ok {
				repl := fn(r)
				t.Stmt = &ast.BlockStmt{Lbrace: r.Pos(), List: repl, Rbrace: r.End()}
				return false
			}
		case *ast.IfStmt:
			// else branches are blocks or if statements; both are handled by the cases above
		}
		return true
	})
}

// ViewSet holds the expanded views of one package's declared functions and
// tells which helpers were absorbed: unexported functions all of whose uses
// are calls that some view expanded. A rule that analyses the Roots covers the
// code of every absorbed helper in each context it is used in.
type ViewSet struct {
	P        *Prog
	Opt      ExpandOpt
	views    map[*Func]*Func
	Absorbed map[*Func]bool
	Roots    []*Func // views of the functions that are not absorbed, in source order
}

// Views builds (and caches) the view set of the package with the given short name.
func (p *Prog) Views(pkgShort string, opt ExpandOpt) *ViewSet {
	key := pkgShort + "|" + opt.Key
	if vs, ok := p.viewSets[key]; ok {
		return vs
	}
	vs := &ViewSet{P: p, Opt: opt, views: map[*Func]*Func{}, Absorbed: map[*Func]bool{}}
	pkg := p.Package(pkgShort)
	var decls []*Func
	for _, f := range p.Funcs {
		if f.Pkg == pkg && f.Lit == nil && f.Obj != nil {
			decls = append(decls, f)
		}
	}
	expanded := map[ast.Node]bool{}
	for _, f := range decls {
		v := p.Expand(f, opt)
		vs.views[f] = v
		for c := range v.InlinedCalls {
			expanded[c] = true
		}
	}
	// uses of each function object in the loaded syntax
	callOfFun := map[*ast.Ident]*ast.CallExpr{}
	uses := map[types.Object][]*ast.Ident{}
	for _, file := range pkg.Syntax {
		ast.Inspect(file, func(n ast.Node) bool {
			switch t := n.(type) {
			case *ast.CallExpr:
				switch f := ast.Unparen(t.Fun).(type) {
				case *ast.Ident:
					callOfFun[f] = t
				case *ast.SelectorExpr:
					callOfFun[f.Sel] = t
				}
			case *ast.Ident:
				if o, ok := pkg.TypesInfo.Uses[t].(*types.Func); ok {
					uses[o.Origin()] = append(uses[o.Origin()], t)
				}
			}
			return true
		})
	}
	for _, f := range decls {
		if f.Obj.Exported() || len(uses[f.Obj]) == 0 {
			continue
		}
		all := true
		for _, id := range uses[f.Obj] {
			call := callOfFun[id]
			if call == nil || !expanded[call] {
				all = false
				break
			}
		}
		if all {
			vs.Absorbed[f] = true
		}
	}
	for _, f := range decls {
		if !vs.Absorbed[f] {
			vs.Roots = append(vs.Roots, vs.views[f])
		}
	}
	if p.viewSets == nil {
		p.viewSets = map[string]*ViewSet{}
	}
	p.viewSets[key] = vs
	return vs
}

// Of returns the view of a loaded function of the set's package (f itself if it is none).
func (vs *ViewSet) Of(f *Func) *Func {
	if v, ok := vs.views[f]; ok {
		return v
	}
	return f
}

// litForm rewrites `defer h(a, b)` into `defer func() { h(a, b) }()`
// when h would be expanded and every operand is a variable that is assigned
// only once in the function (so reading it when the closure runs gives the
// value it had when the statement executed). The literal's body is then
// expanded like any other.
// unrollTable rewrites `for k, v := range []T{e0, …, en} { body }` over a short
// literal table into one copy of the body per row (`v := ei; body`), with
// `continue` jumping to the next copy and `break` past the last: a table-driven
// loop reads like the statements it abbreviates (rows holding function literals
// are then expanded like any local closure). Returns nil when the statement is
// not of that form, or uses labelled branches.
func (x *expander) unrollTable(rs *ast.RangeStmt) []ast.Stmt {
	lit, ok := ast.Unparen(rs.X).(*ast.CompositeLit)
	if !ok || len(lit.Elts) == 0 || len(lit.Elts) > 8 || rs.Tok != token.DEFINE {
		return nil
	}
	switch x.info.TypeOf(lit).Underlying().(type) {
	case *types.Slice, *types.Array:
	default:
		return nil
	}
	for _, e := range lit.Elts {
		if _, keyed := e.(*ast.KeyValueExpr); keyed {
			return nil
		}
	}
	labelled := false
	ast.Inspect(rs.Body, func(n ast.Node) bool {
		switch t := n.(type) {
		case *ast.BranchStmt:
			// (a jump out of the loop to a label outside it — a return of an expanded callee — can be copied)
			if t.Label != nil && t.Tok != token.GOTO {
				labelled = true
			}
		case *ast.LabeledStmt:
			labelled = true
		case *ast.FuncLit:
			return false
		}
		return true
	})
	if labelled {
		return nil
	}
	end := x.label("tblend")
	x.rewrote = true
	var out []ast.Stmt
	for i, elt := range lit.Elts {
		// a copy of the loop with its own variables
		declared := map[types.Object]bool{}
		ast.Inspect(rs, func(n ast.Node) bool {
			if id, ok := n.(*ast.Ident); ok {
				if o := x.info.Defs[id]; o != nil {
					declared[o] = true
				}
			}
			if o, ok := x.info.Implicits[n]; ok && n != nil {
				declared[o] = true
			}
			return true
		})
		cl := &cloner{p: x.p, info: x.info, off: x.p.shiftFile(rs.Pos()), objs: map[types.Object]types.Object{},
			local: func(o types.Object) bool { return declared[o] }}
		cp := cl.node(rs).(*ast.RangeStmt)
		next := x.label("tblnext")
		var row []ast.Stmt
		at := cp.Pos()
		if id, ok := cp.Key.(*ast.Ident); ok && id.Name != "_" {
			idx := &ast.BasicLit{ValuePos: at, Kind: token.INT, Value: fmt.Sprint(i)}
			x.info.Types[idx] = types.TypeAndValue{Type: types.Typ[types.Int], Value: constant.MakeInt64(int64(i))}
			row = append(row, &ast.AssignStmt{Lhs: []ast.Expr{id}, TokPos: at, Tok: token.DEFINE, Rhs: []ast.Expr{idx}})
		}
		if id, ok := cp.Value.(*ast.Ident); ok && id.Name != "_" && x.calledOnly(cp.Body, x.info.Defs[id]) && x.isMethodValue(elt) {
			// a row that is a method value (`n.sendRequest`) and a body that only calls the loop variable: the call is
			// the method call
			vo := x.info.Defs[id]
			ast.Inspect(cp.Body, func(n ast.Node) bool {
				if call, isCall := n.(*ast.CallExpr); isCall {
					if fid, isID := ast.Unparen(call.Fun).(*ast.Ident); isID && x.info.Uses[fid] == vo {
						call.Fun = cl.node(elt).(ast.Expr)
					}
				}
				return true
			})
		} else if id, ok := cp.Value.(*ast.Ident); ok && id.Name != "_" {
			row = append(row, &ast.AssignStmt{Lhs: []ast.Expr{id}, TokPos: at, Tok: token.DEFINE, Rhs: []ast.Expr{elt}})
		} else if containsCall(elt) {
			row = append(row, &ast.AssignStmt{Lhs: []ast.Expr{&ast.Ident{NamePos: at, Name: "_"}}, TokPos: at, Tok: token.ASSIGN, Rhs: []ast.Expr{elt}})
		}
		// break / continue of this loop
		var fix func(n ast.Node, brk, cont bool)
		fix = func(n ast.Node, brk, cont bool) {
			ast.Inspect(n, func(m ast.Node) bool {
				if m == nil || m == n {
					return true
				}
				switch t := m.(type) {
				case *ast.FuncLit:
					return false
				case *ast.ForStmt, *ast.RangeStmt:
					fix(t, false, false)
					return false
				case *ast.SwitchStmt, *ast.TypeSwitchStmt, *ast.SelectStmt:
					fix(t, false, cont)
					return false
				case *ast.BranchStmt:
					switch {
					case t.Tok == token.BREAK && brk:
						t.Tok, t.Label = token.GOTO, &ast.Ident{NamePos: t.Pos(), Name: end}
					case t.Tok == token.CONTINUE && cont:
						t.Tok, t.Label = token.GOTO, &ast.Ident{NamePos: t.Pos(), Name: next}
					}
				}
				return true
			})
		}
		fix(cp.Body, true, true)
		row = append(row, cp.Body.List...)
		out = append(out, &ast.BlockStmt{Lbrace: at, List: row, Rbrace: cp.End()}, labeled(next, cp.End()))
	}
	out = append(out, labeled(end, rs.End()))
	return out
}

// calledOnly: every use of variable v inside body is the callee of a call.
func (x *expander) calledOnly(body ast.Node, v types.Object) bool {
	if v == nil {
		return false
	}
	uses, calls := 0, 0
	ast.Inspect(body, func(n ast.Node) bool {
		switch t := n.(type) {
		case *ast.Ident:
			if x.info.Uses[t] == v {
				uses++
			}
		case *ast.CallExpr:
			if id, ok := ast.Unparen(t.Fun).(*ast.Ident); ok && x.info.Uses[id] == v {
				calls++
			}
		}
		return true
	})
	return uses > 0 && uses == calls
}

// isMethodValue: e is `x.m` denoting a method bound to the variable x (no call, no indirection to evaluate).
func (x *expander) isMethodValue(e ast.Expr) bool {
	sel, ok := ast.Unparen(e).(*ast.SelectorExpr)
	if !ok {
		return false
	}
	if s := x.info.Selections[sel]; s == nil || s.Kind() != types.MethodVal {
		return false
	}
	_, isID := ast.Unparen(sel.X).(*ast.Ident)
	return isID
}

// rangeOverFunc rewrites `for k, v := range seq(args) { body }`, where seq is
// an expandable function returning an iterator (func(yield func(K, V) bool)),
// into what the language defines it to mean:
//
//	it := seq(args); yield := func(k K, v V) bool { body; return true }; it(yield)
//
// with `continue` as `return true` and `break` as `return false`. The iterator
// and the loop body are then expanded like any helper and local closure, so the
// loop reads as the iterator's own loop with the body at its yield. Bodies that
// return from the enclosing function, defer, or use labels are left alone.
func (x *expander) rangeOverFunc(rs *ast.RangeStmt, depth int) []ast.Stmt {
	call, ok := ast.Unparen(rs.X).(*ast.CallExpr)
	if !ok || (rs.Tok != token.DEFINE && rs.Key != nil) {
		return nil
	}
	if _, exp := x.target(call, depth); !exp {
		return nil
	}
	seqSig, ok := x.info.TypeOf(call).Underlying().(*types.Signature)
	if !ok || seqSig.Params().Len() != 1 || seqSig.Results().Len() != 0 {
		return nil
	}
	yieldSig, ok := seqSig.Params().At(0).Type().Underlying().(*types.Signature)
	if !ok || yieldSig.Results().Len() != 1 || yieldSig.Params().Len() > 2 {
		return nil
	}
	bad := false
	ast.Inspect(rs.Body, func(n ast.Node) bool {
		switch t := n.(type) {
		case *ast.FuncLit:
			return false
		case *ast.ReturnStmt, *ast.DeferStmt, *ast.LabeledStmt:
			bad = true
		case *ast.BranchStmt:
			if t.Label != nil || t.Tok == token.GOTO {
				bad = true
			}
		}
		return !bad
	})
	if bad {
		return nil
	}
	at := rs.Pos()
	boolLit := func(v bool, pos token.Pos) ast.Expr {
		name := "false"
		if v {
			name = "true"
		}
		id := &ast.Ident{NamePos: pos, Name: name}
		x.info.Uses[id] = types.Universe.Lookup(name)
		x.info.Types[id] = types.TypeAndValue{Type: types.Typ[types.Bool], Value: constant.MakeBool(v)}
		return id
	}
	// break / continue of this loop
	var fix func(n ast.Node, brk, cont bool)
	fix = func(n ast.Node, brk, cont bool) {
		ast.Inspect(n, func(m ast.Node) bool {
			if m == nil || m == n {
				return true
			}
			switch t := m.(type) {
			case *ast.FuncLit:
				return false
			case *ast.ForStmt, *ast.RangeStmt:
				fix(t, false, false)
				return false
			case *ast.SwitchStmt, *ast.TypeSwitchStmt, *ast.SelectStmt:
				fix(t, false, cont)
				return false
			case *ast.BlockStmt:
				for i, st := range t.List {
					if br, ok := st.(*ast.BranchStmt); ok {
						switch {
						case br.Tok == token.BREAK && brk:
							t.List[i] = &ast.ReturnStmt{Return: br.Pos(), Results: []ast.Expr{boolLit(false, br.Pos())}}
						case br.Tok == token.CONTINUE && cont:
							t.List[i] = &ast.ReturnStmt{Return: br.Pos(), Results: []ast.Expr{boolLit(true, br.Pos())}}
						}
					}
				}
			case *ast.CaseClause:
				for i, st := range t.Body {
					if br, ok := st.(*ast.BranchStmt); ok && br.Tok == token.CONTINUE && cont {
						t.Body[i] = &ast.ReturnStmt{Return: br.Pos(), Results: []ast.Expr{boolLit(true, br.Pos())}}
					}
				}
			}
			return true
		})
	}
	wrapper := &ast.BlockStmt{List: []ast.Stmt{rs.Body}}
	fix(wrapper, true, true)
	body := rs.Body
	body.List = append(body.List, &ast.ReturnStmt{Return: body.Rbrace, Results: []ast.Expr{boolLit(true, body.Rbrace)}})
	// the yield literal: its parameters are the loop's variables
	params := &ast.FieldList{Opening: at, Closing: at}
	for i := 0; i < yieldSig.Params().Len(); i++ {
		var nm *ast.Ident
		switch {
		case i == 0 && rs.Key != nil:
			nm, _ = rs.Key.(*ast.Ident)
		case i == 1 && rs.Value != nil:
			nm, _ = rs.Value.(*ast.Ident)
		}
		if nm == nil {
			nm = &ast.Ident{NamePos: at, Name: "_"}
		}
		params.List = append(params.List, &ast.Field{Names: []*ast.Ident{nm}, Type: &ast.Ident{NamePos: at, Name: types.TypeString(yieldSig.Params().At(i).Type(), func(p *types.Package) string { return p.Name() })}})
	}
	results := &ast.FieldList{Opening: at, Closing: at, List: []*ast.Field{{Type: &ast.Ident{NamePos: at, Name: "bool"}}}}
	lit := &ast.FuncLit{Type: &ast.FuncType{Func: at, Params: params, Results: results}, Body: body}
	x.info.Types[lit] = types.TypeAndValue{Type: yieldSig}
	lf := &Func{P: x.p, Lit: lit, Parent: x.top, Pkg: x.top.Pkg, Body: lit.Body, Type: lit.Type}
	lf.name = x.top.name + "$yield"
	x.p.byLit[lit] = lf
	mk := func(name string, typ types.Type, val ast.Expr) (*ast.AssignStmt, func() *ast.Ident) {
		x.seq++
		v := types.NewVar(at, x.top.Pkg.Types, fmt.Sprintf("inl%d_%s", x.seq, name), typ)
		def := &ast.Ident{NamePos: at, Name: v.Name()}
		x.info.Defs[def] = v
		use := func() *ast.Ident {
			u := &ast.Ident{NamePos: at, Name: v.Name()}
			x.info.Uses[u] = v
			x.info.Types[u] = types.TypeAndValue{Type: typ}
			return u
		}
		return &ast.AssignStmt{Lhs: []ast.Expr{def}, TokPos: at, Tok: token.DEFINE, Rhs: []ast.Expr{val}}, use
	}
	x.rewrote = true
	seqDef, seqUse := mk("seq", x.info.TypeOf(call), call)
	yieldDef, yieldUse := mk("yield", yieldSig, lit)
	run := &ast.CallExpr{Fun: seqUse(), Lparen: at, Args: []ast.Expr{yieldUse()}, Rparen: rs.End()}
	x.info.Types[run] = types.TypeAndValue{Type: types.NewTuple()}
	return []ast.Stmt{seqDef, yieldDef, &ast.ExprStmt{X: run}}
}

// stabilise prepares `defer h(a, b)` / `go h(a, b)` for litForm: operands of an
// expandable callee that are evaluated when the statement runs but could change
// before the call does (a field reached through a pointer, say) are first
// copied into temporaries, which the call then uses.
func (x *expander) stabilise(call *ast.CallExpr, depth int) []ast.Stmt {
	if _, isLit := ast.Unparen(call.Fun).(*ast.FuncLit); isLit {
		return nil
	}
	if _, ok := x.targetD(call, depth, true); !ok {
		return nil
	}
	var pre []ast.Stmt
	for i, a := range call.Args {
		if x.substitutable(a) || containsCall(a) {
			continue
		}
		typ := x.info.TypeOf(a)
		if typ == nil {
			continue
		}
		if b, isBasic := typ.(*types.Basic); isBasic && b.Info()&types.IsUntyped != 0 {
			continue
		}
		x.seq++
		tmp := types.NewVar(a.Pos(), x.top.Pkg.Types, fmt.Sprintf("inl%d_arg", x.seq), typ)
		def := &ast.Ident{NamePos: a.Pos(), Name: tmp.Name()}
		x.info.Defs[def] = tmp
		use := &ast.Ident{NamePos: a.Pos(), Name: tmp.Name()}
		x.info.Uses[use] = tmp
		if tv, ok := x.info.Types[a]; ok {
			x.info.Types[use] = tv
		}
		pre = append(pre, &ast.AssignStmt{Lhs: []ast.Expr{def}, TokPos: a.Pos(), Tok: token.DEFINE, Rhs: []ast.Expr{a}})
		call.Args[i] = use
	}
	return pre
}

func (x *expander) litForm(callp **ast.CallExpr, depth int) {
	call := *callp
	if _, isLit := ast.Unparen(call.Fun).(*ast.FuncLit); isLit {
		return
	}
	if _, ok := x.targetD(call, depth, true); !ok {
		return
	}
	stable := func(e ast.Expr) bool {
		if !x.substitutable(e) {
			return false
		}
		ok := true
		ast.Inspect(e, func(n ast.Node) bool {
			if id, isID := n.(*ast.Ident); isID {
				if o, isVar := x.info.Uses[id].(*types.Var); isVar && !o.IsField() && x.topWritten[x.p.OrigObj(o)] {
					ok = false
				}
			}
			return ok
		})
		return ok
	}
	if sel, ok := ast.Unparen(call.Fun).(*ast.SelectorExpr); ok && x.info.Selections[sel] != nil && !stable(sel.X) {
		return
	}
	for _, a := range call.Args {
		if !stable(a) {
			return
		}
	}
	at := call.Pos()
	lit := &ast.FuncLit{
		Type: &ast.FuncType{Func: at, Params: &ast.FieldList{Opening: at, Closing: at}},
		Body: &ast.BlockStmt{Lbrace: at, List: []ast.Stmt{&ast.ExprStmt{X: call}}, Rbrace: call.End()},
	}
	x.info.Types[lit] = types.TypeAndValue{Type: types.NewSignatureType(nil, nil, nil, nil, nil, false)}
	*callp = &ast.CallExpr{Fun: lit, Lparen: at, Rparen: call.End()}
}

// expandDefers (ExpandOpt.Defers) makes deferred calls explicit: every return
// of the view's function is preceded by copies of the bodies of the deferred
// function literals registered on the way to it, last registered first;
// `defer x.m(a)` with stable operands counts as `defer func(){ x.m(a) }()`.
// A return whose results are computed by calls has them evaluated into
// temporaries first, so the order "results, then deferred calls" is kept.
// Together with the flag pruning of the graph this turns "set a flag, clean up
// in a deferred closure if the flag is (not) set" into the same paths as explicit
// clean-up calls before each return. The expansion is abandoned (body left as
// it is) when a defer is registered on only some of the paths to a return, when
// a deferred function recovers, or when an operand of a deferred call is not
// stable. Panics are not modelled (as everywhere in the path rules).
func (x *expander) expandDefers(body *ast.BlockStmt, ftype *ast.FuncType, named []types.Object) bool {
	// normalise `defer call(args)` to literals where possible
	type deferred struct {
		stmt *ast.DeferStmt
		lit  *ast.FuncLit
	}
	var ds []*deferred
	ok := true
	Walk(body, false, func(n ast.Node) {
		d, isDefer := n.(*ast.DeferStmt)
		if !isDefer {
			return
		}
		lit, isLit := ast.Unparen(d.Call.Fun).(*ast.FuncLit)
		if !isLit || len(d.Call.Args) != 0 || (lit.Type.Params != nil && len(lit.Type.Params.List) != 0) {
			if !x.deferToLit(d) {
				ok = false
				return
			}
			lit = ast.Unparen(d.Call.Fun).(*ast.FuncLit)
		}
		Walk(lit.Body, false, func(m ast.Node) {
			if c, isCall := m.(*ast.CallExpr); isCall {
				if id, isID := c.Fun.(*ast.Ident); isID && id.Name == "recover" {
					ok = false
				}
			}
		})
		ds = append(ds, &deferred{d, lit})
	})
	if !ok || len(ds) == 0 {
		return false
	}
	// an explicit return at the end of a body that falls off
	if ftype.Results == nil || len(ftype.Results.List) == 0 {
		if n := len(body.List); n == 0 || !isTerminating(body.List[n-1]) {
			body.List = append(body.List, &ast.ReturnStmt{Return: body.Rbrace})
		}
	}
	tmp := &Func{P: x.p, Pkg: x.top.Pkg, Body: body, Type: ftype}
	g := tmp.Graph()
	plan := map[*ast.ReturnStmt][]*deferred{}
	for _, rn := range g.Returns() {
		rs, isRet := rn.AST.(*ast.ReturnStmt)
		if !isRet {
			continue
		}
		for _, d := range ds {
			dn := g.NodeOf(d.stmt)
			if dn == nil {
				return false
			}
			reach := g.Reach([]*cfgx.Visit{cfgx.StartAt(dn, 0)}, nil)
			if _, r := reach[rn]; !r {
				continue
			}
			if !g.DominatedByNode(rn, dn) {
				return false
			}
			plan[rs] = append(plan[rs], d)
		}
	}
	written := map[types.Object]bool{}
	for _, d := range ds {
		for o := range x.writtenObjs(d.lit.Body) {
			written[o] = true
		}
	}
	// named results that a deferred literal mentions: `return e` is `result = e; deferred calls; return result`
	usesNamed := false
	allNamed := len(named) > 0
	for _, o := range named {
		if o == nil || o.Name() == "_" {
			allNamed = false
		}
	}
	if allNamed {
		isNamed := map[types.Object]bool{}
		for _, o := range named {
			isNamed[o] = true
		}
		for _, d := range ds {
			ast.Inspect(d.lit.Body, func(n ast.Node) bool {
				if id, isID := n.(*ast.Ident); isID && isNamed[x.info.Uses[id]] {
					usesNamed = true
				}
				return true
			})
		}
	}
	body.List = mapReturns(body.List, func(r *ast.ReturnStmt) []ast.Stmt {
		dl := plan[r]
		if len(dl) == 0 {
			return []ast.Stmt{r}
		}
		var out []ast.Stmt
		if usesNamed && len(r.Results) > 0 {
			var lhs, uses []ast.Expr
			for _, o := range named {
				l := &ast.Ident{NamePos: r.Pos(), Name: o.Name()}
				x.info.Uses[l] = o
				u := &ast.Ident{NamePos: r.Pos(), Name: o.Name()}
				x.info.Uses[u] = o
				if v, isVar := o.(*types.Var); isVar {
					x.info.Types[l] = types.TypeAndValue{Type: v.Type()}
					x.info.Types[u] = types.TypeAndValue{Type: v.Type()}
				}
				lhs, uses = append(lhs, l), append(uses, u)
			}
			out = append(out, &ast.AssignStmt{Lhs: lhs, TokPos: r.Pos(), Tok: token.ASSIGN, Rhs: r.Results})
			r = &ast.ReturnStmt{Return: r.Return, Results: uses}
		}
		// results first
		hoist := false
		for _, e := range r.Results {
			if usesNamed {
				break // the function returns what its named results hold after the deferred calls
			}
			if containsCall(e) {
				hoist = true
			}
			ast.Inspect(e, func(n ast.Node) bool {
				if id, isID := n.(*ast.Ident); isID && written[x.info.Uses[id]] {
					hoist = true
				}
				return true
			})
		}
		if hoist {
			// evaluate, before the deferred calls, each result that has an effect or reads something they write
			results := append([]ast.Expr(nil), r.Results...)
			for i, e := range r.Results {
				needs := containsCall(e)
				ast.Inspect(e, func(n ast.Node) bool {
					if id, isID := n.(*ast.Ident); isID && written[x.info.Uses[id]] {
						needs = true
					}
					return true
				})
				if !needs {
					continue
				}
				t := x.info.TypeOf(e)
				if t == nil {
					continue
				}
				if tup, isTuple := t.(*types.Tuple); isTuple {
					// return f(): all results come from one call
					var lhs, uses []ast.Expr
					for j := 0; j < tup.Len(); j++ {
						x.seq++
						v := types.NewVar(r.Pos(), x.top.Pkg.Types, fmt.Sprintf("ret%d", x.seq), tup.At(j).Type())
						def := &ast.Ident{NamePos: r.Pos(), Name: v.Name()}
						x.info.Defs[def] = v
						use := &ast.Ident{NamePos: r.Pos(), Name: v.Name()}
						x.info.Uses[use] = v
						lhs, uses = append(lhs, def), append(uses, use)
					}
					out = append(out, &ast.AssignStmt{Lhs: lhs, TokPos: r.Pos(), Tok: token.DEFINE, Rhs: []ast.Expr{e}})
					results = uses
					break
				}
				if bt, isBasic := t.(*types.Basic); isBasic && bt.Info()&types.IsUntyped != 0 {
					continue
				}
				x.seq++
				v := types.NewVar(r.Pos(), x.top.Pkg.Types, fmt.Sprintf("ret%d", x.seq), t)
				def := &ast.Ident{NamePos: r.Pos(), Name: v.Name()}
				x.info.Defs[def] = v
				use := &ast.Ident{NamePos: r.Pos(), Name: v.Name()}
				x.info.Uses[use] = v
				out = append(out, &ast.AssignStmt{Lhs: []ast.Expr{def}, TokPos: r.Pos(), Tok: token.DEFINE, Rhs: []ast.Expr{e}})
				results[i] = use
			}
			r = &ast.ReturnStmt{Return: r.Return, Results: results}
		}
		for i := len(dl) - 1; i >= 0; i-- {
			lit := dl[i].lit
			declared := map[types.Object]bool{}
			ast.Inspect(lit, func(n ast.Node) bool {
				if id, isID := n.(*ast.Ident); isID {
					if o := x.info.Defs[id]; o != nil {
						declared[o] = true
					}
				}
				return true
			})
			cl := &cloner{p: x.p, info: x.info, off: x.p.shiftFile(lit.Pos()), objs: map[types.Object]types.Object{},
				local: func(o types.Object) bool { return declared[o] }}
			cp := cl.node(lit.Body).(*ast.BlockStmt)
			x.seq++
			end := fmt.Sprintf("dfr%d_end", x.seq)
			used := false
			suffix := fmt.Sprintf("_d%d", x.seq)
			Walk(cp, false, func(n ast.Node) {
				switch t := n.(type) {
				case *ast.LabeledStmt:
					t.Label.Name += suffix
				case *ast.BranchStmt:
					if t.Label != nil {
						t.Label.Name += suffix
					}
				}
			})
			cp.List = mapReturns(cp.List, func(dr *ast.ReturnStmt) []ast.Stmt {
				used = true
				return []ast.Stmt{gotoStmt(end, dr.Pos())}
			})
			out = append(out, cp.List...)
			if used {
				out = append(out, labeled(end, r.Pos()))
			}
		}
		return append(out, r)
	})
	// the registrations themselves become no-ops
	for _, d := range ds {
		d.stmt.Call = &ast.CallExpr{Fun: &ast.FuncLit{Type: &ast.FuncType{Func: d.stmt.Pos(), Params: &ast.FieldList{}}, Body: &ast.BlockStmt{Lbrace: d.stmt.Pos(), Rbrace: d.stmt.Pos()}}, Lparen: d.stmt.Pos(), Rparen: d.stmt.Pos()}
		x.info.Types[d.stmt.Call.Fun] = types.TypeAndValue{Type: types.NewSignatureType(nil, nil, nil, nil, nil, false)}
	}
	return true
}

// deferToLit rewrites `defer f(a)` / `defer x.m(a)` into `defer func(){ f(a) }()` when every operand is stable.
func (x *expander) deferToLit(d *ast.DeferStmt) bool {
	call := d.Call
	stable := func(e ast.Expr) bool {
		if !x.substitutable(e) {
			return false
		}
		ok := true
		ast.Inspect(e, func(n ast.Node) bool {
			if id, isID := n.(*ast.Ident); isID {
				if o, isVar := x.info.Uses[id].(*types.Var); isVar && !o.IsField() && x.topWritten[x.p.OrigObj(o)] {
					ok = false
				}
			}
			return ok
		})
		return ok
	}
	switch fun := ast.Unparen(call.Fun).(type) {
	case *ast.SelectorExpr:
		if x.info.Selections[fun] != nil {
			// x.f.m(): the receiver path is read when the call runs; fields reached through the (unchanged)
			// receiver variable are assumed not to be re-pointed between registration and exit
			root := fun.X
			for {
				if s, isSel := ast.Unparen(root).(*ast.SelectorExpr); isSel && x.info.Selections[s] != nil {
					root = s.X
					continue
				}
				break
			}
			if _, isID := ast.Unparen(root).(*ast.Ident); !isID || !stable(root) {
				return false
			}
		}
	case *ast.Ident:
		if o, isVar := x.info.Uses[fun].(*types.Var); isVar && x.topWritten[x.p.OrigObj(o)] {
			return false
		}
	default:
		return false
	}
	for _, a := range call.Args {
		if !stable(a) {
			return false
		}
	}
	at := call.Pos()
	lit := &ast.FuncLit{
		Type: &ast.FuncType{Func: at, Params: &ast.FieldList{Opening: at, Closing: at}},
		Body: &ast.BlockStmt{Lbrace: at, List: []ast.Stmt{&ast.ExprStmt{X: call}}, Rbrace: call.End()},
	}
	x.info.Types[lit] = types.TypeAndValue{Type: types.NewSignatureType(nil, nil, nil, nil, nil, false)}
	d.Call = &ast.CallExpr{Fun: lit, Lparen: at, Rparen: call.End()}
	return true
}

// dropDeadClosures removes `v := func…{…}` definitions of closures all of whose
// calls were expanded (the variable is no longer mentioned): what remains of
// the literal is dead code that would otherwise be analysed out of context.
func (x *expander) dropDeadClosures(body *ast.BlockStmt) {
	uses := map[types.Object]int{}
	ast.Inspect(body, func(n ast.Node) bool {
		if id, ok := n.(*ast.Ident); ok {
			if o := x.info.Uses[id]; o != nil {
				uses[o]++
			}
		}
		return true
	})
	dead := func(s ast.Stmt) bool {
		as, ok := s.(*ast.AssignStmt)
		if !ok || as.Tok != token.DEFINE || len(as.Lhs) != 1 || len(as.Rhs) != 1 {
			return false
		}
		if _, isLit := ast.Unparen(as.Rhs[0]).(*ast.FuncLit); !isLit {
			return false
		}
		id, ok := as.Lhs[0].(*ast.Ident)
		if !ok {
			return false
		}
		o := x.info.Defs[id]
		_, known := x.closures[o]
		return o != nil && known && uses[o] == 0
	}
	var filter func(list []ast.Stmt) []ast.Stmt
	filter = func(list []ast.Stmt) []ast.Stmt {
		var out []ast.Stmt
		for _, s := range list {
			if !dead(s) {
				out = append(out, s)
			}
		}
		return out
	}
	ast.Inspect(body, func(n ast.Node) bool {
		switch t := n.(type) {
		case *ast.BlockStmt:
			t.List = filter(t.List)
		case *ast.CaseClause:
			t.Body = filter(t.Body)
		case *ast.CommClause:
			t.Body = filter(t.Body)
		}
		return true
	})
}

// lowerCond: an if statement whose condition combines, with && || !, a call
// that would be expanded is rewritten into one if per leaf condition with jumps
// into the two branches (short-circuit evaluation made explicit), so that the
// call becomes the whole condition of its own if and can be expanded:
//
//	if a && h(x) { T } else { E }
//	  →  if a { goto mid }; goto else; mid: if h(x) { goto then }; goto else; if _ { then: T } else { else: E }
func (x *expander) lowerCond(ifs *ast.IfStmt, depth int) []ast.Stmt {
	if ifs.Init != nil {
		return nil
	}
	// is there an expandable call below a connective?
	needs := false
	var scan func(e ast.Expr, root bool)
	scan = func(e ast.Expr, root bool) {
		e = ast.Unparen(e)
		switch t := e.(type) {
		case *ast.UnaryExpr:
			if t.Op == token.NOT {
				scan(t.X, root)
				return
			}
		case *ast.BinaryExpr:
			if t.Op == token.LAND || t.Op == token.LOR {
				scan(t.X, false)
				scan(t.Y, false)
				return
			}
		case *ast.CallExpr:
			if !root {
				if _, ok := x.target(t, depth); ok {
					if sig, ok := x.info.TypeOf(t.Fun).(*types.Signature); ok && sig.Results().Len() == 1 {
						needs = true
					}
				}
			}
		}
		// a comparison of an expandable call with a plain operand, below a connective
		if !root && x.cmpCall(e, depth) != nil {
			needs = true
		}
	}
	scan(ifs.Cond, true)
	if !needs {
		return nil
	}
	at := ifs.Pos()
	thenL, elseL := x.label("then"), x.label("else")
	var lower func(e ast.Expr, lt, le string) []ast.Stmt
	lower = func(e ast.Expr, lt, le string) []ast.Stmt {
		e = ast.Unparen(e)
		switch t := e.(type) {
		case *ast.UnaryExpr:
			if t.Op == token.NOT {
				return lower(t.X, le, lt)
			}
		case *ast.BinaryExpr:
			switch t.Op {
			case token.LAND:
				mid := x.label("and")
				out := lower(t.X, mid, le)
				out = append(out, labeled(mid, t.Y.Pos()))
				return append(out, lower(t.Y, lt, le)...)
			case token.LOR:
				mid := x.label("or")
				out := lower(t.X, lt, mid)
				out = append(out, labeled(mid, t.Y.Pos()))
				return append(out, lower(t.Y, lt, le)...)
			}
		}
		leaf := &ast.IfStmt{If: e.Pos(), Cond: e, Body: &ast.BlockStmt{Lbrace: e.Pos(), List: []ast.Stmt{gotoStmt(lt, e.Pos())}, Rbrace: e.End()}}
		return []ast.Stmt{leaf, gotoStmt(le, e.Pos())}
	}
	out := lower(ifs.Cond, thenL, elseL)
	// the residual if keeps the two branches in place; it is entered by jumps only
	x.seq++
	nv := types.NewVar(at, x.top.Pkg.Types, fmt.Sprintf("inl%d_unreached", x.seq), types.Typ[types.Bool])
	def := &ast.Ident{NamePos: at, Name: nv.Name()}
	x.info.Defs[def] = nv
	use := &ast.Ident{NamePos: at, Name: nv.Name()}
	x.info.Uses[use] = nv
	decl := &ast.DeclStmt{Decl: &ast.GenDecl{TokPos: at, Tok: token.VAR, Specs: []ast.Spec{&ast.ValueSpec{Names: []*ast.Ident{def}}}}}
	ifs.Cond = use
	ifs.Body.List = append([]ast.Stmt{labeled(thenL, at)}, ifs.Body.List...)
	var tail []ast.Stmt
	switch e := ifs.Else.(type) {
	case nil:
		tail = append(tail, labeled(elseL, ifs.End()))
	case *ast.BlockStmt:
		e.List = append([]ast.Stmt{labeled(elseL, at)}, e.List...)
	default:
		ifs.Else = &ast.LabeledStmt{Label: &ast.Ident{NamePos: at, Name: elseL}, Colon: at, Stmt: e}
	}
	res := []ast.Stmt{decl}
	res = append(res, out...)
	res = append(res, ifs)
	res = append(res, tail...)
	return []ast.Stmt{&ast.BlockStmt{Lbrace: at, List: res, Rbrace: ifs.End()}}
}

// boolAssignToIf: `v := a || h(x)` with an expandable call below a connective becomes
// `var v bool; if a || h(x) { v = true } else { v = false }`, whose condition is then lowered and expanded.
func (x *expander) boolAssignToIf(as *ast.AssignStmt, depth int) []ast.Stmt {
	if len(as.Lhs) != 1 || len(as.Rhs) != 1 || (as.Tok != token.ASSIGN && as.Tok != token.DEFINE) {
		return nil
	}
	id, ok := as.Lhs[0].(*ast.Ident)
	if !ok || id.Name == "_" {
		return nil
	}
	if b, ok := x.info.TypeOf(as.Rhs[0]).(*types.Basic); !ok || b.Kind() != types.Bool {
		return nil
	}
	e := ast.Unparen(as.Rhs[0])
	switch t := e.(type) {
	case *ast.BinaryExpr:
		if t.Op != token.LAND && t.Op != token.LOR {
			return nil
		}
	case *ast.UnaryExpr:
		if t.Op != token.NOT {
			return nil
		}
	default:
		return nil
	}
	probe := &ast.IfStmt{If: as.Pos(), Cond: as.Rhs[0], Body: &ast.BlockStmt{}}
	needs := false
	var scan func(e ast.Expr)
	scan = func(e ast.Expr) {
		e = ast.Unparen(e)
		switch t := e.(type) {
		case *ast.UnaryExpr:
			if t.Op == token.NOT {
				scan(t.X)
			}
		case *ast.BinaryExpr:
			if t.Op == token.LAND || t.Op == token.LOR {
				scan(t.X)
				scan(t.Y)
			}
		case *ast.CallExpr:
			if _, ok := x.target(t, depth); ok {
				needs = true
			}
		}
	}
	scan(probe.Cond)
	if !needs {
		return nil
	}
	var obj types.Object
	var out []ast.Stmt
	at := as.Pos()
	if as.Tok == token.DEFINE && x.info.Defs[id] != nil {
		obj = x.info.Defs[id]
		out = append(out, &ast.DeclStmt{Decl: &ast.GenDecl{TokPos: at, Tok: token.VAR, Specs: []ast.Spec{&ast.ValueSpec{Names: []*ast.Ident{id}}}}})
	} else {
		obj = x.info.Uses[id]
		if obj == nil {
			obj = x.info.Defs[id]
		}
	}
	if obj == nil {
		return nil
	}
	set := func(val string) ast.Stmt {
		l := &ast.Ident{NamePos: at, Name: id.Name}
		x.info.Uses[l] = obj
		r := &ast.Ident{NamePos: at, Name: val}
		x.info.Uses[r] = types.Universe.Lookup(val)
		x.info.Types[r] = types.TypeAndValue{Type: types.Typ[types.Bool], Value: constant.MakeBool(val == "true")}
		return &ast.AssignStmt{Lhs: []ast.Expr{l}, TokPos: at, Tok: token.ASSIGN, Rhs: []ast.Expr{r}}
	}
	probe.Body = &ast.BlockStmt{Lbrace: at, List: []ast.Stmt{set("true")}, Rbrace: at}
	probe.Else = &ast.BlockStmt{Lbrace: at, List: []ast.Stmt{set("false")}, Rbrace: at}
	return append(out, probe)
}

// cmpCall: e is `call OP operand` (or the mirror image) with an expandable single-result call and an operand whose
// evaluation has no effect; it returns the position of the call operand.
func (x *expander) cmpCall(e ast.Expr, depth int) *ast.Expr {
	be, ok := ast.Unparen(e).(*ast.BinaryExpr)
	if !ok {
		return nil
	}
	switch be.Op {
	case token.EQL, token.NEQ, token.LSS, token.GTR, token.LEQ, token.GEQ:
	default:
		return nil
	}
	for _, side := range []struct{ c, o *ast.Expr }{{&be.X, &be.Y}, {&be.Y, &be.X}} {
		call, ok := ast.Unparen(*side.c).(*ast.CallExpr)
		if !ok || !isPure(x.info, *side.o) {
			continue
		}
		if _, exp := x.target(call, depth); !exp {
			continue
		}
		if sig, ok := x.info.TypeOf(call.Fun).(*types.Signature); !ok || sig.Results().Len() != 1 {
			continue
		}
		return side.c
	}
	return nil
}

// cmpCallToInit: `if helper(x) == nil {…}` is read as `if t := helper(x); t == nil {…}`, so that the helper is
// expanded like any call assigned in an if-initialiser and its returns enter the branch their value selects.
func (x *expander) cmpCallToInit(ifs *ast.IfStmt, depth int) bool {
	if ifs.Init != nil {
		return false
	}
	cond := ast.Unparen(ifs.Cond)
	if u, ok := cond.(*ast.UnaryExpr); ok && u.Op == token.NOT {
		cond = ast.Unparen(u.X)
	}
	slot := x.cmpCall(cond, depth)
	if slot == nil {
		return false
	}
	call := ast.Unparen(*slot).(*ast.CallExpr)
	typ := x.info.TypeOf(call)
	if typ == nil {
		return false
	}
	x.seq++
	at := call.Pos()
	tmp := types.NewVar(at, x.top.Pkg.Types, fmt.Sprintf("inl%d_cmp", x.seq), typ)
	def := &ast.Ident{NamePos: at, Name: tmp.Name()}
	x.info.Defs[def] = tmp
	use := &ast.Ident{NamePos: at, Name: tmp.Name()}
	x.info.Uses[use] = tmp
	if tv, ok := x.info.Types[call]; ok {
		x.info.Types[use] = types.TypeAndValue{Type: tv.Type}
	}
	ifs.Init = &ast.AssignStmt{Lhs: []ast.Expr{def}, TokPos: at, Tok: token.DEFINE, Rhs: []ast.Expr{call}}
	*slot = use
	x.rewrote = true
	return true
}

// closedIface: call is a method call through an interface declared in the package under analysis that has an
// unexported method — only types of this package can implement it — and at most four of them do, each with a
// method body that would be expanded. It returns the receiver operand and those types.
func (x *expander) closedIface(call *ast.CallExpr, depth int) (ast.Expr, []types.Type) {
	if depth >= x.opt.Depth || call.Ellipsis.IsValid() {
		return nil, nil
	}
	sel, ok := ast.Unparen(call.Fun).(*ast.SelectorExpr)
	if !ok {
		return nil, nil
	}
	m, ok := x.info.Uses[sel.Sel].(*types.Func)
	if !ok || m.Pkg() == nil || m.Pkg() != x.top.Pkg.Types {
		return nil, nil
	}
	recv := m.Type().(*types.Signature).Recv()
	if recv == nil {
		return nil, nil
	}
	it, ok := recv.Type().Underlying().(*types.Interface)
	if !ok {
		return nil, nil
	}
	if _, named := x.info.TypeOf(sel.X).(*types.Named); !named || !isPure(x.info, sel.X) {
		return nil, nil
	}
	closed := false
	for i := 0; i < it.NumMethods(); i++ {
		if !it.Method(i).Exported() {
			closed = true
		}
	}
	if !closed {
		return nil, nil
	}
	var impls []types.Type
	scope := x.top.Pkg.Types.Scope()
	for _, name := range scope.Names() {
		tn, ok := scope.Lookup(name).(*types.TypeName)
		if !ok || tn.IsAlias() {
			continue
		}
		t := tn.Type()
		if _, isIface := t.Underlying().(*types.Interface); isIface {
			continue
		}
		var impl types.Type
		switch {
		case types.Implements(t, it):
			impl = t
		case types.Implements(types.NewPointer(t), it):
			impl = types.NewPointer(t)
		default:
			continue
		}
		// the concrete method must be a declared function of the package that is not being expanded already
		ms := types.NewMethodSet(impl).Lookup(m.Pkg(), m.Name())
		if ms == nil {
			return nil, nil
		}
		cm, _ := ms.Obj().(*types.Func)
		if cm == nil || x.p.byObj[cm.Origin()] == nil || len(ms.Index()) != 1 {
			return nil, nil
		}
		if x.opt.Stop != nil && x.opt.Stop(cm.Origin()) {
			return nil, nil
		}
		for _, on := range x.stack {
			if on == cm.Origin() {
				return nil, nil
			}
		}
		impls = append(impls, impl)
	}
	if len(impls) == 0 || len(impls) > 4 {
		return nil, nil
	}
	return sel.X, impls
}

// devirt rewrites a statement whose call goes through such an interface into a chain of type tests with one copy
// of the statement per implementing type, the call in each copy made on the asserted concrete value:
//
//	if _, is := v.(T0); is { S[v.(T0).m(…)] } else { S[v.(T1).m(…)] }
//
// The copies are then expanded like any call of a concrete method. (A nil interface value panics in the original
// and in the last arm alike.)
func (x *expander) devirt(s ast.Stmt, depth int) []ast.Stmt {
	var slot *ast.Expr
	switch t := s.(type) {
	case *ast.ExprStmt:
		slot = &t.X
	case *ast.AssignStmt:
		if len(t.Rhs) == 1 && (t.Tok == token.ASSIGN || t.Tok == token.DEFINE) {
			slot = &t.Rhs[0]
		}
	case *ast.ReturnStmt:
		if len(t.Results) == 1 {
			slot = &t.Results[0]
		}
	}
	if slot == nil {
		return nil
	}
	call, ok := ast.Unparen(*slot).(*ast.CallExpr)
	if !ok {
		return nil
	}
	recv, impls := x.closedIface(call, depth)
	if len(impls) == 0 {
		return nil
	}
	sel := ast.Unparen(call.Fun).(*ast.SelectorExpr)
	m := x.info.Uses[sel.Sel].(*types.Func)
	at := s.Pos()
	x.rewrote = true
	var arms []ast.Stmt
	for _, impl := range impls {
		// a copy of the statement sharing all its variables
		cl := &cloner{p: x.p, info: x.info, off: x.p.shiftFile(at), objs: map[types.Object]types.Object{}, local: func(types.Object) bool { return false }}
		cp := cl.node(s).(ast.Stmt)
		var cslot *ast.Expr
		switch t := cp.(type) {
		case *ast.ExprStmt:
			cslot = &t.X
		case *ast.AssignStmt:
			cslot = &t.Rhs[0]
		case *ast.ReturnStmt:
			cslot = &t.Results[0]
		}
		ccall := ast.Unparen(*cslot).(*ast.CallExpr)
		csel := ast.Unparen(ccall.Fun).(*ast.SelectorExpr)
		typeID := &ast.Ident{NamePos: csel.X.Pos(), Name: types.TypeString(impl, func(*types.Package) string { return "" })}
		x.info.Types[typeID] = types.TypeAndValue{Type: impl}
		ta := &ast.TypeAssertExpr{X: csel.X, Lparen: csel.X.End(), Type: typeID, Rparen: csel.X.End()}
		x.info.Types[ta] = types.TypeAndValue{Type: impl}
		ms := types.NewMethodSet(impl).Lookup(m.Pkg(), m.Name())
		nsel := &ast.SelectorExpr{X: ta, Sel: &ast.Ident{NamePos: csel.Sel.Pos(), Name: csel.Sel.Name}}
		x.info.Uses[nsel.Sel] = ms.Obj()
		x.info.Selections[nsel] = ms
		x.info.Types[nsel] = types.TypeAndValue{Type: ms.Type()}
		ccall.Fun = nsel
		arms = append(arms, cp)
	}
	_ = recv
	// the chain of tests, last implementation in the final else
	var chain ast.Stmt = &ast.BlockStmt{Lbrace: at, List: []ast.Stmt{arms[len(arms)-1]}, Rbrace: s.End()}
	for i := len(arms) - 2; i >= 0; i-- {
		x.seq++
		okv := types.NewVar(at, x.top.Pkg.Types, fmt.Sprintf("inl%d_is", x.seq), types.Typ[types.Bool])
		def := &ast.Ident{NamePos: at, Name: okv.Name()}
		x.info.Defs[def] = okv
		use := &ast.Ident{NamePos: at, Name: okv.Name()}
		x.info.Uses[use] = okv
		x.info.Types[use] = types.TypeAndValue{Type: types.Typ[types.Bool]}
		cl := &cloner{p: x.p, info: x.info, off: x.p.shiftFile(at), objs: map[types.Object]types.Object{}, local: func(types.Object) bool { return false }}
		rx := cl.node(recv).(ast.Expr)
		typeID := &ast.Ident{NamePos: at, Name: types.TypeString(impls[i], func(*types.Package) string { return "" })}
		x.info.Types[typeID] = types.TypeAndValue{Type: impls[i]}
		ta := &ast.TypeAssertExpr{X: rx, Lparen: at, Type: typeID, Rparen: at}
		x.info.Types[ta] = types.TypeAndValue{Type: types.NewTuple(types.NewVar(at, nil, "", impls[i]), types.NewVar(at, nil, "", types.Typ[types.Bool]))}
		blank := &ast.Ident{NamePos: at, Name: "_"}
		init := &ast.AssignStmt{Lhs: []ast.Expr{blank, def}, TokPos: at, Tok: token.DEFINE, Rhs: []ast.Expr{ta}}
		var els ast.Stmt = chain
		chain = &ast.IfStmt{If: at, Init: init, Cond: use, Body: &ast.BlockStmt{Lbrace: at, List: []ast.Stmt{arms[i]}, Rbrace: s.End()}, Else: els}
	}
	return []ast.Stmt{chain}
}

// accessors replaces, inside the expressions of statement s itself (not of the statements nested in it), every call
// of an expandable function whose body is a single `return E` with E free of effects by a copy of E — the receiver
// and the parameters replaced by the operands. Such a call can stand anywhere an expression can (the base of a
// selector, a range operand, an index), where statement-level expansion does not reach: `b.data().puts[k]` with
// `func (b memBucket) data() memData { return b.db.data[b.name] }` reads as `b.db.data[b.name].puts[k]`.
func (x *expander) accessors(s ast.Stmt, depth int) {
	for round := 0; round < 4; round++ {
		changed := false
		ast.Inspect(s, func(n ast.Node) bool {
			if n == nil {
				return false
			}
			switch n.(type) {
			case *ast.BlockStmt:
				return n == ast.Node(s)
			case *ast.FuncLit, *ast.CaseClause, *ast.CommClause:
				return false
			}
			v := reflect.ValueOf(n)
			if v.Kind() != reflect.Ptr || v.IsNil() || v.Elem().Kind() != reflect.Struct {
				return true
			}
			st := v.Elem()
			try := func(slot reflect.Value) {
				if slot.IsNil() {
					return
				}
				e, ok := slot.Interface().(ast.Expr)
				if !ok {
					return
				}
				// a field of a package-level record that is never written after its initialiser is the value it
				// was given there (a function name or a constant): `replenishPools.exactDeposits` reads as `true`
				if sel, isSel := ast.Unparen(e).(*ast.SelectorExpr); isSel {
					if repl := x.frozenField(sel); repl != nil && slot.CanSet() {
						slot.Set(reflect.ValueOf(repl))
						changed = true
					}
					return
				}
				call, ok := ast.Unparen(e).(*ast.CallExpr)
				if !ok {
					return
				}
				if csel, isSel := ast.Unparen(call.Fun).(*ast.SelectorExpr); isSel {
					if repl := x.frozenField(csel); repl != nil {
						call.Fun = repl
						changed = true
						return
					}
				}
				if repl := x.accessorValue(call, depth); repl != nil && slot.CanSet() {
					slot.Set(reflect.ValueOf(repl))
					changed = true
				}
			}
			for i := 0; i < st.NumField(); i++ {
				f := st.Field(i)
				switch {
				case f.Kind() == reflect.Interface && f.Type() == exprIface:
					try(f)
				case f.Kind() == reflect.Slice && f.Type().Elem() == exprIface:
					for j := 0; j < f.Len(); j++ {
						try(f.Index(j))
					}
				}
			}
			return true
		})
		if !changed {
			return
		}
		x.rewrote = true
	}
}

// accessorValue returns the copy of the callee's returned expression that stands for call, or nil.
func (x *expander) accessorValue(call *ast.CallExpr, depth int) ast.Expr {
	c, ok := x.target(call, depth)
	if !ok || c.fn == nil || c.lit != nil || c.fn.Decl == nil || c.obj == nil {
		return nil
	}
	fn := c.fn
	if len(fn.Decl.Body.List) != 1 || fn.Decl.Type.TypeParams != nil {
		return nil
	}
	rs, ok := fn.Decl.Body.List[0].(*ast.ReturnStmt)
	if !ok || len(rs.Results) != 1 || !isPure(fn.Info(), rs.Results[0]) {
		return nil
	}
	hasLit := false
	ast.Inspect(rs.Results[0], func(n ast.Node) bool {
		if _, ok := n.(*ast.FuncLit); ok {
			hasLit = true
		}
		return !hasLit
	})
	if hasLit {
		return nil
	}
	uses := map[types.Object]int{}
	ast.Inspect(rs.Results[0], func(n ast.Node) bool {
		if id, ok := n.(*ast.Ident); ok {
			if o := fn.Info().Uses[id]; o != nil {
				uses[o]++
			}
		}
		return true
	})
	subst := map[types.Object]ast.Expr{}
	bind := func(nm *ast.Ident, arg ast.Expr) bool {
		if nm == nil || nm.Name == "_" {
			return !containsCall(arg)
		}
		pobj := fn.Info().Defs[nm]
		if pobj == nil {
			return false
		}
		if at := x.info.TypeOf(arg); at == nil || !types.Identical(at, pobj.Type()) {
			return false // implicit address-of / conversion: leave to the statement-level expansion
		}
		if !(x.substitutable(arg) || (isPure(x.info, arg) && uses[pobj] <= 1)) {
			return false
		}
		subst[pobj] = arg
		return true
	}
	if fn.Decl.Recv != nil && len(fn.Decl.Recv.List) == 1 {
		if c.recv == nil {
			return nil
		}
		var nm *ast.Ident
		if len(fn.Decl.Recv.List[0].Names) == 1 {
			nm = fn.Decl.Recv.List[0].Names[0]
		}
		if !bind(nm, c.recv) {
			return nil
		}
	}
	i := 0
	for _, fld := range fn.Decl.Type.Params.List {
		if len(fld.Names) == 0 {
			if i >= len(call.Args) || containsCall(call.Args[i]) {
				return nil
			}
			i++
			continue
		}
		for _, nm := range fld.Names {
			if i >= len(call.Args) || !bind(nm, call.Args[i]) {
				return nil
			}
			i++
		}
	}
	if i != len(call.Args) {
		return nil
	}
	cl := &cloner{p: x.p, info: x.info, off: x.p.shiftFile(rs.Pos()), objs: map[types.Object]types.Object{}, subst: subst,
		local: func(types.Object) bool { return false }}
	out := cl.node(rs.Results[0]).(ast.Expr)
	par := &ast.ParenExpr{Lparen: out.Pos(), X: out, Rparen: out.End()}
	if tv, ok := x.info.Types[out]; ok {
		x.info.Types[par] = tv
	} else if t := x.info.TypeOf(call); t != nil {
		x.info.Types[par] = types.TypeAndValue{Type: t}
		x.info.Types[out] = types.TypeAndValue{Type: t}
	}
	if x.inlinedCalls == nil {
		x.inlinedCalls = map[ast.Node]bool{}
	}
	x.inlinedCalls[x.p.OrigNode(call)] = true
	x.inlined = append(x.inlined, c.obj)
	return par
}

// forwardable: the return statement that follows the assignment of a call's results mentions, besides the assigned
// variables, only expressions without effects (so a copy of it may stand at each return of the expanded callee).
func (x *expander) forwardable(ret *ast.ReturnStmt, as *ast.AssignStmt) bool {
	if len(ret.Results) == 0 {
		return false
	}
	assigned := map[types.Object]bool{}
	for _, l := range as.Lhs {
		if o := x.objOf(l); o != nil {
			assigned[o] = true
		}
	}
	uses := false
	for _, r := range ret.Results {
		if !isPure(x.info, r) {
			return false
		}
		ast.Inspect(r, func(n ast.Node) bool {
			if id, ok := n.(*ast.Ident); ok && assigned[x.objOf(id)] {
				uses = true
			}
			return true
		})
	}
	return uses
}

// frozenField: sel is V.f with V a package-level variable of the package under analysis whose declaration
// initialises it with a keyed struct literal, and which is never assigned, address-taken or field-assigned anywhere
// in the package. It returns a copy of the initialiser's value for f when that value is a constant, true/false, nil,
// or the name of a function; nil otherwise (also when the literal leaves f out).
func (x *expander) frozenField(sel *ast.SelectorExpr) ast.Expr {
	id, ok := ast.Unparen(sel.X).(*ast.Ident)
	if !ok {
		return nil
	}
	v, ok := x.info.Uses[id].(*types.Var)
	if !ok || v.IsField() || v.Pkg() == nil || v.Parent() != v.Pkg().Scope() || v.Pkg() != x.top.Pkg.Types {
		return nil
	}
	if s := x.info.Selections[sel]; s == nil || s.Kind() != types.FieldVal {
		return nil
	}
	init, frozen := x.p.frozenVar(x.top.Pkg, v)
	if !frozen || init == nil {
		return nil
	}
	for _, el := range init.Elts {
		kv, ok := el.(*ast.KeyValueExpr)
		if !ok {
			return nil
		}
		k, ok := kv.Key.(*ast.Ident)
		if !ok || k.Name != sel.Sel.Name {
			continue
		}
		val := ast.Unparen(kv.Value)
		okVal := false
		if tv, has := x.info.Types[val]; has && tv.Value != nil {
			okVal = true
		}
		switch t := val.(type) {
		case *ast.Ident:
			switch x.info.Uses[t].(type) {
			case *types.Func, *types.Const, *types.Nil:
				okVal = true
			}
		case *ast.SelectorExpr:
			if _, isFn := x.info.Uses[t.Sel].(*types.Func); isFn && x.info.Selections[t] == nil {
				okVal = true
			}
		}
		if !okVal {
			return nil
		}
		cl := &cloner{p: x.p, info: x.info, off: x.p.shiftFile(val.Pos()), objs: map[types.Object]types.Object{}, local: func(types.Object) bool { return false }}
		out := cl.node(val).(ast.Expr)
		collapsePos(out, sel.Pos())
		return out
	}
	return nil
}
