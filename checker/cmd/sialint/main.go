// Command sialint decides the structural clauses of the coreutils properties
// by static analysis of the repository's current working tree.
package main

import (
	"encoding/json"
	"flag"
	"fmt"
	"os"
	"os/exec"
	"path/filepath"
	"sort"
	"strconv"
	"strings"
	"sync"
	"time"

	"sialint/internal/ir"
	"sialint/rules"
)

type knownEntry struct {
	Property string `json:"property"`
	Rule     string `json:"rule"`
	Key      string `json:"obligation_key"`
	What     string `json:"what"`
	Status   string `json:"status"` // "known" or "fixed"
	Commit   string `json:"commit,omitempty"`
}

type mutantSpec struct {
	File  string `json:"file"`
	Old   string `json:"old"`
	New   string `json:"new"`
	Nth   int    `json:"nth"`
	Patch string `json:"patch,omitempty"` // unified diff file to apply in memory instead of Old/New
}

type runResult struct {
	Obs      []*rules.Ob    `json:"obs"`
	Evals    int            `json:"evals"`
	PerRule  map[string]int `json:"per_rule"`
	Packages int            `json:"packages"`
	Funcs    int            `json:"funcs"`
	LoadErr  string         `json:"load_err,omitempty"`
	Stale    bool           `json:"stale,omitempty"`
}

func main() {
	prop := flag.String("property", "", "property id, e.g. C14")
	tier := flag.String("tier", "quick", "quick or thorough")
	repo := flag.String("repo", "/repo", "repository root")
	out := flag.String("out", "/verif/evidence", "evidence directory")
	known := flag.String("known", "/verif/known_findings.json", "known findings file")
	mut := flag.String("mutant", "", "internal: JSON mutant spec file; analyse the mutated tree and print JSON")
	list := flag.Bool("list", false, "list rules and exit")
	flag.Parse()

	if *list {
		for _, r := range rules.All {
			fmt.Printf("%s\tfloor=%d\tthorough=%v\t%s\n", r.ID, r.Floor, r.Thorough, r.Doc)
		}
		return
	}
	if *prop == "" {
		fmt.Fprintln(os.Stderr, "usage: sialint -property Cxx [-tier quick|thorough]")
		os.Exit(2)
	}
	if env := os.Getenv("VERIF_TIER"); env != "" && !isFlagSet("tier") {
		*tier = env
	}
	seed, _ := strconv.Atoi(os.Getenv("VERIF_SEED"))

	if *mut != "" {
		res := analyse(*repo, *prop, "thorough", *mut) // thorough-only rules must be able to kill their mutants too
		json.NewEncoder(os.Stdout).Encode(res)
		return
	}

	start := time.Now()
	res := analyse(*repo, *prop, *tier, "")
	var mres []mutantOutcome
	if *tier == "thorough" && res.LoadErr == "" {
		mres = runMutants(*repo, *prop, seed)
	}
	code := report(*prop, *tier, seed, *out, *known, res, mres, time.Since(start))
	os.Exit(code)
}

func isFlagSet(name string) bool {
	set := false
	flag.Visit(func(f *flag.Flag) {
		if f.Name == name {
			set = true
		}
	})
	return set
}

func analyse(repo, prop, tier, mutFile string) *runResult {
	res := &runResult{PerRule: map[string]int{}}
	var overlay map[string][]byte
	if mutFile != "" {
		raw, err := os.ReadFile(mutFile)
		if err != nil {
			res.LoadErr = err.Error()
			return res
		}
		var m mutantSpec
		if err := json.Unmarshal(raw, &m); err != nil {
			res.LoadErr = err.Error()
			return res
		}
		if m.Patch != "" {
			ov, err := applyPatchInMemory(repo, m.Patch)
			if err != nil {
				res.Stale = true
				return res
			}
			overlay = ov
		}
	}
	if mutFile != "" && overlay == nil {
		raw, _ := os.ReadFile(mutFile)
		var m mutantSpec
		json.Unmarshal(raw, &m)
		path := filepath.Join(repo, m.File)
		src, err := os.ReadFile(path)
		if err != nil {
			res.Stale = true
			return res
		}
		text := string(src)
		cnt := strings.Count(text, m.Old)
		switch {
		case cnt == 0, m.Nth == 0 && cnt != 1, m.Nth > cnt:
			res.Stale = true
			return res
		}
		if m.Nth <= 1 {
			text = strings.Replace(text, m.Old, m.New, 1)
		} else {
			idx := -1
			off := 0
			for i := 0; i < m.Nth; i++ {
				j := strings.Index(text[off:], m.Old)
				idx = off + j
				off = idx + len(m.Old)
			}
			text = text[:idx] + m.New + text[idx+len(m.Old):]
		}
		overlay = map[string][]byte{path: []byte(text)}
	}
	p, err := ir.Load(repo, overlay)
	if err != nil {
		res.LoadErr = err.Error()
		return res
	}
	res.Packages = len(p.Roots)
	res.Funcs = len(p.Funcs)
	if res.Packages < 12 {
		res.LoadErr = fmt.Sprintf("only %d packages loaded, expected at least 12", res.Packages)
		return res
	}
	rs := rules.RulesFor(prop)
	if len(rs) == 0 {
		res.LoadErr = "no rules registered for " + prop
		return res
	}
	for _, r := range rs {
		if r.Thorough && tier != "thorough" {
			continue
		}
		c := rules.RunRule(p, r, tier)
		res.Obs = append(res.Obs, c.Obs...)
		res.Evals += c.Evals
		res.PerRule[r.ID] = len(c.Obs)
	}
	return res
}

type mutantOutcome struct {
	Name   string `json:"name"`
	Rule   string `json:"rule"`
	Result string `json:"result"` // killed, survived, stale, error
	Detail string `json:"detail,omitempty"`
}

// seededMutants turns the committed seeded changes that this property's check is recorded to catch into self-test mutants.
func seededMutants(prop string) []rules.Mutant {
	var out []rules.Mutant
	dirs, _ := filepath.Glob("/verif/seeded/*")
	sort.Strings(dirs)
	for _, d := range dirs {
		raw, err := os.ReadFile(filepath.Join(d, "meta.json"))
		if err != nil {
			continue
		}
		var meta struct {
			DetectedBy map[string][]string `json:"detected_by"`
		}
		if json.Unmarshal(raw, &meta) != nil {
			continue
		}
		rs := meta.DetectedBy[prop]
		if len(rs) == 0 {
			continue
		}
		out = append(out, rules.Mutant{Rule: strings.Join(rs, ","), Name: "seeded/" + filepath.Base(d), File: filepath.Join(d, "patch.diff")})
	}
	return out
}

func runMutants(repo, prop string, seed int) []mutantOutcome {
	ms := rules.MutantsFor(prop)
	nHand := len(ms)
	ms = append(ms, seededMutants(prop)...)
	if len(ms) == 0 {
		return nil
	}
	exe, err := os.Executable()
	if err != nil {
		return []mutantOutcome{{Name: "*", Result: "error", Detail: err.Error()}}
	}
	dir, err := os.MkdirTemp("", "sialint-mut")
	if err != nil {
		return []mutantOutcome{{Name: "*", Result: "error", Detail: err.Error()}}
	}
	defer os.RemoveAll(dir)
	out := make([]mutantOutcome, len(ms))
	sem := make(chan struct{}, 4)
	var wg sync.WaitGroup
	order := make([]int, len(ms))
	for i := range order {
		order[i] = (i + seed) % len(ms)
	}
	for _, i := range order {
		wg.Add(1)
		go func(i int) {
			defer wg.Done()
			sem <- struct{}{}
			defer func() { <-sem }()
			m := ms[i]
			o := mutantOutcome{Name: m.Name, Rule: m.Rule}
			sp := mutantSpec{File: m.File, Old: m.Old, New: m.New, Nth: m.Nth}
			if i >= nHand {
				sp = mutantSpec{Patch: m.File}
			}
			spec, _ := json.Marshal(sp)
			f := filepath.Join(dir, fmt.Sprintf("m%d.json", i))
			os.WriteFile(f, spec, 0o644)
			cmd := exec.Command(exe, "-property", prop, "-repo", repo, "-mutant", f)
			cmd.Stderr = nil
			raw, err := cmd.Output()
			var r runResult
			if err != nil || json.Unmarshal(raw, &r) != nil {
				o.Result, o.Detail = "error", fmt.Sprintf("%v %s", err, truncate(string(raw), 200))
				out[i] = o
				return
			}
			switch {
			case r.Stale:
				o.Result = "stale"
			case r.LoadErr != "":
				o.Result, o.Detail = "error", r.LoadErr
			default:
				o.Result = "survived"
				ruleMatch := func(r string) bool {
					for _, x := range strings.Split(m.Rule, ",") {
						if x == r {
							return true
						}
					}
					return false
				}
				for _, ob := range r.Obs {
					if ruleMatch(ob.Rule) && (ob.Status == rules.Violated || ob.Status == rules.Undecided) && strings.Contains(ob.Key, m.Expect) {
						o.Result, o.Detail = "killed", ob.Key+" at "+ob.Pos
						break
					}
				}
				for _, ob := range r.Obs {
					if o.Result == "killed" {
						break
					}
					if ob.Rule == m.Rule && ob.Status == rules.Violated && strings.Contains(ob.Key, m.Expect) {
						o.Result, o.Detail = "killed", ob.Key+" at "+ob.Pos
						break
					}
				}
				if o.Result == "survived" {
					for _, ob := range r.Obs {
						if ob.Rule == m.Rule && ob.Status == rules.Undecided && strings.Contains(ob.Key, m.Expect) {
							o.Result, o.Detail = "killed", "undecided: "+ob.Key+": "+ob.Msg
						}
					}
				}
			}
			out[i] = o
		}(i)
	}
	wg.Wait()
	return out
}

func truncate(s string, n int) string {
	if len(s) > n {
		return s[:n]
	}
	return s
}

func report(prop, tier string, seed int, outDir, knownFile string, res *runResult, mres []mutantOutcome, wall time.Duration) int {
	os.MkdirAll(filepath.Join(outDir, "violations"), 0o755)
	// clear stale violation files of this property
	old, _ := filepath.Glob(filepath.Join(outDir, "violations", prop+"-*.json"))
	for _, f := range old {
		os.Remove(f)
	}
	var known []knownEntry
	if raw, err := os.ReadFile(knownFile); err == nil {
		var kf struct {
			Findings []knownEntry `json:"findings"`
		}
		if json.Unmarshal(raw, &kf) == nil {
			known = kf.Findings
		}
	}
	if res.LoadErr != "" {
		res.Obs = append(res.Obs, &rules.Ob{Rule: prop + ".load", Key: prop + ".load # engine", Pos: "-", Status: rules.Undecided, Msg: res.LoadErr})
	}
	sort.SliceStable(res.Obs, func(i, j int) bool { return res.Obs[i].Key < res.Obs[j].Key })

	fmt.Printf("sialint property=%s tier=%s packages=%d functions=%d obligations=%d\n", prop, tier, res.Packages, res.Funcs, len(res.Obs))
	ruleIDs := make([]string, 0, len(res.PerRule))
	for id := range res.PerRule {
		ruleIDs = append(ruleIDs, id)
	}
	sort.Strings(ruleIDs)
	floors := map[string]int{}
	docs := map[string]string{}
	for _, r := range rules.RulesFor(prop) {
		floors[r.ID] = r.Floor
		docs[r.ID] = r.Doc
	}
	for _, id := range ruleIDs {
		fmt.Printf("  rule %-8s instances=%-3d floor=%-3d %s\n", id, res.PerRule[id], floors[id], docs[id])
	}

	if os.Getenv("SIALINT_VERBOSE") != "" {
		for _, o := range res.Obs {
			fmt.Printf("  ob %-11s %s at %s: %s\n", o.Status, o.Key, o.Pos, o.Msg)
		}
	}
	nViol, nKnown, discharged, nontriv := 0, 0, 0, map[string]bool{}
	k := 0
	for _, o := range res.Obs {
		switch o.Status {
		case rules.Discharged:
			discharged++
		case rules.Violated, rules.Undecided:
			isKnown := false
			if o.Status == rules.Violated {
				for _, e := range known {
					if e.Status == "known" && e.Property == prop && e.Rule == o.Rule && e.Key == o.Key {
						isKnown = true
						fmt.Printf("KNOWN-FINDING: property=%s %s (%s at %s)\n", prop, e.What, o.Key, o.Pos)
					}
				}
			}
			if isKnown {
				o.Known = true
				nKnown++
				continue
			}
			k++
			nViol++
			path := filepath.Join(outDir, "violations", fmt.Sprintf("%s-%d.json", prop, k))
			raw, _ := json.MarshalIndent(map[string]any{
				"property": prop, "rule": o.Rule, "obligation": o.Key, "position": o.Pos, "status": o.Status,
				"message": o.Msg, "witness_path": o.Witness, "rule_doc": docs[o.Rule],
				"replay": fmt.Sprintf("cd /verif && ./run.sh %s quick   # re-analyses /repo and reports this construct again", prop),
			}, "", " ")
			os.WriteFile(path, raw, 0o644)
			if o.Status == rules.Undecided {
				fmt.Printf("UNDECIDED rule=%s obligation=%q reason=%s\n", o.Rule, o.Key, o.Msg)
			} else {
				fmt.Printf("FINDING rule=%s obligation=%q at %s: %s\n", o.Rule, o.Key, o.Pos, o.Msg)
				for _, w := range o.Witness {
					fmt.Printf("    %s\n", w)
				}
			}
			fmt.Printf("VIOLATION property=%s replay=%s\n", prop, path)
		}
		if o.Nontrivial {
			nontriv[o.Rule+"@"+keyFn(o.Key)] = true
		}
	}
	killed, survived, stale, merr := 0, 0, 0, 0
	for _, m := range mres {
		switch m.Result {
		case "killed":
			killed++
			fmt.Printf("MUTANT-KILLED %s (%s): %s\n", m.Name, m.Rule, m.Detail)
		case "survived":
			survived++
			fmt.Printf("MUTANT-SURVIVED %s (%s)\n", m.Name, m.Rule)
		case "stale":
			stale++
			fmt.Printf("MUTANT-STALE %s (%s): source text no longer present, skipped\n", m.Name, m.Rule)
		default:
			merr++
			fmt.Printf("MUTANT-ERROR %s (%s): %s\n", m.Name, m.Rule, m.Detail)
		}
	}
	// samples: up to 12 obligations, violated first
	var samples []any
	for _, st := range []rules.Status{rules.Violated, rules.Undecided, rules.Discharged} {
		for _, o := range res.Obs {
			if o.Status == st && len(samples) < 12 {
				samples = append(samples, map[string]any{"obligation": o.Key, "pos": o.Pos, "verdict": o.Status, "note": o.Msg, "known": o.Known})
			}
		}
	}
	expl := rules.Explanations[prop]
	cov := map[string]any{
		"explanation":         expl,
		"obligations":         len(res.Obs),
		"discharged":          discharged,
		"evaluations":         res.Evals,
		"distinct_nontrivial": len(nontriv),
		"rule":                "an obligation is one (rule, function, role) instance found by resolving the rule's anchors in the type-checked program; it is non-trivial when the function it lives in has at least one branch, and distinct by (rule, function); evaluations counts graph nodes, call sites and instructions visited by the rule engines",
		"samples":             samples,
		"packages":            res.Packages,
		"functions_analysed":  res.Funcs,
		"rule_instances":      res.PerRule,
		"floors":              floors,
		"rules":               docs,
		"known_findings":      nKnown,
		"checker_cmd":         fmt.Sprintf("./run.sh %s %s", prop, tier),
	}
	if tier == "thorough" {
		cov["mutants"] = map[string]any{"killed": killed, "survived": survived, "stale": stale, "errors": merr, "total": len(mres), "detail": mres}
	}
	ev := map[string]any{
		"property_id": prop,
		"tier":        tier,
		"seed":        seed,
		"level":       "other",
		"coverage":    cov,
		"assumptions": []string{
			"go/types and the vendored go/cfg builder model Go control flow correctly; panics are not modelled as exits unless a rule says so",
			"the structural clause decided here is a necessary condition of the property, not the property itself (see coverage.explanation)",
			"go.sia.tech/core v0.21.7 verifiers, constructors and consensus functions behave as documented",
		},
		"wall_s":     wall.Seconds(),
		"violations": nViol,
	}
	raw, _ := json.MarshalIndent(ev, "", " ")
	if err := os.WriteFile(filepath.Join(outDir, prop+".json"), raw, 0o644); err != nil {
		fmt.Printf("UNDECIDED rule=%s.evidence reason=%v\n", prop, err)
		return 1
	}
	fmt.Printf("summary property=%s obligations=%d discharged=%d violations=%d known=%d wall=%.1fs\n", prop, len(res.Obs), discharged, nViol, nKnown, wall.Seconds())
	if nViol > 0 {
		return 1
	}
	if survived > 0 || merr > 0 {
		// a rule that cannot see its own breakage is suspect; this is reported and recorded in the
		// evidence, but it is not a violation of the property on the analysed tree
		fmt.Printf("SELFTEST-FAILED property=%s survived=%d errors=%d\n", prop, survived, merr)
	}
	return 0
}

func keyFn(key string) string {
	if i := strings.Index(key, " @ "); i >= 0 {
		rest := key[i+3:]
		if j := strings.Index(rest, " # "); j >= 0 {
			return rest[:j]
		}
		return rest
	}
	return ""
}

// applyPatchInMemory applies a unified diff (as produced by git diff) to the files under repo and returns an overlay.
func applyPatchInMemory(repo, patchFile string) (map[string][]byte, error) {
	raw, err := os.ReadFile(patchFile)
	if err != nil {
		return nil, err
	}
	lines := strings.Split(string(raw), "\n")
	overlay := map[string][]byte{}
	var cur string
	var content []string
	delta := 0
	flush := func() {
		delta = 0
		if cur != "" {
			overlay[filepath.Join(repo, cur)] = []byte(strings.Join(content, "\n"))
		}
	}
	i := 0
	for i < len(lines) {
		l := lines[i]
		switch {
		case strings.HasPrefix(l, "+++ "):
			flush()
			name := strings.TrimPrefix(l, "+++ ")
			name = strings.TrimPrefix(name, "b/")
			if name == "/dev/null" {
				cur = ""
				i++
				continue
			}
			cur = name
			src, err := os.ReadFile(filepath.Join(repo, cur))
			if err != nil {
				src = nil // new file
			}
			content = strings.Split(string(src), "\n")
			i++
		case strings.HasPrefix(l, "@@") && cur != "":
			// collect hunk
			var oldL, newL []string
			hunkStart := 1
			fmt.Sscanf(l, "@@ -%d", &hunkStart)
			i++
			for i < len(lines) && !strings.HasPrefix(lines[i], "@@") && !strings.HasPrefix(lines[i], "diff ") && !strings.HasPrefix(lines[i], "--- ") {
				h := lines[i]
				switch {
				case strings.HasPrefix(h, "+"):
					newL = append(newL, h[1:])
				case strings.HasPrefix(h, "-"):
					oldL = append(oldL, h[1:])
				case strings.HasPrefix(h, " "):
					oldL = append(oldL, h[1:])
					newL = append(newL, h[1:])
				case h == "":
					if i == len(lines)-1 {
						// trailing newline of the patch file
					} else {
						oldL = append(oldL, "")
						newL = append(newL, "")
					}
				case strings.HasPrefix(h, "\\"):
				}
				i++
			}
			// locate oldL in content: the match closest to the position named by the hunk header
			want := hunkStart - 1 + delta
			at, best := -1, 1<<30
			for p := 0; p+len(oldL) <= len(content); p++ {
				match := true
				for q := range oldL {
					if content[p+q] != oldL[q] {
						match = false
						break
					}
				}
				if match {
					d := p - want
					if d < 0 {
						d = -d
					}
					if d < best {
						at, best = p, d
					}
				}
			}
			if at < 0 || best > 200 {
				return nil, fmt.Errorf("hunk does not apply to %s", cur)
			}
			delta += len(newL) - len(oldL)
			content = append(append(append([]string{}, content[:at]...), newL...), content[at+len(oldL):]...)
		default:
			i++
		}
	}
	flush()
	if len(overlay) == 0 {
		return nil, fmt.Errorf("empty patch")
	}
	return overlay, nil
}
