// Command viewdump prints the expanded view (helpers and closures inlined) of a function; a development aid.
package main

import (
	"flag"
	"fmt"
	"go/ast"
	"go/format"
	"go/token"
	"go/types"
	"os"
	"reflect"
	"strings"

	"sialint/internal/ir"
)

func main() {
	repo := flag.String("repo", "/repo", "repository")
	fn := flag.String("func", "", "function display name, e.g. chain.(*Manager).AddBlocks")
	norm := flag.Bool("norm", false, "print the normalised body without expansion")
	stop := flag.String("stop", "", "comma-separated callee names kept as calls")
	defers := flag.Bool("defers", false, "make deferred calls explicit before every return")
	golits := flag.Bool("golits", false, "rewrite `go h(x)` into `go func(){ h(x) }()` and expand h there")
	all := flag.Bool("all", false, "expand every function and build its graph (smoke test)")
	check := flag.String("check", "", "print how the outcome of calls to this callee is tested (CheckOf)")
	flag.Parse()
	stops := map[string]bool{}
	for _, n := range strings.Split(*stop, ",") {
		stops[n] = true
	}
	opt := ir.ExpandOpt{Key: "dump", Defers: *defers, GoLits: *golits, Stop: func(fn *types.Func) bool { return stops[fn.Name()] }}
	p, err := ir.Load(*repo, nil)
	if err != nil {
		fmt.Fprintln(os.Stderr, err)
		os.Exit(2)
	}
	if *all {
		n, k := 0, 0
		for _, f := range p.Funcs {
			if f.Lit != nil {
				continue
			}
			v := p.Expand(f, opt)
			g := v.Graph()
			n++
			k += len(v.Inlined)
			_ = g
		}
		fmt.Println("expanded", n, "functions;", k, "inlinings")
		return
	}
	for _, f := range p.Funcs {
		if f.Name() != *fn {
			continue
		}
		v := f
		if !*norm {
			v = p.Expand(f, opt)
		}
		if *check != "" {
			for _, c := range v.Calls(true) {
				if c.Fn != nil && c.Fn.Name() == *check {
					chk := v.CheckOf(c.Expr)
					fmt.Printf("// CheckOf %s at %s: succ=%d fail=%d\n", *check, p.Pos(c.Pos()), len(chk.Succ), len(chk.Fail))
					if chk.Node != nil && chk.Node.AST != nil {
						fmt.Printf("//   node: %T %s..%s loose=%d propagated=%d\n", chk.Node.AST, p.Pos(chk.Node.AST.Pos()), p.Pos(chk.Node.AST.End()), len(chk.Loose), len(chk.Propagated))
					}
					for _, e := range chk.Succ {
						fmt.Printf("//   succ edge: %s [%s] from %s\n", e.Kind, ir.ExprString(e.Cond), p.Pos(e.From.Pos()))
					}
					for _, e := range chk.Fail {
						fmt.Printf("//   fail edge: %s [%s] from %s\n", e.Kind, ir.ExprString(e.Cond), p.Pos(e.From.Pos()))
					}
				}
			}
		}
		// strip positions so the printer lays the code out afresh
		stripPos(v.Body)
		var sb strings.Builder
		if err := format.Node(&sb, token.NewFileSet(), v.Body); err != nil {
			fmt.Fprintln(os.Stderr, err)
		}
		fmt.Println(sb.String())
		for _, o := range v.Inlined {
			fmt.Println("// inlined:", o.FullName())
		}
		_ = v.Graph()
		return
	}
	fmt.Fprintln(os.Stderr, "function not found")
	os.Exit(2)
}

var posType = reflect.TypeOf(token.NoPos)

func stripPos(n ast.Node) {
	ast.Inspect(n, func(m ast.Node) bool {
		if m == nil {
			return false
		}
		v := reflect.ValueOf(m)
		if v.Kind() != reflect.Ptr || v.IsNil() {
			return true
		}
		s := v.Elem()
		if s.Kind() != reflect.Struct {
			return true
		}
		for i := 0; i < s.NumField(); i++ {
			f := s.Field(i)
			if f.Type() == posType && f.CanSet() {
				f.SetInt(0)
			}
		}
		return true
	})
}
