package rules

import (
	"go/ast"
	"go/token"
	"go/types"

	"sialint/internal/cfgx"
	"sialint/internal/ir"
)

func init() {
	Explanations["C17"] = "Decides structural necessary conditions of backend agreement for the layered key-value stores in package chain and the Bolt adapter: (R1) every single-key read that consults a base layer (MemDB.buckets or the wrapped DBBucket.Get) does so only after an overlay miss and on the negative edge of an explicit membership test of the pending-deletes map, and every iterator ranges over both the base layer and the pending puts while guarding each base entry by the puts/dels tests; (R2) put removes the key from the pending deletes and delete removes it from the pending puts on every path; (R3) MemDB.Flush drains both overlays and MemDB.Cancel removes their entries (not just the per-bucket contents), CacheDB.Flush ends in the backend's Flush after clearing its overlay and leaves no entry in its field-held scratch lists at any exit, CacheDB.Cancel cancels both layers, and BoltChainDB.Flush/Cancel commit/roll back and reset the single open write transaction which every bucket access obtains through one helper. (R4) for every overlay map whose missing per-bucket entry lets a per-key operation return its bucket-does-not-exist error, MemDB.CreateBucket stores an entry on every path to a success return. (R5) CacheDB.CreateBucket calls the overlay's CreateBucket only via the success edge of the backend's. NOT decided: equality of results over arbitrary operation sequences (needs execution), bbolt's own semantics, iteration order."

	register(&Rule{ID: "C17.R1", Prop: "C17", Floor: 6,
		Doc: "layer agreement: base-layer reads only after overlay miss and on the negative edge of a pending-delete test; iterators range over base and pending puts and guard base entries",
		Run: c17r1})
	register(&Rule{ID: "C17.R2", Prop: "C17", Floor: 2,
		Doc: "exclusivity: a pending put removes the pending delete of the key and vice versa",
		Run: c17r2})
	register(&Rule{ID: "C17.R5", Prop: "C17", Floor: 1,
		Doc: "CacheDB.CreateBucket touches the overlay only on the success edge of the backend's CreateBucket",
		Run: c17r5})
	register(&Rule{ID: "C17.R4", Prop: "C17", Floor: 2,
		Doc: "a created bucket accepts every per-key operation: CreateBucket stores an entry in each overlay whose missing entry makes put/delete reject the bucket",
		Run: c17r4})
	register(&Rule{ID: "C17.R3", Prop: "C17", Floor: 7,
		Doc: "flush/cancel coverage for MemDB, CacheDB and BoltChainDB",
		Run: c17r3})
}

type kvFields struct{ buckets, puts, dels *types.Var }

// getKV finds the three layers of the in-memory store by what they are, not by name or by the struct that holds
// them: a struct of package chain with exactly two fields whose innermost maps hold byte strings and one whose
// innermost map holds nothing (the pending deletes) — MemDB itself, or a per-bucket record it keeps —; of the two
// byte-string layers the committed one is the one MemDB.Flush copies the other (the pending puts) into.
func getKV(p *ir.Prog) kvFields {
	inner := func(t types.Type) (bytesVal, emptyVal bool) {
		for {
			mt, ok := t.Underlying().(*types.Map)
			if !ok {
				return false, false
			}
			if b, ok := mt.Key().Underlying().(*types.Basic); !ok || b.Kind() != types.String {
				return false, false
			}
			switch e := mt.Elem().Underlying().(type) {
			case *types.Map:
				t = mt.Elem()
				continue
			case *types.Slice:
				if b, ok := e.Elem().Underlying().(*types.Basic); ok && b.Kind() == types.Byte {
					return true, false
				}
			case *types.Struct:
				if e.NumFields() == 0 {
					return false, true
				}
			}
			return false, false
		}
	}
	var kv kvFields
	var two []*types.Var
	scope := p.Package("chain").Types.Scope()
	for _, name := range scope.Names() {
		tn, ok := scope.Lookup(name).(*types.TypeName)
		if !ok {
			continue
		}
		st, ok := tn.Type().Underlying().(*types.Struct)
		if !ok {
			continue
		}
		var bs, es []*types.Var
		for i := 0; i < st.NumFields(); i++ {
			b, e := inner(st.Field(i).Type())
			if b {
				bs = append(bs, st.Field(i))
			}
			if e {
				es = append(es, st.Field(i))
			}
		}
		if len(bs) == 2 && len(es) == 1 {
			if two != nil {
				ir.Fail("two candidate layer structs for the in-memory store")
			}
			two, kv.dels = bs, es[0]
		}
	}
	if two == nil {
		ir.Fail("the in-memory store's three layers (two byte-string maps, one set of pending deletes) not found")
	}
	flush := p.Expand(p.Fn("chain", "MemDB", "Flush"), ir.ExpandOpt{Key: "kv"})
	ir.Walk(flush.Body, false, func(x ast.Node) {
		rs, ok := x.(*ast.RangeStmt)
		if !ok {
			return
		}
		src := lhsFieldA(flush, rs.X)
		if src != two[0] && src != two[1] {
			return
		}
		for _, w := range flush.WritesIn(rs.Body, false) {
			if ix, ok := ast.Unparen(w.LHS).(*ast.IndexExpr); ok {
				if dst := lhsFieldA(flush, ix.X); dst != src && (dst == two[0] || dst == two[1]) {
					kv.puts, kv.buckets = src, dst
				}
			}
		}
	})
	if kv.puts == nil {
		ir.Fail("MemDB.Flush does not copy one byte-string layer into the other")
	}
	// the rules below are stated over layers kept as maps of per-bucket maps (layer[bucket][key]); another
	// representation (one record per bucket holding the three maps) needs them restated, not guessed at
	for _, fld := range []*types.Var{kv.buckets, kv.puts, kv.dels} {
		outer, ok := fld.Type().Underlying().(*types.Map)
		if ok {
			_, ok = outer.Elem().Underlying().(*types.Map)
		}
		if !ok {
			ir.Fail("the in-memory store's layer %s is not a map of per-bucket maps; C17's rules are stated over that representation", fld.Name())
		}
	}
	return kv
}

// mapTests finds comma-ok lookups in maps whose innermost field is fld inside
// fn's graph and returns the edges on which the key was found / not found.
func mapTests(fn *ir.Func, fld *types.Var) (hit, miss []*cfgx.Edge) {
	g := fn.Graph()
	for _, n := range g.Nodes {
		as, ok := n.AST.(*ast.AssignStmt)
		if !ok || len(as.Lhs) != 2 || len(as.Rhs) != 1 {
			continue
		}
		ix, ok := ast.Unparen(as.Rhs[0]).(*ast.IndexExpr)
		if !ok || lhsFieldA(fn, ix.X) != fld {
			continue
		}
		okObj := fn.ObjOf(as.Lhs[1])
		if okObj == nil {
			continue
		}
		for _, m := range g.Nodes {
			if m.Block != nil && m.Block.Cond == m.AST && len(m.Succs) == 2 {
				if e, isExpr := m.AST.(ast.Expr); isExpr && fn.ObjOf(e) == okObj {
					hit = append(hit, m.Succs[0])
					miss = append(miss, m.Succs[1])
				}
			}
		}
	}
	return
}

// overlayMissEdges: edges on which the overlay lookup found nothing: a puts
// comma-ok miss, or the `== nil` side of a nil test on the result of an
// overlay Get (memBucket.Get / MemDB.get).
func overlayMissEdges(fn *ir.Func, kv kvFields, overlayGets []*types.Func) []*cfgx.Edge {
	_, miss := mapTests(fn, kv.puts)
	g := fn.Graph()
	for _, call := range fn.CallsTo(false, overlayGets...) {
		n := g.NodeContaining(call.Pos())
		if n == nil {
			continue
		}
		var obj types.Object
		for _, w := range fn.WritesIn(n.AST, false) {
			if w.RHS != nil && ast.Unparen(w.RHS) == ast.Expr(call.Expr) {
				obj = fn.ObjOf(w.LHS)
			}
		}
		if obj == nil {
			continue
		}
		for _, m := range g.Nodes {
			if m.Block == nil || m.Block.Cond != m.AST || len(m.Succs) != 2 {
				continue
			}
			if x, nonNilOnTrue, ok := fn.NilTest(m.AST.(ast.Expr)); ok && fn.ObjOf(x) == obj {
				if nonNilOnTrue {
					miss = append(miss, m.Succs[1])
				} else {
					miss = append(miss, m.Succs[0])
				}
			}
		}
	}
	return miss
}

func c17r1(c *Ctx) {
	kv := getKV(c.P)
	bucketGet := c.P.Method("chain", "DBBucket", "Get")
	bucketIter := c.P.Method("chain", "DBBucket", "Iter")
	mbT, cbT := memBucketType(c.P), cacheBucketType(c.P)
	memGet := c.P.Method("chain", mbT, "Get")
	memIter := c.P.Method("chain", mbT, "Iter")
	var dbget *types.Func
	if c.P.HasMethod("chain", "MemDB", "get") {
		dbget = c.P.Method("chain", "MemDB", "get")
	}
	overlayGets := []*types.Func{memGet, dbget}

	layered := []string{"MemDB", mbT, cbT}
	// helpers (predicates like "staged" / "deleted", a shared get) expanded into the methods that use them
	kvv := c.P.Views("chain", ir.ExpandOpt{Key: "kv"})
	for _, tn := range layered {
		for _, raw := range c.P.MethodsOf("chain", tn) {
			if kvv.Absorbed[raw] {
				continue
			}
			f := kvv.Of(raw)
			isIter := false
			if f.Type.Results != nil && len(f.Type.Results.List) == 1 {
				if _, ok := f.Info().TypeOf(f.Type.Results.List[0].Type).Underlying().(*types.Signature); ok {
					isIter = true
				}
			}
			if isIter {
				c17iter(c, f, kv, bucketIter, memIter)
				continue
			}
			// single-key reads: functions returning []byte
			if f.Type.Results == nil || len(f.Type.Results.List) != 1 {
				continue
			}
			if sl, ok := f.Info().TypeOf(f.Type.Results.List[0].Type).(*types.Slice); !ok || !isByte(sl.Elem()) {
				continue
			}
			g := f.Graph()
			// base reads
			var sites []*cfgx.Node
			var what []string
			for _, n := range g.Nodes {
				if n.AST == nil {
					continue
				}
				ir.Walk(n.AST, false, func(x ast.Node) {
					switch e := x.(type) {
					case *ast.IndexExpr:
						if inner, ok := ast.Unparen(e.X).(*ast.IndexExpr); ok && lhsFieldA(f, inner.X) == kv.buckets {
							sites = append(sites, n)
							what = append(what, "MemDB.buckets")
						}
					case *ast.CallExpr:
						if f.Callee(e) == bucketGet.Origin() && tn == cbT {
							sites = append(sites, n)
							what = append(what, "backend DBBucket.Get")
						}
					}
				})
			}
			if len(sites) == 0 {
				continue
			}
			c.VisitGraph(f)
			_, delMiss := mapTests(f, kv.dels)
			ovMiss := overlayMissEdges(f, kv, overlayGets)
			for i, n := range sites {
				ob := c.Ob(f, "base-read-after-dels-miss", n.Pos())
				// (a hit in the pending puts is as good as a miss in the pending deletes: R2 keeps the two disjoint)
				putsHit, _ := mapTests(f, kv.puts)
				ob.Check(f.OnlyVia(n, append(append([]*cfgx.Edge{}, delMiss...), putsHit...)), nil,
					"%s is read at %s on a path that never tested the pending-deletes map: a key deleted since the last flush is still returned", what[i], c.P.Pos(n.Pos()))
				ob2 := c.Ob(f, "base-read-after-overlay-miss", n.Pos())
				ob2.Check(f.OnlyVia(n, ovMiss), nil,
					"%s is read at %s on a path that did not first miss in the pending puts: an unflushed write is shadowed by the old value", what[i], c.P.Pos(n.Pos()))
			}
		}
	}
}

func isByte(t types.Type) bool {
	b, ok := t.Underlying().(*types.Basic)
	return ok && b.Kind() == types.Uint8
}

func c17iter(c *Ctx, f *ir.Func, kv kvFields, bucketIter, memIter *types.Func) {
	// the iterator body is the (single) literal returned — or the method whose value is returned (`return b.iterate`)
	var bodies []*ir.Func
	for _, lit := range f.Lits {
		if lit.Parent == f {
			bodies = append(bodies, lit)
		}
	}
	if len(bodies) == 0 {
		ir.Walk(f.Body, false, func(x ast.Node) {
			rs, ok := x.(*ast.ReturnStmt)
			if !ok || len(rs.Results) != 1 {
				return
			}
			if sel, isSel := ast.Unparen(rs.Results[0]).(*ast.SelectorExpr); isSel {
				if fn, isFn := f.Info().Uses[sel.Sel].(*types.Func); isFn {
					if mf := c.P.FuncOf(fn.Origin()); mf != nil {
						bodies = append(bodies, c.P.Views("chain", ir.ExpandOpt{Key: "kv"}).Of(mf))
					}
				}
			}
		})
	}
	for _, lit := range bodies {
		// yield parameter
		var yield types.Object
		for _, fld := range lit.Type.Params.List {
			if _, ok := lit.Info().TypeOf(fld.Type).Underlying().(*types.Signature); ok {
				for _, nm := range fld.Names {
					yield = lit.Info().Defs[nm]
				}
			}
		}
		if yield == nil {
			continue
		}
		g := lit.Graph()
		c.VisitGraph(lit)
		hitPuts, missPuts := mapTests(lit, kv.puts)
		_, missDels := mapTests(lit, kv.dels)
		baseLoops, overlayLoops := 0, 0
		for _, n := range g.Nodes {
			rs, ok := n.AST.(*ast.RangeStmt)
			if !ok {
				continue
			}
			kind := ""
			x := ast.Unparen(rs.X)
			if ix, ok := x.(*ast.IndexExpr); ok {
				switch lhsFieldA(lit, ix.X) {
				case kv.buckets:
					kind = "base"
				case kv.puts:
					kind = "overlay"
				}
			}
			if call, ok := x.(*ast.CallExpr); ok {
				switch lit.Callee(call) {
				case bucketIter.Origin():
					kind = "base"
				case memIter.Origin():
					kind = "overlay"
				}
			}
			switch kind {
			case "overlay":
				overlayLoops++
			case "base":
				baseLoops++
				// yields inside this loop
				var body *cfgx.Edge
				for _, e := range n.Succs {
					if e.Kind == cfgx.Br0 {
						body = e
					}
				}
				for _, m := range g.Nodes {
					if m.AST == nil || !containsNode(rs.Body, m.AST) {
						continue
					}
					for _, call := range lit.NodeCalls(m) {
						if lit.ObjOf(call.Expr.Fun) != yield {
							continue
						}
						cut := map[*cfgx.Edge]bool{}
						for _, e := range append(append([]*cfgx.Edge{}, hitPuts...), missDels...) {
							cut[e] = true
						}
						ob := c.Ob(f, "base-entry-guarded-by-dels", call.Pos())
						reached := reachAvoidingEdges(g, body, m, n, cut)
						ob.Check(!reached, nil, "a base-layer entry is yielded at %s on a path that neither found it in the pending puts nor missed it in the pending deletes", c.P.Pos(call.Pos()))
						cut2 := map[*cfgx.Edge]bool{}
						for _, e := range append(append([]*cfgx.Edge{}, hitPuts...), missPuts...) {
							cut2[e] = true
						}
						ob2 := c.Ob(f, "base-entry-guarded-by-puts", call.Pos())
						reached2 := reachAvoidingEdges(g, body, m, n, cut2)
						ob2.Check(!reached2, nil, "a base-layer entry is yielded at %s without consulting the pending puts: a stale value is yielded (or the key is yielded twice)", c.P.Pos(call.Pos()))
					}
				}
			}
		}
		ob := c.Ob(f, "iterates-base-and-pending-puts", lit.Body.Pos())
		switch {
		case baseLoops == 0 && rangesOverFuncValue(lit):
			ob.Unknown("the iterator is assembled from function values (adapters over sequences); its loops and their guards are not visible to this rule")
		case baseLoops == 0:
			ob.Bad(nil, "iterator does not range over a base layer")
		case overlayLoops == 0:
			ob.Bad(nil, "iterator ranges over the base layer only: keys put since the last flush are never yielded")
		default:
			ob.OK("%d base loop(s), %d overlay loop(s)", baseLoops, overlayLoops)
		}
	}
}

// rangesOverFuncValue: some loop of f ranges over a variable of function type (an iterator built elsewhere).
func rangesOverFuncValue(f *ir.Func) bool {
	found := false
	ir.Walk(f.Body, true, func(x ast.Node) {
		if rs, ok := x.(*ast.RangeStmt); ok {
			if id, isID := ast.Unparen(rs.X).(*ast.Ident); isID {
				if t := f.TypeOf(id); t != nil {
					if _, isFn := t.Underlying().(*types.Signature); isFn {
						found = true
					}
				}
			}
		}
	})
	return found
}

// reachAvoidingEdges reports whether target is reachable from the target of
// edge start without crossing cut edges or re-entering node stop.
func reachAvoidingEdges(g *cfgx.Graph, start *cfgx.Edge, target, stop *cfgx.Node, cut map[*cfgx.Edge]bool) bool {
	if start == nil {
		return true
	}
	vs := g.Explore([]*cfgx.Visit{cfgx.StartAfter(start, 0)}, cfgx.Walker{
		AtNode: func(n *cfgx.Node, s cfgx.State) (cfgx.State, bool) { return s, n != stop },
		OnEdge: func(e *cfgx.Edge, s cfgx.State) (cfgx.State, bool) { return s, !cut[e] },
	})
	for _, v := range vs {
		if v.Node == target {
			return true
		}
	}
	return false
}

func c17r2(c *Ctx) {
	kv := getKV(c.P)
	kvv := c.P.Views("chain", ir.ExpandOpt{Key: "kv"})
	for _, raw := range c.P.PkgFuncs("chain") { // (the stores may be methods of the database or of its bucket type)
		if raw.Obj.Type().(*types.Signature).Recv() == nil || kvv.Absorbed[raw] {
			continue
		}
		f := kvv.Of(raw)
		g := f.Graph()
		for _, pair := range []struct {
			store, other *types.Var
			role         string
		}{{kv.puts, kv.dels, "put-clears-pending-delete"}, {kv.dels, kv.puts, "delete-clears-pending-put"}} {
			// a two-level store m.fld[b][k] = v
			var stores []*cfgx.Node
			for _, n := range g.Nodes {
				if n.AST == nil {
					continue
				}
				for _, w := range f.WritesIn(n.AST, false) {
					if ix, ok := ast.Unparen(w.LHS).(*ast.IndexExpr); ok {
						// (the per-bucket map may have been fetched into a local first: `puts[k] = v`)
						if mt, isMap := f.TypeOf(ix.X).Underlying().(*types.Map); isMap {
							if _, nested := mt.Elem().Underlying().(*types.Map); !nested && lhsFieldA(f, ix.X) == pair.store {
								stores = append(stores, n)
							}
						}
					}
				}
			}
			if len(stores) == 0 {
				continue
			}
			c.VisitGraph(f)
			isDel := func(n *cfgx.Node) bool {
				for _, call := range f.NodeCalls(n) {
					if id, ok := call.Expr.Fun.(*ast.Ident); ok && len(call.Expr.Args) == 2 {
						if b, ok := f.Info().Uses[id].(*types.Builtin); ok && b.Name() == "delete" && lhsFieldA(f, call.Expr.Args[0]) == pair.other {
							return true
						}
					}
				}
				return false
			}
			for _, st := range stores {
				ob := c.Ob(f, pair.role, st.Pos())
				// either a delete dominates the store, or every path from the store to the exit passes one
				dominated := false
				for _, n := range g.Nodes {
					if isDel(n) && g.DominatedByNode(st, n) && n != st {
						dominated = true
					}
				}
				if dominated {
					ob.OK("removal precedes the store on every path")
					continue
				}
				var start []*cfgx.Visit
				for _, e := range st.Succs {
					start = append(start, cfgx.StartAfter(e, 0))
				}
				r := g.Reach(start, isDel)
				if v, bad := r[g.Exit]; bad {
					ob.Bad(c.Witness(v), "the key stays in MemDB.%s after being written to MemDB.%s: reads and flush order then disagree about which one wins", pair.other.Name(), pair.store.Name())
				} else {
					ob.OK("every path from the store to the exit removes the key from the other overlay")
				}
			}
		}
	}
}

func c17r3(c *Ctx) {
	kv := getKV(c.P)
	dbFlush := c.P.Method("chain", "DB", "Flush")
	dbCancel := c.P.Method("chain", "DB", "Cancel")
	// helpers (also generic ones, and literals handed to them) expanded
	kvv := c.P.Views("chain", ir.ExpandOpt{Key: "kv"})

	rangesOver := func(f *ir.Func, fld *types.Var) bool {
		found := false
		ir.Walk(f.Body, false, func(n ast.Node) {
			if rs, ok := n.(*ast.RangeStmt); ok && lhsFieldA(f, rs.X) == fld {
				found = true
			}
			if call, ok := n.(*ast.CallExpr); ok {
				if id, ok := call.Fun.(*ast.Ident); ok && len(call.Args) == 1 {
					if b, ok := f.Info().Uses[id].(*types.Builtin); ok && b.Name() == "clear" && lhsFieldA(f, call.Args[0]) == fld {
						found = true
					}
				}
			}
		})
		return found
	}
	// MemDB
	mf := kvv.Of(c.P.Fn("chain", "MemDB", "Flush"))
	for _, fld := range []*types.Var{kv.puts, kv.dels} {
		ob := c.Ob(mf, "drains:"+fld.Name(), mf.Body.Pos())
		ob.Check(rangesOver(mf, fld) && mf.MentionsField(mf.Body, false, kv.buckets), nil, "MemDB.Flush does not drain MemDB.%s into the committed buckets", fld.Name())
	}
	mc := kvv.Of(c.P.Fn("chain", "MemDB", "Cancel"))
	// a bucket created since the last flush exists only as an entry of the two overlay maps, so Cancel has to drop
	// the entries themselves (delete / clear of the outer map, or a fresh map), not just empty the per-bucket maps
	discards := func(f *ir.Func, fld *types.Var) bool {
		found := false
		ir.Walk(f.Body, false, func(n ast.Node) {
			if call, ok := n.(*ast.CallExpr); ok {
				if id, ok := call.Fun.(*ast.Ident); ok {
					if b, ok := f.Info().Uses[id].(*types.Builtin); ok {
						switch {
						case b.Name() == "delete" && len(call.Args) == 2 && lhsFieldA(f, call.Args[0]) == fld:
							// every entry: the key walks this very map (a loop over the *other* overlay's keys misses
							// the buckets that only this one has an entry for)
							ir.Walk(f.Body, false, func(m ast.Node) {
								if rs, isRange := m.(*ast.RangeStmt); isRange && rs.Key != nil && containsNode(rs.Body, call) &&
									lhsFieldA(f, rs.X) == fld && f.ObjOf(rs.Key) != nil && f.ObjOf(rs.Key) == f.ObjOf(ast.Unparen(call.Args[1])) {
									found = true
								}
							})
						case b.Name() == "clear" && len(call.Args) == 1 && lhsFieldA(f, call.Args[0]) == fld:
							found = true
						}
					}
				}
			}
		})
		for _, w := range f.WritesIn(f.Body, false) {
			if lhsFieldA(f, w.LHS) == fld && w.RHS != nil {
				if _, isIdx := ast.Unparen(w.LHS).(*ast.IndexExpr); !isIdx {
					found = true
				}
			}
		}
		return found
	}
	for _, fld := range []*types.Var{kv.puts, kv.dels} {
		ob := c.Ob(mc, "clears:"+fld.Name(), mc.Body.Pos())
		ob.Check(discards(mc, fld), nil, "MemDB.Cancel does not remove the entries of MemDB.%s (emptying the per-bucket maps keeps buckets created since the last flush alive, and the next flush makes them durable)", fld.Name())
	}
	c.VisitGraph(mf)
	c.VisitGraph(mc)

	// CacheDB.Flush: every success-capable return is/passes backend Flush; overlay cleared before
	cf := kvv.Of(c.P.Fn("chain", "CacheDB", "Flush"))
	c.VisitGraph(cf)
	{
		g := cf.Graph()
		ob := c.Ob(cf, "ends-in-backend-flush", cf.Body.Pos())
		bad := false
		isBackendFlush := func(n *cfgx.Node) bool { _, ok := cf.NodeCallsTo(n, dbFlush); return ok }
		r := g.Reach([]*cfgx.Visit{cfgx.StartAt(g.Entry, 0)}, isBackendFlush)
		for _, ret := range g.Returns() {
			if isBackendFlush(ret) {
				continue
			}
			if v, ok := r[ret]; ok && cf.ClassifyReturn(ret) != ir.RetError {
				ob.Bad(c.Witness(v), "CacheDB.Flush can return success at %s without calling the backend's Flush: cached writes are acknowledged but not durable", c.P.Pos(ret.Pos()))
				bad = true
			}
		}
		if !bad {
			ob.OK("every non-error return passes DB.Flush of the wrapped database")
		}
		for _, fld := range []*types.Var{kv.puts, kv.dels} {
			ob := c.Ob(cf, "forwards-and-clears:"+fld.Name(), cf.Body.Pos())
			// ranged at least twice: once to forward, once to clear (or clear() call)
			n := 0
			ir.Walk(cf.Body, false, func(x ast.Node) {
				if rs, ok := x.(*ast.RangeStmt); ok && lhsFieldA(cf, rs.X) == fld {
					n++
				}
			})
			ob.Check(n >= 2, nil, "CacheDB.Flush ranges over the overlay's %s %d time(s); forwarding to the backend and clearing need one each", fld.Name(), n)
		}
		// scratch lists kept in a field between calls (the per-bucket sort buffers) are empty again at every exit:
		// what one pass (or one flush) leaves behind is otherwise replayed by the next
		cacheT := c.P.Named("chain", "CacheDB").Underlying().(*types.Struct)
		for i := 0; i < cacheT.NumFields(); i++ {
			fld := cacheT.Field(i)
			mt, ok := fld.Type().Underlying().(*types.Map)
			if !ok {
				continue
			}
			if _, isSlice := mt.Elem().Underlying().(*types.Slice); !isSlice {
				continue
			}
			var fills []*cfgx.Node
			resets := map[*cfgx.Node]bool{}
			for _, n := range g.Nodes {
				if n.AST == nil {
					continue
				}
				if rs, isRange := n.AST.(*ast.RangeStmt); isRange {
					if lhsFieldA(cf, rs.X) != fld {
						continue
					}
					for _, w := range cf.WritesIn(rs.Body, false) {
						ix, isIdx := ast.Unparen(w.LHS).(*ast.IndexExpr)
						if !isIdx || lhsFieldA(cf, ix.X) != fld || w.RHS == nil {
							continue
						}
						if se, isSl := ast.Unparen(w.RHS).(*ast.SliceExpr); (isSl && se.High != nil && isZero(cf, se.High)) || cf.IsNil(w.RHS) {
							resets[n] = true
						}
					}
					continue
				}
				for _, w := range cf.WritesIn(n.AST, false) {
					ix, isIdx := ast.Unparen(w.LHS).(*ast.IndexExpr)
					if !isIdx || lhsFieldA(cf, ix.X) != fld || w.RHS == nil || cf.IsNil(w.RHS) {
						continue
					}
					if se, isSl := ast.Unparen(w.RHS).(*ast.SliceExpr); isSl && se.High != nil && isZero(cf, se.High) {
						continue
					}
					fills = append(fills, n)
				}
			}
			if len(fills) == 0 {
				continue
			}
			ob := c.Ob(cf, "scratch-emptied-before-return:"+fld.Name(), cf.Body.Pos())
			var st []*cfgx.Visit
			for _, n := range fills {
				for _, e := range n.Succs {
					st = append(st, cfgx.StartAfter(e, 0))
				}
			}
			v, leaks := g.Reach(st, func(n *cfgx.Node) bool { return resets[n] })[g.Exit]
			var w []string
			if leaks {
				w = c.Witness(v)
			}
			ob.Check(!leaks, w, "CacheDB.Flush can return with entries left in the scratch lists CacheDB.%s: the next pass or the next flush replays them (a deleted key comes back as an empty value)", fld.Name())
		}
		put := c.P.Method("chain", "DBBucket", "Put")
		del := c.P.Method("chain", "DBBucket", "Delete")
		ob2 := c.Ob(cf, "forwards-puts-and-deletes", cf.Body.Pos())
		ob2.Check(len(cf.CallsTo(true, put)) > 0 && len(cf.CallsTo(true, del)) > 0, nil, "CacheDB.Flush must forward both puts and deletes to the backend buckets")
	}
	// CacheDB.Cancel cancels both layers
	cc := c.P.Fn("chain", "CacheDB", "Cancel")
	c.VisitGraph(cc)
	{
		ob := c.Ob(cc, "cancels-both-layers", cc.Body.Pos())
		memCancel := c.P.Method("chain", "MemDB", "Cancel")
		ob.Check(len(cc.CallsTo(false, memCancel)) > 0 && len(cc.CallsTo(false, dbCancel)) > 0, nil, "CacheDB.Cancel must cancel the overlay and the wrapped database")
	}
	// BoltChainDB
	txField := c.P.FieldOr("coreutils", "BoltChainDB", "tx", func(t types.Type) bool { return ir.IsNamed(t, "go.etcd.io/bbolt", "Tx") })
	for _, spec := range []struct{ name, txMethod string }{{"Flush", "Commit"}, {"Cancel", "Rollback"}} {
		f := c.P.Fn("coreutils", "BoltChainDB", spec.name)
		g := f.Graph()
		c.VisitGraph(f)
		ob := c.Ob(f, "tx-"+spec.txMethod+"-then-reset", f.Body.Pos())
		var callNode, resetNode *cfgx.Node
		for _, n := range g.Nodes {
			for _, call := range f.NodeCalls(n) {
				if call.Fn != nil && call.Fn.Name() == spec.txMethod && call.Fn.Pkg() != nil && call.Fn.Pkg().Path() == "go.etcd.io/bbolt" {
					if rcv := call.Recv(); rcv != nil && f.FieldOf(rcv) == txField {
						callNode = n
					}
				}
			}
			if isNilAssign(f, n, txField) {
				resetNode = n
			}
		}
		switch {
		case callNode == nil:
			ob.Bad(nil, "BoltChainDB.%s does not call tx.%s", spec.name, spec.txMethod)
		case resetNode == nil:
			ob.Bad(nil, "BoltChainDB.%s does not reset tx to nil: later writes go to a finished transaction", spec.name)
		default:
			// every path from the call to the exit passes the reset
			var st []*cfgx.Visit
			for _, e := range callNode.Succs {
				st = append(st, cfgx.StartAfter(e, 0))
			}
			r := g.Reach(st, func(n *cfgx.Node) bool { return n == resetNode })
			if v, bad := r[g.Exit]; bad {
				ob.Bad(c.Witness(v), "a path from tx.%s to the exit skips tx = nil", spec.txMethod)
			} else {
				ob.OK("tx.%s at %s is followed by tx = nil on every path", spec.txMethod, c.P.Pos(callNode.Pos()))
			}
		}
	}
	// who may begin a transaction / read db.tx
	{
		var f0 *ir.Func
		begins := 0
		for _, f := range c.P.MethodsOf("coreutils", "BoltChainDB") {
			for _, call := range f.Calls(true) {
				if call.Fn != nil && call.Fn.Name() == "Begin" && call.Fn.Pkg() != nil && call.Fn.Pkg().Path() == "go.etcd.io/bbolt" {
					begins++
					f0 = f
				}
			}
		}
		ob := c.Ob(f0, "single-begin-site", 0)
		if begins != 1 || f0 == nil {
			ob.Bad(nil, "expected exactly one bbolt Begin site (one open write transaction), found %d", begins)
		} else {
			ob.Pos = c.P.Pos(f0.Body.Pos())
			// Begin only when tx == nil
			okGuard := false
			g := f0.Graph()
			for _, call := range f0.Calls(false) {
				if call.Fn != nil && call.Fn.Name() == "Begin" {
					n := g.NodeContaining(call.Pos())
					okGuard = dominatedByEdgeWhere(f0, n, func(e *cfgx.Edge) bool {
						if e.Cond == nil {
							return false
						}
						x, nonNilOnTrue, ok := f0.NilTest(e.Cond)
						return ok && f0.FieldOf(x) == txField && ((e.Kind == cfgx.True) != nonNilOnTrue)
					})
				}
			}
			ob.Check(okGuard, nil, "bbolt Begin is not guarded by tx == nil: a second write transaction would deadlock or split one session into two")
			// every other method that uses db.tx calls the begin helper first
			for _, f := range c.P.MethodsOf("coreutils", "BoltChainDB") {
				if f == f0 || f.Obj.Name() == "Flush" || f.Obj.Name() == "Cancel" {
					continue
				}
				if !f.MentionsField(f.Body, true, txField) {
					continue
				}
				ob := c.Ob(f, "tx-obtained-through-helper", f.Body.Pos())
				gg := f.Graph()
				var uses []*cfgx.Node
				for _, n := range gg.Nodes {
					if n.AST != nil && f.MentionsField(n.AST, false, txField) {
						uses = append(uses, n)
					}
				}
				good := true
				for _, u := range uses {
					dom := false
					for _, call := range f.CallsTo(false, f0.Obj) {
						if hn := gg.NodeContaining(call.Pos()); hn != nil && hn != u && gg.DominatedByNode(u, hn) {
							dom = true
						}
					}
					if !dom {
						good = false
					}
				}
				ob.Check(good, nil, "BoltChainDB.%s uses db.tx without first obtaining it through %s", f.Obj.Name(), f0.Obj.Name())
			}
		}
	}
}

func isZero(f *ir.Func, e ast.Expr) bool {
	v, ok := f.ConstInt(e)
	return ok && v == 0
}

// c17r4: a bucket that exists accepts puts and deletes alike. A per-key operation of the in-memory store rejects a
// bucket ("does not exist") only where the overlay map it is about to write has no entry for the bucket and the
// bucket is not committed either; a bucket created since the last flush exists *only* as such overlay entries. So
// for every overlay whose missing entry lets an operation fail, the bucket constructor stores an entry on every
// path to its success return — otherwise deletes (or puts) fail in a fresh bucket on the in-memory store and on
// every CacheDB (whose overlay never has committed buckets), while the Bolt store accepts them.
func c17r4(c *Ctx) {
	kv := getKV(c.P)
	kvv := c.P.Views("chain", ir.ExpandOpt{Key: "kv"})
	type need struct {
		by *ir.Func
		at token.Pos
	}
	needs := map[*types.Var]need{}
	// (the operations live on the store or on its bucket handle)
	for _, raw := range append(c.P.MethodsOf("chain", "MemDB"), c.P.MethodsOf("chain", memBucketType(c.P))...) {
		m := kvv.Of(raw)
		if m == nil || m.Type.Results == nil {
			continue
		}
		g := m.Graph()
		for _, fld := range []*types.Var{kv.puts, kv.dels} {
			var nilEdges []*cfgx.Edge
			for _, n := range g.Nodes {
				if n.Block == nil || n.Block.Cond != n.AST || len(n.Succs) != 2 {
					continue
				}
				x, nonNilOnTrue, ok := m.NilTest(n.AST.(ast.Expr))
				if !ok {
					continue
				}
				ix, isIx := ast.Unparen(x).(*ast.IndexExpr)
				if !isIx || lhsFieldA(m, ix.X) != fld {
					continue
				}
				if nonNilOnTrue {
					nilEdges = append(nilEdges, n.Succs[1])
				} else {
					nilEdges = append(nilEdges, n.Succs[0])
				}
			}
			if len(nilEdges) == 0 {
				continue
			}
			for _, r := range g.Returns() {
				if _, isRet := r.AST.(*ast.ReturnStmt); !isRet || m.ClassifyReturn(r) != ir.RetError {
					continue
				}
				if m.OnlyVia(r, nilEdges) {
					if _, have := needs[fld]; !have {
						needs[fld] = need{m, r.Pos()}
					}
				}
			}
		}
	}
	create := kvv.Of(c.P.Fn("chain", "MemDB", "CreateBucket"))
	g := create.Graph()
	c.VisitGraph(create)
	for _, fld := range []*types.Var{kv.puts, kv.dels} {
		nd, ok := needs[fld]
		if !ok {
			continue
		}
		c.VisitGraph(nd.by)
		ob := c.Ob(create, "created-bucket-accepts:"+fld.Name(), create.Body.Pos())
		stores := func(n *cfgx.Node) bool {
			if n.AST == nil {
				return false
			}
			for _, w := range create.WritesIn(n.AST, false) {
				if ix, ok := ast.Unparen(w.LHS).(*ast.IndexExpr); ok && lhsFieldA(create, ix.X) == fld && w.RHS != nil && !isNilExpr(create, w.RHS) {
					return true
				}
			}
			return false
		}
		reach := g.Reach([]*cfgx.Visit{cfgx.StartAt(g.Entry, 0)}, stores)
		bad := false
		for _, r := range g.Returns() {
			if _, isRet := r.AST.(*ast.ReturnStmt); !isRet || create.ClassifyReturn(r) == ir.RetError {
				continue
			}
			if v, leak := reach[r]; leak {
				ob.Bad(c.Witness(v), "%s rejects a bucket without an entry in MemDB.%s (error return at %s), but CreateBucket can succeed at %s without storing one: that operation fails in a bucket created since the last flush — always on a CacheDB — while the other backends accept it", nd.by.Name(), fld.Name(), c.P.Pos(nd.at), c.P.Pos(r.Pos()))
				bad = true
				break
			}
		}
		if !bad {
			ob.OK("every success return of CreateBucket follows a store into MemDB.%s", fld.Name())
		}
	}
}

func isNilExpr(f *ir.Func, e ast.Expr) bool {
	id, ok := ast.Unparen(e).(*ast.Ident)
	if !ok {
		return false
	}
	_, isNil := f.ObjOf(id).(*types.Nil)
	return isNil
}

// c17r5: creating a bucket on the caching wrapper asks the backend first. The overlay's CreateBucket never fails and
// installs fresh, empty pending maps; running it before the backend's (which rejects an existing bucket) wipes the
// bucket's unflushed puts and deletes on a duplicate create while still returning the backend's error. The overlay is
// touched only on the success edge of the backend call.
func c17r5(c *Ctx) {
	kvv := c.P.Views("chain", ir.ExpandOpt{Key: "kv"})
	raw := c.P.Fn("chain", "CacheDB", "CreateBucket")
	f := kvv.Of(raw)
	if f == nil {
		f = raw
	}
	g := f.Graph()
	c.VisitGraph(f)
	ob := c.Ob(f, "backend-create-before-overlay", f.Body.Pos())
	dbCreate := c.P.Method("chain", "DB", "CreateBucket")
	memCreate := c.P.Method("chain", "MemDB", "CreateBucket")
	var succ []*cfgx.Edge
	for _, call := range f.CallsTo(false, dbCreate) {
		succ = append(succ, f.CheckOf(call.Expr).Succ...)
	}
	overlay := f.CallsTo(false, memCreate)
	if len(succ) == 0 || len(overlay) == 0 {
		ob.Unknown("CacheDB.CreateBucket does not call the backend's and the overlay's CreateBucket with the backend's result tested")
		return
	}
	for _, oc := range overlay {
		if n := g.NodeContaining(oc.Pos()); n == nil || !f.OnlyVia(n, succ) {
			ob.Bad(nil, "the overlay's CreateBucket at %s runs before (or regardless of) the backend's: creating a bucket that already exists fails, but has by then replaced the bucket's pending puts and deletes with empty maps — unflushed writes are lost on the caching backend only", c.P.Pos(oc.Pos()))
			return
		}
	}
	ob.OK("the overlay is touched only after the backend accepted the bucket")
}
