package rules

import (
	"go/ast"
	"go/token"
	"go/types"
	"sort"
	"strings"

	"sialint/internal/cfgx"
	"sialint/internal/ir"
)

func init() {
	Explanations["C11"] = "Decides structural necessary conditions of 'a Byzantine peer cannot corrupt or crash an honest syncer' in package syncer: (R1) the pre-validated entry ChainManager.AddValidatedV2Blocks is called only on the true edge of the require-height predicate that the fetching worker also branches on; in that worker every state appended to the response was produced by consensus.ApplyBlock directly after consensus.ValidateBlock succeeded for the same block and state variable, the starting state is the result of SendCheckpoint advanced over the checkpoint block, and every exit reachable from a failed validation returns a response without blocks; (R2) SendCheckpoint can return a nil error only through the passing sides of the three checkpoint checks (v2 block with one payout, id equals the requested id, commitment equals State.Commitment(...)), SendHeaders only after every header passed ValidateHeader against the running state, and below the require height blocks are kept only after the per-block id comparison with the validated headers; (R3) in the header/outline relay handlers relaying and AddBlocks lie behind the work test and the attach test; (R4) the two RPC dispatch functions (syncer and rhp server) register a recover before dispatching; (R5) each of the seven provable-misbehaviour edges reaches the ban function, which itself cannot return success without reporting the peer to the peer store. (R6) every positional access X[c] / X[len(X)-k] of a slice in package syncer (one obligation per list and function) is reached only through the adequate side of a test of len(X), so a short or empty list from a peer cannot make an index go out of range in code that runs without a recover. (R7) the structural part of 'does not stall' that static pairing can decide: every per-peer slot and every per-subnet slot taken for an inbound RPC is given back on every path, including the paths that reject the RPC (same checks as C18.R1/R2) — a leaked slot makes the peer loop block forever on its own semaphore, so the node stops reading from an honest peer. (R8) the rollback check of C01.R3 (a failed gated reorg is followed by a reorg back to the tip saved before it). NOT decided: liveness (still syncs, no stall), goroutines without recover (sync workers), soundness of core's validation."

	register(&Rule{ID: "C11.R1", Prop: "C11", Floor: 4, Doc: "the pre-validated entry is fenced: same predicate in worker and finisher, states only after ValidateBlock, checkpoint-derived start", Run: c11r1})
	register(&Rule{ID: "C11.R2", Prop: "C11", Floor: 5, Doc: "checkpoint, header and block-id checks guard every success exit of the fetch helpers", Run: c11r2})
	register(&Rule{ID: "C11.R3", Prop: "C11", Floor: 3, Doc: "relay handlers act only after the work and attach tests", Run: c11r3})
	register(&Rule{ID: "C11.R4", Prop: "C11", Floor: 2, Doc: "RPC dispatchers recover from handler panics", Run: c11r4})
	register(&Rule{ID: "C11.R8", Prop: "C11", Floor: 2, Doc: "a peer's heavier fork that turns out invalid part-way leaves the node on its own chain: the failed reorg is rolled back to the tip saved before it (same check as C01.R3)", Run: c01r3})
	register(&Rule{ID: "C11.R7", Prop: "C11", Floor: 1, Doc: "a rejected or finished inbound RPC gives its per-peer and per-subnet slots back, so a peer loop never stops reading (same checks as C18.R1/R2)", Run: func(c *Ctx) { c18r1(c); c18r2(c) }})
	register(&Rule{ID: "C11.R6", Prop: "C11", Floor: 3, Doc: "first/last-element accesses of (peer-supplied) lists only after a test of the list's length", Run: c11r6})
	register(&Rule{ID: "C11.R5", Prop: "C11", Floor: 8, Doc: "provable misbehaviour reaches ban, and ban reports to the peer store", Run: c11r5})
}

func mentionsText(e ast.Node, sub string) bool {
	found := false
	ast.Inspect(e, func(n ast.Node) bool {
		if x, ok := n.(ast.Expr); ok && strings.Contains(ir.ExprString(x), sub) {
			found = true
		}
		return !found
	})
	return found
}

// mentionsTextDeep is mentionsText looking through local variables with a single definition.
func mentionsTextDeep(f *ir.Func, e ast.Node, sub string) bool {
	if mentionsText(e, sub) {
		return true
	}
	found := false
	ast.Inspect(e, func(n ast.Node) bool {
		if id, ok := n.(*ast.Ident); ok && !found {
			if o := origin(f, id); o != ast.Expr(id) && mentionsText(o, sub) {
				found = true
			}
		}
		return !found
	})
	return found
}

// rhCond is a leaf condition that decides `<x>.Height >= <…>.RequireHeight`,
// however it is spelled (>=, <, operands swapped): ge / lt are the edges on
// which the relation holds / does not hold.
type rhCond struct {
	node   *cfgx.Node
	x, y   ast.Expr // the Height operand and the RequireHeight operand
	ge, lt *cfgx.Edge
}

// requireHeightConds finds the require-height tests of fn.
func requireHeightConds(fn *ir.Func) []rhCond {
	var out []rhCond
	isSel := func(e ast.Expr, name string) bool {
		sel, ok := ast.Unparen(e).(*ast.SelectorExpr)
		return ok && sel.Sel.Name == name
	}
	for _, n := range fn.Graph().Nodes {
		if n.Block == nil || n.Block.Cond != n.AST || len(n.Succs) != 2 {
			continue
		}
		// the comparison itself, or a flag that names its outcome once (`checkpointed := h >= require`) and is
		// tested as `flag` / `!flag`
		cond := ast.Unparen(n.AST.(ast.Expr))
		succT, succF := n.Succs[0], n.Succs[1]
		if u, isNot := cond.(*ast.UnaryExpr); isNot && u.Op == token.NOT {
			cond = ast.Unparen(u.X)
			succT, succF = succF, succT
		}
		if id, isID := cond.(*ast.Ident); isID {
			if o := origin(fn, id); o != ast.Expr(id) {
				cond = ast.Unparen(o)
			}
		}
		// … or a field of a record that is given its value once, where the record is built (`req.validated`, set by
		// `syncRequest{…, validated: base.Height >= …RequireHeight}` and never assigned)
		if sel, isSel := cond.(*ast.SelectorExpr); isSel {
			if init := singleFieldInit(fn, fn.FieldOf(sel)); init != nil {
				cond = ast.Unparen(init)
			}
		}
		be, ok := cond.(*ast.BinaryExpr)
		if !ok {
			continue
		}
		// a hoisted `requireHeight := ….RequireHeight` (also one captured from the enclosing function) is looked through
		x, y, op := origin(fn, be.X), origin(fn, be.Y), be.Op
		if isSel(x, "RequireHeight") && isSel(y, "Height") {
			// mirror: a op b  ==  b op' a
			x, y = y, x
			switch op {
			case token.LEQ:
				op = token.GEQ
			case token.GTR:
				op = token.LSS
			case token.GEQ:
				op = token.LEQ
			case token.LSS:
				op = token.GTR
			}
		}
		if !isSel(x, "Height") || !isSel(y, "RequireHeight") {
			continue
		}
		switch op {
		case token.GEQ:
			out = append(out, rhCond{n, x, y, succT, succF})
		case token.LSS:
			out = append(out, rhCond{n, x, y, succF, succT})
		}
	}
	return out
}

// singleFieldInit: the one expression a struct field is ever given in its package — the value of its key in the only
// composite literal that names it — provided no statement assigns the field.
func singleFieldInit(fn *ir.Func, fld *types.Var) ast.Expr {
	if fld == nil || !fld.IsField() || fld.Pkg() == nil {
		return nil
	}
	var inits []ast.Expr
	assigned := false
	for _, f := range fn.P.Funcs {
		if f.Pkg.Types != fld.Pkg() || f.Lit != nil || f.View {
			continue
		}
		for _, w := range f.WritesIn(f.Body, true) {
			if lhsField(f, w.LHS) == fld {
				assigned = true
			}
		}
		ast.Inspect(f.Body, func(y ast.Node) bool {
			cl, ok := y.(*ast.CompositeLit)
			if !ok {
				return true
			}
			t := f.TypeOf(cl)
			if t == nil {
				return true
			}
			if pt, isPtr := t.Underlying().(*types.Pointer); isPtr {
				t = pt.Elem()
			}
			st, isStruct := t.Underlying().(*types.Struct)
			if !isStruct {
				return true
			}
			owns := false
			for i := 0; i < st.NumFields(); i++ {
				if st.Field(i) == fld {
					owns = true
				}
			}
			if !owns {
				return true
			}
			for _, el := range cl.Elts {
				kv, isKV := el.(*ast.KeyValueExpr)
				if !isKV {
					assigned = true // a positional literal: not followed
					continue
				}
				if k, isID := kv.Key.(*ast.Ident); isID && k.Name == fld.Name() {
					inits = append(inits, kv.Value)
				}
			}
			return true
		})
	}
	if assigned || len(inits) != 1 {
		return nil
	}
	return inits[0]
}

// shape: the last two selectors of each operand, e.g. `base.Height >= HardforkV2.RequireHeight`.
func (c rhCond) shape() string {
	tail := func(x ast.Expr) string {
		parts := strings.Split(ir.ExprString(x), ".")
		if len(parts) > 2 {
			parts = parts[len(parts)-2:]
		}
		return strings.Join(parts, ".")
	}
	return tail(c.x) + " >= " + tail(c.y)
}

// smallestSyncerUnit returns the smallest function unit of package syncer (declared
// function or literal, its callees and closures expanded into it) whose view satisfies pred.
func smallestSyncerUnit(c *Ctx, pred func(v *ir.Func) bool) *ir.Func {
	var best *ir.Func
	size := func(f *ir.Func) int { return len(f.Graph().Nodes) }
	for _, f := range c.P.Funcs {
		if f.Pkg.PkgPath != ir.PkgPath("syncer") {
			continue
		}
		v := c.P.Expand(f, ir.ExpandOpt{Key: "unit"})
		if v.Base == nil || !pred(v) {
			continue
		}
		if best == nil || size(v) < size(best) {
			best = v
		}
	}
	return best
}

// syncWorker: the unit that requests a checkpoint, validates blocks and tests the require height.
func syncWorker(c *Ctx) *ir.Func {
	sendCheckpoint := c.P.Method("syncer", "Peer", "SendCheckpoint")
	validateBlock := c.P.FuncObj("consensus", "ValidateBlock")
	return smallestSyncerUnit(c, func(v *ir.Func) bool {
		return len(v.CallsTo(false, sendCheckpoint)) > 0 && len(v.CallsTo(false, validateBlock)) > 0 && len(requireHeightConds(v)) > 0
	})
}

func c11r1(c *Ctx) {
	addValidated := c.P.Method("syncer", "ChainManager", "AddValidatedV2Blocks")
	sendCheckpoint := c.P.Method("syncer", "Peer", "SendCheckpoint")
	validateBlock := c.P.FuncObj("consensus", "ValidateBlock")
	applyBlock := c.P.FuncObj("consensus", "ApplyBlock")
	// the finisher and the worker are the smallest function units (a declared function or a literal, with the
	// helpers it calls expanded into it) that contain, respectively, the trusted call together with a require-height
	// test, and the checkpoint request, the block validation and a require-height test
	finisher := smallestSyncerUnit(c, func(v *ir.Func) bool {
		return len(v.CallsTo(false, addValidated)) > 0 && len(requireHeightConds(v)) > 0
	})
	worker := syncWorker(c)
	for _, f := range c.P.Funcs {
		if f.Pkg.PkgPath == ir.PkgPath("syncer") && finisher != nil && len(f.CallsTo(false, addValidated)) > 0 {
			// every raw call site must lie inside the finisher unit
			for _, call := range f.CallsTo(false, addValidated) {
				covered := false
				for _, vc := range finisher.CallsTo(false, addValidated) {
					if c.P.OrigNode(vc.Expr) == ast.Node(call.Expr) {
						covered = true
					}
				}
				if !covered {
					ob := c.Ob(f, "single-trusted-call-site", f.Body.Pos())
					ob.Bad(nil, "AddValidatedV2Blocks is also called at %s, outside the function that tests the require height (%s)", c.P.Pos(call.Pos()), finisher.Name())
				}
			}
		}
	}
	if finisher == nil || worker == nil {
		ir.Fail("finisher (caller of AddValidatedV2Blocks) or worker (caller of SendCheckpoint) not found")
	}
	c.VisitGraph(finisher)
	c.VisitGraph(worker)
	// (a) same predicate
	{
		ob := c.Ob(finisher, "trusted-entry-under-require-height", finisher.Body.Pos())
		fg := finisher.Graph()
		fconds, wconds := requireHeightConds(finisher), requireHeightConds(worker)
		good := len(fconds) > 0 && len(wconds) > 0
		var fe []*cfgx.Edge
		for _, n := range fconds {
			fe = append(fe, n.ge)
		}
		for _, call := range finisher.CallsTo(false, addValidated) {
			if !finisher.OnlyVia(fg.NodeContaining(call.Pos()), fe) {
				good = false
			}
		}
		if good && fconds[0].shape() != wconds[0].shape() {
			good = false
		}
		// the worker's checkpoint path is on the true edge of its predicate
		var we []*cfgx.Edge
		for _, n := range wconds {
			we = append(we, n.ge)
		}
		for _, call := range worker.CallsTo(false, sendCheckpoint) {
			if !worker.OnlyVia(worker.Graph().NodeContaining(call.Pos()), we) {
				good = false
			}
		}
		ob.Check(good, nil, "AddValidatedV2Blocks must be called only under `base.Height >= RequireHeight`, the same predicate under which the worker validated the blocks against a checkpoint-derived state: otherwise unvalidated blocks reach the entry that skips validation")
	}
	// (b) states only after validation
	g := worker.Graph()
	{
		ob := c.Ob(worker, "states-appended-only-after-validation", worker.Body.Pos())
		good, n := true, 0
		why := ""
		for _, node := range g.Nodes {
			if node.AST == nil {
				continue
			}
			for _, w := range worker.WritesIn(node.AST, false) {
				// a list of consensus states that grows by append (the response's states, however it is held)
				if sl, isSlice := worker.TypeOf(w.LHS).(*types.Slice); !isSlice || !ir.IsNamed(sl.Elem(), ir.CoreMod+"/consensus", "State") || w.RHS == nil {
					continue
				}
				ac, ok := ast.Unparen(w.RHS).(*ast.CallExpr)
				if !ok || len(ac.Args) != 2 || !sameLvalue(worker, ac.Args[0], w.LHS) {
					continue
				}
				if id, isID := ac.Fun.(*ast.Ident); !isID || id.Name != "append" {
					continue
				}
				n++
				st := worker.ObjOf(ac.Args[1])
				head, _, body := enclosingRange(worker, node)
				if st == nil || head == nil {
					good, why = false, "a state is appended outside the per-block loop"
					continue
				}
				blk := worker.ObjOf(head.AST.(*ast.RangeStmt).Value)
				// within the iteration: ValidateBlock(st, blk) success → st = ApplyBlock(st, blk) → append
				var vEdges []*cfgx.Edge
				for _, vc := range worker.CallsTo(false, validateBlock) {
					if len(vc.Expr.Args) >= 2 && worker.ObjOf(vc.Expr.Args[0]) == st && worker.ObjOf(vc.Expr.Args[1]) == blk {
						vEdges = append(vEdges, worker.CheckOf(vc.Expr).Succ...)
					}
				}
				cut := map[*cfgx.Edge]bool{}
				for _, e := range vEdges {
					cut[e] = true
				}
				if len(vEdges) == 0 || reachAvoidingEdges(g, body, node, head, cut) {
					good, why = false, "a state is appended for a block that did not pass consensus.ValidateBlock against the running state"
				}
				// the ApplyBlock assignment between validation and append
				applied := false
				for _, m := range g.Nodes {
					if m.AST == nil {
						continue
					}
					for _, ab := range worker.NodeCalls(m) {
						if ab.Fn == applyBlock.Origin() && len(ab.Expr.Args) >= 2 && worker.ObjOf(ab.Expr.Args[0]) == st && worker.ObjOf(ab.Expr.Args[1]) == blk {
							for _, w2 := range worker.WritesIn(m.AST, false) {
								if worker.ObjOf(w2.LHS) == st && !reachAvoidingNode(g, body, node, m) {
									applied = true
								}
							}
						}
					}
				}
				if !applied {
					good, why = false, "the appended state is not the result of consensus.ApplyBlock over the validated block in the same iteration"
				}
			}
		}
		ob.Check(good && n > 0, nil, "%s: AddValidatedV2Blocks trusts these states and blocks without re-validating", why)
	}
	// (c) start state from the checkpoint, advanced over the checkpoint block
	{
		ob := c.Ob(worker, "start-state-from-verified-checkpoint", worker.Body.Pos())
		good := false
		for _, sc := range worker.CallsTo(false, sendCheckpoint) {
			node := g.NodeContaining(sc.Pos())
			as, ok := node.AST.(*ast.AssignStmt)
			if !ok || len(as.Lhs) != 3 {
				continue
			}
			st, blk := worker.ObjOf(as.Lhs[0]), worker.ObjOf(as.Lhs[1])
			chk := worker.CheckOf(sc.Expr)
			for _, ab := range worker.CallsTo(false, applyBlock) {
				if len(ab.Expr.Args) >= 2 && worker.ObjOf(ab.Expr.Args[0]) == st && worker.ObjOf(ab.Expr.Args[1]) == blk && worker.OnlyVia(g.NodeContaining(ab.Pos()), chk.Succ) {
					// every ValidateBlock is dominated by this advance
					dom := true
					for _, vc := range worker.CallsTo(false, validateBlock) {
						// (on feasible paths: the advance and the validation may sit under two tests of one flag)
						an := g.NodeContaining(ab.Pos())
						if !g.DominatedByNode(g.NodeContaining(vc.Pos()), an) && !worker.OnlyVia(g.NodeContaining(vc.Pos()), an.Succs) {
							dom = false
						}
					}
					if dom {
						good = true
					}
				}
			}
		}
		ob.Check(good, nil, "the state against which fetched blocks are validated is not the SendCheckpoint state (on its success edge) advanced over the checkpoint block")
	}
	// (d) exits after a failed validation carry no blocks
	{
		ob := c.Ob(worker, "failed-validation-returns-no-blocks", worker.Body.Pos())
		good := true
		for _, vc := range worker.CallsTo(false, validateBlock) {
			chk := worker.CheckOf(vc.Expr)
			var st []*cfgx.Visit
			for _, e := range chk.Fail {
				st = append(st, cfgx.StartAfter(e, 0))
			}
			// per path: the response may be built field by field and returned at one exit
			worker.ExploreFeasibleWith(st, cfgx.Walker{}, func(v *cfgx.Visit, val func(types.Object) uint64) {
				rs, ok := v.Node.AST.(*ast.ReturnStmt)
				if !ok {
					return
				}
				// a field is empty on this path when it is absent, nil, or a variable known to be nil here
				empty := func(e ast.Expr) bool {
					if worker.IsNil(e) {
						return true
					}
					o := worker.ObjOf(e)
					return o != nil && val(o)&1 == 0
				}
				nonNil := func(e ast.Expr) bool {
					if o := worker.ObjOf(e); o != nil && val(o)&2 == 0 {
						return true
					}
					call, isCall := ast.Unparen(e).(*ast.CallExpr)
					return isCall && worker.P.AlwaysErr(worker.Callee(call), 0)
				}
				// the worker hands back (lists …, error) instead of a response record
				if n := len(rs.Results); n > 1 && ir.IsErrorType(worker.TypeOf(rs.Results[n-1])) {
					for _, r := range rs.Results[:n-1] {
						if _, isSlice := worker.TypeOf(r).Underlying().(*types.Slice); isSlice && !empty(r) {
							good = false
						}
					}
					last := rs.Results[n-1]
					if o := worker.ObjOf(last); !(o != nil && val(o) == 3) && !nonNil(last) {
						good = false
					}
					return
				}
				if len(rs.Results) != 1 {
					good = false
					return
				}
				cl, ok := ast.Unparen(rs.Results[0]).(*ast.CompositeLit)
				if !ok {
					good = false
					return
				}
				hasErr := false
				for _, el := range cl.Elts {
					if kv, ok := el.(*ast.KeyValueExpr); ok {
						k := kv.Key.(*ast.Ident).Name
						if (k == "blocks" || k == "states") && !empty(kv.Value) {
							good = false
						}
						if k == "err" {
							// the failure paths of the baseline hand the validation error itself on; a variable
							// whose value is not followed is accepted as before
							if o := worker.ObjOf(kv.Value); o != nil && val(o) == 3 {
								hasErr = true
							} else if nonNil(kv.Value) {
								hasErr = true
							}
						}
					}
				}
				if !hasErr {
					good = false
				}
			})
		}
		ob.Check(good, nil, "after a block failed validation the worker can return a response that still carries blocks/states or no error")
	}
}

// nilErrOnlyVia: in functions that signal failure by assigning err and returning it at the end,
// checks that the final return can carry a nil error only through the passing side of the guard(s).
func errAssignedOnBadSide(f *ir.Func, errObj types.Object, bad *cfgx.Edge) bool {
	// every path from the bad edge to the exit passes an assignment of errObj to a definitely non-nil error
	g := f.Graph()
	isSet := func(n *cfgx.Node) bool {
		if n.AST == nil {
			return false
		}
		for _, w := range f.WritesIn(n.AST, false) {
			if f.ObjOf(w.LHS) == errObj && w.RHS != nil {
				if call, ok := ast.Unparen(w.RHS).(*ast.CallExpr); ok && f.P.AlwaysErr(f.Callee(call), 0) {
					return true
				}
			}
		}
		if rs, ok := n.AST.(*ast.ReturnStmt); ok && f.ClassifyReturn(n) == ir.RetError {
			_ = rs
			return true
		}
		return false
	}
	_, leak := f.ReachableFromEdges([]*cfgx.Edge{bad}, isSet)[g.Exit]
	return !leak
}

// syncerView returns f with the unexported helpers of package syncer expanded.
func syncerView(c *Ctx, f *ir.Func) *ir.Func {
	return c.P.Views("syncer", ir.ExpandOpt{Key: "all"}).Of(f)
}

func c11r2(c *Ctx) {
	// SendCheckpoint
	{
		f := syncerView(c, c.P.Fn("syncer", "Peer", "SendCheckpoint"))
		g := f.Graph()
		c.VisitGraph(f)
		// the err variable returned
		var errObj types.Object
		for _, ret := range g.Returns() {
			rs := ret.AST.(*ast.ReturnStmt)
			if len(rs.Results) > 0 {
				errObj = f.ObjOf(rs.Results[len(rs.Results)-1])
			}
		}
		// edges on which err is known non-nil (the RPC itself failed)
		var errNonNil []*cfgx.Edge
		for _, n := range g.Nodes {
			if n.Block == nil || n.Block.Cond != n.AST || len(n.Succs) != 2 {
				continue
			}
			if x, nonNilOnTrue, ok := f.NilTest(n.AST.(ast.Expr)); ok && f.ObjOf(x) == errObj {
				if nonNilOnTrue {
					errNonNil = append(errNonNil, n.Succs[0])
				} else {
					errNonNil = append(errNonNil, n.Succs[1])
				}
			}
		}
		checks := []struct {
			id    string
			match func(e ast.Expr) bool
			msg   string
		}{
			{"checkpoint-is-v2", func(e ast.Expr) bool {
				x, _, ok := f.NilTest(e)
				return ok && strings.HasSuffix(ir.ExprString(x), ".V2")
			}, "a checkpoint that is not a v2 block is accepted (nil dereference or v1 rules bypassed)"},
			{"checkpoint-id-matches", func(e ast.Expr) bool {
				be, ok := ast.Unparen(e).(*ast.BinaryExpr)
				return ok && (be.Op == token.NEQ || be.Op == token.EQL) && mentionsText(be, ".ID()") && (strings.HasSuffix(ir.ExprString(be.Y), ".ID") || strings.HasSuffix(ir.ExprString(be.X), ".ID"))
			}, "a checkpoint for a different block than the one requested is accepted"},
			{"checkpoint-commitment-binds-state", func(e ast.Expr) bool {
				be, ok := ast.Unparen(e).(*ast.BinaryExpr)
				if !ok || (be.Op != token.NEQ && be.Op != token.EQL) {
					return false
				}
				isField := func(x ast.Expr) bool { return strings.HasSuffix(ir.ExprString(x), "V2.Commitment") }
				isCall := func(x ast.Expr) bool {
					call, ok := ast.Unparen(x).(*ast.CallExpr)
					if !ok || f.Callee(call) == nil || f.Callee(call).Name() != "Commitment" {
						return false
					}
					sel, ok := ast.Unparen(call.Fun).(*ast.SelectorExpr)
					return ok && ir.IsNamed(f.TypeOf(sel.X), ir.CoreMod+"/consensus", "State")
				}
				return (isField(be.X) && isCall(be.Y)) || (isField(be.Y) && isCall(be.X))
			}, "the supplied state is not bound to the checkpoint block's commitment: every field of the state against which later blocks are validated is peer-controlled"},
		}
		var errNil []*cfgx.Edge
		for _, n := range g.Nodes {
			if n.Block == nil || n.Block.Cond != n.AST || len(n.Succs) != 2 {
				continue
			}
			if x, nonNilOnTrue, ok := f.NilTest(n.AST.(ast.Expr)); ok && f.ObjOf(x) == errObj {
				if nonNilOnTrue {
					errNil = append(errNil, n.Succs[1])
				} else {
					errNil = append(errNil, n.Succs[0])
				}
			}
		}
		inSet := func(e *cfgx.Edge, es []*cfgx.Edge) bool {
			for _, x := range es {
				if x == e {
					return true
				}
			}
			return false
		}
		for _, ck := range checks {
			ob := c.Ob(f, ck.id, f.Body.Pos())
			good := false
			for _, n := range g.Nodes {
				if n.Block == nil || n.Block.Cond != n.AST || len(n.Succs) != 2 || !ck.match(n.AST.(ast.Expr)) {
					continue
				}
				for i := range n.Succs {
					pass := n.Succs[1-i]
					// explore: bit0 = err definitely non-nil, bit1 = crossed the passing edge of this check
					leak := false
					g.Explore([]*cfgx.Visit{cfgx.StartAt(g.Entry, 0)}, cfgx.Walker{
						AtNode: func(m *cfgx.Node, st cfgx.State) (cfgx.State, bool) {
							if m.Exit {
								if st&1 == 0 && st&2 == 0 {
									leak = true
								}
								return st, false
							}
							if rs, isRet := m.AST.(*ast.ReturnStmt); isRet && len(rs.Results) > 0 {
								// early-exit style: a return that hands back a definite error is not a success exit;
								// one that hands back something other than the tracked variable is judged by what it returns
								last := rs.Results[len(rs.Results)-1]
								switch k := f.ClassifyReturn(m); {
								case k == ir.RetError:
									return st, false
								case f.ObjOf(last) != errObj || errObj == nil:
									st &^= 1
								}
							}
							if m.AST != nil {
								for _, w := range f.WritesIn(m.AST, false) {
									if f.ObjOf(w.LHS) != errObj {
										continue
									}
									call, ok := ast.Unparen(w.RHS).(*ast.CallExpr)
									if w.RHS != nil && ok && f.P.AlwaysErr(f.Callee(call), 0) {
										st |= 1
									} else {
										st &^= 1
									}
								}
							}
							return st, true
						},
						OnEdge: func(e *cfgx.Edge, st cfgx.State) (cfgx.State, bool) {
							if inSet(e, errNonNil) {
								st |= 1
							}
							if inSet(e, errNil) {
								st &^= 1
							}
							if e == pass {
								st |= 2
							}
							return st, true
						},
					})
					if leak {
						// second opinion, with error variables followed per path by the engine (copies of a helper's error,
						// joint tests that were threaded away): a return that has not crossed the passing edge must hand
						// back an error that is non-nil on that path
						leak = false
						f.ExploreFeasibleWith([]*cfgx.Visit{cfgx.StartAt(g.Entry, 0)}, cfgx.Walker{
							OnEdge: func(e *cfgx.Edge, st cfgx.State) (cfgx.State, bool) {
								if e == pass {
									st |= 2
								}
								return st, true
							},
						}, func(v *cfgx.Visit, val func(types.Object) uint64) {
							rs, isRet := v.Node.AST.(*ast.ReturnStmt)
							if !isRet || v.State&2 != 0 || len(rs.Results) == 0 {
								return
							}
							if f.ClassifyReturn(v.Node) == ir.RetError {
								return
							}
							last := rs.Results[len(rs.Results)-1]
							if o := f.ObjOf(last); o != nil && val(o)&2 == 0 {
								return // non-nil on this path
							}
							leak = true
						})
					}
					if !leak {
						good = true
					}
				}
			}
			ob.Check(good, nil, "SendCheckpoint can return a nil error without the %s check having passed: %s", ck.id, ck.msg)
		}
	}
	// SendHeaders
	{
		f := syncerView(c, c.P.Fn("syncer", "Peer", "SendHeaders"))
		g := f.Graph()
		c.VisitGraph(f)
		ob := c.Ob(f, "every-header-validated", f.Body.Pos())
		validateHeader := c.P.FuncObj("consensus", "ValidateHeader")
		applyHeader := c.P.FuncObj("consensus", "ApplyHeader")
		good := false
		for _, vc := range f.CallsTo(false, validateHeader) {
			node := g.NodeContaining(vc.Pos())
			head, exit, body := enclosingRange(f, node)
			if head == nil || len(vc.Expr.Args) != 2 {
				continue
			}
			st, hv := f.ObjOf(vc.Expr.Args[0]), f.ObjOf(vc.Expr.Args[1])
			if hv != f.ObjOf(head.AST.(*ast.RangeStmt).Value) {
				continue
			}
			chk := f.CheckOf(vc.Expr)
			cut := map[*cfgx.Edge]bool{}
			for _, e := range chk.Succ {
				cut[e] = true
			}
			if reachAvoidingEdges(g, body, head, nil, cut) {
				continue
			}
			// the running state is advanced with the same header
			adv := false
			for _, ah := range f.CallsTo(false, applyHeader) {
				if len(ah.Expr.Args) >= 2 && f.ObjOf(ah.Expr.Args[0]) == st && f.ObjOf(ah.Expr.Args[1]) == hv {
					for _, w := range f.WritesIn(g.NodeContaining(ah.Pos()).AST, false) {
						if f.ObjOf(w.LHS) == st {
							adv = true
						}
					}
				}
			}
			// failing edge returns an error; success returns only via loop exit or a failed RPC. Both are decided per
			// path (the error may be stored in a result variable and handed back at a single exit, the loop left by
			// break): a return counts as an error return when its error operand is non-nil on the path taken
			definitelyErr := func(v *cfgx.Visit, val func(types.Object) uint64) bool {
				if f.ClassifyReturn(v.Node) == ir.RetError {
					return true
				}
				rs, _ := v.Node.AST.(*ast.ReturnStmt)
				if rs == nil || len(rs.Results) == 0 {
					return false
				}
				o := f.ObjOf(rs.Results[len(rs.Results)-1])
				return o != nil && val(o)&2 == 0
			}
			failsErr := true
			var fromFail []*cfgx.Visit
			for _, e := range chk.Fail {
				fromFail = append(fromFail, cfgx.StartAfter(e, 0))
			}
			f.ExploreFeasibleWith(fromFail, cfgx.Walker{AtNode: func(n *cfgx.Node, s cfgx.State) (cfgx.State, bool) { return s, n != head }},
				func(v *cfgx.Visit, val func(types.Object) uint64) {
					if _, isRet := v.Node.AST.(*ast.ReturnStmt); isRet && !definitelyErr(v, val) {
						failsErr = false
					}
				})
			via := true
			f.ExploreFeasibleWith([]*cfgx.Visit{cfgx.StartAt(g.Entry, 0)}, cfgx.Walker{OnEdge: func(e *cfgx.Edge, s cfgx.State) (cfgx.State, bool) {
				if e == exit {
					s |= 1
				}
				return s, true
			}}, func(v *cfgx.Visit, val func(types.Object) uint64) {
				if _, isRet := v.Node.AST.(*ast.ReturnStmt); isRet && v.State&1 == 0 && !definitelyErr(v, val) {
					via = false
				}
			})
			if adv && failsErr && via {
				good = true
			}
		}
		ob.Check(good, nil, "SendHeaders can hand back headers that did not each pass consensus.ValidateHeader against the state advanced header by header: blocks are then requested for a chain without sufficient work or linkage")
	}
	// below the require height: ids compared with validated headers before the blocks are kept
	{
		worker := syncWorker(c)
		if worker == nil {
			ir.Fail("sync worker not found")
		}
		g := worker.Graph()
		ob := c.Ob(worker, "blocks-match-validated-headers", worker.Body.Pos())
		wconds := requireHeightConds(worker)
		good := false
		if len(wconds) > 0 {
			elseEdge := wconds[0].lt
			// where the fetched blocks are kept: a block list copied into the response (a field or a result variable),
			// or a return whose value holds a local block list
			isBlockList := func(t types.Type) bool {
				sl, isSlice := t.(*types.Slice)
				return isSlice && ir.IsNamed(sl.Elem(), ir.CoreMod+"/types", "Block")
			}
			var kept []*cfgx.Node
			for _, node := range g.Nodes {
				if node.AST == nil {
					continue
				}
				for _, w := range worker.WritesIn(node.AST, false) {
					if !isBlockList(worker.TypeOf(w.LHS)) || w.RHS == nil || worker.IsNil(w.RHS) {
						continue
					}
					if _, isCall := ast.Unparen(w.RHS).(*ast.CallExpr); isCall {
						continue
					}
					kept = append(kept, node)
				}
				if rs, isRet := node.AST.(*ast.ReturnStmt); isRet {
					holds := false
					ir.Walk(rs, false, func(x ast.Node) {
						if id, ok := x.(*ast.Ident); ok {
							if v, isVar := worker.ObjOf(id).(*types.Var); isVar && !v.IsField() && isBlockList(v.Type()) {
								holds = true
							}
						}
					})
					if holds {
						kept = append(kept, node)
					}
				}
			}
			// the exits of loops that compare every block id with the header chain's
			var exits []*cfgx.Edge
			for _, m := range g.Nodes {
				if m.Block == nil || m.Block.Cond != m.AST || len(m.Succs) != 2 {
					continue
				}
				be, ok := ast.Unparen(m.AST.(ast.Expr)).(*ast.BinaryExpr)
				if !ok || (be.Op != token.NEQ && be.Op != token.EQL) || !mentionsText(be.X, ".ID()") || !mentionsText(be.Y, ".ID()") || !mentionsTextDeep(worker, be, "headers") {
					continue
				}
				head, exit, body := enclosingRange(worker, m)
				if head == nil {
					continue
				}
				// the edge on which the two ids are equal: the only way to the next iteration
				same := m.Succs[1]
				if be.Op == token.EQL {
					same = m.Succs[0]
				}
				if !reachAvoidingEdges(g, body, head, nil, map[*cfgx.Edge]bool{same: true}) {
					exits = append(exits, exit)
				}
			}
			cut := map[*cfgx.Edge]bool{}
			for _, e := range exits {
				cut[e] = true
			}
			// below the require height every way to a place where blocks are kept crosses such a loop's exit
			fromElse := worker.ReachableFromEdges([]*cfgx.Edge{elseEdge}, nil)
			n := 0
			good = len(exits) > 0
			isKept := map[*cfgx.Node]bool{}
			for _, node := range kept {
				if _, ok := fromElse[node]; ok {
					isKept[node] = true
					n++
				}
			}
			// (per path: a return that hands back a block list known to be nil there — a failure exit of a worker that
			// fills its response field by field — keeps nothing)
			worker.ExploreFeasibleWith([]*cfgx.Visit{cfgx.StartAfter(elseEdge, 0)}, cfgx.Walker{
				OnEdge: func(e *cfgx.Edge, s cfgx.State) (cfgx.State, bool) { return s, !cut[e] },
			}, func(v *cfgx.Visit, val func(types.Object) uint64) {
				if !isKept[v.Node] {
					return
				}
				if rs, isRet := v.Node.AST.(*ast.ReturnStmt); isRet {
					holds := false
					ir.Walk(rs, false, func(x ast.Node) {
						if id, ok := x.(*ast.Ident); ok {
							if lv, isVar := worker.ObjOf(id).(*types.Var); isVar && !lv.IsField() && isBlockList(lv.Type()) && val(lv)&1 != 0 {
								holds = true
							}
						}
					})
					if !holds {
						return
					}
				}
				good = false
			})
			if n == 0 {
				good = false
			}
		}
		ob.Check(good, nil, "below the require height the fetched blocks are kept without every block's id having been compared with the validated header chain")
	}
}

// typeSwitchClause returns the nodes of handleRPC belonging to the case clause for gateway type name.
func clauseOf(f *ir.Func, typeName string) *ast.CaseClause {
	var out *ast.CaseClause
	ir.Walk(f.Body, false, func(x ast.Node) {
		cc, ok := x.(*ast.CaseClause)
		if !ok {
			return
		}
		for _, e := range cc.List {
			if strings.HasSuffix(ir.ExprString(e), typeName) {
				out = cc
			}
		}
	})
	return out
}

func dispatchFn(c *Ctx) *ir.Func {
	for _, f := range c.P.MethodsOf("syncer", "Syncer") {
		found := false
		ir.Walk(f.Body, false, func(x ast.Node) {
			ts, ok := x.(*ast.TypeSwitchStmt)
			if !ok {
				return
			}
			if mentionsText(ts.Assign, "ObjectForID") {
				found = true
				return
			}
			// the object may have been fetched into a variable first (`rpc := gateway.ObjectForID(id)`)
			ast.Inspect(ts.Assign, func(y ast.Node) bool {
				if ta, ok := y.(*ast.TypeAssertExpr); ok && ta.Type == nil {
					if call, ok := ast.Unparen(origin(f, ta.X)).(*ast.CallExpr); ok {
						if fn := f.Callee(call); fn != nil && fn.Name() == "ObjectForID" && fn.Pkg() != nil && fn.Pkg().Path() == ir.PkgPath("gateway") {
							found = true
						}
					}
				}
				return true
			})
		})
		if found {
			return f
		}
	}
	ir.Fail("gateway RPC dispatcher (type switch over gateway.ObjectForID) not found")
	return nil
}

func banFn(c *Ctx) *ir.Func {
	pmBan := c.P.Method("syncer", "PeerStore", "Ban")
	for _, f := range c.P.MethodsOf("syncer", "Syncer") {
		if f.Type.Params.NumFields() == 2 && len(f.CallsTo(true, pmBan)) > 0 {
			return f
		}
	}
	ir.Fail("ban function not found")
	return nil
}

// dispatchView: the gateway dispatcher with the helpers it calls expanded (the ban function stays a call).
func dispatchView(c *Ctx) *ir.Func {
	ban := banFn(c)
	return c.P.Views("syncer", ir.ExpandOpt{Key: "dispatch", Stop: func(fn *types.Func) bool { return fn == ban.Obj }}).Of(dispatchFn(c))
}

func c11r3(c *Ctx) {
	f := dispatchView(c)
	g := f.Graph()
	c.VisitGraph(f)
	addBlocks := c.P.Method("syncer", "ChainManager", "AddBlocks")
	relayFns := c12reaches(c, c.P.Method("syncer", "Peer", "RelayV2Header"))
	for fn := range c12reaches(c, c.P.Method("syncer", "Peer", "RelayV2BlockOutline")) {
		relayFns[fn] = true
	}
	for _, tn := range []string{"RPCRelayV2Header", "RPCRelayV2BlockOutline"} {
		cc := clauseOf(f, tn)
		if cc == nil {
			ir.Fail("no case for gateway.%s", tn)
		}
		// work test and attach test inside the clause
		var workOK, attachOK []*cfgx.Edge
		for _, n := range g.Nodes {
			if n.AST == nil || !containsNode(cc, n.AST) || n.Block == nil || n.Block.Cond != n.AST || len(n.Succs) != 2 {
				continue
			}
			e := n.AST.(ast.Expr)
			if be, ok := ast.Unparen(e).(*ast.BinaryExpr); ok {
				if be.Op == token.LSS && mentionsText(be.X, "CmpWork") && mentionsText(be.X, "PoWTarget") {
					workOK = append(workOK, n.Succs[1])
				}
				if be.Op == token.NEQ && mentionsTextDeep(f, be, "ParentID") && mentionsText(be, "Tip()") {
					attachOK = append(attachOK, n.Succs[1])
				}
			}
		}
		// actions: relaying onwards (a go statement / call of a relay step, of a literal that relays, or of a function
		// variable that holds such a literal) and cm.AddBlocks — wherever in the handler they sit, as far as they are
		// reached from this clause
		relayStep := c12relayNode(f, relayFns, nil)
		var entries []*cfgx.Visit
		if len(cc.Body) > 0 {
			// the clause's first node: the node inside its first statement with the smallest position
			var first *cfgx.Node
			for _, n := range g.Nodes {
				if n.AST == nil || !containsNode(cc.Body[0], n.AST) {
					continue
				}
				if first == nil || n.AST.Pos() < first.AST.Pos() {
					first = n
				}
			}
			if first != nil {
				entries = append(entries, cfgx.StartAt(first, 0))
			}
		}
		if len(entries) == 0 {
			ir.Fail("the %s clause has no first node", tn)
		}
		isAction := func(n *cfgx.Node) bool {
			if n.AST == nil {
				return false
			}
			if _, ok := f.NodeCallsTo(n, addBlocks); ok {
				return true
			}
			return relayStep(n)
		}
		reachedAvoiding := func(cut []*cfgx.Edge) map[*cfgx.Node]bool {
			isCut := map[*cfgx.Edge]bool{}
			for _, e := range cut {
				isCut[e] = true
			}
			out := map[*cfgx.Node]bool{}
			for _, v := range f.ExploreFeasible(entries, cfgx.Walker{OnEdge: func(e *cfgx.Edge, s cfgx.State) (cfgx.State, bool) { return s, !isCut[e] }}) {
				out[v.Node] = true
			}
			return out
		}
		all := reachedAvoiding(nil)
		noWork, noAttach := reachedAvoiding(workOK), reachedAvoiding(attachOK)
		for _, n := range g.Nodes {
			if !all[n] || !isAction(n) {
				continue
			}
			ob := c.Ob(f, "after-work-and-attach:"+tn, n.Pos())
			switch {
			case noWork[n]:
				ob.Bad(nil, "in the %s handler the action at %s is reachable without the proof-of-work test (CmpWork against the parent state's target) having passed: work-less headers are relayed or submitted", tn, c.P.Pos(n.Pos()))
			case noAttach[n]:
				ob.Bad(nil, "in the %s handler the action at %s is reachable for a block that does not attach to our tip", tn, c.P.Pos(n.Pos()))
			default:
				ob.OK("behind work and attach tests")
			}
		}
	}
}

func c11r4(c *Ctx) {
	// the rhp dispatcher: the Server method that reads the RPC id
	readID := c.P.FuncObj("rhp4", "ReadID")
	var rhpDispatch *ir.Func
	for _, f := range c.P.MethodsOf("rhp", "Server") {
		if len(f.CallsTo(false, readID)) > 0 {
			rhpDispatch = f
		}
	}
	if rhpDispatch == nil {
		ir.Fail("rhp dispatcher (Server method calling rhp4.ReadID) not found")
	}
	for _, f := range []*ir.Func{dispatchFn(c), rhpDispatch} {
		g := f.Graph()
		c.VisitGraph(f)
		ob := c.Ob(f, "recover-before-dispatch", f.Body.Pos())
		var rec *cfgx.Node
		for _, d := range f.Defers() {
			// the deferred function itself must call recover (directly, not in a function it calls): a literal, or a
			// repository function / method deferred by name
			body := d.Lit
			if body == nil && d.Call.Fn != nil {
				body = c.P.FuncOf(d.Call.Fn)
			}
			if body == nil {
				continue
			}
			for _, call := range body.Calls(false) {
				if id, ok := call.Expr.Fun.(*ast.Ident); ok && id.Name == "recover" {
					if _, isB := body.Info().Uses[id].(*types.Builtin); isB {
						rec = d.Node
					}
				}
			}
		}
		if rec == nil {
			ob.Bad(nil, "%s has no deferred recover: a panic in any handler (e.g. on a malformed message) crashes the node", f.Name())
			continue
		}
		// the switch's first node is dominated by the defer
		good := true
		ir.Walk(f.Body, false, func(x ast.Node) {
			var sw ast.Node
			switch s := x.(type) {
			case *ast.TypeSwitchStmt:
				sw = s
			case *ast.SwitchStmt:
				if s.Tag != nil {
					sw = s
				}
			}
			if sw == nil {
				return
			}
			for _, n := range g.Nodes {
				if n.AST != nil && containsNode(sw, n.AST) && !g.DominatedByNode(n, rec) {
					good = false
				}
			}
		})
		ob.Check(good, nil, "the recover in %s is registered after (part of) the dispatch", f.Name())
	}
}

func c11r5(c *Ctx) {
	f := dispatchView(c)
	ban := banFn(c)
	g := f.Graph()
	c.VisitGraph(f)
	isBan := func(fn *ir.Func) func(n *cfgx.Node) bool {
		return func(n *cfgx.Node) bool { _, ok := fn.NodeCallsTo(n, ban.Obj); return ok }
	}
	check := func(fn *ir.Func, role string, bad []*cfgx.Edge, pos token.Pos) {
		ob := c.Ob(fn, "misbehaviour-banned:"+role, pos)
		if len(bad) == 0 {
			ob.Bad(nil, "the %s test was not found", role)
			return
		}
		gg := fn.Graph()
		if v, leak := fn.ReachableFromEdges(bad, isBan(fn))[gg.Exit]; leak {
			ob.Bad(c.Witness(v), "on the %s edge the handler can finish without calling ban: provable misbehaviour is not reported to the peer store", role)
		} else {
			ob.OK("reaches ban")
		}
	}
	addBlocks := c.P.Method("syncer", "ChainManager", "AddBlocks")
	addValidated := c.P.Method("syncer", "ChainManager", "AddValidatedV2Blocks")
	for _, tn := range []string{"RPCRelayV2Header", "RPCRelayV2BlockOutline"} {
		cc := clauseOf(f, tn)
		var bad []*cfgx.Edge
		var pos token.Pos
		for _, n := range g.Nodes {
			if n.AST == nil || cc == nil || !containsNode(cc, n.AST) || n.Block == nil || n.Block.Cond != n.AST || len(n.Succs) != 2 {
				continue
			}
			if be, ok := ast.Unparen(n.AST.(ast.Expr)).(*ast.BinaryExpr); ok && be.Op == token.LSS && mentionsText(be.X, "CmpWork") {
				bad = append(bad, n.Succs[0])
				pos = n.Pos()
			}
		}
		check(f, "insufficient-work:"+tn, bad, pos)
	}
	// outline: wrong missing transactions (the second completeness test) and AddBlocks error
	if cc := clauseOf(f, "RPCRelayV2BlockOutline"); cc != nil {
		// the completeness test that follows the request for the missing transactions: `len(missing) > 0`
		// (or its complement) evaluated after Peer.SendTransactions on every path
		var sendNodes []*cfgx.Node
		for _, call := range f.Calls(false) {
			if call.Fn != nil && call.Fn.Name() == "SendTransactions" && containsNode(cc, call.Expr) {
				sendNodes = append(sendNodes, g.NodeContaining(call.Pos()))
			}
		}
		var bad []*cfgx.Edge
		var pos token.Pos
		for _, n := range g.Nodes {
			if n.AST == nil || !containsNode(cc, n.AST) || n.Block == nil || n.Block.Cond != n.AST || len(n.Succs) != 2 {
				continue
			}
			be, ok := ast.Unparen(n.AST.(ast.Expr)).(*ast.BinaryExpr)
			if !ok || lenOf(f, be.X) == nil || !mentionsText(be.X, "missing") || !isZero(f, be.Y) {
				continue
			}
			after := false
			for _, sn := range sendNodes {
				if sn != nil && sn != n && g.DominatedByNode(n, sn) {
					after = true
				}
			}
			if !after {
				continue
			}
			switch be.Op {
			case token.GTR, token.NEQ:
				bad, pos = append(bad, n.Succs[0]), n.Pos()
			case token.EQL:
				bad, pos = append(bad, n.Succs[1]), n.Pos()
			}
		}
		check(f, "wrong-missing-transactions", bad, pos)
		var bad2 []*cfgx.Edge
		for _, ab := range f.CallsTo(false, addBlocks) {
			if containsNode(cc, ab.Expr) {
				bad2 = append(bad2, f.CheckOf(ab.Expr).Fail...)
				pos = ab.Pos()
			}
		}
		check(f, "outline-block-invalid", bad2, pos)
	}
	if cc := clauseOf(f, "RPCRelayV2TransactionSet"); cc != nil {
		var bad []*cfgx.Edge
		var pos token.Pos
		for _, n := range g.Nodes {
			if n.AST == nil || !containsNode(cc, n.AST) || n.Block == nil || n.Block.Cond != n.AST || len(n.Succs) != 2 {
				continue
			}
			if be, ok := ast.Unparen(n.AST.(ast.Expr)).(*ast.BinaryExpr); ok && be.Op == token.EQL && lenOf(f, be.X) != nil && mentionsText(be.X, "Transactions") {
				bad, pos = []*cfgx.Edge{n.Succs[0]}, n.Pos()
			}
		}
		check(f, "empty-transaction-set", bad, pos)
	}
	// sync worker: invalid block on the checkpoint path; finisher: AddBlocks / AddValidatedV2Blocks error
	validateBlock := c.P.FuncObj("consensus", "ValidateBlock")
	// (every function unit of the package with helpers and closures expanded, and the literals that remain —
	// goroutine bodies, callbacks)
	var units []*ir.Func
	for _, r := range c.P.Views("syncer", ir.ExpandOpt{Key: "dispatch", Stop: func(fn *types.Func) bool { return fn == ban.Obj }}).Roots {
		units = append(units, r)
		units = append(units, r.Lits...)
	}
	for _, fn := range units {
		for _, vc := range fn.CallsTo(false, validateBlock) {
			c.VisitGraph(fn)
			check(fn, "invalid-block-from-checkpoint-sync", fn.CheckOf(vc.Expr).Fail, vc.Pos())
		}
		if len(fn.CallsTo(false, addValidated)) > 0 {
			c.VisitGraph(fn)
			// err is assigned in both branches and tested once
			var bad []*cfgx.Edge
			var pos token.Pos
			for _, call := range fn.CallsTo(false, addValidated, addBlocks) {
				chk := fn.CheckOf(call.Expr)
				bad = append(bad, chk.Fail...)
				pos = call.Pos()
			}
			check(fn, "sync-batch-rejected", bad, pos)
		}
	}
	// the ban function reports to the peer store before any success return
	{
		ban := c.P.Expand(ban, ir.ExpandOpt{Key: "all"}) // its own helpers and closures expanded
		c.VisitGraph(ban)
		pmBan := c.P.Method("syncer", "PeerStore", "Ban")
		ob := c.Ob(ban, "ban-reports-to-peer-store", ban.Body.Pos())
		bg := ban.Graph()
		isPM := func(n *cfgx.Node) bool {
			if call, ok := ban.NodeCallsTo(n, pmBan); ok {
				return len(call.Expr.Args) > 0 && strings.HasSuffix(ir.ExprString(call.Expr.Args[0]), "ConnAddr")
			}
			return false
		}
		bad := false
		for ret, v := range bg.Reach([]*cfgx.Visit{cfgx.StartAt(bg.Entry, 0)}, isPM) {
			if _, isRet := ret.AST.(*ast.ReturnStmt); isRet && ban.ClassifyReturn(ret) != ir.RetError {
				ob.Bad(c.Witness(v), "the ban function can return success at %s without PeerStore.Ban for the peer's address: a peer that misbehaves and then hangs up is never reported", c.P.Pos(ret.Pos()))
				bad = true
			}
		}
		if !bad {
			ob.OK("every success return follows PeerStore.Ban(peer address)")
		}
	}
}

// c11r6: positional accesses of slices in package syncer. `X[len(X)-k]` and
// `X[c]` panic when X is shorter than expected, and what reaches these sites
// are lists a peer supplied (blocks of a batch, headers, payouts of a
// checkpoint block); the sync workers run without a recover. Each such access
// must be reached only through the adequate side of a test of len(X).
func c11r6(c *Ctx) {
	// every function unit of the package with its helpers, closures and literal tables expanded, and the
	// literals that remain (goroutine bodies, callbacks)
	var units []*ir.Func
	for _, r := range c.P.Views("syncer", ir.ExpandOpt{Key: "all"}).Roots {
		units = append(units, r)
		units = append(units, r.Lits...)
	}
	for _, f := range units {
		g := f.Graph()
		// the positional accesses, grouped by the list they subscript (one obligation per list and function,
		// however many times its first/last element is read)
		type access struct {
			ix *ast.IndexExpr
			n  *cfgx.Node
		}
		groups := map[string][]access{}
		var keys []string
		for _, n := range g.Nodes {
			if n.AST == nil {
				continue
			}
			ir.Walk(n.AST, false, func(x ast.Node) {
				ix, ok := x.(*ast.IndexExpr)
				if !ok {
					return
				}
				if _, isSlice := f.TypeOf(ix.X).Underlying().(*types.Slice); !isSlice {
					return
				}
				positional := false
				if cv, isConst := f.ConstInt(ix.Index); isConst {
					positional = true
					// the pieces slices.Chunk yields are never empty: piece[0] needs no test
					if cv == 0 && chunkPiece(f, f.ObjOf(ix.X)) {
						positional = false
					}
				} else if be, ok := ast.Unparen(ix.Index).(*ast.BinaryExpr); ok && be.Op == token.SUB {
					if lx := lenOf(f, be.X); lx != nil && sameLvalue(f, lx, ix.X) {
						positional = true
					}
				}
				if !positional {
					return
				}
				// a window cut with an explicit upper bound (`hs := headers[off:][:n]`) has the length the code
				// computed, not the length a peer chose: whether n ≥ 1 is arithmetic this rule does not do (the
				// un-windowed `headers[off]` it stands for was never a positional access either)
				if o := f.ObjOf(ast.Unparen(ix.X)); o != nil {
					if defs := wholeDefs(f, o); len(defs) == 1 && defs[0].RHS != nil {
						if se, isSlice := ast.Unparen(defs[0].RHS).(*ast.SliceExpr); isSlice && se.High != nil {
							return
						}
					}
				}
				k := ir.ExprString(ix.X)
				if _, seen := groups[k]; !seen {
					keys = append(keys, k)
				}
				groups[k] = append(groups[k], access{ix, n})
			})
		}
		if len(keys) == 0 {
			continue
		}
		c.VisitGraph(f)
		sort.Strings(keys)
		for _, k := range keys {
			ob := c.Ob(f, "positional-index-after-length-test:"+k, groups[k][0].ix.Pos())
			good := true
			for _, a := range groups[k] {
				ix, n := a.ix, a.n
				var edges []*cfgx.Edge
				for _, m := range g.Nodes {
					if m.AST == nil || m.Block == nil || m.Block.Cond != m.AST || len(m.Succs) != 2 {
						continue
					}
					be, ok := ast.Unparen(m.AST.(ast.Expr)).(*ast.BinaryExpr)
					if !ok {
						continue
					}
					isLen := func(e ast.Expr) bool {
						e = ast.Unparen(e)
						if call, ok := e.(*ast.CallExpr); ok && len(call.Args) == 1 {
							if tv, ok := f.Info().Types[call.Fun]; ok && tv.IsType() {
								e = ast.Unparen(call.Args[0]) // uint64(len(X))
							}
						}
						lx := lenOf(f, e)
						return lx != nil && sameLvalue(f, lx, ix.X)
					}
					lenLeft, lenRight := isLen(be.X), isLen(be.Y)
					if !lenLeft && !lenRight {
						continue
					}
					op := be.Op
					if lenRight && !lenLeft {
						switch op {
						case token.LSS:
							op = token.GTR
						case token.LEQ:
							op = token.GEQ
						case token.GTR:
							op = token.LSS
						case token.GEQ:
							op = token.LEQ
						}
					}
					switch op {
					case token.NEQ, token.LSS, token.LEQ:
						// len != n / len < n / len <= n: the list is as long as expected on the false side
						edges = append(edges, m.Succs[1])
					case token.EQL:
						other := be.Y
						if lenRight && !lenLeft {
							other = be.X
						}
						if v, ok := f.ConstInt(other); ok && v == 0 {
							edges = append(edges, m.Succs[1]) // len == 0: non-empty on the false side
						} else {
							edges = append(edges, m.Succs[0])
						}
					case token.GTR, token.GEQ:
						edges = append(edges, m.Succs[0])
					}
				}
				if !(len(edges) > 0 && f.OnlyVia(n, edges)) {
					good = false
					ob.Bad(nil, "%s is evaluated at %s on a path that did not pass a test of the list's length: a peer that sends a shorter (or empty) list makes the index go out of range, and the sync workers do not recover from panics", ir.ExprString(ix), c.P.Pos(ix.Pos()))
					break
				}
			}
			if good {
				ob.OK("%d access(es), each after a test of the list's length", len(groups[k]))
			}
		}
	}
}

// chunkPiece reports whether obj is the loop variable of `for obj := range slices.Chunk(list, n)` (the library
// documents that every piece it yields holds at least one element).
func chunkPiece(f *ir.Func, obj types.Object) bool {
	if obj == nil {
		return false
	}
	found := false
	ir.Walk(f.Body, true, func(x ast.Node) {
		rs, ok := x.(*ast.RangeStmt)
		if !ok || rs.Key == nil || rs.Value != nil || f.ObjOf(rs.Key) != obj {
			return
		}
		if call, ok := ast.Unparen(rs.X).(*ast.CallExpr); ok {
			if fn := f.Callee(call); fn != nil && fn.Pkg() != nil && fn.Pkg().Path() == "slices" && fn.Name() == "Chunk" {
				found = true
			}
		}
	})
	return found
}
