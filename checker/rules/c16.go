package rules

import (
	"go/ast"
	"go/token"
	"go/types"

	"sialint/internal/cfgx"
	"sialint/internal/ir"
)

func init() {
	Explanations["C16"] = "Decides structural necessary conditions of 'formation/renewal yields a confirmable contract or leaves no trace': (R1, host) after every successful Wallet.FundV2Transaction(&T) a deferred ReleaseInputs covering T is registered before any other exit; with the deferred calls made explicit before every return and flag values followed per path, every exit reachable after the funding passes ReleaseInputs for T or the success edge of the wallet broadcast (so a disarming flag of either polarity is set only after the broadcast succeeded, and the release does not depend on a variable that failure exits shadow); and no store that replaces or shrinks T / T.SiacoinInputs can reach an exit without a restoring append (otherwise the deferred release misses the host's inputs); (R2, renter) in every renter function that funds a transaction, every return that is not definitely a success return and is reachable from the funding success edge is preceded by ReleaseInputs of that transaction; (R3) AddV2Contract/RenewV2Contract are dominated by the success edge of AddV2PoolTransactions for the same transaction set, and the wallet broadcast follows the contractor call; (R4) wherever package rhp builds a TransactionSet value or hands (basis, transactions) to the pool or the wallet, basis and transactions come from the same origin — two fields of one request/response value, or two results of one call (re-slicing allowed) — so a set is never labelled with a basis its proofs were not produced for. Signature and funding checks of the renter are decided under C10.R1/R2, the host's signature checks under C08.R4. (R5) the guard table of C10.R1 restricted to RPCFormContract, RPCRenewContract and rpcRefreshContract: success only after the host's signatures verified over the locally built contract / renewal. (R6) in wallet.ReleaseInputs no iteration over a transaction's SiacoinInputs reaches the loop head again without delete(locked, …); (R7) in the Server method that calls rhp4.ReadID the read is reached only after SetDeadline / SetReadDeadline with a time on the same stream. NOT decided: that the set confirms once mined, behaviour when the final response is lost after the contract is recorded."

	register(&Rule{ID: "C16.R1", Prop: "C16", Floor: 9, Doc: "host: funded inputs are released on every failure exit (deferred release registered first, disarmed only after broadcast, transaction not shrunk)", Run: c16r1})
	register(&Rule{ID: "C16.R2", Prop: "C16", Floor: 3, Doc: "renter: every non-success return after funding is preceded by ReleaseInputs", Run: c16r2})
	register(&Rule{ID: "C16.R4", Prop: "C16", Floor: 10, Doc: "a transaction set always travels with the basis it was produced for", Run: c16r4})
	register(&Rule{ID: "C16.R6", Prop: "C16", Floor: 1, Doc: "the wallet's ReleaseInputs removes the reservation of every siacoin input it walks (no input is skipped)", Run: c16r6})
	register(&Rule{ID: "C16.R7", Prop: "C16", Floor: 1, Doc: "the host dispatcher sets a deadline covering reads before it reads from the stream (an abandoned formation ends and releases)", Run: c16r7})
	register(&Rule{ID: "C16.R5", Prop: "C16", Floor: 12, Doc: "renter: formation, renewal and refresh report success only after the host's signatures were verified over the locally built contract / renewal and the returned set was checked (the guard table of C10.R1 for these three)", Run: func(c *Ctx) {
		c10guards(c, map[string]bool{"RPCFormContract": true, "RPCRenewContract": true, "rpcRefreshContract": true})
	}})
	register(&Rule{ID: "C16.R3", Prop: "C16", Floor: 3, Doc: "contract recorded only after the full set was accepted by the pool; broadcast after recording", Run: c16r3})
}

// addrOfVar returns the variable x of an argument &x.
func addrOfVar(f *ir.Func, e ast.Expr) types.Object {
	e = ast.Unparen(e)
	// through a pointer conversion (`P(&v)` in a generic helper)
	for {
		call, ok := e.(*ast.CallExpr)
		if !ok || len(call.Args) != 1 {
			break
		}
		if tv, isT := f.Info().Types[call.Fun]; !isT || !tv.IsType() {
			if _, isIdent := ast.Unparen(call.Fun).(*ast.Ident); !isIdent || f.Callee(call) != nil {
				break
			}
			if _, isPtr := f.TypeOf(call).Underlying().(*types.Pointer); !isPtr {
				if _, isTP := f.TypeOf(call).(*types.TypeParam); !isTP {
					break
				}
			}
		}
		e = ast.Unparen(call.Args[0])
	}
	if u, ok := e.(*ast.UnaryExpr); ok && u.Op == token.AND {
		return f.ObjOf(u.X)
	}
	return nil
}

func c16r1(c *Ctx) {
	h := getHostAPI(c.P)
	fund := c.P.Method("rhp", "Wallet", "FundV2Transaction")
	release := c.P.Method("rhp", "Wallet", "ReleaseInputs")
	broadcastFn := c.P.Method("rhp", "Wallet", "BroadcastV2TransactionSet")
	for _, f := range h.handlers {
		for _, call := range f.CallsTo(false, fund) {
			txn := addrOfVar(f, call.Expr.Args[0])
			if txn == nil {
				continue
			}
			g := f.Graph()
			c.VisitGraph(f)
			chk := f.CheckOf(call.Expr)
			// deferred releases of txn
			type rel struct {
				node *cfgx.Node
				flag types.Object
			}
			var rels []rel
			// with the deferred calls made explicit the closure's own conditions are followed per path (below)
			fdv := h.vsD.Of(f.Base)
			useD := fdv != nil && !hasDeferredRelease(fdv, release)
			for _, d := range f.Defers() {
				body := ast.Node(d.Stmt.Call)
				var scope *ir.Func = f
				if d.Lit != nil {
					body, scope = d.Lit.Body, d.Lit
				}
				covers := false
				for _, rc := range scope.CallsIn(body, false) {
					if rc.Fn == release.Origin() {
						for _, a := range rc.Expr.Args {
							if scope.MentionsObj(a, false, txn) {
								covers = true
							}
						}
					}
				}
				if !covers {
					continue
				}
				r := rel{node: d.Node}
				if d.Lit != nil && !useD {
					// inside the deferred closure the release may be skipped only on the true edge of a boolean flag
					lg := d.Lit.Graph()
					cut := map[*cfgx.Edge]bool{}
					for _, n := range lg.Nodes {
						if n.Block != nil && n.Block.Cond == n.AST && len(n.Succs) == 2 {
							if o := d.Lit.ObjOf(n.AST.(ast.Expr)); o != nil {
								if b, ok := o.Type().Underlying().(*types.Basic); ok && b.Kind() == types.Bool {
									cut[n.Succs[0]] = true
								}
							}
						}
					}
					isRelCall := func(n *cfgx.Node) bool { _, ok := d.Lit.NodeCallsTo(n, release); return ok }
					vs := lg.Explore([]*cfgx.Visit{cfgx.StartAt(lg.Entry, 0)}, cfgx.Walker{
						AtNode: func(n *cfgx.Node, s cfgx.State) (cfgx.State, bool) { return s, !isRelCall(n) },
						OnEdge: func(e *cfgx.Edge, s cfgx.State) (cfgx.State, bool) { return s, !cut[e] },
					})
					for _, v := range vs {
						if v.Node == lg.Exit {
							condOb := c.Ob(f, "deferred-release-unconditional", d.Node.Pos())
							condOb.Bad(nil, "the deferred closure registered at %s can finish without calling ReleaseInputs on a path that is not guarded by a boolean 'already broadcast' flag (e.g. it depends on an error variable that later failure exits shadow): failed attempts keep the host's inputs reserved", c.P.Pos(d.Node.Pos()))
						}
					}
				}
				// the disarming flag: `if flag { return }` at the top of the literal
				if d.Lit != nil {
					for _, n := range d.Lit.Graph().Nodes {
						if n.Block != nil && n.Block.Cond == n.AST && len(n.Succs) == 2 {
							if o := d.Lit.ObjOf(n.AST.(ast.Expr)); o != nil {
								if b, ok := o.Type().Underlying().(*types.Basic); ok && b.Kind() == types.Bool {
									r.flag = o
								}
							}
						}
					}
				}
				rels = append(rels, r)
			}
			ob := c.Ob(f, "release-deferred-first", call.Pos())
			if len(rels) == 0 {
				ob.Bad(nil, "no deferred Wallet.ReleaseInputs covers the transaction funded at %s", c.P.Pos(call.Pos()))
				continue
			}
			isRel := func(n *cfgx.Node) bool {
				for _, r := range rels {
					if r.node == n {
						return true
					}
				}
				return false
			}
			if v, leak := f.ReachableFromEdges(chk.Succ, isRel)[g.Exit]; leak {
				ob.Bad(c.Witness(v), "an exit is reachable after Wallet.FundV2Transaction succeeded and before the deferred ReleaseInputs is registered: the host's inputs stay reserved for the whole reservation period")
			} else {
				ob.OK("every path from the funding success edge registers the deferred release before any exit")
			}
			// what the deferred release and its disarming flag are for, decided on the view with deferred calls made
			// explicit (flag values are tracked per path there, whatever the flag's polarity): after a successful
			// funding every exit passes ReleaseInputs for the transaction or a successful broadcast
			if fd := fdv; useD {
				ob2 := c.Ob(f, "release-disarmed-only-after-broadcast", rels[0].node.Pos())
				gd := fd.Graph()
				var from []*cfgx.Edge
				var txnD types.Object
				for _, fc := range fd.CallsTo(false, fund) {
					if c.P.OrigNode(fc.Expr) == c.P.OrigNode(call.Expr) {
						from = append(from, fd.CheckOf(fc.Expr).Succ...)
						txnD = addrOfVar(fd, fc.Expr.Args[0])
					}
				}
				cut := map[*cfgx.Edge]bool{}
				for _, bc := range fd.CallsTo(false, broadcastFn) {
					for _, e := range fd.CheckOf(bc.Expr).Succ {
						cut[e] = true
					}
				}
				releases := func(n *cfgx.Node) bool {
					for _, rc := range fd.NodeCalls(n) {
						if rc.Fn == release.Origin() {
							for _, a := range rc.Expr.Args {
								if txnD != nil && fd.MentionsObj(a, false, txnD) {
									return true
								}
							}
						}
					}
					return false
				}
				var st []*cfgx.Visit
				for _, e := range from {
					st = append(st, cfgx.StartAfter(e, 0))
				}
				var leak *cfgx.Visit
				for _, v := range fd.ExploreFeasible(st, cfgx.Walker{
					AtNode: func(n *cfgx.Node, s cfgx.State) (cfgx.State, bool) { return s, !releases(n) },
					OnEdge: func(e *cfgx.Edge, s cfgx.State) (cfgx.State, bool) { return s, !cut[e] },
				}) {
					if v.Node == gd.Exit {
						leak = v
					}
				}
				switch {
				case len(from) == 0 || txnD == nil:
					ob2.Unknown("the funding call was not found in the view with explicit deferred calls")
				case leak != nil:
					ob2.Bad(c.Witness(leak), "after Wallet.FundV2Transaction succeeded an exit is reachable that neither releases the transaction's inputs nor follows a successful Wallet.BroadcastV2TransactionSet (the deferred release is disarmed too early, or depends on a variable that failure exits shadow): the inputs stay reserved")
				default:
					ob2.OK("every exit after funding releases the inputs or follows a successful broadcast")
				}
				goto shrink
			}
			// (fallback when the deferred calls could not be made explicit) disarming flag only after successful broadcast
			for _, r := range rels {
				if r.flag == nil {
					continue
				}
				ob2 := c.Ob(f, "release-disarmed-only-after-broadcast", r.node.Pos())
				var bEdges []*cfgx.Edge
				for _, bc := range f.CallsTo(false, broadcastFn) {
					bEdges = append(bEdges, f.CheckOf(bc.Expr).Succ...)
				}
				good := true
				sets := 0
				for _, n := range g.Nodes {
					if n.AST == nil {
						continue
					}
					for _, w := range f.WritesIn(n.AST, false) {
						if f.ObjOf(w.LHS) != r.flag || w.Tok == token.DEFINE && w.RHS == nil {
							continue
						}
						if w.RHS != nil {
							if id, ok := ast.Unparen(w.RHS).(*ast.Ident); ok && id.Name == "false" {
								continue
							}
						}
						if _, isSpec := w.Stmt.(*ast.ValueSpec); isSpec && w.RHS == nil {
							continue
						}
						sets++
						if !f.OnlyVia(n, bEdges) {
							good = false
							ob2.Pos = c.P.Pos(n.Pos())
						}
					}
				}
				ob2.Check(good && sets > 0, nil, "the flag that disarms the deferred release is set on a path that has not passed a successful Wallet.BroadcastV2TransactionSet: a failure after that point keeps the inputs reserved")
			}
		shrink:
			// shrinking / replacing stores
			ob3 := c.Ob(f, "funded-transaction-not-shrunk", call.Pos())
			isRestore := func(n *cfgx.Node) bool {
				if n.AST == nil {
					return false
				}
				for _, w := range f.WritesIn(n.AST, false) {
					if sel, ok := ast.Unparen(w.LHS).(*ast.SelectorExpr); ok && sel.Sel.Name == "SiacoinInputs" && f.ObjOf(sel.X) == txn && w.RHS != nil {
						if ac, ok := ast.Unparen(w.RHS).(*ast.CallExpr); ok {
							if id, ok := ac.Fun.(*ast.Ident); ok && id.Name == "append" && len(ac.Args) > 1 && sameLvalue(f, ac.Args[0], w.LHS) {
								return true
							}
						}
					}
				}
				return false
			}
			afterFund := f.ReachableFromEdges(chk.Succ, nil)
			bad := false
			for _, n := range g.Nodes {
				if n.AST == nil || afterFund[n] == nil || isRestore(n) {
					continue
				}
				shrinks := false
				for _, w := range f.WritesIn(n.AST, false) {
					l := ast.Unparen(w.LHS)
					if id, ok := l.(*ast.Ident); ok && f.ObjOf(id) == txn && w.Tok == token.ASSIGN {
						shrinks = true
					}
					if sel, ok := l.(*ast.SelectorExpr); ok && sel.Sel.Name == "SiacoinInputs" && f.ObjOf(sel.X) == txn {
						shrinks = true
					}
				}
				if !shrinks {
					continue
				}
				var st []*cfgx.Visit
				for _, e := range n.Succs {
					st = append(st, cfgx.StartAfter(e, 0))
				}
				if v, leak := g.Reach(st, isRestore)[g.Exit]; leak {
					ob3.Pos = c.P.Pos(n.Pos())
					ob3.Bad(c.Witness(v), "the funded transaction's inputs are replaced/shrunk at %s and an exit is reachable before they are restored: the deferred ReleaseInputs then misses the host's own inputs", c.P.Pos(n.Pos()))
					bad = true
					break
				}
			}
			if !bad {
				ob3.OK("no replacing store to the funded transaction can reach an exit unrestored")
			}
		}
	}
}

// hasDeferredRelease: a defer statement calling ReleaseInputs is still present in f (it could not be made explicit).
func hasDeferredRelease(f *ir.Func, release *types.Func) bool {
	found := false
	ir.Walk(f.Body, false, func(n ast.Node) {
		if ds, ok := n.(*ast.DeferStmt); ok {
			for _, rc := range f.CallsIn(ds.Call, true) {
				if rc.Fn == release.Origin() {
					found = true
				}
			}
		}
	})
	return found
}

func c16r2(c *Ctx) {
	// renter-side funders: package rhp functions (not Server methods) calling an interface method FundV2Transaction
	// (helpers and local closures such as an `abort(err)` that releases and returns are expanded)
	for _, f := range c.P.Views("rhp", ir.ExpandOpt{Key: "all"}).Roots {
		if rn := recvNamed(f.Obj); rn != nil && rn.Obj().Name() == "Server" {
			continue
		}
		for _, call := range f.Calls(false) {
			if call.Fn == nil || call.Fn.Name() != "FundV2Transaction" || len(call.Expr.Args) < 1 {
				continue
			}
			txn := addrOfVar(f, call.Expr.Args[0])
			if txn == nil {
				continue
			}
			g := f.Graph()
			c.VisitGraph(f)
			chk := f.CheckOf(call.Expr)
			ob := c.Ob(f, "release-before-every-failure-return", call.Pos())
			if len(chk.Succ) == 0 {
				ob.Unknown("the result of FundV2Transaction is not tested")
				continue
			}
			// the funded transaction may travel on in a field of a local record (`n := negotiation{txn: formationTxn}`;
			// the record's methods sign and complete n.txn): that field names the same reserved inputs
			type fieldOf struct {
				rec types.Object
				fld *types.Var
			}
			var carriers []fieldOf
			for _, w := range f.WritesIn(f.Body, false) {
				cl, isLit := ast.Unparen(w.RHS).(*ast.CompositeLit)
				if w.RHS == nil || !isLit {
					continue
				}
				rec := f.ObjOf(ast.Unparen(w.LHS))
				if rec == nil {
					continue
				}
				for _, el := range cl.Elts {
					if kv, isKV := el.(*ast.KeyValueExpr); isKV && f.ObjOf(ast.Unparen(kv.Value)) == txn {
						if k, isID := kv.Key.(*ast.Ident); isID {
							if st, isStruct := f.TypeOf(cl).Underlying().(*types.Struct); isStruct {
								for i := 0; i < st.NumFields(); i++ {
									if st.Field(i).Name() == k.Name {
										carriers = append(carriers, fieldOf{rec, st.Field(i)})
									}
								}
							}
						}
					}
				}
			}
			// … or in a local that is a whole copy of it (the record split into its fields)
			copies := map[types.Object]bool{}
			for _, w := range f.WritesIn(f.Body, false) {
				if w.RHS != nil && f.ObjOf(ast.Unparen(w.RHS)) == txn {
					if o := f.ObjOf(ast.Unparen(w.LHS)); o != nil && o != txn {
						if _, isID := ast.Unparen(w.LHS).(*ast.Ident); isID {
							copies[o] = true
						}
					}
				}
			}
			mentionsFunded := func(a ast.Expr) bool {
				if f.MentionsObj(a, false, txn) {
					return true
				}
				for o := range copies {
					if f.MentionsObj(a, false, o) {
						return true
					}
				}
				hit := false
				ast.Inspect(a, func(y ast.Node) bool {
					if sel, isSel := y.(*ast.SelectorExpr); isSel {
						for _, cr := range carriers {
							if f.FieldOf(sel) == cr.fld && f.ObjOf(ast.Unparen(sel.X)) == cr.rec {
								hit = true
							}
						}
					}
					return true
				})
				return hit
			}
			isRelease := func(n *cfgx.Node) bool {
				for _, rc := range f.NodeCalls(n) {
					if rc.Fn != nil && rc.Fn.Name() == "ReleaseInputs" {
						for _, a := range rc.Expr.Args {
							if mentionsFunded(a) {
								return true
							}
						}
					}
				}
				return false
			}
			// a deferred release (with or without a disarming flag) also counts
			reach := f.ReachableFromEdges(chk.Succ, func(n *cfgx.Node) bool {
				if isRelease(n) {
					return true
				}
				if ds, ok := n.AST.(*ast.DeferStmt); ok {
					for _, rc := range f.CallsIn(ds.Call, true) {
						if rc.Fn != nil && rc.Fn.Name() == "ReleaseInputs" {
							return true
						}
					}
				}
				return false
			})
			bad := false
			n := 0
			for _, r := range g.Returns() {
				k := f.ClassifyReturn(r)
				if k == ir.RetSuccess {
					continue
				}
				n++
				if v, ok := reach[r]; ok {
					ob.Pos = c.P.Pos(r.Pos())
					ob.Bad(c.Witness(v), "the return at %s (%s) is reachable after the renter's inputs were reserved without ReleaseInputs: repeated failures exhaust the renter's spendable outputs", c.P.Pos(r.Pos()), k)
					bad = true
					break
				}
			}
			if !bad {
				ob.OK("%d failure returns, each preceded by ReleaseInputs", n)
			}
		}
	}
}

func c16r3(c *Ctx) {
	h := getHostAPI(c.P)
	addPool := c.P.Method("rhp", "ChainManager", "AddV2PoolTransactions")
	broadcastFn := c.P.Method("rhp", "Wallet", "BroadcastV2TransactionSet")
	for _, f := range h.handlers {
		for _, sink := range f.CallsTo(false, h.addC, h.renewC) {
			g := f.Graph()
			c.VisitGraph(f)
			sn := g.NodeContaining(sink.Pos())
			ob := c.Ob(f, "pool-accepts-set-before:"+sink.Fn.Name(), sink.Pos())
			// the set variable inside TransactionSet{Transactions: S, Basis: B}
			var set, basis types.Object
			fromLit := func(e ast.Expr) (s, b types.Object) {
				if cl, ok := ast.Unparen(e).(*ast.CompositeLit); ok {
					for _, el := range cl.Elts {
						if kv, ok := el.(*ast.KeyValueExpr); ok {
							if k, ok := kv.Key.(*ast.Ident); ok {
								switch k.Name {
								case "Transactions":
									s = f.ObjOf(kv.Value)
								case "Basis":
									b = f.ObjOf(kv.Value)
								}
							}
						}
					}
				}
				return
			}
			set, basis = fromLit(origin(f, sink.Expr.Args[0]))
			if argObj := f.ObjOf(sink.Expr.Args[0]); set == nil && argObj != nil {
				// a variable written on several paths (a helper's result with zero values on its failure returns):
				// the definitions that reach the sink decide
				agree := true
				for _, d := range ReachingDefs(f, argObj, sn) {
					if d == nil || d.AST == nil {
						agree = false
						continue
					}
					for _, w := range f.WritesIn(d.AST, false) {
						if f.ObjOf(w.LHS) != argObj {
							continue
						}
						if w.RHS == nil {
							agree = false
							continue
						}
						s2, b2 := fromLit(w.RHS)
						if s2 == nil || (set != nil && (s2 != set || b2 != basis)) {
							agree = false
						}
						set, basis = s2, b2
					}
				}
				if !agree {
					set = nil
				}
			}
			if set == nil {
				ob.Unknown("the transaction set handed to %s is not a local variable", sink.Fn.Name())
				continue
			}
			var edges []*cfgx.Edge
			for _, pc := range f.CallsTo(false, addPool) {
				if len(pc.Expr.Args) == 2 && f.ObjOf(pc.Expr.Args[1]) == set && (basis == nil || f.ObjOf(pc.Expr.Args[0]) == basis) {
					edges = append(edges, f.CheckOf(pc.Expr).Succ...)
				}
			}
			ob.Check(f.OnlyVia(sn, edges), nil, "%s records the contract at %s without the full transaction set having been accepted by the transaction pool first: an invalid set leaves a recorded contract that can never confirm", sink.Fn.Name(), c.P.Pos(sink.Pos()))

			ob2 := c.Ob(f, "broadcast-after:"+sink.Fn.Name(), sink.Pos())
			sinkOK := f.CheckOf(sink.Expr).Succ
			good := false
			for _, bc := range f.CallsTo(false, broadcastFn) {
				bn := g.NodeContaining(bc.Pos())
				isSet := func(e ast.Expr) bool {
					if f.ObjOf(e) == set {
						return true
					}
					// the Transactions field of the very value recorded
					sel, ok := ast.Unparen(e).(*ast.SelectorExpr)
					return ok && sel.Sel.Name == "Transactions" && f.ObjOf(sel.X) != nil && f.ObjOf(sel.X) == f.ObjOf(sink.Expr.Args[0])
				}
				if f.OnlyVia(bn, sinkOK) && len(bc.Expr.Args) == 2 && isSet(bc.Expr.Args[1]) {
					good = true
				}
			}
			ob2.Check(good, nil, "the wallet broadcast of the set is not on the success edge of %s: the set is broadcast although the host recorded no contract (or never broadcast)", sink.Fn.Name())
		}
	}
}

// c16r4: (basis, transactions) pairs come from one origin.
func c16r4(c *Ctx) {
	tsT := c.P.Named("rhp", "TransactionSet")
	sameOrigin := func(f *ir.Func, b, t ast.Expr) (bool, string) {
		t = ast.Unparen(t)
		if se, ok := t.(*ast.SliceExpr); ok {
			t = ast.Unparen(se.X)
		}
		b = ast.Unparen(b)
		// (each may have been copied once into a field of a record that was split: `x.basis = req.Basis`)
		if _, isID := b.(*ast.Ident); isID {
			if o, isSel := ast.Unparen(origin(f, b)).(*ast.SelectorExpr); isSel {
				b = o
			}
		}
		if _, isID := t.(*ast.Ident); isID {
			if o, isSel := ast.Unparen(origin(f, t)).(*ast.SelectorExpr); isSel {
				t = o
			}
		}
		bs, bIsSel := b.(*ast.SelectorExpr)
		ts, tIsSel := t.(*ast.SelectorExpr)
		if bIsSel && tIsSel {
			if sameLvalue(f, bs.X, ts.X) {
				return true, ""
			}
			return false, "fields of different values"
		}
		bo, to := f.ObjOf(b), f.ObjOf(t)
		if bo == nil || to == nil {
			return false, "basis and transactions are neither two fields of one value nor two variables"
		}
		// some definition of the transactions variable must be a tuple assignment that also defines the basis variable,
		// and every later definition of either comes from such a joint assignment or a re-slice of itself
		joint := false
		for _, d := range wholeDefs(f, to) {
			var lhs []ast.Expr
			switch st := d.Stmt.(type) {
			case *ast.AssignStmt:
				lhs = st.Lhs
			case *ast.ValueSpec:
				for _, nm := range st.Names {
					lhs = append(lhs, nm)
				}
			}
			for _, l := range lhs {
				if f.ObjOf(l) == bo && len(lhs) > 1 && ir.TupleRHS(d.Stmt) != nil {
					joint = true
				}
			}
		}
		if joint {
			return true, ""
		}
		return false, "basis variable " + bo.Name() + " and transactions variable " + to.Name() + " are not produced by the same call"
	}
	// every function of the package with its helpers expanded, so that a (basis, set) pair handed to a helper is
	// judged by where the caller took it from
	for _, f := range c.P.Views("rhp", ir.ExpandOpt{Key: "all"}).Roots {
		for _, fn := range append([]*ir.Func{f}, f.Lits...) {
			ir.Walk(fn.Body, false, func(x ast.Node) {
				switch e := x.(type) {
				case *ast.CompositeLit:
					if !types.Identical(fn.TypeOf(e), tsT) {
						return
					}
					var b, t ast.Expr
					for _, el := range e.Elts {
						if kv, ok := el.(*ast.KeyValueExpr); ok {
							switch kv.Key.(*ast.Ident).Name {
							case "Basis":
								b = kv.Value
							case "Transactions":
								t = kv.Value
							}
						}
					}
					if b == nil || t == nil {
						return
					}
					c.Visit(1)
					ob := c.Ob(f, "basis-and-set-same-origin", e.Pos())
					ok, why := sameOrigin(fn, b, t)
					ob.Check(ok, nil, "the TransactionSet built at %s pairs basis %s with transactions %s (%s): the set's Merkle proofs are valid for another basis, so a pool other than the producer's rejects it although the RPC reported success", c.P.Pos(e.Pos()), ir.ExprString(b), ir.ExprString(t), why)
				case *ast.CallExpr:
					callee := fn.Callee(e)
					if callee == nil || (callee.Name() != "AddV2PoolTransactions" && callee.Name() != "BroadcastV2TransactionSet") || len(e.Args) != 2 {
						return
					}
					c.Visit(1)
					ob := c.Ob(f, "basis-and-set-same-origin:"+callee.Name(), e.Pos())
					ok, why := sameOrigin(fn, e.Args[0], e.Args[1])
					ob.Check(ok, nil, "%s at %s is given basis %s with transactions %s (%s)", callee.Name(), c.P.Pos(e.Pos()), ir.ExprString(e.Args[0]), ir.ExprString(e.Args[1]), why)
				}
			})
		}
	}
}

// c16r6: releasing inputs releases *every* input of the transactions it is given. In the wallet's ReleaseInputs each
// iteration over a transaction's siacoin inputs removes that input's reservation; an input that is skipped
// (unconfirmed parents, a special leaf index) stays reserved for the whole reservation period although the
// formation it was reserved for has failed.
func c16r6(c *Ctx) {
	locked := walletLockedField(c.P)
	raw := c.P.Fn("wallet", "SingleAddressWallet", "ReleaseInputs")
	f := c.P.Expand(raw, ir.ExpandOpt{Key: "all"})
	g := f.Graph()
	c.VisitGraph(f)
	n := 0
	deletesIn := func(fn *ir.Func, nd *cfgx.Node) bool {
		for _, call := range fn.NodeCalls(nd) {
			if id, ok := call.Expr.Fun.(*ast.Ident); ok && id.Name == "delete" && len(call.Expr.Args) == 2 && (fn.FieldOf(call.Expr.Args[0]) == locked || lhsFieldA(fn, call.Expr.Args[0]) == locked) {
				return true
			}
		}
		return false
	}
	unreserves := func(nd *cfgx.Node) bool {
		if deletesIn(f, nd) {
			return true
		}
		// a call through a function value that always holds a wallet method which removes the reservation on each of
		// its paths (`forEachSpentID(txns, sw.unlockUTXO)`)
		for _, call := range f.NodeCalls(nd) {
			if _, isID := ast.Unparen(call.Expr.Fun).(*ast.Ident); !isID || call.Fn == nil {
				continue
			}
			body := c.P.FuncOf(call.Fn)
			if body == nil || body.Pkg.PkgPath != ir.PkgPath("wallet") {
				continue
			}
			bg := body.Graph()
			if _, around := bg.Reach([]*cfgx.Visit{cfgx.StartAt(bg.Entry, 0)}, func(m *cfgx.Node) bool { return m.AST != nil && deletesIn(body, m) })[bg.Exit]; !around {
				return true
			}
		}
		return false
	}
	for _, head := range g.Nodes {
		rs, ok := head.AST.(*ast.RangeStmt)
		if !ok {
			continue
		}
		sel, ok := ast.Unparen(rs.X).(*ast.SelectorExpr)
		if !ok || sel.Sel.Name != "SiacoinInputs" {
			continue
		}
		n++
		ob := c.Ob(f, "every-input-released", rs.Pos())
		var body *cfgx.Edge
		for _, e := range head.Succs {
			if e.Kind == cfgx.Br0 {
				body = e
			}
		}
		if body == nil {
			ob.Unknown("loop body edge not found")
			continue
		}
		v, skip := g.Reach([]*cfgx.Visit{cfgx.StartAfter(body, 0)}, func(nd *cfgx.Node) bool { return nd.AST != nil && unreserves(nd) })[head]
		if skip {
			// collect, then release: every iteration appends the input's id to a list, and a later loop over that list,
			// which no path to the exit avoids, removes the reservation of each element
			var list types.Object
			collects := func(nd *cfgx.Node) bool {
				if nd.AST == nil || !containsNode(rs.Body, nd.AST) {
					return false
				}
				for _, w := range f.WritesIn(nd.AST, false) {
					ac, isCall := ast.Unparen(w.RHS).(*ast.CallExpr)
					if w.RHS == nil || !isCall {
						continue
					}
					if id, isID := ac.Fun.(*ast.Ident); isID && id.Name == "append" && len(ac.Args) >= 2 && rs.Value != nil && f.MentionsObj(ac.Args[1], false, f.ObjOf(rs.Value)) {
						if o := f.ObjOf(ast.Unparen(w.LHS)); o != nil && f.ObjOf(ac.Args[0]) == o {
							list = o
							return true
						}
					}
				}
				return false
			}
			_, skipCollect := g.Reach([]*cfgx.Visit{cfgx.StartAfter(body, 0)}, collects)[head]
			released := false
			if !skipCollect && list != nil {
				for _, h2 := range g.Nodes {
					rs2, isRange := h2.AST.(*ast.RangeStmt)
					if !isRange || rs2 == rs || rs2.Value == nil {
						continue
					}
					src := f.ObjOf(ast.Unparen(rs2.X))
					if src == nil || (src != list && copySource(f, src) != list) {
						continue
					}
					var b2 *cfgx.Edge
					for _, e := range h2.Succs {
						if e.Kind == cfgx.Br0 {
							b2 = e
						}
					}
					if b2 == nil {
						continue
					}
					if _, skips := g.Reach([]*cfgx.Visit{cfgx.StartAfter(b2, 0)}, func(nd *cfgx.Node) bool { return nd.AST != nil && unreserves(nd) })[h2]; skips {
						continue
					}
					// no way from the collecting loop to the exit around the releasing loop
					var out []*cfgx.Visit
					for _, e := range head.Succs {
						if e.Kind != cfgx.Br0 {
							out = append(out, cfgx.StartAfter(e, 0))
						}
					}
					if _, around := g.Reach(out, func(nd *cfgx.Node) bool { return nd == h2 })[g.Exit]; !around {
						released = true
					}
				}
			}
			if released {
				skip = false
			}
		}
		if skip {
			ob.Bad(c.Witness(v), "an iteration over the inputs at %s can finish without removing the input's reservation: outputs reserved for a failed formation or renewal stay unusable until the reservation period ends", c.P.Pos(rs.Pos()))
		} else {
			ob.OK("every input's reservation is removed")
		}
	}
	if n == 0 {
		ir.Fail("wallet.ReleaseInputs does not walk the transactions' siacoin inputs")
	}
}

// c16r7: the host's RPC dispatcher sets a deadline that covers reads before it reads anything from the stream. The
// formation / renewal handlers wait for the renter's signatures after having funded the transaction; their deferred
// release runs only when the handler returns, which a silent renter prevents unless reads time out.
func c16r7(c *Ctx) {
	readID := c.P.FuncObj("rhp4", "ReadID")
	n := 0
	for _, raw := range c.P.MethodsOf("rhp", "Server") {
		if len(raw.CallsTo(false, readID)) == 0 {
			continue
		}
		f := raw
		g := f.Graph()
		for _, rc := range f.CallsTo(false, readID) {
			if len(rc.Expr.Args) == 0 {
				continue
			}
			stream := f.ObjOf(rc.Expr.Args[0])
			if stream == nil {
				continue
			}
			n++
			c.VisitGraph(f)
			ob := c.Ob(f, "reads-under-deadline", rc.Pos())
			sets := func(nd *cfgx.Node) bool {
				if nd.AST == nil {
					return false
				}
				if _, isDefer := nd.AST.(*ast.DeferStmt); isDefer {
					return false
				}
				for _, call := range f.NodeCalls(nd) {
					if call.Fn == nil || (call.Fn.Name() != "SetDeadline" && call.Fn.Name() != "SetReadDeadline") || len(call.Expr.Args) != 1 {
						continue
					}
					if rcv := call.Recv(); rcv == nil || f.ObjOf(rcv) != stream {
						continue
					}
					if cl, isLit := ast.Unparen(call.Expr.Args[0]).(*ast.CompositeLit); isLit && len(cl.Elts) == 0 {
						continue
					}
					return true
				}
				return false
			}
			rn := g.NodeContaining(rc.Pos())
			if _, bypass := g.Reach([]*cfgx.Visit{cfgx.StartAt(g.Entry, 0)}, sets)[rn]; bypass {
				ob.Bad(nil, "the dispatcher reads the RPC id at %s without a deadline covering reads on the stream: a renter that goes silent after the host funded a formation keeps the handler — and the host's reserved outputs and contract lock — for ever", c.P.Pos(rc.Pos()))
			} else {
				ob.OK("a read deadline is set before the first read")
			}
		}
	}
	if n == 0 {
		ir.Fail("host RPC dispatcher (Server method calling rhp4.ReadID) not found")
	}
}
