package rules

import (
	"fmt"
	"go/ast"
	"go/token"
	"go/types"
	"sort"
	"strings"

	"sialint/internal/cfgx"
	"sialint/internal/ir"
)

func init() {
	Explanations["C18"] = "Decides structural necessary conditions of 'limits and shutdown are honoured under any schedule': (R1) in the peer loop every path from a successful send on the per-peer semaphore reaches a receive from it, directly or as a deferred receive registered before any exit of the spawned handler goroutine; (R2) every path from a successful subnet-slot acquisition reaches its release in the same way; (R3) throughout the repository every successful ThreadGroup.Add/AddContext is followed on every path to the exit by its done function (deferred, called, or handed out in the returned closure); (R4) inside ThreadGroup the WaitGroup is incremented only under the mutex on the not-closed branch, the closed channel is closed only under the mutex on the not-closed branch, Wait runs without the mutex, and the method that waits reaches Wait on every path (a second Stop does not return early); (R5) the per-peer acquisition is a select without default (back-pressure, not dropping); (R6) every insertion into the peer table happens in the critical section of a comparison against the inbound cap whose rejecting side cannot reach the insertion; (R7) Close of server, wallet and syncer passes ThreadGroup.Stop on every path; (R8, thorough) the acquired-while-held graph over the repository's mutex fields, built from lockset states and a type-resolved call graph, has no cycle and no self-edge. (R9) in package syncer every return reachable after a registration (Add/Go) in a function-local sync.WaitGroup passes its Wait. (R10) gateway.Accept / gateway.Dial in a Syncer method is reached only after SetDeadline / SetReadDeadline with a time on the same connection; (R11) a net.IPNet literal in package syncer has IP = x.Mask(m) for its own Mask m. NOT decided: deadlock freedom through channels and condition variables, timing, liveness of shutdown."

	register(&Rule{ID: "C18.R1", Prop: "C18", Floor: 1, Doc: "per-peer slot: every path from the semaphore send reaches a receive (direct or deferred first in the handler goroutine)", Run: c18r1})
	register(&Rule{ID: "C18.R2", Prop: "C18", Floor: 1, Doc: "subnet slot: every path from a successful acquire reaches the release", Run: c18r2})
	register(&Rule{ID: "C18.R3", Prop: "C18", Floor: 4, Doc: "every ThreadGroup registration is paired with its done on all exits", Run: c18r3})
	register(&Rule{ID: "C18.R4", Prop: "C18", Floor: 4, Doc: "ThreadGroup internals: Add/close under the mutex on the not-closed branch, Wait outside it", Run: c18r4})
	register(&Rule{ID: "C18.R5", Prop: "C18", Floor: 1, Doc: "per-peer acquisition blocks (select without default)", Run: c18r5})
	register(&Rule{ID: "C18.R6", Prop: "C18", Floor: 1, Doc: "peer insertion and inbound-cap comparison share one critical section", Run: c18r6})
	register(&Rule{ID: "C18.R7", Prop: "C18", Floor: 3, Doc: "Close reaches ThreadGroup.Stop", Run: c18r7})
	register(&Rule{ID: "C18.R10", Prop: "C18", Floor: 1, Doc: "every gateway handshake is reached only after a deadline covering reads was set on the connection", Run: c18r10})
	register(&Rule{ID: "C18.R11", Prop: "C18", Floor: 1, Doc: "the subnet key of the in-flight limit is built from the address masked with the subnet's mask", Run: c18r11})
	register(&Rule{ID: "C18.R9", Prop: "C18", Floor: 1, Doc: "goroutines registered in a function's local WaitGroup are waited for before every return that follows a registration", Run: c18r9})
	register(&Rule{ID: "C18.R8", Prop: "C18", Floor: 1, Thorough: true, Doc: "lock order: acquired-while-held graph over the repository's mutexes is acyclic", Run: c18r8})
}

// recvFrom reports whether root contains a receive `<-ch` from channel object ch.
func recvFrom(f *ir.Func, root ast.Node, ch types.Object, intoLits bool) bool {
	found := false
	ir.Walk(root, intoLits, func(n ast.Node) {
		if u, ok := n.(*ast.UnaryExpr); ok && u.Op == token.ARROW && f.ObjOf(u.X) == ch {
			found = true
		}
	})
	return found
}

// litReleasesFirst reports whether function literal lit registers, before any
// of its exits, a defer (or makes a call) for which isRelease holds.
func litReleasesFirst(lit *ir.Func, isRelease func(fn *ir.Func, root ast.Node) bool) bool {
	g := lit.Graph()
	rel := func(n *cfgx.Node) bool {
		if n.AST == nil {
			return false
		}
		if ds, ok := n.AST.(*ast.DeferStmt); ok {
			if l, ok := ast.Unparen(ds.Call.Fun).(*ast.FuncLit); ok {
				return isRelease(lit.P.LitOf(l), l.Body)
			}
			return isRelease(lit, ds.Call)
		}
		return isRelease(lit, n.AST)
	}
	_, leak := g.Reach([]*cfgx.Visit{cfgx.StartAt(g.Entry, 0)}, rel)[g.Exit]
	return !leak
}

// onceCopyOf follows `v := w` while v is defined exactly once anywhere in the declared function (also when v is a
// variable captured by the literal fn) and w is not written on any path after that copy: the variable the value
// was first held in.
func onceCopyOf(fn *ir.Func, o types.Object) types.Object {
	for i := 0; i < 4 && o != nil; i++ {
		defs := wholeDefs(fn, o)
		if len(defs) != 1 || defs[0].RHS == nil {
			return o
		}
		src, isVar := fn.ObjOf(ast.Unparen(defs[0].RHS)).(*types.Var)
		if !isVar || src.IsField() || types.Object(src) == o {
			return o
		}
		if _, isID := ast.Unparen(defs[0].RHS).(*ast.Ident); !isID {
			return o
		}
		// the unit that holds the copy
		top := fn.Top()
		var owner *ir.Func
		for _, u := range append([]*ir.Func{top}, top.Lits...) {
			if u.Body != nil && containsNode(u.Body, defs[0].LHS) {
				if owner == nil || containsNode(owner.Body, u.Body) {
					owner = u
				}
			}
		}
		if owner == nil {
			return o
		}
		g := owner.Graph()
		cn := g.NodeContaining(defs[0].LHS.Pos())
		if cn == nil {
			return o
		}
		var st []*cfgx.Visit
		for _, e := range cn.Succs {
			st = append(st, cfgx.StartAfter(e, 0))
		}
		for m := range g.Reach(st, nil) {
			if m.AST == nil {
				continue
			}
			for _, w := range owner.WritesIn(m.AST, true) {
				if owner.ObjOf(rootOfLvalue(w.LHS)) == types.Object(src) {
					return o
				}
			}
		}
		o = src
	}
	return o
}

// fieldInit: for `r.f` where the local r is defined once, by a literal `T{…, f: v, …}` or `&T{…}`, and r.f is not
// assigned afterwards: v.
func fieldInit(f *ir.Func, e ast.Expr) ast.Expr {
	sel, ok := ast.Unparen(e).(*ast.SelectorExpr)
	if !ok {
		return nil
	}
	root, isVar := f.ObjOf(ast.Unparen(sel.X)).(*types.Var)
	if !isVar || root.IsField() {
		return nil
	}
	defs := wholeDefs(f, root)
	if len(defs) != 1 || defs[0].RHS == nil {
		return nil
	}
	rhs := ast.Unparen(defs[0].RHS)
	if u, isAddr := rhs.(*ast.UnaryExpr); isAddr && u.Op == token.AND {
		rhs = ast.Unparen(u.X)
	}
	cl, isLit := rhs.(*ast.CompositeLit)
	if !isLit {
		return nil
	}
	// no later store into the field
	top := f.Top()
	for _, w := range top.WritesIn(top.Body, true) {
		if ws, isSel := ast.Unparen(w.LHS).(*ast.SelectorExpr); isSel && ws.Sel.Name == sel.Sel.Name && top.ObjOf(ast.Unparen(ws.X)) == types.Object(root) {
			return nil
		}
	}
	for _, el := range cl.Elts {
		if kv, isKV := el.(*ast.KeyValueExpr); isKV {
			if k, isID := kv.Key.(*ast.Ident); isID && k.Name == sel.Sel.Name {
				return kv.Value
			}
		}
	}
	return nil
}

// slotFuncs: every function unit of package syncer (roots of the expanded view set and their literals), with
// goroutine bodies brought to where they are started; the two subnet-slot operations stay calls.
func slotFuncs(c *Ctx) []*ir.Func {
	acq, rel := subnetSlotFns(c)
	vs := c.P.Views("syncer", ir.ExpandOpt{Key: "slots", GoLits: true, Stop: func(fn *types.Func) bool { return fn == acq || fn == rel }})
	var out []*ir.Func
	for _, f := range vs.Roots {
		if f.Obj == acq || f.Obj == rel {
			continue
		}
		out = append(out, f)
		out = append(out, f.Lits...)
	}
	return out
}

func c18r1(c *Ctx) {
	n := 0
	for _, f := range slotFuncs(c) {
		g := f.Graph()
		for _, node := range g.Nodes {
			send, ok := node.AST.(*ast.SendStmt)
			if !ok {
				continue
			}
			ch := f.ObjOf(send.Chan)
			if ch == nil {
				continue
			}
			// a local semaphore: chan struct{} created with make in this function
			if ct, ok := ch.Type().Underlying().(*types.Chan); !ok || !isEmptyStruct(ct.Elem()) {
				continue
			}
			if _, ok := ch.(*types.Var); !ok || ch.Parent() == ch.Pkg().Scope() {
				continue
			}
			n++
			c.VisitGraph(f)
			ob := c.Ob(f, "semaphore-released:"+ch.Name(), send.Pos())
			// the send node is evaluated up front by the select; the acquisition has happened in the body of its comm clause
			start := sendBodyEdges(g, node, send)
			released := func(m *cfgx.Node) bool {
				if m.AST == nil {
					return false
				}
				if gs, ok := m.AST.(*ast.GoStmt); ok {
					if l, ok := ast.Unparen(gs.Call.Fun).(*ast.FuncLit); ok {
						return litReleasesFirst(c.P.LitOf(l), func(fn *ir.Func, root ast.Node) bool { return recvFrom(fn, root, ch, false) })
					}
					return false
				}
				if _, isSend := m.AST.(*ast.SendStmt); isSend {
					return false
				}
				return recvFrom(f, m.AST, ch, false)
			}
			r := f.ReachableFromEdges(start, func(m *cfgx.Node) bool { return released(m) || m == node })
			if v, leak := r[g.Exit]; leak {
				ob.Bad(c.Witness(v), "the function can exit after taking a per-peer slot without returning it")
				continue
			}
			// re-entering the acquisition without release
			reenter := false
			for m := range r {
				for _, e := range m.Succs {
					if e.To == node {
						reenter = true
					}
				}
			}
			ob.Check(!reenter, nil, "a path from the slot acquisition at %s returns to the acquisition without the slot having been released or handed to a handler that releases it first: slots leak and the peer's RPCs stall", c.P.Pos(send.Pos()))
		}
	}
	if n == 0 {
		ir.Fail("no semaphore send found in Syncer methods")
	}
}

func isEmptyStruct(t types.Type) bool {
	st, ok := t.Underlying().(*types.Struct)
	return ok && st.NumFields() == 0
}

// sendBodyEdges returns the edges entering the body of the select clause whose comm is send.
func sendBodyEdges(g *cfgx.Graph, sendNode *cfgx.Node, send *ast.SendStmt) []*cfgx.Edge {
	var out []*cfgx.Edge
	for _, n := range g.Nodes {
		if n.Block == nil {
			continue
		}
		if cc, ok := n.Block.Stmt.(*ast.CommClause); ok && cc.Comm == ast.Stmt(send) && n.Block.Kind.String() == "SelectCaseBody" {
			for _, e := range n.Preds {
				if e.From.Block != n.Block {
					out = append(out, e)
				}
			}
		}
	}
	if len(out) == 0 {
		// plain send statement outside a select
		out = append(out, sendNode.Succs...)
	}
	return out
}

// slotTableField resolves the per-subnet in-flight table.
func slotTableField(c *Ctx) *types.Var {
	isTable := func(t types.Type) bool {
		mt, ok := t.Underlying().(*types.Map)
		return ok && isBasicKind(types.String)(mt.Key()) && isBasicKind(types.Int)(mt.Elem())
	}
	nt := c.P.Named("syncer", "Syncer")
	st := nt.Underlying().(*types.Struct)
	var cands []*types.Var
	for i := 0; i < st.NumFields(); i++ {
		fv := st.Field(i)
		if fv.Name() == "inflightSubnet" {
			return fv
		}
		if isTable(fv.Type()) {
			cands = append(cands, fv)
			continue
		}
		t := fv.Type()
		if pt, ok := t.Underlying().(*types.Pointer); ok {
			t = pt.Elem()
		}
		if in, ok := t.(*types.Named); ok && in.Obj().Pkg() == nt.Obj().Pkg() {
			if ist, ok := in.Underlying().(*types.Struct); ok {
				for j := 0; j < ist.NumFields(); j++ {
					if isTable(ist.Field(j).Type()) {
						cands = append(cands, ist.Field(j))
					}
				}
			}
		}
	}
	var out []*types.Var
	for _, fv := range cands {
		inc, dec := false, false
		for _, f := range c.P.PkgFuncs("syncer") {
			for _, fn := range append([]*ir.Func{f}, f.Lits...) {
				for _, w := range fn.WritesIn(fn.Body, false) {
					ix, ok := ast.Unparen(w.LHS).(*ast.IndexExpr)
					if !ok || fn.FieldOf(ix.X) != fv {
						continue
					}
					switch w.Tok {
					case token.INC, token.ADD_ASSIGN:
						inc = true
					case token.DEC, token.SUB_ASSIGN:
						dec = true
					}
				}
			}
		}
		if inc && dec {
			out = append(out, fv)
		}
	}
	if len(out) != 1 {
		ir.Fail("field syncer.Syncer.inflightSubnet not found (and no unique string→int table that is both incremented and decremented)")
	}
	return out[0]
}

// subnetSlotFns: the two Syncer methods that update the per-subnet in-flight
// table: the one reporting a bool takes a slot, the one without results gives it back.
func subnetSlotFns(c *Ctx) (acquire, release *types.Func) {
	closureForm := false
	// the table: Syncer.inflightSubnet, or else the one map[string]int held by the Syncer (directly or grouped into a
	// limiter type) whose entries the package both increments and decrements
	fld := slotTableField(c)
	var cands []*ir.Func
	for _, raw := range c.P.PkgFuncs("syncer") {
		if raw.Obj == nil || raw.Obj.Type().(*types.Signature).Recv() == nil {
			continue
		}
		// with lock-bracket helpers and the closures handed to them expanded
		f := c.P.Expand(raw, ir.ExpandOpt{Key: "unit"})
		isTable := func(fn *ir.Func, e ast.Expr) bool {
			return fn.FieldOf(e) == fld || fn.FieldOf(origin(fn, e)) == fld
		}
		writes := false
		for _, fn := range append([]*ir.Func{f}, f.Lits...) {
			for _, w := range fn.WritesIn(fn.Body, false) {
				if ix, ok := ast.Unparen(w.LHS).(*ast.IndexExpr); ok && isTable(fn, ix.X) {
					writes = true
				}
			}
			for _, call := range fn.Calls(false) {
				if id, ok := call.Expr.Fun.(*ast.Ident); ok && id.Name == "delete" && len(call.Expr.Args) == 2 && isTable(fn, call.Expr.Args[0]) {
					writes = true
				}
			}
		}
		if writes {
			cands = append(cands, raw)
		}
	}
	// a method that merely calls one of the others (the peer loop with the release expanded into it) is not a slot operation
	for _, f := range cands {
		wraps := false
		for _, g := range cands {
			if g != f && len(f.CallsTo(true, g.Obj)) > 0 {
				wraps = true
			}
		}
		if wraps {
			continue
		}
		res := f.Obj.Type().(*types.Signature).Results()
		switch {
		case res.Len() == 2 && isBasicKind(types.Bool)(res.At(1).Type()) && isNiladicFunc(res.At(0).Type()):
			// the acquisition hands back the function that gives the slot back: `release, ok := s.reserve(key)`
			if acquire != nil {
				ir.Fail("more than one method takes a subnet slot")
			}
			acquire, closureForm = f.Obj, true
		case res.Len() == 1 && isBasicKind(types.Bool)(res.At(0).Type()):
			if acquire != nil {
				ir.Fail("more than one method takes a subnet slot")
			}
			acquire = f.Obj
		case res.Len() == 0:
			if release != nil {
				ir.Fail("more than one method returns a subnet slot")
			}
			release = f.Obj
		}
	}
	slotMode = slotModeT{}
	if acquire != nil && release == nil && closureForm {
		// the returned literal must be the one that shrinks the table entry
		raw := c.P.FuncOf(acquire)
		shrinks := false
		for _, l := range raw.Lits {
			for _, w := range l.WritesIn(l.Body, false) {
				if ix, ok := ast.Unparen(w.LHS).(*ast.IndexExpr); ok && (l.FieldOf(ix.X) == fld || l.FieldOf(origin(l, ix.X)) == fld) && (w.Tok == token.DEC || w.Tok == token.SUB_ASSIGN) {
					shrinks = true
				}
			}
		}
		if shrinks {
			release = acquire
			slotMode = slotModeT{closure: true}
			return
		}
	}
	if acquire != nil && release == nil {
		// one function doing both, told apart by a bool parameter: the value under which the table entry grows takes a slot
		raw := c.P.FuncOf(acquire)
		f := c.P.Expand(raw, ir.ExpandOpt{Key: "unit"})
		var mode types.Object
		idx, k := -1, 0
		for _, fl := range f.Type.Params.List {
			for _, nm := range fl.Names {
				if isBasicKind(types.Bool)(f.Info().TypeOf(fl.Type)) {
					mode, idx = f.Info().Defs[nm], k
				}
				k++
			}
		}
		if mode != nil {
			g := f.Graph()
			var whenTrue, whenFalse []*cfgx.Edge
			for _, n := range g.Nodes {
				if n.Block != nil && n.Block.Cond == n.AST && len(n.Succs) == 2 && f.ObjOf(n.AST.(ast.Expr)) == mode {
					whenTrue, whenFalse = append(whenTrue, n.Succs[0]), append(whenFalse, n.Succs[1])
				}
			}
			var grows []*cfgx.Node
			for _, n := range g.Nodes {
				if n.AST == nil {
					continue
				}
				for _, w := range f.WritesIn(n.AST, false) {
					ix, ok := ast.Unparen(w.LHS).(*ast.IndexExpr)
					if !ok || (f.FieldOf(ix.X) != fld && f.FieldOf(origin(f, ix.X)) != fld) {
						continue
					}
					if w.Tok == token.INC || w.Tok == token.ADD_ASSIGN {
						grows = append(grows, n)
					} else if be, ok := ast.Unparen(w.RHS).(*ast.BinaryExpr); w.RHS != nil && ok && be.Op == token.ADD {
						grows = append(grows, n)
					}
				}
			}
			onTrue, onFalse := len(grows) > 0, len(grows) > 0
			for _, n := range grows {
				onTrue = onTrue && f.OnlyVia(n, whenTrue)
				onFalse = onFalse && f.OnlyVia(n, whenFalse)
			}
			if onTrue != onFalse {
				release = acquire
				slotMode = slotModeT{merged: true, idx: idx, acquireVal: onTrue}
			}
		}
	}
	if acquire == nil || release == nil {
		ir.Fail("subnet slot acquire/release methods not found (writers of Syncer.inflightSubnet)")
	}
	return
}

// slotModeT: when one function both takes and returns a subnet slot, the
// position of its bool mode parameter and the value that takes a slot.
type slotModeT struct {
	closure    bool // the acquisition returns the releasing function
	merged     bool
	idx        int
	acquireVal bool
}

var slotMode slotModeT

// slotCallIs reports whether call (to a slot operation) acts as an acquisition (want true) or a release.
func slotCallIs(f *ir.Func, call *ast.CallExpr, acquire bool) bool {
	if !slotMode.merged {
		return true
	}
	if slotMode.idx >= len(call.Args) {
		return false
	}
	tv, ok := f.Info().Types[call.Args[slotMode.idx]]
	if !ok || tv.Value == nil {
		return false
	}
	return (tv.Value.String() == "true") == (slotMode.acquireVal == acquire)
}

func c18r2(c *Ctx) {
	acq, rel := subnetSlotFns(c)
	n := 0
	// every function unit of the package with its helpers and goroutine bodies expanded; the two slot operations stay calls
	for _, f := range slotFuncs(c) {
		g := f.Graph()
		for _, call := range f.CallsTo(false, acq) {
			if !slotCallIs(f, call.Expr, true) {
				continue
			}
			n++
			c.VisitGraph(f)
			ob := c.Ob(f, "subnet-slot-released", call.Pos())
			chk := f.CheckOf(call.Expr)
			if len(chk.Succ) == 0 {
				ob.Unknown("the result of the acquisition is not tested")
				continue
			}
			key := call.Expr.Args[0]
			var relVar types.Object
			if slotMode.closure {
				if as, ok := g.NodeContaining(call.Pos()).AST.(*ast.AssignStmt); ok && len(as.Lhs) == 2 {
					relVar = f.ObjOf(as.Lhs[0])
				}
				if relVar == nil || relVar.Name() == "_" {
					ob.Bad(nil, "the releasing function returned by the acquisition at %s is discarded", c.P.Pos(call.Pos()))
					continue
				}
			}
			isRel := func(fn *ir.Func, root ast.Node) bool {
				if slotMode.closure {
					found := false
					ir.Walk(root, true, func(x ast.Node) {
						if ce, ok := x.(*ast.CallExpr); ok {
							if id, ok := ast.Unparen(ce.Fun).(*ast.Ident); ok && fn.ObjOf(id) == relVar {
								found = true
							}
						}
					})
					return found
				}
				for _, rc := range fn.CallsIn(root, false) {
					if rc.Fn == rel.Origin() && len(rc.Expr.Args) >= 1 && slotCallIs(fn, rc.Expr, false) {
						// the same key, also when it travelled in a field of a per-request record (`rpc.subnet`)
						a, k := fn.ObjOf(rc.Expr.Args[0]), f.ObjOf(key)
						if init := fieldInit(fn, rc.Expr.Args[0]); init != nil {
							a = fn.ObjOf(init)
						}
						if a != nil && k != nil && (a == k || copySource(fn, a) == k || copySource(fn, a) == copySource(f, k) || onceCopyOf(fn, a) == onceCopyOf(f, k)) {
							return true
						}
					}
				}
				return false
			}
			acqNode := g.NodeContaining(call.Pos())
			released := func(m *cfgx.Node) bool {
				if m.AST == nil {
					return false
				}
				if gs, ok := m.AST.(*ast.GoStmt); ok {
					if l, ok := ast.Unparen(gs.Call.Fun).(*ast.FuncLit); ok {
						return litReleasesFirst(c.P.LitOf(l), isRel)
					}
					return false
				}
				return isRel(f, m.AST)
			}
			r := f.ReachableFromEdges(chk.Succ, func(m *cfgx.Node) bool { return released(m) || m == acqNode })
			if v, leak := r[g.Exit]; leak {
				ob.Bad(c.Witness(v), "the function can exit after acquiring a subnet slot without releasing it")
				continue
			}
			reenter := false
			for m := range r {
				for _, e := range m.Succs {
					if e.To == acqNode {
						reenter = true
					}
				}
			}
			ob.Check(!reenter, nil, "a path from the successful subnet-slot acquisition at %s loops back without the slot having been released or handed to a handler that releases it first: the subnet's allowance shrinks forever", c.P.Pos(call.Pos()))
		}
	}
	if n == 0 {
		ir.Fail("no call of the subnet slot acquisition found")
	}
}

func c18r3(c *Ctx) {
	add := c.P.Method("threadgroup", "ThreadGroup", "Add")
	addCtx := c.P.Method("threadgroup", "ThreadGroup", "AddContext")
	for _, f := range c.P.Funcs {
		for _, call := range f.CallsTo(false, add, addCtx) {
			g := f.Graph()
			n := g.NodeContaining(call.Pos())
			as, ok := n.AST.(*ast.AssignStmt)
			if !ok {
				continue
			}
			idx := 0
			if call.Fn == addCtx.Origin() {
				idx = 1
			}
			if idx >= len(as.Lhs) {
				continue
			}
			done := f.ObjOf(as.Lhs[idx])
			c.VisitGraph(f)
			ob := c.Ob(f, "done-on-every-exit", call.Pos())
			if done == nil || done.Name() == "_" {
				ob.Bad(nil, "the done function returned by %s is discarded: Stop would wait forever", call.Fn.Name())
				continue
			}
			chk := f.CheckOf(call.Expr)
			calls := func(m *cfgx.Node) bool {
				if m.AST == nil {
					return false
				}
				found := false
				ir.Walk(m.AST, true, func(x ast.Node) {
					if ce, ok := x.(*ast.CallExpr); ok {
						if f.ObjOf(ce.Fun) == done {
							found = true
						}
						// once.Do(done), or passing done on
						for _, a := range ce.Args {
							if f.ObjOf(a) == done {
								found = true
							}
						}
					}
				})
				if _, isRet := m.AST.(*ast.ReturnStmt); isRet && f.MentionsObj(m.AST, true, done) {
					found = true // handed to the caller
				}
				return found
			}
			if v, leak := f.ReachableFromEdges(chk.Succ, calls)[g.Exit]; leak {
				ob.Bad(c.Witness(v), "after a successful %s an exit is reachable without calling (or deferring) its done function: Stop/Close would block forever", call.Fn.Name())
			} else {
				ob.OK("done is called, deferred or handed out on every path")
			}
		}
	}
}

func c18r4(c *Ctx) {
	mu := c.P.FieldOr("threadgroup", "ThreadGroup", "mu", isMutex)
	wg := c.P.FieldOr("threadgroup", "ThreadGroup", "wg", func(t types.Type) bool { return ir.IsNamed(t, "sync", "WaitGroup") })
	closed := c.P.FieldOr("threadgroup", "ThreadGroup", "closed", func(t types.Type) bool { _, ok := t.Underlying().(*types.Chan); return ok })
	// the package's functions with helpers (such as an isStopped() test) expanded
	vs := c.P.Views("threadgroup", ir.ExpandOpt{Key: "all"})
	var methods, all []*ir.Func
	for _, f := range c.P.MethodsOf("threadgroup", "ThreadGroup") {
		methods = append(methods, vs.Of(f))
	}
	ls := NewLocksetV(c.P, mu, methods, vs.Of)
	for _, f := range vs.Roots {
		all = append(all, f)
		all = append(all, f.Lits...)
	}
	// a boolean field that mirrors "the channel has been closed": set to true next to every close of the channel,
	// never set to false; testing it under the mutex is as good as the non-blocking receive from the channel
	var flags []*types.Var
	if st, ok := c.P.Named("threadgroup", "ThreadGroup").Underlying().(*types.Struct); ok {
		for i := 0; i < st.NumFields(); i++ {
			fld := st.Field(i)
			if b, isB := fld.Type().Underlying().(*types.Basic); !isB || b.Kind() != types.Bool {
				continue
			}
			okFlag, closes := true, 0
			for _, f := range all {
				g := f.Graph()
				var sets []*cfgx.Node
				for _, n := range g.Nodes {
					if n.AST == nil {
						continue
					}
					for _, w := range f.WritesIn(n.AST, false) {
						if f.FieldOf(w.LHS) != fld {
							continue
						}
						if tv, isC := f.Info().Types[w.RHS]; w.RHS != nil && isC && tv.Value != nil && tv.Value.String() == "true" {
							sets = append(sets, n)
						} else {
							okFlag = false
						}
					}
				}
				for _, n := range g.Nodes {
					if n.AST == nil {
						continue
					}
					for _, call := range f.NodeCalls(n) {
						if id, ok := call.Expr.Fun.(*ast.Ident); ok && id.Name == "close" && len(call.Expr.Args) == 1 && f.FieldOf(call.Expr.Args[0]) == closed {
							closes++
							paired := false
							for _, sn := range sets {
								if (g.DominatedByNode(n, sn) || g.DominatedByNode(sn, n)) && ls.At(f, sn) == lsHeld {
									paired = true
								}
							}
							if !paired {
								okFlag = false
							}
						}
					}
				}
			}
			if okFlag && closes > 0 {
				flags = append(flags, fld)
			}
		}
	}
	flagEdges := func(f *ir.Func, stopped bool) []*cfgx.Edge {
		var out []*cfgx.Edge
		for _, m := range f.Graph().Nodes {
			if m.Block == nil || m.Block.Cond != m.AST || len(m.Succs) != 2 {
				continue
			}
			e := ast.Unparen(m.AST.(ast.Expr))
			neg := false
			if u, ok := e.(*ast.UnaryExpr); ok && u.Op == token.NOT {
				e, neg = ast.Unparen(u.X), true
			}
			for _, fl := range flags {
				if f.FieldOf(e) == fl {
					if stopped != neg {
						out = append(out, m.Succs[0])
					} else {
						out = append(out, m.Succs[1])
					}
				}
			}
		}
		return out
	}
	afterStoppedFlag := func(f *ir.Func, n *cfgx.Node) bool {
		es := flagEdges(f, true)
		if len(es) == 0 {
			return false
		}
		_, ok := f.ReachableFromEdges(es, nil)[n]
		return ok
	}
	onlyViaOpenFlag := func(f *ir.Func, n *cfgx.Node) bool {
		es := flagEdges(f, false)
		return len(es) > 0 && f.OnlyVia(n, es)
	}
	// every wg.Add / wg.Wait / close(closed) in the package
	for _, f := range all {
		g := f.Graph()
		for _, n := range g.Nodes {
			if n.AST == nil {
				continue
			}
			if _, isDefer := n.AST.(*ast.DeferStmt); isDefer {
				continue
			}
			for _, call := range f.NodeCalls(n) {
				rcv := call.Recv()
				isWG := rcv != nil && f.FieldOf(rcv) == wg && call.Fn != nil
				isClose := false
				if id, ok := call.Expr.Fun.(*ast.Ident); ok && id.Name == "close" && len(call.Expr.Args) == 1 && f.FieldOf(call.Expr.Args[0]) == closed {
					isClose = true
				}
				switch {
				case isWG && call.Fn.Name() == "Add":
					c.Visit(1)
					ob := c.Ob(f, "wg.Add-under-mu-not-closed", call.Pos())
					held := ls.At(f, n) == lsHeld && f.Lit == nil
					notClosed := !reachableFromClosedCase(f, n, closed) && !afterStoppedFlag(f, n)
					ob.Check(held && notClosed, nil, "WaitGroup.Add at %s must run with the mutex held (%v) and only on the branch where the closed channel is still open (%v): otherwise work is accepted after Stop or Wait races with Add", c.P.Pos(call.Pos()), held, notClosed)
				case isWG && call.Fn.Name() == "Wait":
					c.Visit(1)
					ob := c.Ob(f, "wg.Wait-outside-mu", call.Pos())
					ob.Check(ls.At(f, n) == lsUnheld, nil, "WaitGroup.Wait at %s runs with the ThreadGroup mutex %s: Add calls made by finishing threads' successors would deadlock against it", c.P.Pos(call.Pos()), ls.At(f, n))
				case isClose:
					c.Visit(1)
					ob := c.Ob(f, "close-once-under-mu", call.Pos())
					held := ls.At(f, n) == lsHeld
					notClosed := (!reachableFromClosedCase(f, n, closed) && onlyViaOpenCase(f, n, closed)) || (!afterStoppedFlag(f, n) && onlyViaOpenFlag(f, n))
					ob.Check(held && notClosed, nil, "close of the closed channel at %s must run under the mutex (%v) on the default branch of a select that tests it (%v): a second Stop would panic", c.P.Pos(call.Pos()), held, notClosed)
				}
			}
		}
	}
	// the method that waits for the group's threads waits on every path: a second Stop that finds the group already
	// closed must still not return while threads registered before the first Stop are running
	for _, f := range all {
		g := f.Graph()
		isWait := func(n *cfgx.Node) bool {
			for _, call := range f.NodeCalls(n) {
				if rcv := call.Recv(); rcv != nil && f.FieldOf(rcv) == wg && call.Fn != nil && call.Fn.Name() == "Wait" {
					return true
				}
			}
			return false
		}
		has := false
		for _, n := range g.Nodes {
			if n.AST != nil && isWait(n) {
				has = true
			}
		}
		if !has || f.Lit != nil {
			continue
		}
		c.VisitGraph(f)
		ob := c.Ob(f, "waits-on-every-path", f.Body.Pos())
		v, skips := g.Reach([]*cfgx.Visit{cfgx.StartAt(g.Entry, 0)}, isWait)[g.Exit]
		var w []string
		if skips {
			w = c.Witness(v)
		}
		ob.Check(!skips, w, "%s can return without waiting for the group's threads (e.g. when it finds the group already closed): a second Close returns while work registered before the first is still running", f.Name())
	}
	// Add() returns an error on the closed branch
	addF := vs.Of(c.P.Fn("threadgroup", "ThreadGroup", "Add"))
	ob := c.Ob(addF, "rejects-after-stop", addF.Body.Pos())
	good := false
	for _, n := range addF.Graph().Nodes {
		if n.Block != nil {
			if cc, ok := n.Block.Stmt.(*ast.CommClause); ok && cc.Comm != nil && recvFieldComm(addF, cc, closed) && n.Block.Kind.String() == "SelectCaseBody" {
				// all returns reachable from this body are error returns
				// (per path: the error may be stored in a result variable and returned at a single exit)
				good = true
				for _, kinds := range addF.ReturnKindsFrom([]*cfgx.Visit{cfgx.StartAt(n, 0)}) {
					if kinds&^(1<<uint(ir.RetError)) != 0 {
						good = false
					}
				}
			}
		}
	}
	if es := flagEdges(addF, true); !good && len(es) > 0 {
		good = true
		var st []*cfgx.Visit
		for _, e := range es {
			st = append(st, cfgx.StartAfter(e, 0))
		}
		for _, kinds := range addF.ReturnKindsFrom(st) {
			if kinds&^(1<<uint(ir.RetError)) != 0 {
				good = false
			}
		}
	}
	ob.Check(good, nil, "ThreadGroup.Add does not return an error on the branch where the group is closed: work submitted after Stop is accepted")
}

func recvFieldComm(f *ir.Func, cc *ast.CommClause, fld *types.Var) bool {
	found := false
	ir.Walk(cc.Comm, false, func(n ast.Node) {
		if u, ok := n.(*ast.UnaryExpr); ok && u.Op == token.ARROW && f.FieldOf(u.X) == fld {
			found = true
		}
	})
	return found
}

// reachableFromClosedCase: node n is reachable from the body of a select case `<-closed`.
func reachableFromClosedCase(f *ir.Func, n *cfgx.Node, closed *types.Var) bool {
	g := f.Graph()
	for _, m := range g.Nodes {
		if m.Block == nil {
			continue
		}
		if cc, ok := m.Block.Stmt.(*ast.CommClause); ok && cc.Comm != nil && recvFieldComm(f, cc, closed) && m.Block.Kind.String() == "SelectCaseBody" {
			if _, ok := g.Reach([]*cfgx.Visit{cfgx.StartAt(m, 0)}, nil)[n]; ok {
				return true
			}
		}
	}
	return false
}

// onlyViaOpenCase: node n is reached only through a case body, other than the
// `<-closed` case, of a select statement that has a `<-closed` case — i.e. the
// channel was tested and found open on every path to n.
func onlyViaOpenCase(f *ir.Func, n *cfgx.Node, closed *types.Var) bool {
	g := f.Graph()
	withClosed := map[*ast.SelectStmt]bool{}
	ir.Walk(f.Body, false, func(x ast.Node) {
		ss, ok := x.(*ast.SelectStmt)
		if !ok {
			return
		}
		for _, cl := range ss.Body.List {
			if cc := cl.(*ast.CommClause); cc.Comm != nil && recvFieldComm(f, cc, closed) {
				withClosed[ss] = true
			}
		}
	})
	open := map[*cfgx.Node]bool{}
	for _, m := range g.Nodes {
		if m.Block == nil {
			continue
		}
		cc, ok := m.Block.Stmt.(*ast.CommClause)
		if !ok {
			continue
		}
		isClosedCase := cc.Comm != nil && recvFieldComm(f, cc, closed)
		switch m.Block.Kind.String() {
		case "SelectCaseBody": // another case was selected
			if isClosedCase {
				continue
			}
		case "SelectAfterCase": // the `<-closed` case was not selected (default / later cases)
			if !isClosedCase {
				continue
			}
		default:
			continue
		}
		for ss := range withClosed {
			for _, cl := range ss.Body.List {
				if cl == ast.Stmt(cc) {
					open[m] = true
				}
			}
		}
	}
	if len(open) == 0 {
		return false
	}
	_, bypass := g.Reach([]*cfgx.Visit{cfgx.StartAt(g.Entry, 0)}, func(m *cfgx.Node) bool { return open[m] })[n]
	return !bypass
}

func c18r5(c *Ctx) {
	n := 0
	// (helpers expanded: the semaphore may be a small type of its own with an acquire method)
	for _, f := range c.P.Views("syncer", ir.ExpandOpt{Key: "all"}).Roots {
		ir.Walk(f.Body, false, func(x ast.Node) {
			ss, ok := x.(*ast.SelectStmt)
			if !ok {
				return
			}
			hasSem, hasDefault := false, false
			for _, cl := range ss.Body.List {
				cc := cl.(*ast.CommClause)
				if cc.Comm == nil {
					hasDefault = true
					continue
				}
				if send, ok := cc.Comm.(*ast.SendStmt); ok {
					if ch := f.ObjOf(send.Chan); ch != nil {
						if ct, ok := ch.Type().Underlying().(*types.Chan); ok && isEmptyStruct(ct.Elem()) {
							if v, ok := ch.(*types.Var); ok && v.Parent() != v.Pkg().Scope() && !v.IsField() {
								hasSem = true
							}
						}
					}
				}
			}
			if !hasSem {
				return
			}
			n++
			c.VisitGraph(f)
			ob := c.Ob(f, "blocking-acquire", ss.Pos())
			ob.Check(!hasDefault, nil, "the per-peer slot is acquired in a select with a default clause at %s: when the limit is reached requests are dropped instead of applying back-pressure", c.P.Pos(ss.Pos()))
		})
	}
	if n == 0 {
		ir.Fail("no select acquiring a local semaphore found in Syncer methods")
	}
}

func c18r6(c *Ctx) {
	mu := c.P.Field("syncer", "Syncer", "mu")
	peers := c.P.FieldOr("syncer", "Syncer", "peers", func(t types.Type) bool {
		mt, ok := t.Underlying().(*types.Map)
		return ok && ir.IsNamed(mt.Elem(), ir.PkgPath("syncer"), "Peer")
	})
	// the Syncer's methods with helpers (a shared limit check, lock brackets) expanded
	vs := c.P.Views("syncer", ir.ExpandOpt{Key: "all"})
	var methods []*ir.Func
	for _, m := range c.P.MethodsOf("syncer", "Syncer") {
		if !vs.Absorbed[m] {
			methods = append(methods, vs.Of(m))
		}
	}
	ls := NewLocksetV(c.P, mu, methods, vs.Of)
	n := 0
	for _, m := range methods {
		for _, f := range append([]*ir.Func{m}, m.Lits...) {
			g := f.Graph()
			for _, node := range g.Nodes {
				if node.AST == nil {
					continue
				}
				isInsert := false
				for _, w := range f.WritesIn(node.AST, false) {
					if ix, ok := ast.Unparen(w.LHS).(*ast.IndexExpr); ok && f.FieldOf(ix.X) == peers && w.Tok == token.ASSIGN {
						isInsert = true
					}
				}
				if !isInsert {
					continue
				}
				n++
				c.VisitGraph(f)
				ob := c.Ob(f, "cap-checked-in-insert-section", node.Pos())
				if ls.At(f, node) != lsHeld {
					ob.Bad(nil, "the peer table is written at %s with the syncer mutex %s", c.P.Pos(node.Pos()), ls.At(f, node))
					continue
				}
				good := false
				for _, k := range g.Nodes {
					if k.Block == nil || k.Block.Cond != k.AST || len(k.Succs) != 2 {
						continue
					}
					mentionsCap := false
					ir.Walk(k.AST, false, func(x ast.Node) {
						if sel, ok := x.(*ast.SelectorExpr); ok && sel.Sel.Name == "MaxInboundPeers" {
							mentionsCap = true
						}
						// the cap handed to a helper as a parameter (`peers.admit(true, cfg.MaxInboundPeers, …)`)
						if id, ok := x.(*ast.Ident); ok {
							if sel, ok := ast.Unparen(origin(f, id)).(*ast.SelectorExpr); ok && sel.Sel.Name == "MaxInboundPeers" {
								mentionsCap = true
							}
						}
					})
					if !mentionsCap || ls.At(f, k) != lsHeld {
						continue
					}
					// no unlock between the comparison and the insertion
					unlockBetween := false
					for x := range pathNodesBetween(g, k, node) {
						for _, call := range f.NodeCalls(x) {
							if _, isDefer := x.AST.(*ast.DeferStmt); !isDefer && ls.lockOp(f, call) == -1 {
								unlockBetween = true
							}
						}
					}
					if unlockBetween {
						continue
					}
					// one side of the comparison must not reach the insertion
					rejecting := false
					for _, e := range k.Succs {
						if _, reaches := f.ReachableFromEdges([]*cfgx.Edge{e}, nil)[node]; !reaches {
							rejecting = true
						}
					}
					if rejecting {
						good = true
					}
				}
				ob.Check(good, nil, "the insertion into the peer table at %s is not in the same critical section as a comparison with the inbound cap whose rejecting side skips the insertion: connections that all passed an earlier, separately locked check exceed the cap together", c.P.Pos(node.Pos()))
			}
		}
	}
	if n == 0 {
		ir.Fail("no insertion into Syncer.peers found")
	}
}

func c18r7(c *Ctx) {
	stop := c.P.Method("threadgroup", "ThreadGroup", "Stop")
	for _, t := range [][2]string{{"rhp", "Server"}, {"wallet", "SingleAddressWallet"}, {"syncer", "Syncer"}} {
		f := c.P.Fn(t[0], t[1], "Close")
		g := f.Graph()
		c.VisitGraph(f)
		ob := c.Ob(f, "close-stops-threadgroup", f.Body.Pos())
		isStop := func(n *cfgx.Node) bool { _, ok := f.NodeCallsTo(n, stop); return ok }
		if v, skip := g.Reach([]*cfgx.Visit{cfgx.StartAt(g.Entry, 0)}, isStop)[g.Exit]; skip {
			ob.Bad(c.Witness(v), "%s can return without ThreadGroup.Stop: background work keeps running after Close returned", f.Name())
		} else {
			ob.OK("every path passes ThreadGroup.Stop")
		}
	}
}

// ---------------------------------------------------------------------------
// R8: lock order

type mutexSpec struct {
	pkg, typ, field string
}

func c18r8(c *Ctx) {
	specs := []mutexSpec{
		{"chain", "Manager", "mu"}, {"wallet", "SingleAddressWallet", "mu"}, {"syncer", "Syncer", "mu"},
		{"syncer", "Syncer", "inflightMu"}, {"syncer", "Peer", "mu"}, {"threadgroup", "ThreadGroup", "mu"},
	}
	type mx struct {
		spec  mutexSpec
		fld   *types.Var
		ls    *Lockset
		funcs []*ir.Func
	}
	var ms []*mx
	for _, s := range specs {
		m := &mx{spec: s, fld: c.P.Field(s.pkg, s.typ, s.field)}
		m.funcs = c.P.MethodsOf(s.pkg, s.typ)
		m.ls = NewLockset(c.P, m.fld, m.funcs)
		ms = append(ms, m)
	}
	// direct acquisitions per function
	direct := map[*ir.Func]map[int]bool{}
	for i, m := range ms {
		for _, top := range m.funcs {
			for _, f := range append([]*ir.Func{top}, top.Lits...) {
				for _, call := range f.Calls(false) {
					if m.ls.lockOp(f, call) == 1 {
						if direct[top] == nil {
							direct[top] = map[int]bool{}
						}
						direct[top][i] = true
					}
				}
			}
		}
	}
	// callee resolution: static, plus repository implementations of interface methods
	impls := func(fn *types.Func) []*ir.Func {
		if fn == nil {
			return nil
		}
		if f := c.P.FuncOf(fn); f != nil {
			return []*ir.Func{f}
		}
		recv := fn.Type().(*types.Signature).Recv()
		if recv == nil {
			return nil
		}
		it, ok := recv.Type().Underlying().(*types.Interface)
		if !ok {
			return nil
		}
		var out []*ir.Func
		for _, f := range c.P.Funcs {
			if f.Obj == nil || f.Obj.Name() != fn.Name() {
				continue
			}
			r := f.Obj.Type().(*types.Signature).Recv()
			if r == nil {
				continue
			}
			if types.Implements(r.Type(), it) || types.Implements(types.NewPointer(r.Type()), it) {
				out = append(out, f)
			}
		}
		return out
	}
	// transitive may-acquire sets (calls in goroutines excluded: they do not nest)
	acq := map[*ir.Func]map[int]bool{}
	var visit func(f *ir.Func, depth int) map[int]bool
	visiting := map[*ir.Func]bool{}
	visit = func(f *ir.Func, depth int) map[int]bool {
		if a, ok := acq[f]; ok {
			return a
		}
		if visiting[f] || depth > 12 {
			return nil
		}
		visiting[f] = true
		res := map[int]bool{}
		for i := range direct[f] {
			res[i] = true
		}
		for _, sub := range append([]*ir.Func{f}, f.Lits...) {
			isGoLit := false
			_ = isGoLit
			for _, n := range sub.Graph().Nodes {
				if n.AST == nil {
					continue
				}
				if _, isGo := n.AST.(*ast.GoStmt); isGo {
					continue
				}
				for _, call := range sub.NodeCalls(n) {
					for _, callee := range impls(call.Fn) {
						for i := range visit(callee.Top(), depth+1) {
							res[i] = true
						}
					}
				}
			}
		}
		visiting[f] = false
		acq[f] = res
		c.Visit(1)
		return res
	}
	type edge struct{ from, to int }
	edges := map[edge]string{}
	for i, m := range ms {
		for _, top := range m.funcs {
			for _, f := range append([]*ir.Func{top}, top.Lits...) {
				if goLit(f) {
					continue
				}
				g := f.Graph()
				for _, n := range g.Nodes {
					if n.AST == nil || m.ls.At(f, n) != lsHeld {
						continue
					}
					if _, isGo := n.AST.(*ast.GoStmt); isGo {
						continue
					}
					if _, isDefer := n.AST.(*ast.DeferStmt); isDefer {
						continue
					}
					for _, call := range f.NodeCalls(n) {
						if m.ls.lockOp(f, call) != 0 {
							continue
						}
						for _, callee := range impls(call.Fn) {
							for j := range visit(callee.Top(), 0) {
								// same mutex field on a provably different receiver is not a self-edge we can decide: report only same-receiver calls
								if i == j && !sameReceiver(f, call) {
									continue
								}
								e := edge{i, j}
								if _, ok := edges[e]; !ok {
									edges[e] = fmt.Sprintf("%s calls %s at %s while holding %s.%s", f.Name(), callee.Name(), c.P.Pos(call.Pos()), m.spec.typ, m.spec.field)
								}
							}
						}
					}
				}
			}
		}
	}
	name := func(i int) string { return ms[i].spec.typ + "." + ms[i].spec.field }
	var keys []edge
	for e := range edges {
		keys = append(keys, e)
	}
	sort.Slice(keys, func(a, b int) bool {
		if keys[a].from != keys[b].from {
			return keys[a].from < keys[b].from
		}
		return keys[a].to < keys[b].to
	})
	var desc []string
	for _, e := range keys {
		desc = append(desc, name(e.from)+"→"+name(e.to))
	}
	ob := c.Ob(nil, "acquired-while-held-graph-acyclic", token.NoPos)
	// self edges
	for _, e := range keys {
		if e.from == e.to {
			ob.Bad([]string{edges[e]}, "%s is re-acquired while held (sync.Mutex is not re-entrant): %s", name(e.from), edges[e])
			return
		}
	}
	// cycle detection
	adj := map[int][]int{}
	for _, e := range keys {
		adj[e.from] = append(adj[e.from], e.to)
	}
	color := map[int]int{}
	var stack []int
	var cyc []int
	var dfs func(u int) bool
	dfs = func(u int) bool {
		color[u] = 1
		stack = append(stack, u)
		for _, v := range adj[u] {
			if color[v] == 1 {
				for k := len(stack) - 1; k >= 0; k-- {
					cyc = append([]int{stack[k]}, cyc...)
					if stack[k] == v {
						break
					}
				}
				return true
			}
			if color[v] == 0 && dfs(v) {
				return true
			}
		}
		stack = stack[:len(stack)-1]
		color[u] = 2
		return false
	}
	for i := range ms {
		if color[i] == 0 && dfs(i) {
			var w []string
			for k := range cyc {
				e := edge{cyc[k], cyc[(k+1)%len(cyc)]}
				w = append(w, edges[e])
			}
			var names []string
			for _, i := range cyc {
				names = append(names, name(i))
			}
			ob.Bad(w, "lock-order cycle %s: two goroutines taking these mutexes in opposite order deadlock", strings.Join(names, " → "))
			return
		}
	}
	ob.OK("edges: %s", strings.Join(desc, ", "))
}

func goLit(f *ir.Func) bool {
	if f.Lit == nil || f.Parent == nil {
		return false
	}
	isGo := false
	ir.Walk(f.Parent.Body, true, func(n ast.Node) {
		if gs, ok := n.(*ast.GoStmt); ok && ast.Unparen(gs.Call.Fun) == ast.Expr(f.Lit) {
			isGo = true
		}
	})
	return isGo
}

// sameReceiver: the call's receiver is the enclosing method's own receiver variable.
func sameReceiver(f *ir.Func, call ir.Call) bool {
	rcv := call.Recv()
	if rcv == nil {
		return false
	}
	top := f.Top()
	if top.Decl == nil || top.Decl.Recv == nil || len(top.Decl.Recv.List) == 0 || len(top.Decl.Recv.List[0].Names) == 0 {
		return false
	}
	self := top.Info().Defs[top.Decl.Recv.List[0].Names[0]]
	return f.ObjOf(rcv) == self
}

// c18r9: goroutines counted in a local sync.WaitGroup are awaited before the function returns. The workers of a sync
// batch call into the chain manager; they are tracked only by that local group, so a return that skips Wait lets
// Close (which waits for the thread group only) finish while they still run.
func c18r9(c *Ctx) {
	for _, pkg := range []string{"syncer"} {
		for _, f := range c.P.Views(pkg, ir.ExpandOpt{Key: "all"}).Roots {
			groups := map[types.Object]bool{}
			wgCall := func(x ast.Node) (types.Object, string) {
				ce, ok := x.(*ast.CallExpr)
				if !ok {
					return nil, ""
				}
				sel, ok := ast.Unparen(ce.Fun).(*ast.SelectorExpr)
				if !ok {
					return nil, ""
				}
				fn := f.Callee(ce)
				if fn == nil || fn.Pkg() == nil || fn.Pkg().Path() != "sync" {
					return nil, ""
				}
				recv := fn.Type().(*types.Signature).Recv()
				if recv == nil || !ir.IsNamed(derefT(recv.Type()), "sync", "WaitGroup") {
					return nil, ""
				}
				x0 := ast.Unparen(sel.X)
				if u, ok := x0.(*ast.UnaryExpr); ok && u.Op == token.AND {
					x0 = ast.Unparen(u.X)
				}
				obj := f.ObjOf(x0)
				if v, ok := obj.(*types.Var); !ok || v.IsField() || v.Parent() == v.Pkg().Scope() {
					return nil, "" // a group held in a field is owned by its type (threadgroup: C18.R4)
				}
				return obj, fn.Name()
			}
			ir.Walk(f.Body, true, func(x ast.Node) {
				if obj, name := wgCall(x); obj != nil && (name == "Add" || name == "Go") {
					groups[obj] = true
				}
			})
			if len(groups) == 0 {
				continue
			}
			g := f.Graph()
			c.VisitGraph(f)
			for wg := range groups {
				wg := wg
				ob := c.Ob(f, "local-group-awaited:"+wg.Name(), f.Body.Pos())
				has := func(n *cfgx.Node, names ...string) bool {
					if n.AST == nil {
						return false
					}
					found := false
					_, deferred := n.AST.(*ast.DeferStmt)
					ir.Walk(n.AST, deferred, func(x ast.Node) {
						if obj, name := wgCall(x); obj == wg {
							for _, w := range names {
								if w == name {
									found = true
								}
							}
						}
					})
					return found
				}
				var starts []*cfgx.Visit
				for _, n := range g.Nodes {
					if _, isGo := n.AST.(*ast.GoStmt); isGo {
						continue // Add inside the goroutine body itself is not this function's registration
					}
					if has(n, "Add", "Go") {
						for _, e := range n.Succs {
							starts = append(starts, cfgx.StartAfter(e, 0))
						}
					}
				}
				if len(starts) == 0 {
					ob.OK("registrations happen inside goroutine bodies only")
					continue
				}
				reach := g.Reach(starts, func(n *cfgx.Node) bool { return has(n, "Wait") })
				bad := false
				for _, ret := range g.Returns() {
					if v, ok := reach[ret]; ok {
						ob.Bad(c.Witness(v), "the return at %s is reachable after goroutines were registered in the local WaitGroup %s without waiting for them: the function (and with it Close) can finish while its workers are still running inside the chain manager", c.P.Pos(ret.Pos()), wg.Name())
						bad = true
						break
					}
				}
				if !bad {
					ob.OK("every return after a registration passes Wait")
				}
			}
		}
	}
}

func derefT(t types.Type) types.Type {
	if p, ok := t.(*types.Pointer); ok {
		return p.Elem()
	}
	return t
}

func isNiladicFunc(t types.Type) bool {
	sig, ok := t.Underlying().(*types.Signature)
	return ok && sig.Params().Len() == 0 && sig.Results().Len() == 0
}

// c18r10: a handshake has a deadline. The goroutine that serves an inbound connection (and the dialling side) is
// registered with the thread group before the handshake; gateway.Accept reads first, gateway.Dial writes then reads.
// Unless a deadline covering *reads* is set on the connection before, a peer that connects and stays silent keeps the
// goroutine — and Close, which waits for the group — blocked for ever.
func c18r10(c *Ctx) {
	accept := c.P.FuncObj("gateway", "Accept")
	dial := c.P.FuncObj("gateway", "Dial")
	n := 0
	var units []*ir.Func
	for _, r := range c.P.Views("syncer", ir.ExpandOpt{Key: "all"}).Roots {
		units = append(units, r)
		units = append(units, r.Lits...)
	}
	for _, f := range units {
		// (the Syncer's own connections: a package-level helper that dials before a Syncer exists is bounded by its
		// caller's context, not by Close)
		if top := f.Top(); top == nil || top.Obj == nil || recvNamed(top.Obj) == nil || recvNamed(top.Obj).Obj().Name() != "Syncer" {
			continue
		}
		g := f.Graph()
		for _, hs := range f.CallsTo(false, accept, dial) {
			if len(hs.Expr.Args) == 0 {
				continue
			}
			conn := f.ObjOf(hs.Expr.Args[0])
			if conn == nil {
				continue
			}
			if f.P.Pos(hs.Pos()) != "" && strings.Contains(f.P.Pos(hs.Pos()), "_test.go") {
				continue
			}
			n++
			c.VisitGraph(f)
			ob := c.Ob(f, "handshake-under-read-deadline", hs.Pos())
			// deadline calls on the same connection with a non-zero time
			sets := func(nd *cfgx.Node) bool {
				if nd.AST == nil {
					return false
				}
				if _, isDefer := nd.AST.(*ast.DeferStmt); isDefer {
					return false
				}
				for _, call := range f.NodeCalls(nd) {
					if call.Fn == nil || (call.Fn.Name() != "SetDeadline" && call.Fn.Name() != "SetReadDeadline") || len(call.Expr.Args) != 1 {
						continue
					}
					if rcv := call.Recv(); rcv == nil || f.ObjOf(rcv) != conn {
						continue
					}
					if cl, isLit := ast.Unparen(call.Expr.Args[0]).(*ast.CompositeLit); isLit && len(cl.Elts) == 0 {
						continue // time.Time{} clears the deadline
					}
					return true
				}
				return false
			}
			hn := g.NodeContaining(hs.Pos())
			if _, bypass := g.Reach([]*cfgx.Visit{cfgx.StartAt(g.Entry, 0)}, sets)[hn]; bypass {
				ob.Bad(nil, "the handshake at %s can be reached without a read deadline having been set on the connection (SetDeadline / SetReadDeadline with a time): a peer that connects and sends nothing blocks this goroutine, and with it Close, for ever", c.P.Pos(hs.Pos()))
			} else {
				ob.OK("a deadline covering reads is set on every path to the handshake")
			}
		}
	}
	if n == 0 {
		ir.Fail("no gateway handshake found in package syncer")
	}
}

// c18r11: the per-subnet limit groups addresses by their *masked* prefix. A net.IPNet whose String() serves as the
// subnet key carries ip.Mask(mask) as its IP (IPNet.String does not normalise): with the raw address every source
// address gets a budget of its own and a /24 runs limit × 256 handlers.
func c18r11(c *Ctx) {
	n := 0
	for _, f := range c.P.PkgFuncs("syncer") {
		ir.Walk(f.Body, true, func(x ast.Node) {
			cl, ok := x.(*ast.CompositeLit)
			if !ok || !ir.IsNamed(f.TypeOf(cl), "net", "IPNet") {
				return
			}
			var ipV, maskV ast.Expr
			for _, el := range cl.Elts {
				if kv, ok := el.(*ast.KeyValueExpr); ok {
					if k, ok := kv.Key.(*ast.Ident); ok {
						switch k.Name {
						case "IP":
							ipV = kv.Value
						case "Mask":
							maskV = kv.Value
						}
					}
				}
			}
			if ipV == nil || maskV == nil {
				return
			}
			n++
			c.VisitGraph(f)
			ob := c.Ob(f, "subnet-key-from-masked-address", cl.Pos())
			good := false
			if call, ok := ast.Unparen(origin(f, ipV)).(*ast.CallExpr); ok && len(call.Args) == 1 {
				if fn := f.Callee(call); fn != nil && fn.Pkg() != nil && fn.Pkg().Path() == "net" && fn.Name() == "Mask" {
					a, b := ast.Unparen(origin(f, call.Args[0])), ast.Unparen(origin(f, maskV))
					good = sameLvalue(f, call.Args[0], maskV) || ir.ExprString(a) == ir.ExprString(b)
				}
			}
			ob.Check(good, nil, "the subnet at %s is built from an address that was not masked with its own mask: the key differs per source address, so the per-subnet limit applies per address", c.P.Pos(cl.Pos()))
		})
	}
	if n == 0 {
		ir.Fail("no net.IPNet subnet key found in package syncer")
	}
}
