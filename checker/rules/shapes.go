package rules

import (
	"go/types"

	"sialint/internal/ir"
)

// structTypeWith returns the name of the unique named struct type of package pkg
// that has a field for every predicate (in any order).
func structTypeWith(p *ir.Prog, pkg string, preds ...func(types.Type) bool) string {
	scope := p.Package(pkg).Types.Scope()
	found := ""
	for _, name := range scope.Names() {
		tn, ok := scope.Lookup(name).(*types.TypeName)
		if !ok {
			continue
		}
		st, ok := tn.Type().Underlying().(*types.Struct)
		if !ok || st.NumFields() != len(preds) {
			continue
		}
		all := true
		for _, pred := range preds {
			hit := false
			for i := 0; i < st.NumFields(); i++ {
				if pred(st.Field(i).Type()) {
					hit = true
				}
			}
			if !hit {
				all = false
			}
		}
		if all {
			if found != "" {
				ir.Fail("more than one struct type of package %s has the expected shape (%s, %s)", pkg, found, name)
			}
			found = name
		}
	}
	if found == "" {
		ir.Fail("no struct type of package %s has the expected shape", pkg)
	}
	return found
}

func isNamedT(pkg, name string) func(types.Type) bool {
	return func(t types.Type) bool { return ir.IsNamed(t, ir.PkgPath(pkg), name) }
}

func isBasicKind(k types.BasicKind) func(types.Type) bool {
	return func(t types.Type) bool { b, ok := t.Underlying().(*types.Basic); return ok && b.Kind() == k }
}

// chain's bucket wrapper used by DBStore: struct{DBBucket; *DBStore}
func dbBucketType(p *ir.Prog) string {
	return structTypeWith(p, "chain", func(t types.Type) bool {
		_, isPtr := t.(*types.Pointer)
		return !isPtr && ir.IsNamed(t, ir.PkgPath("chain"), "DBBucket")
	}, func(t types.Type) bool {
		_, isPtr := t.(*types.Pointer)
		return isPtr && ir.IsNamed(t, ir.PkgPath("chain"), "DBStore")
	})
}

// chain's in-memory bucket: struct{string; *MemDB}
func memBucketType(p *ir.Prog) string {
	return structTypeWith(p, "chain", isBasicKind(types.String), func(t types.Type) bool {
		_, isPtr := t.(*types.Pointer)
		return isPtr && ir.IsNamed(t, ir.PkgPath("chain"), "MemDB")
	})
}

// chain's caching bucket: struct{<memBucket>; DBBucket}
func cacheBucketType(p *ir.Prog) string {
	mb := memBucketType(p)
	return structTypeWith(p, "chain", isNamedT("chain", mb), func(t types.Type) bool {
		_, isPtr := t.(*types.Pointer)
		return !isPtr && ir.IsNamed(t, ir.PkgPath("chain"), "DBBucket")
	})
}

// funcWithResults returns the unique package-level function of pkg whose result types satisfy the predicates in order.
func funcWithResults(p *ir.Prog, pkg string, preds ...func(types.Type) bool) *types.Func {
	var found *types.Func
	for _, f := range p.PkgFuncs(pkg) {
		sig := f.Obj.Type().(*types.Signature)
		if sig.Recv() != nil || sig.Results().Len() != len(preds) {
			continue
		}
		ok := true
		for i, pred := range preds {
			if !pred(sig.Results().At(i).Type()) {
				ok = false
			}
		}
		if ok {
			if found != nil {
				ir.Fail("more than one function of %s has the expected result shape", pkg)
			}
			found = f.Obj
		}
	}
	if found == nil {
		ir.Fail("no function of %s has the expected result shape", pkg)
	}
	return found
}

// mapOfFunc matches map types whose element is a func with n parameters.
func mapOfFunc(n int) func(types.Type) bool {
	return func(t types.Type) bool {
		mt, ok := t.Underlying().(*types.Map)
		if !ok {
			return false
		}
		sig, ok := mt.Elem().Underlying().(*types.Signature)
		return ok && sig.Params().Len() == n
	}
}

func isMutex(t types.Type) bool { return ir.IsNamed(t, "sync", "Mutex") }

// walletLockedField: the reservation map map[SiacoinOutputID]time.Time of the wallet.
func walletLockedField(p *ir.Prog) *types.Var {
	return p.FieldDeep("wallet", "SingleAddressWallet", "locked", func(t types.Type) bool { // (also when grouped into a reservations type)
		mt, ok := t.Underlying().(*types.Map)
		return ok && ir.IsNamed(mt.Key(), ir.PkgPath("types"), "SiacoinOutputID") && ir.IsNamed(mt.Elem(), "time", "Time")
	})
}

func walletMuField(p *ir.Prog) *types.Var {
	return p.FieldOr("wallet", "SingleAddressWallet", "mu", isMutex)
}

// bucketWrapperFns: the functions through which DBStore reads and writes its buckets — the methods of the small
// wrapper type struct{DBBucket; *DBStore}, or, when the wrapper was dissolved, the DBStore methods that take the
// DBBucket as their first parameter.
func bucketWrapperFns(p *ir.Prog) (out []*ir.Func) {
	name := ""
	func() {
		defer func() { _ = recover() }()
		name = dbBucketType(p)
	}()
	if name != "" {
		return p.MethodsOf("chain", name)
	}
	for _, f := range p.MethodsOf("chain", "DBStore") {
		sig := f.Obj.Type().(*types.Signature)
		if sig.Params().Len() > 0 && ir.IsNamed(sig.Params().At(0).Type(), ir.PkgPath("chain"), "DBBucket") {
			if _, isPtr := sig.Params().At(0).Type().(*types.Pointer); !isPtr {
				out = append(out, f)
			}
		}
	}
	if len(out) == 0 {
		ir.Fail("neither a bucket wrapper type nor DBStore methods taking a DBBucket found")
	}
	return out
}

// isBucketWrapperFn reports whether fn is one of bucketWrapperFns, and how many leading parameters name the bucket.
func isBucketWrapperFn(p *ir.Prog, fn *types.Func) (is bool, skip int) {
	if fn == nil {
		return false, 0
	}
	for _, f := range bucketWrapperFns(p) {
		if f.Obj == fn {
			if rn := recvNamed(fn); rn != nil && rn.Obj().Name() == "DBStore" {
				return true, 1
			}
			return true, 0
		}
	}
	return false, 0
}
