package rules

import (
	"go/ast"
	"go/token"
	"go/types"
	"strings"

	"sialint/internal/cfgx"
	"sialint/internal/ir"
)

func init() {
	Explanations["C10"] = "Decides structural necessary conditions of 'a successful renter RPC is cryptographically bound' for every renter-side RPC function of package rhp: (R1) a frozen table of 41 guards (request validation, byte-count check, Merkle proof verifiers with their locally chosen arguments untainted by the host's response, count checks, per-deposit and total cost bounds, host funding, transaction-id equality, host signature checks over hashes of locally built revisions) — for each guard there is a branch whose failing side cannot reach any success return in scope and whose passing side every such success return must cross; (R2) the revision placed in a result returned with a nil error is the locally constructed value: no data derived from a host response flows into it except a signature that is the argument of a dominating VerifyHash. (R3) slices.Compact, which the renter uses to de-duplicate the indices of a free-sectors request, is applied only to a list sorted just before on every path. RPCSettings, RPCAccountBalance and RPCLatestRevision return unverifiable host claims by construction and are out of scope. NOT decided: soundness of core's verifiers and constructors, byte equality of streamed data with the committed sector beyond the proof check."

	register(&Rule{ID: "C10.R1", Prop: "C10", Floor: 41, Doc: "obligation table: every success return is dominated by the passing edge of each required verification guard", Run: c10r1})
	register(&Rule{ID: "C10.R2", Prop: "C10", Floor: 10, Doc: "response taint: returned revisions are locally built; only verified signatures come from the host", Run: c10r2})
	register(&Rule{ID: "C10.R3", Prop: "C10", Floor: 1, Doc: "request normalisation: de-duplication (slices.Compact) only of a list sorted just before", Run: c10r3})
}

// renterEnv collects, for one renter RPC function, the response variables and
// the locally constructed revision variables.
type renterEnv struct {
	f        *ir.Func
	resp     map[types.Object]bool // variables decoded from the host
	revVars  map[types.Object]bool // results of core constructors (revision, renewal, fc)
	taint    *Taint
	verifyFn *types.Func
}

func newRenterEnv(p *ir.Prog, f *ir.Func) *renterEnv {
	env := &renterEnv{f: f, resp: map[types.Object]bool{}, revVars: map[types.Object]bool{}}
	env.verifyFn = p.Method("types", "PublicKey", "VerifyHash")
	readResp := p.FuncObj("rhp4", "ReadResponse")
	for _, call := range f.Calls(false) {
		if call.Fn == nil {
			continue
		}
		isRead := call.Fn == readResp.Origin()
		isRoundtrip := p.FuncOf(call.Fn) != nil && call.Fn.Name() == "callSingleRoundtripRPC"
		if isRead && len(call.Expr.Args) == 2 {
			if o := addrOfVar(f, call.Expr.Args[1]); o != nil {
				env.resp[o] = true
			}
		}
		if isRoundtrip && len(call.Expr.Args) > 0 {
			// the response: the object handed in to be decoded into (by its type, not by its position), or what the
			// helper hands back
			isRespT := func(t types.Type) bool {
				if pt, ok := t.(*types.Pointer); ok {
					t = pt.Elem()
				}
				nt := ir.NamedOf(t)
				return nt != nil && strings.HasSuffix(nt.Obj().Name(), "Response")
			}
			marked := false
			for _, a := range call.Expr.Args {
				if o := addrOfVar(f, a); o != nil && isRespT(o.Type()) {
					env.resp[o], marked = true, true
				} else if o := f.ObjOf(a); o != nil && isRespT(o.Type()) {
					env.resp[o], marked = true, true
				}
			}
			if n := f.Graph().NodeContaining(call.Pos()); n != nil {
				if as, ok := n.AST.(*ast.AssignStmt); ok && len(as.Rhs) == 1 && ast.Unparen(as.Rhs[0]) == ast.Expr(call.Expr) {
					for _, l := range as.Lhs {
						if o := f.ObjOf(l); o != nil && isRespT(o.Type()) {
							env.resp[o], marked = true, true
						}
					}
				}
			}
			if !marked {
				last := call.Expr.Args[len(call.Expr.Args)-1]
				if o := addrOfVar(f, last); o != nil {
					env.resp[o] = true
				} else if o := f.ObjOf(last); o != nil {
					env.resp[o] = true
				}
			}
		}
		if isCoreConstructor(call.Fn) {
			n := f.Graph().NodeContaining(call.Pos())
			if n != nil {
				for _, w := range f.WritesIn(n.AST, false) {
					if o := f.ObjOf(w.LHS); o != nil {
						if nt := ir.NamedOf(o.Type()); nt != nil && (nt.Obj().Name() == "V2FileContract" || nt.Obj().Name() == "V2FileContractRenewal") {
							env.revVars[o] = true
						}
					}
				}
			}
		}
	}
	// a whole copy of such a value under another name (`renewal := terms.renewal`) is the same locally built value
	for round := 0; round < 3; round++ {
		for _, w := range f.WritesIn(f.Body, false) {
			if w.RHS == nil {
				continue
			}
			l, r := f.ObjOf(w.LHS), f.ObjOf(w.RHS)
			if l == nil || r == nil || !env.revVars[r] || env.revVars[l] {
				continue
			}
			// (every definition of the copy: a helper that builds the value in one of two arms hands it over at each return)
			all := types.Identical(l.Type(), r.Type())
			for _, d := range wholeDefs(f, l) {
				if vs, isSpec := d.Stmt.(*ast.ValueSpec); isSpec && len(vs.Values) == 0 {
					continue
				}
				if d.RHS == nil || !env.revVars[f.ObjOf(d.RHS)] {
					all = false
				}
			}
			if all {
				env.revVars[l] = true
			}
		}
	}
	// named results of RPCLatestRevision-style functions decode straight into the result: treated as resp too
	env.taint = RunTaint(TaintCfg{
		Top: f, ElemCarries: true, ValueTaint: true,
		Source: func(fn *ir.Func, e ast.Expr) bool {
			if id, ok := e.(*ast.Ident); ok {
				return env.resp[fn.ObjOf(id)]
			}
			return false
		},
		CallCarries: func(fn *ir.Func, call *ast.CallExpr) bool { return true },
		SkipWrite: func(fn *ir.Func, w ir.Write) bool {
			// storing a host signature into the local revision is allowed when that signature is verified (checked by R2 separately)
			if sel, ok := ast.Unparen(w.LHS).(*ast.SelectorExpr); ok && sel.Sel.Name == "HostSignature" {
				return true
			}
			return false
		},
	})
	return env
}

// guardCand is one candidate branch for a guard.
type guardCand struct {
	pos      token.Pos
	a, b     []*cfgx.Edge // two sides; for call guards a=success side, b=failing side
	oriented bool
}

// successReturns lists the success returns in scope.
func (env *renterEnv) successReturns(revOnly bool) []*cfgx.Node {
	var out []*cfgx.Node
	f := env.f
	for _, r := range f.Graph().Returns() {
		if f.ClassifyReturn(r) != ir.RetSuccess {
			continue
		}
		if revOnly {
			mentions := false
			for o := range env.revVars {
				if f.MentionsObj(r.AST, false, o) {
					mentions = true
				}
			}
			// … or hands back a local that was given its value from one just before (`res = Result{Revision: rev}`)
			if !mentions {
				ir.Walk(r.AST, false, func(x ast.Node) {
					id, ok := x.(*ast.Ident)
					if !ok {
						return
					}
					v, ok := f.ObjOf(id).(*types.Var)
					if !ok || v.IsField() || env.revVars[v] {
						return
					}
					for _, d := range ReachingDefs(f, v, r) {
						if d == nil || d.AST == nil {
							continue
						}
						for o := range env.revVars {
							if f.MentionsObj(d.AST, false, o) {
								mentions = true
							}
						}
					}
				})
			}
			if !mentions {
				continue
			}
		}
		out = append(out, r)
	}
	if revOnly && len(out) == 0 {
		return env.successReturns(false) // no return names the local revision: every success return is in scope
	}
	return out
}

// holds evaluates whether some candidate guards every target return.
func (env *renterEnv) holds(cands []guardCand, targets []*cfgx.Node) (bool, token.Pos) {
	f := env.f
	for _, cd := range cands {
		try := func(pass, fail []*cfgx.Edge) bool {
			if len(pass) == 0 {
				return false
			}
			reach := f.ReachableFromEdges(fail, nil)
			for _, t := range targets {
				if _, ok := reach[t]; ok {
					// the failing side may legitimately re-join only through the passing edge (loops); check that t is still only via pass
				}
				if !f.OnlyVia(t, pass) {
					return false
				}
			}
			// the failing side must not reach a target without crossing a passing edge
			cut := map[*cfgx.Edge]bool{}
			for _, e := range pass {
				cut[e] = true
			}
			var st []*cfgx.Visit
			for _, e := range fail {
				st = append(st, cfgx.StartAfter(e, 0))
			}
			vs := f.ExploreFeasible(st, cfgx.Walker{OnEdge: func(e *cfgx.Edge, s cfgx.State) (cfgx.State, bool) { return s, !cut[e] }})
			for _, v := range vs {
				for _, t := range targets {
					if v.Node == t {
						return false
					}
				}
			}
			return true
		}
		if try(cd.a, cd.b) {
			return true, cd.pos
		}
		if !cd.oriented && try(cd.b, cd.a) {
			return true, cd.pos
		}
	}
	return false, token.NoPos
}

// callCands: candidates from the outcome test of matching calls.
func (env *renterEnv) callCands(match func(call ir.Call) bool) []guardCand {
	var out []guardCand
	for _, call := range env.f.Calls(false) {
		if !match(call) {
			continue
		}
		chk := env.f.CheckOf(call.Expr)
		out = append(out, guardCand{pos: call.Pos(), a: chk.Succ, b: chk.Fail, oriented: true})
	}
	return out
}

// condCands: candidates from leaf conditions matching a predicate over the
// condition expanded through single-assignment locals.
func (env *renterEnv) condCands(match func(parts []ast.Node) bool) []guardCand {
	f := env.f
	var out []guardCand
	for _, n := range f.Graph().Nodes {
		if n.Block == nil || n.Block.Cond != n.AST || len(n.Succs) != 2 {
			continue
		}
		parts := expandCond(f, n.AST.(ast.Expr))
		if !match(parts) {
			continue
		}
		// a check applied to every element of a loop: the passing side is the loop's natural exit,
		// provided each iteration can only reach the next one through the check's passing edge
		if head, exit, body := enclosingRange(f, n); head != nil {
			for i, pass := range n.Succs {
				fail := n.Succs[1-i]
				cut := map[*cfgx.Edge]bool{pass: true}
				if reachAvoidingEdges(f.Graph(), body, head, nil, cut) {
					continue // an iteration can complete without passing the check
				}
				out = append(out, guardCand{pos: n.Pos(), a: []*cfgx.Edge{exit}, b: []*cfgx.Edge{fail}, oriented: true})
			}
			continue
		}
		out = append(out, guardCand{pos: n.Pos(), a: []*cfgx.Edge{n.Succs[0]}, b: []*cfgx.Edge{n.Succs[1]}})
	}
	return out
}

// enclosingRange finds the innermost range loop whose body contains node n and
// returns its head node, its natural-exit edge and its body-entry edge.
func enclosingRange(f *ir.Func, n *cfgx.Node) (head *cfgx.Node, exit, body *cfgx.Edge) {
	var best *ast.RangeStmt
	for _, m := range f.Graph().Nodes {
		rs, ok := m.AST.(*ast.RangeStmt)
		if !ok || n.AST == nil || !containsNode(rs.Body, n.AST) {
			continue
		}
		if best == nil || containsNode(best.Body, rs) {
			best, head = rs, m
		}
	}
	if head == nil {
		return nil, nil, nil
	}
	for _, e := range head.Succs {
		switch e.Kind {
		case cfgx.Br0:
			body = e
		case cfgx.Br1:
			exit = e
		}
	}
	return
}

// expandCond flattens a condition into its sub-nodes, following identifiers to
// their single defining expression (3 hops) and range values to the ranged expression.
func expandCond(f *ir.Func, cond ast.Expr) []ast.Node {
	var out []ast.Node
	seen := map[types.Object]bool{}
	var walk func(e ast.Node, depth int)
	walk = func(e ast.Node, depth int) {
		ir.Walk(e, false, func(x ast.Node) {
			out = append(out, x)
			id, ok := x.(*ast.Ident)
			if !ok || depth >= 3 {
				return
			}
			o := f.ObjOf(id)
			if o == nil || seen[o] {
				return
			}
			if _, isVar := o.(*types.Var); !isVar {
				return
			}
			seen[o] = true
			defs := wholeDefs(f, o)
			// (a bare declaration next to the one assignment is no definition of a value)
			if len(defs) > 1 {
				var real []ir.Write
				for _, d := range defs {
					if vs, ok := d.Stmt.(*ast.ValueSpec); ok && len(vs.Values) == 0 {
						continue
					}
					real = append(real, d)
				}
				if len(real) == 1 {
					defs = real
				}
			}
			if len(defs) > 1 && depth == 0 {
				// a variable that is reused later (`…, ok := …` twice in one scope): the definition that reaches the test
				if at := f.Graph().NodeContaining(cond.Pos()); at != nil {
					if rd := ReachingDefs(f, o, at); len(rd) == 1 && rd[0] != nil && rd[0].AST != nil {
						var one []ir.Write
						for _, w := range f.WritesIn(rd[0].AST, false) {
							if f.ObjOf(w.LHS) == o {
								one = append(one, w)
							}
						}
						if len(one) == 1 {
							defs = one
						}
					}
				}
			}
			if len(defs) == 1 {
				if defs[0].RHS != nil {
					walk(defs[0].RHS, depth+1)
				} else if rhs := ir.TupleRHS(defs[0].Stmt); rhs != nil {
					walk(rhs, depth+1)
				}
			}
			for _, w := range f.WritesIn(f.Body, false) {
				if rs, ok := w.Stmt.(*ast.RangeStmt); ok && f.ObjOf(w.LHS) == o {
					walk(rs.X, depth+1)
				}
			}
		})
	}
	walk(cond, 0)
	return out
}

func hasField(parts []ast.Node, name string) bool {
	for _, p := range parts {
		if sel, ok := p.(*ast.SelectorExpr); ok && sel.Sel.Name == name {
			return true
		}
	}
	return false
}

// cleanField: a selection of field name whose value does not derive from the host's response.
func cleanField(env *renterEnv, parts []ast.Node, name string) bool {
	for _, p := range parts {
		if sel, ok := p.(*ast.SelectorExpr); ok && sel.Sel.Name == name && !env.taint.Expr(env.f, sel) {
			return true
		}
	}
	return false
}

func hasCallNamed(f *ir.Func, parts []ast.Node, name string) int {
	n := 0
	for _, p := range parts {
		if call, ok := p.(*ast.CallExpr); ok {
			if fn := f.Callee(call); fn != nil && fn.Name() == name {
				n++
			}
		}
	}
	return n
}

func hasLen(f *ir.Func, parts []ast.Node) bool {
	for _, p := range parts {
		if call, ok := p.(*ast.CallExpr); ok && lenOf(f, call) != nil {
			return true
		}
	}
	return false
}

func hasTypeAssertTo(parts []ast.Node, name string) bool {
	for _, p := range parts {
		if ta, ok := p.(*ast.TypeAssertExpr); ok && ta.Type != nil && strings.Contains(types.ExprString(ta.Type), name) {
			return true
		}
	}
	return false
}

// guardSpec is one row of the obligation table.
type guardSpec struct {
	id      string
	revOnly bool // applies to success returns that carry a locally built revision
	cands   func(env *renterEnv) []guardCand
	what    string
}

// verifier builds a call guard for a core verifier whose listed argument
// positions must not derive from the host's response.
func verifier(id, name string, clean []int, what string) guardSpec {
	return guardSpec{id: id, what: what, cands: func(env *renterEnv) []guardCand {
		return env.callCands(func(call ir.Call) bool {
			if call.Fn == nil || call.Fn.Name() != name || call.Fn.Pkg() == nil || call.Fn.Pkg().Path() != ir.PkgPath("rhp4") {
				return false
			}
			for _, i := range clean {
				if i >= len(call.Expr.Args) || env.taint.Expr(env.f, call.Expr.Args[i]) {
					return false
				}
			}
			return true
		})
	}}
}

func validateReq(what string) guardSpec {
	return guardSpec{id: "request-valid", what: what, cands: func(env *renterEnv) []guardCand {
		return env.callCands(func(call ir.Call) bool {
			if call.Fn == nil || call.Fn.Name() != "Validate" || call.Fn.Pkg() == nil || call.Fn.Pkg().Path() != ir.PkgPath("rhp4") {
				return false
			}
			return call.Recv() != nil && !env.taint.Expr(env.f, call.Recv())
		})
	}}
}

func cond(id, what string, match func(env *renterEnv, parts []ast.Node) bool) guardSpec {
	return guardSpec{id: id, what: what, cands: func(env *renterEnv) []guardCand {
		return env.condCands(func(parts []ast.Node) bool { return match(env, parts) })
	}}
}

// hostSig: VerifyHash on a HostPublicKey over ContractSigHash/RenewalSigHash of a locally built value.
func hostSig(id, hashMethod, targetField string) guardSpec {
	return guardSpec{id: id, revOnly: true, what: "the host's signature over the locally built " + id + " is never verified",
		cands: func(env *renterEnv) []guardCand {
			f := env.f
			return env.callCands(func(call ir.Call) bool {
				if call.Fn != env.verifyFn.Origin() || len(call.Expr.Args) != 2 {
					return false
				}
				rcv, ok := ast.Unparen(call.Expr.Fun.(*ast.SelectorExpr).X).(*ast.SelectorExpr)
				if !ok || rcv.Sel.Name != "HostPublicKey" || env.taint.Expr(f, rcv) {
					return false
				}
				hc, ok := origin(f, call.Expr.Args[0]).(*ast.CallExpr)
				if !ok || f.Callee(hc) == nil || f.Callee(hc).Name() != hashMethod || len(hc.Args) != 1 {
					return false
				}
				// the hashed value is a locally built revision (or its NewContract)
				t := ast.Unparen(hc.Args[0])
				if targetField != "" {
					sel, ok := t.(*ast.SelectorExpr)
					if !ok || sel.Sel.Name != targetField {
						return false
					}
					t = ast.Unparen(sel.X)
				}
				return env.revVars[f.ObjOf(t)]
			})
		}}
}

func c10table() map[string][]guardSpec {
	lenOfField := func(field string) func(env *renterEnv, parts []ast.Node) bool {
		return func(env *renterEnv, parts []ast.Node) bool { return hasField(parts, field) && hasLen(env.f, parts) }
	}
	perDeposit := cond("deposit-le-target", "a host-chosen deposit above the target is accepted", func(env *renterEnv, parts []ast.Node) bool {
		return hasField(parts, "Amount") && cleanField(env, parts, "Target") && hasCallNamed(env.f, parts, "TotalCost") == 0
	})
	total := cond("total-le-target-times-n", "the total charged may exceed target × number of accounts", func(env *renterEnv, parts []ast.Node) bool {
		if hasCallNamed(env.f, parts, "TotalCost") == 0 || !cleanField(env, parts, "Target") {
			return false
		}
		// the bound target × n must be computed from the caller's own parameters only
		n := 0
		for _, p := range parts {
			call, ok := p.(*ast.CallExpr)
			if !ok || env.f.Callee(call) == nil || env.f.Callee(call).Name() != "Mul64" {
				continue
			}
			n++
			if env.taint.Expr(env.f, call.Fun.(*ast.SelectorExpr).X) {
				return false
			}
			for _, a := range call.Args {
				if env.taint.Expr(env.f, a) {
					return false
				}
			}
		}
		return n > 0
	})
	total.revOnly = true
	hostFunding := func(costFn string) guardSpec {
		return cond("host-funding", "the host may under-fund its side of the transaction", func(env *renterEnv, parts []ast.Node) bool {
			// the comparison of what the host funded with what it owes: Cmp, or a subtraction that reports underflow
			compares := hasCallNamed(env.f, parts, "Cmp") > 0 || hasCallNamed(env.f, parts, "SubWithUnderflow") > 0
			if costFn == "" {
				return hasField(parts, "TotalCollateral") && compares
			}
			return hasCallNamed(env.f, parts, costFn) > 0 && compares
		})
	}
	// (the list of the host's final set: a field TransactionSet of the response, or Transactions of the result's set)
	nonEmptySet := cond("non-empty-set", "an empty transaction set is indexed", func(env *renterEnv, parts []ast.Node) bool {
		if !hasLen(env.f, parts) {
			return false
		}
		if hasField(parts, "TransactionSet") {
			return true
		}
		for _, p := range parts {
			if sel, ok := p.(*ast.SelectorExpr); ok && sel.Sel.Name == "Transactions" {
				if nt := ir.NamedOf(env.f.TypeOf(sel.X)); nt != nil && nt.Obj().Name() == "TransactionSet" {
					return true
				}
			}
		}
		return false
	})
	renewGuards := func(costFn string) []guardSpec {
		return []guardSpec{
			hostFunding(costFn),
			nonEmptySet,
			cond("exactly-one-resolution", "the host's transaction may carry any number of resolutions", lenOfField("FileContractResolutions")),
			cond("resolution-is-renewal", "the host's resolution may be of another kind", func(env *renterEnv, parts []ast.Node) bool {
				return hasTypeAssertTo(parts, "V2FileContractRenewal")
			}),
			hostSig("renewal", "RenewalSigHash", ""),
			hostSig("new-contract", "ContractSigHash", "NewContract"),
		}
	}
	return map[string][]guardSpec{
		"RPCReadSector": {
			validateReq("an out-of-bounds or unaligned request is sent"),
			cond("byte-count", "fewer bytes than announced are accepted", func(env *renterEnv, parts []ast.Node) bool {
				return hasField(parts, "DataLength") && hasCallNamed(env.f, parts, "ReadFrom") > 0
			}),
			guardSpec{id: "range-proof", what: "the streamed bytes are not proven against the requested root", cands: func(env *renterEnv) []guardCand {
				return env.callCands(func(call ir.Call) bool {
					return call.Fn != nil && call.Fn.Name() == "Verify" && recvNamed(call.Fn) != nil && recvNamed(call.Fn).Obj().Name() == "RangeProofVerifier" &&
						len(call.Expr.Args) == 2 && !env.taint.Expr(env.f, call.Expr.Args[1]) && !env.taint.Expr(env.f, call.Recv())
				})
			}},
		},
		"RPCWriteSector": {
			validateReq("an invalid request is sent"),
			cond("root-equals-local", "the host's root is trusted without comparing it with the locally computed one", func(env *renterEnv, parts []ast.Node) bool {
				return hasField(parts, "Root") && hasCallNamed(env.f, parts, "ReadSectorRoot") > 0
			}),
		},
		"RPCVerifySector":      {verifier("leaf-proof", "VerifyLeafProof", []int{2, 3}, "the leaf is not proven for the locally chosen index and root")},
		"RPCFreeSectors":       {verifier("free-proof", "VerifyFreeSectorsProof", []int{2, 3, 4}, "the new root is not proven to be the old root minus the requested sectors"), hostSig("revision", "ContractSigHash", "")},
		"RPCAppendSectors":     {cond("accepted-count", "the accepted list may be shorter than the request", lenOfField("Accepted")), verifier("append-proof", "VerifyAppendSectorsProof", []int{0, 2, 3}, "the new root is not proven to be the old root plus the accepted sectors"), hostSig("revision", "ContractSigHash", "")},
		"RPCSectorRoots":       {validateReq("an invalid range is requested"), cond("roots-count", "a response with a number of roots different from the requested length reaches the proof verifier, which panics on it instead of the call returning an error", lenOfField("Roots")), verifier("roots-proof", "VerifySectorRootsProof", []int{2, 3, 4, 5}, "the listed roots are not proven against the contract's root for the requested range"), hostSig("revision", "ContractSigHash", "")},
		"RPCFundAccounts":      {cond("balances-count", "fewer balances than deposits are indexed", lenOfField("Balances")), hostSig("revision", "ContractSigHash", "")},
		"RPCReplenishAccounts": {perDeposit, total, hostSig("revision", "ContractSigHash", "")},
		"RPCReplenishPools":    {cond("deposits-count", "the host may pad or truncate the deposit list", lenOfField("Deposits")), perDeposit, total, hostSig("revision", "ContractSigHash", "")},
		"RPCFormContract": {
			hostFunding(""),
			nonEmptySet,
			cond("exactly-one-contract", "the host's transaction may carry other contracts", lenOfField("FileContracts")),
			cond("txn-id-equality", "the host may return a different transaction than the one signed", func(env *renterEnv, parts []ast.Node) bool {
				return hasCallNamed(env.f, parts, "ID") >= 2
			}),
			hostSig("contract", "ContractSigHash", ""),
		},
		"RPCRenewContract":   renewGuards("RenewalCost"),
		"rpcRefreshContract": renewGuards("RefreshCost"),
	}
}

// renterView: a renter RPC function with its helpers and local closures
// expanded; the functions the table names and the round-trip helper stay calls.
func renterView(c *Ctx, f *ir.Func) *ir.Func {
	return renterViews(c).Of(f)
}

// renterViews: package rhp with helpers expanded; the exported functions the
// table names and the round-trip helper stay calls. An unexported function the
// table names (the shared body of the two refresh RPCs) is expanded into its
// exported callers, where its function-valued parameters are known.
func renterViews(c *Ctx) *ir.ViewSet {
	table := c10table()
	return c.P.Views("rhp", ir.ExpandOpt{Key: "renter-rpcs", Stop: func(fn *types.Func) bool {
		_, unit := table[fn.Name()]
		return (unit && fn.Exported()) || fn.Name() == "callSingleRoundtripRPC"
	}})
}

// renterTargets returns the views in which the table entry `name` is analysed:
// the function's own view if it is a root, else the roots it was expanded into.
func renterTargets(c *Ctx, name string) []*ir.Func {
	vs := renterViews(c)
	f := c.P.Fn("rhp", "", name)
	if !vs.Absorbed[f] {
		return []*ir.Func{vs.Of(f)}
	}
	var out []*ir.Func
	for _, r := range vs.Roots {
		for _, o := range r.Inlined {
			if o == f.Obj {
				out = append(out, r)
				break
			}
		}
	}
	if len(out) == 0 {
		return []*ir.Func{vs.Of(f)}
	}
	return out
}

func c10r1(c *Ctx) { c10guards(c, nil) }

// c10guards evaluates the guard table for the client functions selected by only (nil: all).
func c10guards(c *Ctx, only map[string]bool) {
	table := c10table()
	names := make([]string, 0, len(table))
	for n := range table {
		if only == nil || only[n] {
			names = append(names, n)
		}
	}
	sortStrings(names)
	for _, name := range names {
		for _, f := range renterTargets(c, name) {
			env := newRenterEnv(c.P, f)
			c.VisitGraph(f)
			for _, g := range table[name] {
				ob := c.Ob(f, g.id, f.Body.Pos())
				targets := env.successReturns(g.revOnly)
				if len(targets) == 0 {
					ob.Unknown("no success return in scope (revision-carrying: %v)", g.revOnly)
					continue
				}
				cands := g.cands(env)
				if ok, pos := env.holds(cands, targets); ok {
					ob.Pos = c.P.Pos(pos)
					ob.OK("guard at %s dominates %d success return(s)", c.P.Pos(pos), len(targets))
				} else if len(cands) == 0 {
					ob.Bad(nil, "%s: no %s check with locally controlled operands exists in %s, yet it reports success", g.what, g.id, name)
				} else {
					ob.Pos = c.P.Pos(cands[0].pos)
					ob.Bad(nil, "%s: the %s check at %s does not separate success from failure (its failing side reaches a success return, or a success return bypasses it)", g.what, g.id, c.P.Pos(cands[0].pos))
				}
			}
		}
	}
}

func sortStrings(s []string) {
	for i := 1; i < len(s); i++ {
		for j := i; j > 0 && s[j] < s[j-1]; j-- {
			s[j], s[j-1] = s[j-1], s[j]
		}
	}
}

func c10r2(c *Ctx) {
	names := []string{"RPCFreeSectors", "RPCAppendSectors", "RPCSectorRoots", "RPCFundAccounts", "RPCReplenishAccounts", "RPCReplenishPools", "RPCFormContract", "RPCRenewContract", "rpcRefreshContract"}
	for _, name := range names {
		for _, f := range renterTargets(c, name) {
			env := newRenterEnv(c.P, f)
			g := f.Graph()
			c.VisitGraph(f)
			for _, r := range g.Returns() {
				if f.ClassifyReturn(r) != ir.RetSuccess {
					continue
				}
				rs := r.AST.(*ast.ReturnStmt)
				// find Revision: <expr> inside the returned composite literal
				var revExpr ast.Expr
				ir.Walk(rs, false, func(x ast.Node) {
					if kv, ok := x.(*ast.KeyValueExpr); ok {
						if k, ok := kv.Key.(*ast.Ident); ok && k.Name == "Revision" {
							revExpr = kv.Value
						}
					}
				})
				if revExpr == nil {
					continue
				}
				ob := c.Ob(f, "returned-revision-is-local", revExpr.Pos())
				root := f.ObjOf(rootOfLvalue(revExpr))
				if !env.revVars[root] {
					if env.taint.Expr(f, revExpr) {
						ob.Bad(nil, "the revision returned with a nil error at %s (%s) is not the locally constructed value but derives from the host's response: its fields are not covered by the signature checks", c.P.Pos(revExpr.Pos()), ir.ExprString(revExpr))
					} else {
						ob.OK("unchanged caller-supplied revision")
					}
					continue
				}
				onlyConstructed := true
				for _, d := range wholeDefs(f, root) {
					if vs, ok := d.Stmt.(*ast.ValueSpec); ok && len(vs.Values) == 0 {
						continue // zero-value declaration
					}
					rhs := d.RHS
					if rhs == nil {
						rhs = ir.TupleRHS(d.Stmt)
					}
					// (a whole copy of another locally constructed value counts: `renewal := terms.renewal`)
					if o := f.ObjOf(rhs); o != nil && env.revVars[o] && o != root {
						continue
					}
					call, ok := ast.Unparen(rhs).(*ast.CallExpr)
					if !ok || !isCoreConstructor(f.Callee(call)) {
						onlyConstructed = false
					}
				}
				if !onlyConstructed {
					ob.Bad(nil, "the returned revision variable %s is (re)assigned other than by its core constructor", root.Name())
					continue
				}
				modified := ""
				for _, w := range f.WritesIn(f.Body, true) {
					if _, isID := ast.Unparen(w.LHS).(*ast.Ident); isID || f.ObjOf(rootOfLvalue(w.LHS)) != root {
						continue
					}
					if sel, ok := ast.Unparen(w.LHS).(*ast.SelectorExpr); ok && (sel.Sel.Name == "RenterSignature" || sel.Sel.Name == "HostSignature") {
						continue
					}
					modified = c.P.Pos(w.LHS.Pos())
				}
				if modified != "" {
					ob.Bad(nil, "a field other than the two signatures of the locally built revision is overwritten at %s before it is returned", modified)
					continue
				}
				// every host signature copied into the returned value must be verified on the way
				good := true
				why := ""
				for _, n := range g.Nodes {
					if n.AST == nil {
						continue
					}
					for _, w := range f.WritesIn(n.AST, false) {
						sel, ok := ast.Unparen(w.LHS).(*ast.SelectorExpr)
						if !ok || sel.Sel.Name != "HostSignature" || w.RHS == nil || !env.taint.Expr(f, w.RHS) {
							continue
						}
						if !isPrefixLvalue(f, rootOfLvalue(revExpr), w.LHS) && !isPrefixLvalue(f, rootOfLvalue(w.LHS), revExpr) {
							continue
						}
						// a VerifyHash whose second argument is the same signature (either the response expression or the stored field) must dominate the return
						verified := false
						// the stored value may be a local holding the signature (a validating helper's result): every
						// host-derived definition of that local must be the verified expression
						viaLocal := func(sig ast.Expr) bool {
							id, isID := ast.Unparen(w.RHS).(*ast.Ident)
							if !isID {
								return false
							}
							n := 0
							for _, d := range wholeDefs(f, f.ObjOf(id)) {
								if d.RHS == nil {
									if vs, ok := d.Stmt.(*ast.ValueSpec); ok && len(vs.Values) == 0 {
										continue
									}
									return false
								}
								if !env.taint.Expr(f, d.RHS) {
									continue
								}
								if !sameLvalue(f, sig, d.RHS) {
									return false
								}
								n++
							}
							return n > 0
						}
						for _, call := range f.CallsTo(false, env.verifyFn) {
							if len(call.Expr.Args) != 2 {
								continue
							}
							sig := call.Expr.Args[1]
							if !(sameLvalue(f, sig, w.RHS) || sameLvalue(f, sig, w.LHS) || viaLocal(sig)) {
								continue
							}
							if env.taint.Expr(f, call.Expr.Args[0]) && !hashOfLocal(env, call.Expr.Args[0]) {
								continue
							}
							t, _ := boolCallEdges(f, call.Expr)
							if f.OnlyVia(r, t) {
								verified = true
							}
						}
						if !verified {
							good = false
							why = c.P.Pos(n.Pos())
						}
					}
				}
				ob.Check(good, nil, "a host-supplied signature is stored into the returned revision at %s without a dominating VerifyHash of that signature over the locally computed hash", why)
			}
		}
	}
}

func rootOfLvalue(e ast.Expr) ast.Expr {
	for {
		switch x := ast.Unparen(e).(type) {
		case *ast.SelectorExpr:
			e = x.X
		case *ast.IndexExpr:
			e = x.X
		default:
			return ast.Unparen(e)
		}
	}
}

// hashOfLocal: the expression is (a variable holding) ContractSigHash/RenewalSigHash of a locally built value.
func hashOfLocal(env *renterEnv, e ast.Expr) bool {
	f := env.f
	hc, ok := origin(f, e).(*ast.CallExpr)
	if !ok || f.Callee(hc) == nil || len(hc.Args) != 1 {
		return false
	}
	n := f.Callee(hc).Name()
	if n != "ContractSigHash" && n != "RenewalSigHash" {
		return false
	}
	return env.revVars[f.ObjOf(rootOfLvalue(hc.Args[0]))]
}

// c10r3: de-duplication by slices.Compact only removes *adjacent* repeats, so
// it de-duplicates only a sorted list. The renter normalises the indices of a
// free-sectors request (sort, then compact) before building the request and
// the proof actions from them; compacting an unsorted list lets a repeated
// index through, which frees (and charges for) a sector nobody asked to free.
func c10r3(c *Ctx) {
	isSort := func(call ir.Call) bool {
		if call.Fn == nil || call.Fn.Pkg() == nil {
			return false
		}
		switch call.Fn.Pkg().Path() + "." + call.Fn.Name() {
		case "slices.Sort", "slices.SortFunc", "slices.SortStableFunc", "sort.Slice", "sort.SliceStable", "sort.Sort", "sort.Stable":
			return true
		}
		return false
	}
	for _, f := range c.P.Funcs {
		if f.Pkg.PkgPath != ir.PkgPath("rhp") {
			continue
		}
		g := f.Graph()
		for _, call := range f.Calls(false) {
			if call.Fn == nil || call.Fn.Pkg() == nil || call.Fn.Pkg().Path() != "slices" || (call.Fn.Name() != "Compact" && call.Fn.Name() != "CompactFunc") {
				continue
			}
			c.VisitGraph(f)
			ob := c.Ob(f, "compact-only-after-sort", call.Pos())
			v := f.ObjOf(call.Expr.Args[0])
			cn := g.NodeContaining(call.Pos())
			if v == nil || cn == nil {
				ob.Bad(nil, "slices.Compact at %s is applied to a value that was not sorted first (it is not a variable): repeated indices that are not adjacent survive", c.P.Pos(call.Pos()))
				continue
			}
			good := false
			for _, sc := range f.Calls(false) {
				if !isSort(sc) || len(sc.Expr.Args) == 0 || f.ObjOf(sc.Expr.Args[0]) != v {
					continue
				}
				sn := g.NodeContaining(sc.Pos())
				if sn == nil || sn == cn || !g.DominatedByNode(cn, sn) {
					continue
				}
				rewritten := false
				for m := range pathNodesBetween(g, sn, cn) {
					if m.AST == nil {
						continue
					}
					for _, w := range f.WritesIn(m.AST, false) {
						if f.ObjOf(rootOfLvalue(w.LHS)) == v {
							rewritten = true
						}
					}
				}
				if !rewritten {
					good = true
				}
			}
			ob.Check(good, nil, "slices.Compact at %s is not preceded on every path by a sort of the same list (with no write to it in between): repeated indices that are not adjacent survive de-duplication, so a sector nobody asked to free is freed and charged for", c.P.Pos(call.Pos()))
		}
	}
}
