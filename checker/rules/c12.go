package rules

import (
	"go/ast"
	"go/constant"
	"go/token"
	"go/types"
	"strings"

	"sialint/internal/cfgx"
	"sialint/internal/ir"
)

// C12 (honest connected nodes converge to the heaviest chain) is a liveness property over schedules and topologies and
// is NOT decided here. What the shape of the code does show are the hand-overs the convergence argument needs at every
// hop: who is asked for blocks is exactly the set of peers whose `synced` mark is off, so (1) the mark may be switched on
// only on evidence that the peer has nothing more for us, (2) it must be switched off again whenever the peer announces
// a block we cannot attach, (3) every healthy peer whose mark is off must be asked, (4) the search for a common ancestor
// must go on after an entry the peer does not recognise, and (5) what we accepted must be announced onwards. Each is a
// necessary condition: with any of them broken there is a two- or three-node topology that never converges.
func init() {
	Explanations["C12"] = "Decides ten structural necessary conditions of 'honest connected nodes converge to the same heaviest chain' (R1–R6 below in package syncer, R7–R10 appended further down); convergence itself (a liveness property over network schedules, topologies and fork shapes) is NOT decided. The sync loop asks exactly the peers whose synced mark is off, so: (R1) in the header and outline relay handlers every path that starts on the 'parent unknown' side of the state lookup or on the 'does not attach to our tip' side of the attach test reaches the handler's end only through a step that switches the announcing peer's synced mark off (a call of a function that does so on each of its paths, the setter with false, or a test of the mark whose set side does) — otherwise a node on a lighter fork is told about the heavier one and never fetches it; (R2) the mark is switched on only where the peer returned an empty header list, or where the block fetch returned without error and the peer's remaining count was tested to be zero — otherwise a node stops short of the peer's tip and nothing asks again; (R3) in the sync loop's pass over the peer table the only ways past a peer without asking it are the two sides 'peer has failed' and 'mark is on' — a further filter (direction, address, count) leaves a topology in which the only link to the heavier chain is never used; (R4) in the walk over the history sample a failed header request for one entry can be followed by the request for the next entry (a path from the failure side back to the loop), otherwise forks deeper than the first entry never find the common ancestor; (R5) a header that passed the work and attach tests, an outline whose block was added, and the last header of a completed sync are relayed onwards on every path — a node in the middle of a line topology is the only one that can tell its other neighbour. (R6) in the two relay handlers every path from the passing side of the work test to the handler's end goes through one of: the block was added to the chain (success side of AddBlocks) or the header relayed, the announcing peer was switched to unsynced, or the peer was banned — a handler that gives up on a new block in any other way (a failed follow-up request answered with a plain error) leaves the node behind a peer it believes to be in sync. NOT decided: that the loops terminate, timing, the choice of fork by weight (C01), validity of what is fetched (C11), and whether the history sample always contains a common ancestor."

	register(&Rule{ID: "C12.R1", Prop: "C12", Floor: 4, Doc: "a relayed header/outline with unknown parent or not attaching to our tip switches the announcing peer back to unsynced on every path", Run: c12r1})
	register(&Rule{ID: "C12.R2", Prop: "C12", Floor: 2, Doc: "a peer is marked synced only after an empty header reply, or after a successful fetch with nothing remaining", Run: c12r2})
	register(&Rule{ID: "C12.R3", Prop: "C12", Floor: 1, Doc: "the sync loop passes over a peer only because it failed or is marked synced", Run: c12r3})
	register(&Rule{ID: "C12.R4", Prop: "C12", Floor: 1, Doc: "the common-ancestor search continues with the next history entry after a failed header request", Run: c12r4})
	register(&Rule{ID: "C12.R6", Prop: "C12", Floor: 2, Doc: "an announced block that is new and has enough work is never dropped silently: the handler ends by adding/relaying it, switching the peer to unsynced, or banning", Run: c12r6})
	register(&Rule{ID: "C12.R5", Prop: "C12", Floor: 3, Doc: "accepted headers, added outlines and the tip of a completed sync are relayed onwards on every path", Run: c12r5})
}

// c12Env: the synced mark of a peer and the functions that write it.
type c12Env struct {
	c        *Ctx
	fld      *types.Var     // the Peer field behind Synced()
	synced   *types.Func    // (*Peer).Synced
	doneVal  constant.Value // for a mark that is not a bool: Synced() reports fld == doneVal (doneEq) or fld != doneVal
	doneEq   bool
	setters  map[*types.Func]int // function writing the mark from its bool parameter → parameter index
	unsyncFn map[*types.Func]bool
	ban      *types.Func
	fetch    map[*types.Func]bool // error-returning functions that hand blocks to the chain manager
	hdrFns   map[*types.Func]bool // functions that reach Peer.RelayV2Header
	outFns   map[*types.Func]bool // functions that reach Peer.RelayV2BlockOutline
	vs       *ir.ViewSet
}

func constBoolOf(f *ir.Func, e ast.Expr) (val, ok bool) {
	e = ast.Unparen(e)
	if tv, has := f.Info().Types[e]; has && tv.Value != nil {
		switch tv.Value.String() {
		case "true":
			return true, true
		case "false":
			return false, true
		}
		return false, false
	}
	if id, isID := e.(*ast.Ident); isID {
		switch f.Info().Uses[id] {
		case types.Universe.Lookup("true"):
			return true, true
		case types.Universe.Lookup("false"):
			return false, true
		}
		if f.Info().Uses[id] == nil && f.Info().Defs[id] == nil {
			switch id.Name {
			case "true":
				return true, true
			case "false":
				return false, true
			}
		}
	}
	return false, false
}

func getC12Env(c *Ctx) *c12Env {
	env := &c12Env{c: c, setters: map[*types.Func]int{}, unsyncFn: map[*types.Func]bool{}}
	env.synced = c.P.Method("syncer", "Peer", "Synced")
	sf := c.P.FuncOf(env.synced)
	if sf == nil {
		ir.Fail("(*Peer).Synced has no body")
	}
	peerT := c.P.Named("syncer", "Peer")
	st, _ := peerT.Underlying().(*types.Struct)
	isPeerField := func(v *types.Var) bool {
		if v == nil || st == nil {
			return false
		}
		for i := 0; i < st.NumFields(); i++ {
			if st.Field(i) == v {
				return true
			}
		}
		return false
	}
	ir.Walk(sf.Body, false, func(x ast.Node) {
		rs, ok := x.(*ast.ReturnStmt)
		if !ok {
			return
		}
		for _, r := range rs.Results {
			ast.Inspect(r, func(y ast.Node) bool {
				if e, ok := y.(ast.Expr); ok {
					if v := sf.FieldOf(e); isPeerField(v) && !isMutex(v.Type()) {
						env.fld = v
					}
				}
				return true
			})
		}
	})
	if env.fld == nil {
		// the mark may have been read into a local under the lock
		for _, w := range sf.WritesIn(sf.Body, false) {
			if w.RHS != nil {
				if v := sf.FieldOf(w.RHS); isPeerField(v) && !isMutex(v.Type()) {
					env.fld = v
				}
			}
		}
	}
	if env.fld == nil {
		ir.Fail("the field behind (*Peer).Synced not found")
	}
	// a mark with more than two spellings (`syncState == peerSyncDone`): which constant means "synced"
	if !isBasicKind(types.Bool)(env.fld.Type()) {
		ir.Walk(sf.Body, false, func(x ast.Node) {
			be, ok := x.(*ast.BinaryExpr)
			if !ok || (be.Op != token.EQL && be.Op != token.NEQ) {
				return
			}
			for _, pair := range [][2]ast.Expr{{be.X, be.Y}, {be.Y, be.X}} {
				if sf.FieldOf(ast.Unparen(pair[0])) == env.fld {
					if tv, has := sf.Info().Types[ast.Unparen(pair[1])]; has && tv.Value != nil {
						env.doneVal, env.doneEq = tv.Value, be.Op == token.EQL
					}
				}
			}
		})
		if env.doneVal == nil {
			ir.Fail("(*Peer).Synced does not compare its field with a constant")
		}
	}
	// setters: functions of the package that store one of their bool parameters into the mark
	for _, f := range c.P.PkgFuncs("syncer") {
		if f.Obj == nil || f.Type.Params == nil {
			continue
		}
		sig := f.Obj.Type().(*types.Signature)
		for _, n := range f.Graph().Nodes {
			if n.AST == nil {
				continue
			}
			if val, ok := env.markStore(f, n); ok && val != nil {
				if obj := f.ObjOf(val); obj != nil {
					for i := 0; i < sig.Params().Len(); i++ {
						if sig.Params().At(i) == obj {
							env.setters[f.Obj] = i
						}
					}
				}
			}
		}
	}
	env.ban = banFn(c).Obj
	// functions that switch the mark off on each of their paths (fixpoint over wrappers)
	for round := 0; round < 3; round++ {
		changed := false
		for _, f := range c.P.PkgFuncs("syncer") {
			if f.Obj == nil || env.unsyncFn[f.Obj] {
				continue
			}
			if _, isSetter := env.setters[f.Obj]; isSetter {
				continue
			}
			v := c.P.Expand(f, ir.ExpandOpt{Key: "c12u", Stop: func(fn *types.Func) bool { _, s := env.setters[fn]; return s || env.unsyncFn[fn] }})
			g := v.Graph()
			off, on := 0, 0
			for _, n := range g.Nodes {
				if val, known, is := env.markWrite(v, n); is {
					if known && !val {
						off++
					} else {
						on++
					}
				}
			}
			if off == 0 || on > 0 {
				continue
			}
			pts := env.unsyncNodes(v)
			if _, out := g.Reach([]*cfgx.Visit{cfgx.StartAt(g.Entry, 0)}, func(n *cfgx.Node) bool { return pts[n] })[g.Exit]; !out {
				env.unsyncFn[f.Obj] = true
				changed = true
			}
		}
		if !changed {
			break
		}
	}
	env.fetch = c12fetchFns(c)
	env.hdrFns = c12reaches(c, c.P.Method("syncer", "Peer", "RelayV2Header"))
	env.outFns = c12reaches(c, c.P.Method("syncer", "Peer", "RelayV2BlockOutline"))
	env.vs = c.P.Views("syncer", ir.ExpandOpt{Key: "c12", Stop: env.stop})
	return env
}

// c12reaches: the functions of package syncer that call target themselves (also from a literal in their body).
func c12reaches(c *Ctx, target *types.Func) map[*types.Func]bool {
	r := map[*types.Func]bool{}
	for _, f := range c.P.PkgFuncs("syncer") {
		if f.Obj == nil {
			continue
		}
		for _, call := range f.Calls(true) {
			if call.Fn != nil && call.Fn == target {
				r[f.Obj] = true
				break
			}
		}
		// … or hand it on as a value (`announcer((*Peer).RelayV2Header, …)`, a method value)
		ast.Inspect(f.Body, func(y ast.Node) bool {
			if id, ok := y.(*ast.Ident); ok && f.Info().Uses[id] == types.Object(target) {
				r[f.Obj] = true
			}
			return true
		})
	}
	return r
}

func (env *c12Env) stop(fn *types.Func) bool {
	if _, s := env.setters[fn]; s {
		return true
	}
	return env.unsyncFn[fn] || fn == env.ban || fn == env.synced || env.fetch[fn] || env.hdrFns[fn] || env.outFns[fn]
}

// markVal: does the constant expression e, stored into the mark, mean "synced"?
func (env *c12Env) markVal(f *ir.Func, e ast.Expr) (synced, known bool) {
	if env.doneVal == nil {
		return constBoolOf(f, e)
	}
	e = ast.Unparen(e)
	var v constant.Value
	if tv, has := f.Info().Types[e]; has && tv.Value != nil {
		v = tv.Value
	} else if id, isID := e.(*ast.Ident); isID {
		if cst, isConst := f.Info().Uses[id].(*types.Const); isConst {
			v = cst.Val()
		}
	}
	if v == nil {
		return false, false
	}
	return constant.Compare(v, token.EQL, env.doneVal) == env.doneEq, true
}

// markStore: node n stores into the mark; val is the stored expression (nil when not a plain store).
func (env *c12Env) markStore(f *ir.Func, n *cfgx.Node) (val ast.Expr, ok bool) {
	if n.AST == nil {
		return nil, false
	}
	switch s := n.AST.(type) {
	case *ast.AssignStmt:
		for i, l := range s.Lhs {
			if lhsField(f, l) == env.fld {
				if len(s.Lhs) == len(s.Rhs) {
					return s.Rhs[i], true
				}
				return nil, true
			}
		}
	case *ast.ExprStmt:
		// an atomic mark: p.synced.Store(v)
		if call, isCall := ast.Unparen(s.X).(*ast.CallExpr); isCall {
			if sel, isSel := ast.Unparen(call.Fun).(*ast.SelectorExpr); isSel && f.FieldOf(sel.X) == env.fld && len(call.Args) == 1 && (sel.Sel.Name == "Store" || sel.Sel.Name == "Swap") {
				return call.Args[0], true
			}
		}
	}
	return nil, false
}

// markWrite: node n writes the mark, directly or through a setter; val is the written value when it is a constant.
func (env *c12Env) markWrite(f *ir.Func, n *cfgx.Node) (val, known, is bool) {
	if n.AST == nil {
		return false, false, false
	}
	if _, isDefer := n.AST.(*ast.DeferStmt); isDefer {
		return false, false, false
	}
	if e, ok := env.markStore(f, n); ok {
		if e == nil {
			return false, false, true
		}
		v, k := env.markVal(f, e)
		return v, k, true
	}
	for _, call := range f.NodeCalls(n) {
		if call.Fn == nil {
			continue
		}
		if i, ok := env.setters[call.Fn]; ok && i < len(call.Expr.Args) {
			v, k := env.markVal(f, call.Expr.Args[i])
			return v, k, true
		}
	}
	return false, false, false
}

// syncedTest: n is a leaf condition `X.Synced()` / `!X.Synced()`; returns the edge on which the mark is known set.
func (env *c12Env) syncedTest(f *ir.Func, n *cfgx.Node) (set, unset *cfgx.Edge) {
	if n.AST == nil || n.Block == nil || n.Block.Cond != n.AST || len(n.Succs) != 2 {
		return nil, nil
	}
	e := ast.Unparen(n.AST.(ast.Expr))
	neg := false
	for {
		u, ok := e.(*ast.UnaryExpr)
		if !ok || u.Op != token.NOT {
			break
		}
		neg = !neg
		e = ast.Unparen(u.X)
	}
	isMark := false
	if call, ok := e.(*ast.CallExpr); ok {
		if fn := f.Callee(call); fn != nil && fn == env.synced {
			isMark = true
		}
	} else if f.FieldOf(e) == env.fld {
		isMark = true
	}
	if !isMark {
		return nil, nil
	}
	if neg {
		return n.Succs[1], n.Succs[0]
	}
	return n.Succs[0], n.Succs[1]
}

// unsyncNodes: the nodes of f after which the peer's mark is known to be off.
func (env *c12Env) unsyncNodes(f *ir.Func) map[*cfgx.Node]bool {
	g := f.Graph()
	pts := map[*cfgx.Node]bool{}
	for _, n := range g.Nodes {
		if n.AST == nil {
			continue
		}
		if val, known, is := env.markWrite(f, n); is && known && !val {
			pts[n] = true
			continue
		}
		if _, isDefer := n.AST.(*ast.DeferStmt); isDefer {
			continue
		}
		for _, call := range f.NodeCalls(n) {
			if call.Fn != nil && env.unsyncFn[call.Fn] {
				pts[n] = true
			}
		}
	}
	// `if p.Synced() { p.setSynced(false) }`: the test is such a point when its set side always gets to one
	for _, n := range g.Nodes {
		set, _ := env.syncedTest(f, n)
		if set == nil {
			continue
		}
		if _, out := f.ReachableFromEdges([]*cfgx.Edge{set}, func(m *cfgx.Node) bool { return pts[m] })[g.Exit]; !out {
			pts[n] = true
		}
	}
	return pts
}

func (env *c12Env) units() []*ir.Func {
	var units []*ir.Func
	for _, r := range env.vs.Roots {
		if strings.Contains(env.c.P.Pos(r.Body.Pos()), "_test.go") {
			continue
		}
		units = append(units, r)
		units = append(units, r.Lits...)
	}
	return units
}

func c12r1(c *Ctx) {
	env := getC12Env(c)
	f := env.vs.Of(dispatchFn(c))
	g := f.Graph()
	c.VisitGraph(f)
	state := c.P.Method("syncer", "ChainManager", "State")
	pts := env.unsyncNodes(f)
	for _, tn := range []string{"RPCRelayV2Header", "RPCRelayV2BlockOutline"} {
		cc := clauseOf(f, tn)
		if cc == nil {
			ir.Fail("no case for gateway.%s", tn)
		}
		var unknown, detached []*cfgx.Edge
		for _, call := range f.CallsIn(cc, false) {
			if call.Fn != state || len(call.Expr.Args) != 1 || !mentionsTextDeep(f, call.Expr.Args[0], "ParentID") {
				continue
			}
			unknown = append(unknown, f.CheckOf(call.Expr).Fail...)
		}
		for _, n := range g.Nodes {
			if n.AST == nil || !containsNode(cc, n.AST) || n.Block == nil || n.Block.Cond != n.AST || len(n.Succs) != 2 {
				continue
			}
			if be, ok := ast.Unparen(n.AST.(ast.Expr)).(*ast.BinaryExpr); ok && mentionsTextDeep(f, be, "ParentID") && mentionsText(be, "Tip()") {
				switch be.Op {
				case token.NEQ:
					detached = append(detached, n.Succs[0])
				case token.EQL:
					detached = append(detached, n.Succs[1])
				}
			}
		}
		for _, k := range []struct {
			what  string
			edges []*cfgx.Edge
		}{{"parent-unknown", unknown}, {"detached-from-tip", detached}} {
			ob := c.Ob(f, "resync-on-"+k.what+":"+tn, cc.Pos())
			if len(k.edges) == 0 {
				ob.Unknown("in the %s handler the %s side of the test was not found", tn, k.what)
				continue
			}
			reach := f.ReachableFromEdges(k.edges, func(n *cfgx.Node) bool { return pts[n] })
			if v, out := reach[g.Exit]; out {
				ob.Bad(c.Witness(v), "in the %s handler a relayed block whose %s ends the handler on a path that does not switch the announcing peer back to unsynced: the sync loop only asks unsynced peers, so a node on a lighter fork hears of the heavier one and never fetches it (functions that switch the mark off on all their paths: %s)", tn, map[string]string{"parent-unknown": "parent is unknown to us", "detached-from-tip": "parent is not our tip"}[k.what], env.unsyncNames())
			} else {
				ob.OK("every path from the %s side passes a step that switches the peer's synced mark off", k.what)
			}
		}
	}
}

func (env *c12Env) unsyncNames() string {
	var names []string
	for fn := range env.unsyncFn {
		names = append(names, fn.Name())
	}
	if len(names) == 0 {
		return "none found"
	}
	sortStrings(names)
	return strings.Join(names, ", ")
}

// edgeEstablishesZero: on edge e the operand matched by isA is known to be 0.
func edgeEstablishesZero(f *ir.Func, e *cfgx.Edge, isA func(ast.Expr) bool) bool {
	if e.Cond == nil || (e.Kind != cfgx.True && e.Kind != cfgx.False) {
		return false
	}
	be, ok := ast.Unparen(e.Cond).(*ast.BinaryExpr)
	if !ok {
		return false
	}
	onTrue := e.Kind == cfgx.True
	constOf := func(x ast.Expr) (int64, bool) { return f.ConstInt(x) }
	if isA(be.X) {
		k, isC := constOf(be.Y)
		if !isC {
			return false
		}
		switch {
		case k == 0:
			// a == 0, a <= 0 on true; a != 0, a > 0 on false
			return ((be.Op == token.EQL || be.Op == token.LEQ) && onTrue) || ((be.Op == token.NEQ || be.Op == token.GTR) && !onTrue)
		case k == 1:
			// a < 1 on true; a >= 1 on false
			return (be.Op == token.LSS && onTrue) || (be.Op == token.GEQ && !onTrue)
		}
		return false
	}
	if isA(be.Y) {
		k, isC := constOf(be.X)
		if !isC {
			return false
		}
		switch {
		case k == 0:
			// 0 == a, 0 >= a on true; 0 != a, 0 < a on false
			return ((be.Op == token.EQL || be.Op == token.GEQ) && onTrue) || ((be.Op == token.NEQ || be.Op == token.LSS) && !onTrue)
		case k == 1:
			// 1 > a on true; 1 <= a on false
			return (be.Op == token.GTR && onTrue) || (be.Op == token.LEQ && !onTrue)
		}
	}
	return false
}

// fetchFns: the functions of package syncer that return an error and (transitively, inside the package) hand blocks to
// the chain manager.
func c12fetchFns(c *Ctx) map[*types.Func]bool {
	add1 := c.P.Method("syncer", "ChainManager", "AddBlocks")
	var add2 *types.Func
	if c.P.HasMethod("syncer", "ChainManager", "AddValidatedV2Blocks") {
		add2 = c.P.Method("syncer", "ChainManager", "AddValidatedV2Blocks")
	}
	reach := map[*types.Func]bool{}
	funcs := c.P.PkgFuncs("syncer")
	for changed := true; changed; {
		changed = false
		for _, f := range funcs {
			if f.Obj == nil || reach[f.Obj] {
				continue
			}
			for _, call := range f.Calls(true) {
				if call.Fn != nil && (call.Fn == add1 || (add2 != nil && call.Fn == add2) || reach[call.Fn]) {
					reach[f.Obj] = true
					changed = true
					break
				}
			}
		}
	}
	// not the announcement handlers: whatever the RPC dispatcher reaches is the serving side
	served := map[*types.Func]bool{}
	var mark func(f *ir.Func)
	mark = func(f *ir.Func) {
		if f == nil || f.Obj == nil || served[f.Obj] {
			return
		}
		served[f.Obj] = true
		for _, call := range f.Calls(true) {
			if call.Fn != nil && call.Fn.Pkg() != nil && call.Fn.Pkg().Path() == ir.PkgPath("syncer") {
				mark(c.P.FuncOf(call.Fn))
			}
		}
	}
	mark(dispatchFn(c))
	out := map[*types.Func]bool{}
	for fn := range reach {
		if served[fn] {
			continue
		}
		sig := fn.Type().(*types.Signature)
		if n := sig.Results().Len(); n > 0 && ir.IsErrorType(sig.Results().At(n-1).Type()) {
			out[fn] = true
		}
	}
	return out
}

func isHeaderList(t types.Type) bool {
	sl, ok := t.Underlying().(*types.Slice)
	return ok && ir.IsNamed(sl.Elem(), "go.sia.tech/core/types", "BlockHeader")
}

func c12r2(c *Ctx) {
	env := getC12Env(c)
	fetch := env.fetch
	n := 0
	for _, f := range env.units() {
		if top := f.Top(); top != nil && top.Obj != nil {
			if _, isSetter := env.setters[top.Obj]; isSetter {
				continue
			}
		}
		g := f.Graph()
		for _, nd := range g.Nodes {
			val, known, is := env.markWrite(f, nd)
			if !is || (known && !val) || !g.Live(nd) {
				continue
			}
			n++
			c.VisitGraph(f)
			ob := c.Ob(f, "synced-only-on-evidence", nd.Pos())
			if !known {
				ob.Unknown("the value written to the peer's synced mark at %s is not a constant; the rule cannot tell which side it takes", c.P.Pos(nd.Pos()))
				continue
			}
			var empty, noneLeft, fetched []*cfgx.Edge
			for _, m := range g.Nodes {
				for _, e := range m.Succs {
					if edgeEstablishesZero(f, e, func(x ast.Expr) bool {
						a := lenOf(f, x)
						return a != nil && f.TypeOf(a) != nil && isHeaderList(f.TypeOf(a))
					}) {
						empty = append(empty, e)
					}
					if edgeEstablishesZero(f, e, func(x ast.Expr) bool {
						if lenOf(f, x) != nil {
							return false
						}
						if _, isConst := f.ConstInt(x); isConst {
							return false
						}
						t := f.TypeOf(x)
						if t == nil {
							return false
						}
						b, ok := t.Underlying().(*types.Basic)
						return ok && b.Info()&types.IsUnsigned != 0
					}) {
						noneLeft = append(noneLeft, e)
					}
				}
			}
			for _, call := range f.Calls(false) {
				if call.Fn != nil && fetch[call.Fn] {
					fetched = append(fetched, f.CheckOf(call.Expr).Succ...)
				}
			}
			switch {
			case !f.OnlyVia(nd, append(append([]*cfgx.Edge{}, empty...), noneLeft...)):
				ob.Bad(c.Witness(f.BypassWitness(nd, append(append([]*cfgx.Edge{}, empty...), noneLeft...))), "the peer is marked synced at %s on a path on which neither its header list was found empty nor its remaining count was found zero: the sync loop stops asking a peer that still has blocks for us, and nothing switches the mark off again unless the peer announces something new", c.P.Pos(nd.Pos()))
			case !f.OnlyVia(nd, append(append([]*cfgx.Edge{}, empty...), fetched...)):
				ob.Bad(c.Witness(f.BypassWitness(nd, append(append([]*cfgx.Edge{}, empty...), fetched...))), "the peer is marked synced at %s on a path on which the blocks for its (non-empty) header list were not fetched successfully: a failed fetch leaves us behind a peer that is never asked again", c.P.Pos(nd.Pos()))
			default:
				ob.OK("behind 'no headers', or behind a successful fetch with nothing remaining")
			}
		}
	}
	if n == 0 {
		ir.Fail("no place where a peer is marked synced found in package syncer")
	}
}

// c12loop: the sync loop — the smallest unit of package syncer that takes the history sample and marks peers.
func c12loop(c *Ctx, env *c12Env) *ir.Func {
	history := c.P.Method("syncer", "ChainManager", "History")
	var best *ir.Func
	for _, r := range env.vs.Roots {
		if len(r.CallsTo(true, history)) == 0 {
			continue
		}
		if best == nil || len(r.Graph().Nodes) < len(best.Graph().Nodes) {
			best = r
		}
	}
	if best == nil {
		ir.Fail("sync loop (caller of ChainManager.History in package syncer) not found")
	}
	return best
}

func c12r3(c *Ctx) {
	env := getC12Env(c)
	f := c12loop(c, env)
	g := f.Graph()
	c.VisitGraph(f)
	peerT := c.P.Named("syncer", "Peer")
	errM := c.P.Method("syncer", "Peer", "Err")
	n := 0
	ir.Walk(f.Body, false, func(x ast.Node) {
		rs, ok := x.(*ast.RangeStmt)
		if !ok || rs.Value == nil {
			return
		}
		// a range over the peer table (a map of peers) that collects peers into a list
		mt, isMap := f.TypeOf(rs.X).Underlying().(*types.Map)
		if !isMap || ir.NamedOf(mt.Elem()) != peerT {
			return
		}
		pv := f.ObjOf(rs.Value)
		if pv == nil {
			return
		}
		// the collecting step: append(list, p) or a go statement / call handing p on
		var collect []*cfgx.Node
		for _, nd := range g.Nodes {
			if nd.AST == nil || !containsNode(rs.Body, nd.AST) {
				continue
			}
			for _, call := range f.NodeCalls(nd) {
				if id, isID := call.Expr.Fun.(*ast.Ident); isID && id.Name == "append" {
					for _, a := range call.Expr.Args[1:] {
						if f.ObjOf(a) == pv {
							collect = append(collect, nd)
						}
					}
				}
			}
			if gs, isGo := nd.AST.(*ast.GoStmt); isGo {
				for _, a := range gs.Call.Args {
					if f.ObjOf(a) == pv {
						collect = append(collect, nd)
					}
				}
			}
		}
		if len(collect) == 0 {
			return
		}
		n++
		ob := c.Ob(f, "every-unsynced-peer-asked", rs.Pos())
		// start: the first node of the body; leave: the loop head again (next iteration) or anything after the loop
		head := g.NodeOf(rs)
		if head == nil {
			head = g.NodeContaining(rs.Pos())
		}
		var into []*cfgx.Edge
		if head != nil {
			for _, e := range head.Succs {
				if e.To != nil && (e.To.AST == nil || containsNode(rs.Body, e.To.AST)) && e.Kind == cfgx.Br0 {
					into = append(into, e)
				}
			}
		}
		if len(into) == 0 {
			ob.Unknown("the loop over the peer table at %s has no recognisable body edge", c.P.Pos(rs.Pos()))
			return
		}
		isCollect := map[*cfgx.Node]bool{}
		for _, nd := range collect {
			isCollect[nd] = true
		}
		// edges that justify passing a peer over
		excused := map[*cfgx.Edge]bool{}
		for _, nd := range g.Nodes {
			if nd.AST == nil || !containsNode(rs.Body, nd.AST) {
				continue
			}
			if set, _ := env.syncedTest(f, nd); set != nil {
				excused[set] = true
			}
			if nd.Block != nil && nd.Block.Cond == nd.AST && len(nd.Succs) == 2 {
				if x, nonNilOnTrue, ok := f.NilTest(nd.AST.(ast.Expr)); ok {
					if call, isCall := ast.Unparen(x).(*ast.CallExpr); isCall && f.Callee(call) == errM {
						if nonNilOnTrue {
							excused[nd.Succs[0]] = true
						} else {
							excused[nd.Succs[1]] = true
						}
					}
				}
			}
		}
		var witness *cfgx.Visit
		left := func(n *cfgx.Node) bool {
			return n == head || n.Exit || (n.AST != nil && !containsNode(rs.Body, n.AST))
		}
		for _, v := range f.ExploreFeasible([]*cfgx.Visit{{Node: into[0].To, State: 0, Via: into[0]}}, cfgx.Walker{
			AtNode: func(n *cfgx.Node, s cfgx.State) (cfgx.State, bool) {
				return s, !isCollect[n] && !left(n)
			},
			OnEdge: func(e *cfgx.Edge, s cfgx.State) (cfgx.State, bool) {
				return s, !excused[e]
			},
		}) {
			if !isCollect[v.Node] && left(v.Node) && witness == nil {
				witness = v
			}
		}
		if witness != nil {
			ob.Bad(c.Witness(witness), "the sync loop's pass over the peer table at %s can skip a peer that has neither failed (Err() != nil) nor is marked synced: a peer left out here is never asked for headers, so a topology in which it is the only link to the heavier chain does not converge", c.P.Pos(rs.Pos()))
		} else {
			ob.OK("a peer is passed over only on the failed side of Err() or the set side of Synced()")
		}
	})
	// the same selection written with the library: slices.DeleteFunc(all peers, func(p *Peer) bool { … })
	for _, call := range f.Calls(false) {
		if call.Fn == nil || call.Fn.Pkg() == nil || call.Fn.Pkg().Path() != "slices" || call.Fn.Name() != "DeleteFunc" || len(call.Expr.Args) != 2 {
			continue
		}
		lit, isLit := ast.Unparen(call.Expr.Args[1]).(*ast.FuncLit)
		if !isLit || lit.Type.Params.NumFields() != 1 {
			continue
		}
		lf := c.P.LitOf(lit)
		if lf == nil {
			for _, l := range f.Lits {
				if l.Lit == lit {
					lf = l
				}
			}
		}
		if lf == nil || ir.NamedOf(f.TypeOf(lit.Type.Params.List[0].Type)) != peerT {
			continue
		}
		n++
		c.VisitGraph(lf)
		ob := c.Ob(f, "every-unsynced-peer-asked", call.Pos())
		lg := lf.Graph()
		var excusedAtom func(e ast.Expr) bool
		excusedAtom = func(e ast.Expr) bool {
			e = ast.Unparen(e)
			if be, ok := e.(*ast.BinaryExpr); ok && be.Op == token.LOR {
				return excusedAtom(be.X) && excusedAtom(be.Y)
			}
			if v, isConst := constBoolOf(lf, e); isConst {
				return !v
			}
			if call, ok := e.(*ast.CallExpr); ok && lf.Callee(call) == env.synced {
				return true
			}
			if x, nonNilOnTrue, ok := lf.NilTest(e); ok && nonNilOnTrue {
				if call, isCall := ast.Unparen(x).(*ast.CallExpr); isCall && lf.Callee(call) == errM {
					return true
				}
			}
			return false
		}
		var excused []*cfgx.Edge
		for _, nd := range lg.Nodes {
			if set, _ := env.syncedTest(lf, nd); set != nil {
				excused = append(excused, set)
			}
			if nd.AST != nil && nd.Block != nil && nd.Block.Cond == nd.AST && len(nd.Succs) == 2 {
				if x, nonNilOnTrue, ok := lf.NilTest(nd.AST.(ast.Expr)); ok {
					if call, isCall := ast.Unparen(x).(*ast.CallExpr); isCall && lf.Callee(call) == errM {
						if nonNilOnTrue {
							excused = append(excused, nd.Succs[0])
						} else {
							excused = append(excused, nd.Succs[1])
						}
					}
				}
			}
		}
		bad := ""
		for _, ret := range lg.Returns() {
			rs, ok := ret.AST.(*ast.ReturnStmt)
			if !ok || len(rs.Results) != 1 {
				continue
			}
			if excusedAtom(rs.Results[0]) || lf.OnlyVia(ret, excused) {
				continue
			}
			bad = c.P.Pos(rs.Pos())
		}
		ob.Check(bad == "", nil, "the sync loop's selection of peers at %s can drop (return at %s) a peer that has neither failed (Err() != nil) nor is marked synced: a peer left out here is never asked for headers, so a topology in which it is the only link to the heavier chain does not converge", c.P.Pos(call.Pos()), bad)
	}
	if n == 0 {
		ir.Fail("the sync loop's pass over the peer table not found")
	}
}

func c12r4(c *Ctx) {
	env := getC12Env(c)
	sendHeaders := c.P.Method("syncer", "Peer", "SendHeaders")
	n := 0
	for _, f := range env.units() {
		g := f.Graph()
		for _, call := range f.CallsTo(false, sendHeaders) {
			nd := g.NodeContaining(call.Pos())
			if nd == nil {
				continue
			}
			// the enclosing loop over the history sample
			var rs ast.Node
			ir.Walk(f.Body, false, func(x ast.Node) {
				switch s := x.(type) {
				case *ast.RangeStmt:
					if containsNode(s.Body, call.Expr) {
						rs = s
					}
				case *ast.ForStmt:
					if containsNode(s.Body, call.Expr) {
						rs = s
					}
				}
			})
			n++
			c.VisitGraph(f)
			ob := c.Ob(f, "ancestor-search-continues", call.Pos())
			if rs == nil {
				ob.Bad(nil, "the header request at %s is not inside a loop over the history sample: only one ancestor candidate is tried, so a fork deeper than that entry never finds the common ancestor", c.P.Pos(call.Pos()))
				continue
			}
			chk := f.CheckOf(call.Expr)
			if len(chk.Fail) == 0 {
				ob.Unknown("the failure side of the header request at %s was not found", c.P.Pos(call.Pos()))
				continue
			}
			again := false
			for m := range f.ReachableFromEdges(chk.Fail, nil) {
				if m == nd {
					again = true
				}
			}
			ob.Check(again, nil, "after the header request at %s fails for one history entry no path leads to the request for the next entry: a peer that does not know our most recent blocks (any fork deeper than the first entry) is given up instead of being asked from an older common ancestor", c.P.Pos(call.Pos()))
		}
	}
	if n == 0 {
		ir.Fail("no header request (Peer.SendHeaders) in the sync loop")
	}
}

func c12r5(c *Ctx) {
	env := getC12Env(c)
	relayHdr := c.P.Method("syncer", "Peer", "RelayV2Header")
	relayOut := c.P.Method("syncer", "Peer", "RelayV2BlockOutline")
	hdrFns, outFns, fetch, vs := env.hdrFns, env.outFns, env.fetch, env.vs
	relays := func(f *ir.Func, set map[*types.Func]bool, target *types.Func) func(*cfgx.Node) bool {
		return c12relayNode(f, set, target)
	}
	// (a) the two relay handlers
	f := vs.Of(dispatchFn(c))
	g := f.Graph()
	c.VisitGraph(f)
	addBlocks := c.P.Method("syncer", "ChainManager", "AddBlocks")
	{
		tn := "RPCRelayV2Header"
		cc := clauseOf(f, tn)
		if cc == nil {
			ir.Fail("no case for gateway.%s", tn)
		}
		var attached []*cfgx.Edge
		for _, n := range g.Nodes {
			if n.AST == nil || !containsNode(cc, n.AST) || n.Block == nil || n.Block.Cond != n.AST || len(n.Succs) != 2 {
				continue
			}
			if be, ok := ast.Unparen(n.AST.(ast.Expr)).(*ast.BinaryExpr); ok && mentionsTextDeep(f, be, "ParentID") && mentionsText(be, "Tip()") {
				switch be.Op {
				case token.NEQ:
					attached = append(attached, n.Succs[1])
				case token.EQL:
					attached = append(attached, n.Succs[0])
				}
			}
		}
		ob := c.Ob(f, "relay-onwards:"+tn, cc.Pos())
		if len(attached) == 0 {
			ob.Unknown("attach test of the %s handler not found", tn)
		} else if v, out := f.ReachableFromEdges(attached, relays(f, hdrFns, relayHdr))[g.Exit]; out {
			ob.Bad(c.Witness(v), "in the %s handler a header that passed the work and attach tests can end the handler without being relayed to the other peers: announcements stop at this node, so a node two hops from the miner never hears of the block", tn)
		} else {
			ob.OK("an attaching header is relayed on every path")
		}
	}
	{
		tn := "RPCRelayV2BlockOutline"
		cc := clauseOf(f, tn)
		if cc == nil {
			ir.Fail("no case for gateway.%s", tn)
		}
		var added []*cfgx.Edge
		for _, call := range f.CallsIn(cc, false) {
			if call.Fn == addBlocks || (call.Fn != nil && fetch[call.Fn]) {
				added = append(added, f.CheckOf(call.Expr).Succ...)
			}
		}
		ob := c.Ob(f, "relay-onwards:"+tn, cc.Pos())
		if len(added) == 0 {
			ob.Unknown("success side of AddBlocks in the %s handler not found", tn)
		} else if v, out := f.ReachableFromEdges(added, relays(f, outFns, relayOut))[g.Exit]; out {
			ob.Bad(c.Witness(v), "in the %s handler a block that was added to the chain can end the handler without its outline being relayed to the other peers: announcements stop at this node", tn)
		} else {
			ob.OK("an added block's outline is relayed on every path")
		}
	}
	// (b) the sync loop: after a completed sync (successful fetch, nothing remaining) the tip is announced
	loop := c12loop(c, env)
	if loop == nil {
		ir.Fail("sync loop view not found")
	}
	lg := loop.Graph()
	c.VisitGraph(loop)
	n := 0
	for _, nd := range lg.Nodes {
		val, known, is := env.markWrite(loop, nd)
		if !is || !known || !val || !lg.Live(nd) {
			continue
		}
		// only the mark that follows a fetch (the empty-reply mark has nothing to announce)
		var fetched []*cfgx.Edge
		for _, call := range loop.Calls(false) {
			if call.Fn != nil && fetch[call.Fn] {
				fetched = append(fetched, loop.CheckOf(call.Expr).Succ...)
			}
		}
		if len(fetched) == 0 || !loop.OnlyVia(nd, fetched) {
			continue
		}
		n++
		ob := c.Ob(loop, "relay-onwards:completed-sync", nd.Pos())
		isRelay := relays(loop, hdrFns, relayHdr)
		// the relay may come before or after the mark: look from the fetch's success edges to the next iteration
		var head *cfgx.Node
		ir.Walk(loop.Body, false, func(x ast.Node) {
			if fs, ok := x.(*ast.ForStmt); ok && containsNode(fs.Body, nd.AST) && head == nil {
				head = lg.NodeContaining(fs.Body.Pos())
			}
		})
		bypass := false
		var wit *cfgx.Visit
		// paths from the mark onwards, and paths to the mark: one of them must hold the relay
		after := lg.Reach([]*cfgx.Visit{cfgx.StartAt(nd, 0)}, func(m *cfgx.Node) bool { return m != nd && isRelay(m) })
		relayAfter := true
		for m, v := range after {
			if m == nd {
				continue
			}
			if m.Exit || (m.AST != nil && isLoopHeadOf(loop, m, nd)) {
				relayAfter = false
				wit = v
			}
		}
		if !relayAfter {
			// relay before the mark on every path from the fetch's success
			before := loop.ReachableFromEdges(fetched, isRelay)
			if v, hit := before[nd]; hit {
				bypass = true
				if wit == nil {
					wit = v
				}
			}
		}
		_ = head
		if bypass {
			ob.Bad(c.Witness(wit), "after a completed sync (peer marked synced at %s) the loop goes on without announcing the new tip to the other peers: a node in the middle of a line of nodes is the only one that can tell its other neighbour about the heavier chain", c.P.Pos(nd.Pos()))
		} else {
			ob.OK("the tip of a completed sync is relayed")
		}
	}
	if n == 0 {
		ir.Fail("no synced mark behind a successful fetch in the sync loop")
	}
}

// isLoopHeadOf: m is the head (range / for statement node) of a loop whose body contains nd.
func isLoopHeadOf(f *ir.Func, m, nd *cfgx.Node) bool {
	if m.AST == nil || nd.AST == nil {
		return false
	}
	switch s := m.AST.(type) {
	case *ast.RangeStmt:
		return containsNode(s.Body, nd.AST)
	case *ast.ForStmt:
		return containsNode(s.Body, nd.AST)
	}
	// a range loop's head node is its key/value or X expression; a for loop's head is its condition
	found := false
	ir.Walk(f.Body, false, func(x ast.Node) {
		switch s := x.(type) {
		case *ast.RangeStmt:
			if containsNode(s.Body, nd.AST) && !containsNode(s.Body, m.AST) && containsNode(s, m.AST) {
				found = true
			}
		case *ast.ForStmt:
			if containsNode(s.Body, nd.AST) && !containsNode(s.Body, m.AST) && containsNode(s, m.AST) && s.Init != m.AST {
				found = true
			}
		}
	})
	return found
}

// c12r6: once a relayed header / outline was found to be new and of sufficient work, the handler must not drop it
// silently (handler errors are only logged by the peer loop).
func c12r6(c *Ctx) {
	env := getC12Env(c)
	f := env.vs.Of(dispatchFn(c))
	g := f.Graph()
	c.VisitGraph(f)
	addBlocks := c.P.Method("syncer", "ChainManager", "AddBlocks")
	relayHdr := c.P.Method("syncer", "Peer", "RelayV2Header")
	pts := env.unsyncNodes(f)
	for _, tn := range []string{"RPCRelayV2Header", "RPCRelayV2BlockOutline"} {
		cc := clauseOf(f, tn)
		if cc == nil {
			ir.Fail("no case for gateway.%s", tn)
		}
		var workOK []*cfgx.Edge
		for _, n := range g.Nodes {
			if n.AST == nil || !containsNode(cc, n.AST) || n.Block == nil || n.Block.Cond != n.AST || len(n.Succs) != 2 {
				continue
			}
			if be, ok := ast.Unparen(n.AST.(ast.Expr)).(*ast.BinaryExpr); ok && mentionsText(be.X, "CmpWork") && mentionsText(be.X, "PoWTarget") {
				switch be.Op {
				case token.LSS:
					workOK = append(workOK, n.Succs[1])
				case token.GEQ:
					workOK = append(workOK, n.Succs[0])
				}
			}
		}
		ob := c.Ob(f, "new-work-not-dropped:"+tn, cc.Pos())
		if len(workOK) == 0 {
			ob.Unknown("work test of the %s handler not found", tn)
			continue
		}
		added := map[*cfgx.Edge]bool{}
		for _, call := range f.CallsIn(cc, false) {
			if call.Fn == addBlocks || (call.Fn != nil && env.fetch[call.Fn]) {
				for _, e := range f.CheckOf(call.Expr).Succ {
					added[e] = true
				}
			}
		}
		hdrRelay := c12relayNode(f, env.hdrFns, relayHdr)
		settles := func(n *cfgx.Node) bool {
			if pts[n] {
				return true
			}
			if tn == "RPCRelayV2Header" && hdrRelay(n) {
				return true
			}
			if n.AST == nil {
				return false
			}
			if _, isDefer := n.AST.(*ast.DeferStmt); isDefer {
				return false
			}
			for _, call := range f.CallsIn(n.AST, true) {
				if call.Fn == nil {
					continue
				}
				if call.Fn == env.ban {
					return true
				}

			}
			return false
		}
		var st []*cfgx.Visit
		for _, e := range workOK {
			st = append(st, cfgx.StartAfter(e, 0))
		}
		var wit *cfgx.Visit
		for _, v := range f.ExploreFeasible(st, cfgx.Walker{
			AtNode: func(n *cfgx.Node, s cfgx.State) (cfgx.State, bool) { return s, !settles(n) && !n.Exit },
			OnEdge: func(e *cfgx.Edge, s cfgx.State) (cfgx.State, bool) { return s, !added[e] },
		}) {
			if v.Node.Exit && wit == nil {
				wit = v
			}
		}
		if wit != nil {
			ob.Bad(c.Witness(wit), "in the %s handler a block that is new to us and has enough work can end the handler without having been added or relayed, without the announcing peer being switched back to unsynced and without a ban (the peer loop only logs a handler's error): the node stays behind a peer it keeps believing in sync", tn)
		} else {
			ob.OK("every exit behind the work test adds/relays, unsyncs or bans")
		}
	}
}

// c12relayNode: node nd relays — it calls (or starts with `go`) a relay function, a literal that does, or a local
// function variable every non-nil definition of which is such a literal. Creating the literal is not relaying.
func c12relayNode(f *ir.Func, set map[*types.Func]bool, target *types.Func) func(*cfgx.Node) bool {
	isRelayFn := func(fn *types.Func) bool { return fn != nil && (set[fn] || fn == target) }
	// (a function variable shared by the announcement handlers holds, per path, the follow-up of the announcement at
	// hand: any of the syncer's relay steps counts there)
	anyRelay := func(fn *types.Func) bool {
		if isRelayFn(fn) {
			return true
		}
		if fn == nil || fn.Pkg() == nil || fn.Pkg().Path() != ir.PkgPath("syncer") {
			return false
		}
		if strings.HasPrefix(fn.Name(), "RelayV2") && recvNamed(fn) != nil && recvNamed(fn).Obj().Name() == "Peer" {
			return true
		}
		if body := f.P.FuncOf(fn); body != nil {
			for _, call := range body.Calls(true) {
				if call.Fn != nil && strings.HasPrefix(call.Fn.Name(), "RelayV2") && recvNamed(call.Fn) != nil && recvNamed(call.Fn).Obj().Name() == "Peer" {
					return true
				}
			}
		}
		return false
	}
	litRelays := func(lit *ast.FuncLit) bool {
		for _, call := range f.CallsIn(lit.Body, true) {
			if anyRelay(call.Fn) {
				return true
			}
		}
		return false
	}
	return func(nd *cfgx.Node) bool {
		if nd.AST == nil {
			return false
		}
		if _, isDefer := nd.AST.(*ast.DeferStmt); isDefer {
			return false
		}
		for _, call := range f.CallsIn(nd.AST, false) {
			if isRelayFn(call.Fn) {
				return true
			}
			switch fun := ast.Unparen(call.Expr.Fun).(type) {
			case *ast.FuncLit: // go func() { … relay … }()
				if litRelays(fun) {
					return true
				}
			case *ast.Ident:
				v, isVar := f.ObjOf(fun).(*types.Var)
				if !isVar || v.IsField() {
					continue
				}
				lits, other := 0, 0
				for _, d := range wholeDefs(f, v) {
					if vs, isSpec := d.Stmt.(*ast.ValueSpec); isSpec && len(vs.Values) == 0 {
						continue
					}
					if d.RHS == nil {
						other++
						continue
					}
					if f.IsNil(d.RHS) {
						continue
					}
					if cl, isZero := ast.Unparen(d.RHS).(*ast.CompositeLit); isZero && len(cl.Elts) == 0 && cl.Type == nil {
						continue
					}
					if lit, isLit := ast.Unparen(d.RHS).(*ast.FuncLit); isLit && litRelays(lit) {
						lits++
					} else if src, isID := ast.Unparen(d.RHS).(*ast.Ident); isID {
						// handed over from a helper's own variable
						ok := false
						for _, d2 := range wholeDefs(f, f.ObjOf(src)) {
							if d2.RHS != nil {
								if lit, isLit := ast.Unparen(d2.RHS).(*ast.FuncLit); isLit && litRelays(lit) {
									ok = true
								}
							}
						}
						if ok {
							lits++
						} else {
							other++
						}
					} else {
						other++
					}
				}
				if lits > 0 && other == 0 {
					return true
				}
			}
		}
		return false
	}
}
