package rules

import (
	"go/ast"
	"go/token"
	"go/types"

	"sialint/internal/cfgx"
	"sialint/internal/ir"
)

func init() {
	Explanations["C05"] = "Decides structural necessary conditions of 'the pool is a valid continuation of the tip' in chain.Manager and the miner: (R1) every exported Manager method that reads the pool's lists, index map or weight — directly, in a closure, or through an unexported helper that does — calls the revalidation step after locking and before the first such read; (R2) every success return of the tip walker passes the store that discards the pool's mid-state; (R3) in the apply step Store.ApplyBlock(cs, cau) is followed on every path by the pool's apply update with the same two values, and likewise for revert; (R4) every registration of a transaction in the pool's index map is dominated by the success edge of consensus.Validate(V2)Transaction against the pool's mid-state for that transaction (directly, or through a staging slice filled only on that edge) and each such validation success is followed by the matching mid-state Apply; (R5) in MineBlock every append to the block's transaction lists lies on the passing side of the block-weight test and the loop leaves (break/return) on the failing side, so a prefix is taken; (R6) the proof updater used when blocks are applied/reverted under the pool excludes the ephemeral sentinel before range-checking a leaf index, so a pooled child of a pooled parent is not dropped by an unrelated block; (R7) every pointer the proof updater passes to its per-element closure points into the transaction it was given (through the parameter and index expressions) or through a pointer-typed value — never at a by-value loop copy, whose update would be discarded. (R8) in the pool rebuild every `weight +=` is dominated by a reset of the weight to zero with no other adjustment between them, so the figure the eviction test reads is the weight of the transactions actually pooled. (R9) the inverse-effect table of C02.R1: the element store the v1 pool is validated against is restored exactly by a revert; (R10) every contribution to the pool's recorded weight (directly or through a local accumulator) is paired, within its loop iteration, with the store of that transaction into a pool list or the local list that becomes one. (R11) the copy-out check of C14.R3. NOT decided: that moved proofs verify, that a mined block is accepted, retention until confirmation."

	register(&Rule{ID: "C05.R1", Prop: "C05", Floor: 10, Doc: "revalidate-before-read in every exported pool reader", Run: c05r1})
	register(&Rule{ID: "C05.R2", Prop: "C05", Floor: 1, Doc: "tip change discards the pool mid-state", Run: c05r2})
	register(&Rule{ID: "C05.R3", Prop: "C05", Floor: 2, Doc: "store apply/revert is paired with the pool update for the same update and state", Run: c05r3})
	register(&Rule{ID: "C05.R4", Prop: "C05", Floor: 4, Doc: "only transactions validated against the pool mid-state are admitted, and each is applied to it", Run: c05r4})
	register(&Rule{ID: "C05.R5", Prop: "C05", Floor: 2, Doc: "mined block takes pool prefixes up to the weight limit", Run: c05r5})
	register(&Rule{ID: "C05.R7", Prop: "C05", Floor: 4, Doc: "the proof updater hands out pointers into the transaction itself, never into a loop copy", Run: c05r7})
	register(&Rule{ID: "C05.R8", Prop: "C05", Floor: 2, Doc: "rebuilding the pool restarts its weight from zero before re-adding transaction weights", Run: c05r8})
	register(&Rule{ID: "C05.R9", Prop: "C05", Floor: 16, Doc: "the element store the v1 pool is validated against is restored exactly by a revert and never holds an output created and spent inside one block (same table as C02.R1)", Run: c02r1})
	register(&Rule{ID: "C05.R11", Prop: "C05", Floor: 2, Doc: "the pool is reported by deep copy: what a caller holds for tip T is not rewritten when the pool moves its proofs to T+1 (same check as C14.R3)", Run: c14r3})
	register(&Rule{ID: "C05.R10", Prop: "C05", Floor: 2, Doc: "the pool's weight grows by the weight of exactly the transactions stored into the pool lists (directly or through an accumulator)", Run: c05r10})
	register(&Rule{ID: "C05.R6", Prop: "C05", Floor: 1, Doc: "moving pooled proofs does not declare ephemeral inputs invalid (same check as C13.R6)", Run: ephemeralSkipped})
}

// revalidateFn: the unexported, parameterless Manager method that rebuilds the mid-state (assigns txpool.ms a non-nil value).
func revalidateFn(c *Ctx, pf poolFields) *ir.Func {
	var out *ir.Func
	size := 0
	for _, f := range c.P.MethodsOf("chain", "Manager") {
		if exported(f) || (f.Type.Params != nil && len(f.Type.Params.List) > 0) {
			continue
		}
		// (the store may sit in a method of the pool's own type: look at the method with its helpers expanded, and
		// take the smallest one — a caller of the step contains the step)
		v := c.P.Expand(f, ir.ExpandOpt{Key: "unit"})
		for _, w := range v.WritesIn(v.Body, false) {
			if v.FieldOf(w.LHS) == pf.ms && w.RHS != nil && !v.IsNil(w.RHS) {
				if n := len(v.Graph().Nodes); out == nil || n < size {
					out, size = f, n
				}
			}
		}
	}
	if out == nil {
		ir.Fail("pool revalidation step (parameterless method assigning txpool.ms) not found")
	}
	return out
}

func c05r1(c *Ctx) { poolReadersRevalidate(c, nil) }

// poolReadersRevalidate checks revalidate-before-read for the exported Manager methods accepted by filter (nil: all).
func poolReadersRevalidate(c *Ctx, filter func(*ir.Func) bool) {
	pf := getPoolFields(c.P)
	reval := revalidateFn(c, pf)
	methods := c.P.MethodsOf("chain", "Manager")
	// unexported helpers that read pool content (transitively, 2 rounds)
	reads := map[*types.Func]bool{}
	mentionsPool := func(f *ir.Func) bool {
		for _, fld := range pf.content() {
			if f.MentionsField(f.Body, true, fld) {
				return true
			}
		}
		return false
	}
	// pool maintenance performed by the tip walker (moving proofs when blocks are applied/reverted) is not a read that serves pool contents
	r := getChainRoles(c.P)
	maintenance := map[*ir.Func]bool{r.reorgTo: true}
	for round := 0; round < 4; round++ {
		for f := range maintenance {
			for _, call := range f.Calls(true) {
				if callee := c.P.FuncOf(call.Fn); callee != nil && !exported(callee) && callee != reval {
					maintenance[callee] = true
				}
			}
		}
	}
	for round := 0; round < 3; round++ {
		for _, f := range methods {
			if exported(f) || f == reval || maintenance[f] {
				continue
			}
			if mentionsPool(f) {
				reads[f.Obj] = true
			}
			for _, call := range f.Calls(true) {
				if reads[call.Fn] {
					reads[f.Obj] = true
				}
			}
		}
	}
	for _, bf := range methods {
		if !exported(bf) {
			continue
		}
		// helpers and local closures expanded: a lock-and-revalidate bracket taking the read as a literal is the same code
		f := r.view(bf)
		if filter != nil && !filter(f) {
			continue
		}
		g := f.Graph()
		var readNodes []*cfgx.Node
		for _, n := range g.Nodes {
			if n.AST == nil {
				continue
			}
			hit := false
			for _, fld := range pf.content() {
				if f.MentionsField(n.AST, true, fld) {
					hit = true
				}
			}
			for _, call := range f.CallsIn(n.AST, true) {
				if reads[call.Fn] {
					hit = true
				}
			}
			if hit {
				readNodes = append(readNodes, n)
			}
		}
		if len(readNodes) == 0 {
			continue
		}
		c.VisitGraph(f)
		ob := c.Ob(f, "revalidated-before-pool-read", readNodes[0].Pos())
		var rv []*cfgx.Node
		for _, call := range f.CallsTo(false, reval.Obj) {
			rv = append(rv, g.NodeContaining(call.Pos()))
		}
		if len(rv) == 0 {
			ob.Bad(nil, "%s reads the pool without calling the revalidation step: after a tip change it serves transactions that are confirmed, double-spent or carry stale proofs", f.Name())
			continue
		}
		good := true
		for _, rn := range readNodes {
			dom := false
			for _, v := range rv {
				if v != rn && g.DominatedByNode(rn, v) {
					dom = true
				}
			}
			if !dom {
				good = false
				ob.Pos = c.P.Pos(rn.Pos())
			}
		}
		ob.Check(good, nil, "%s reads the pool at %s before (or without) the revalidation step", f.Name(), ob.Pos)
	}
}

func c05r2(c *Ctx) {
	pf := getPoolFields(c.P)
	r := getChainRoles(c.P)
	f := r.view(r.reorgTo)
	g := f.Graph()
	c.VisitGraph(f)
	ob := c.Ob(f, "midstate-discarded-on-tip-change", f.Body.Pos())
	reach := g.Reach([]*cfgx.Visit{cfgx.StartAt(g.Entry, 0)}, func(n *cfgx.Node) bool { return isNilAssign(f, n, pf.ms) })
	for _, ret := range g.Returns() {
		if v, ok := reach[ret]; ok && f.ClassifyReturn(ret) != ir.RetError {
			ob.Bad(c.Witness(v), "the tip walker can return success at %s without setting txpool.ms = nil: the pool keeps a mid-state of the old tip and is never revalidated", c.P.Pos(ret.Pos()))
			return
		}
	}
	ob.OK("every success return passes txpool.ms = nil")
}

func c05r3(c *Ctx) {
	r := getChainRoles(c.P)
	cauT := c.P.Named("consensus", "ApplyUpdate")
	cruT := c.P.Named("consensus", "RevertUpdate")
	poolUpdate := func(upd *types.Named) *ir.Func { return poolUpdateFn(r, upd) }
	for _, spec := range []struct {
		step  *ir.Func
		store *types.Func
		upd   *types.Named
		what  string
	}{{r.view(r.applyTip), r.storeApply, cauT, "apply"}, {r.view(r.revertTip), r.storeRevert, cruT, "revert"}} {
		f := spec.step
		g := f.Graph()
		c.VisitGraph(f)
		ob := c.Ob(f, "pool-update-paired:"+spec.what, f.Body.Pos())
		pu := poolUpdate(spec.upd)
		if pu == nil {
			ob.Bad(nil, "no Manager method with parameters (%s, consensus.State) found: the pool is not updated when a block is %sed", spec.upd.Obj().Name(), spec.what)
			continue
		}
		for _, sc := range f.CallsTo(false, spec.store) {
			sn := g.NodeContaining(sc.Pos())
			csObj, updObj := f.ObjOf(sc.Expr.Args[0]), f.ObjOf(sc.Expr.Args[1])
			isPaired := func(n *cfgx.Node) bool {
				for _, pc := range f.NodeCalls(n) {
					if pc.Fn == pu.Obj && len(pc.Expr.Args) == 2 && f.ObjOf(pc.Expr.Args[0]) == updObj && f.ObjOf(pc.Expr.Args[1]) == csObj && csObj != nil && updObj != nil {
						return true
					}
				}
				return false
			}
			var st []*cfgx.Visit
			for _, e := range sn.Succs {
				st = append(st, cfgx.StartAfter(e, 0))
			}
			if v, skip := g.Reach(st, isPaired)[g.Exit]; skip {
				ob.Bad(c.Witness(v), "after Store.%sBlock(%s, %s) an exit is reachable without the pool's %s update for the same update and state: pooled proofs are moved with the wrong update or against the wrong accumulator size and transactions are dropped or kept invalid", capitalize(spec.what), sc.Expr.Args[0].(*ast.Ident).Name, ir.ExprString(sc.Expr.Args[1]), spec.what)
			} else {
				ob.OK("paired with %s", pu.Name())
			}
		}
	}
}

func capitalize(s string) string {
	if s == "" {
		return s
	}
	return string(s[0]-32) + s[1:]
}

func c05r4(c *Ctx) {
	pf := getPoolFields(c.P)
	v1 := c.P.FuncObj("consensus", "ValidateTransaction")
	v2 := c.P.FuncObj("consensus", "ValidateV2Transaction")
	a1 := c.P.Method("consensus", "MidState", "ApplyTransaction")
	a2 := c.P.Method("consensus", "MidState", "ApplyV2Transaction")
	for _, f := range getChainRoles(c.P).methodsV {
		g := f.Graph()
		// registrations: m.txpool.indices[k] = v
		var regs []*cfgx.Node
		for _, n := range g.Nodes {
			if n.AST == nil {
				continue
			}
			for _, w := range f.WritesIn(n.AST, false) {
				if ix, ok := ast.Unparen(w.LHS).(*ast.IndexExpr); ok && f.FieldOf(ix.X) == pf.indices {
					regs = append(regs, n)
				}
			}
		}
		if len(regs) == 0 {
			continue
		}
		c.VisitGraph(f)
		// validation calls against the pool mid-state
		type val struct {
			call ir.Call
			txn  types.Object
			chk  ir.Check
		}
		var vals []val
		for _, vc := range f.CallsTo(false, v1, v2) {
			if len(vc.Expr.Args) < 2 || f.FieldOf(vc.Expr.Args[0]) != pf.ms {
				continue
			}
			vals = append(vals, val{vc, f.ObjOf(vc.Expr.Args[1]), f.CheckOf(vc.Expr)})
		}
		for _, reg := range regs {
			ob := c.Ob(f, "admitted-only-validated", reg.Pos())
			// direct domination
			direct := false
			for _, v := range vals {
				if f.OnlyVia(reg, v.chk.Succ) {
					direct = true
				}
			}
			if direct {
				ob.OK("registration dominated by the validation's success edge")
				continue
			}
			// staging: reg is inside a range over S, and every append to S is dominated by a validation success of the appended variable
			head, _, _ := enclosingRange(f, reg)
			staged := false
			if head != nil {
				rs := head.AST.(*ast.RangeStmt)
				if s := f.ObjOf(rs.X); s != nil {
					// (the list may have been built in a helper's own variable and handed over at its return)
					s = copySource(f, s)
					appends, good := 0, true
					for _, n := range g.Nodes {
						if n.AST == nil {
							continue
						}
						for _, w := range f.WritesIn(n.AST, false) {
							if f.ObjOf(w.LHS) != s || w.RHS == nil {
								continue
							}
							ac, ok := ast.Unparen(w.RHS).(*ast.CallExpr)
							if !ok || len(ac.Args) != 2 {
								continue
							}
							if id, ok := ac.Fun.(*ast.Ident); !ok || id.Name != "append" {
								continue
							}
							appends++
							el := f.ObjOf(ac.Args[1])
							// a staged record that carries the transaction next to derived values (`staged{id, txn}`)
							var carried []types.Object
							if cl, ok := ast.Unparen(ac.Args[1]).(*ast.CompositeLit); ok {
								for _, e := range cl.Elts {
									if kv, ok := e.(*ast.KeyValueExpr); ok {
										e = kv.Value
									}
									if o := f.ObjOf(e); o != nil {
										carried = append(carried, o)
									}
								}
							}
							okOne := false
							for _, v := range vals {
								if v.txn == el && el != nil && f.OnlyVia(n, v.chk.Succ) {
									okOne = true
								}
								for _, o := range carried {
									if v.txn == o && f.OnlyVia(n, v.chk.Succ) {
										okOne = true
									}
								}
								// the staged list may hold positions of the loop over the set: S = append(S, i) after
								// Validate(ms, txn) succeeded for `for i, txn := range X`
								if rh, _, _ := enclosingRange(f, n); rh != nil && el != nil {
									if rs2, ok := rh.AST.(*ast.RangeStmt); ok && rs2.Key != nil && rs2.Value != nil && f.ObjOf(rs2.Key) == el && f.ObjOf(rs2.Value) == v.txn && f.OnlyVia(n, v.chk.Succ) {
										okOne = true
									}
								}
								// the staged list may hold positions: S = append(S, i) after Validate(ms, X[i]) succeeded
								if ix, isIdx := ast.Unparen(v.call.Expr.Args[1]).(*ast.IndexExpr); isIdx && el != nil && f.ObjOf(ix.Index) == el && f.OnlyVia(n, v.chk.Succ) {
									okOne = true
								}
							}
							if !okOne {
								good = false
							}
						}
					}
					staged = appends > 0 && good
				}
			}
			ob.Check(staged, nil, "a transaction is registered in the pool at %s without a dominating successful consensus.Validate(V2)Transaction against the pool's mid-state for it: the pool stops being a valid continuation of the tip", c.P.Pos(reg.Pos()))
		}
		// each validation success is followed by the mid-state Apply of the same transaction before the next iteration / exit
		for _, v := range vals {
			ob := c.Ob(f, "validated-then-applied", v.call.Pos())
			isApply := func(n *cfgx.Node) bool {
				for _, ac := range f.NodeCalls(n) {
					if (ac.Fn == a1.Origin() || ac.Fn == a2.Origin()) && len(ac.Expr.Args) >= 1 && f.ObjOf(ac.Expr.Args[0]) == v.txn {
						if rcv := ac.Recv(); rcv != nil && f.FieldOf(rcv) == pf.ms {
							return true
						}
					}
				}
				return false
			}
			head, _, _ := enclosingRange(f, v.chk.Node)
			stop := func(n *cfgx.Node) bool { return isApply(n) }
			reach := f.ReachableFromEdges(v.chk.Succ, stop)
			bad := false
			if head != nil {
				if _, loops := reach[head]; loops {
					bad = true
				}
			}
			if _, exits := reach[g.Exit]; exits {
				bad = true
			}
			ob.Check(!bad, nil, "after %s succeeded for a transaction the mid-state is not advanced with it before the next transaction is validated: later conflicts (double spends) inside the pool go unnoticed", v.call.Fn.Name())
		}
	}
}

func c05r5(c *Ctx) {
	f := c.P.Views("coreutils", ir.ExpandOpt{Key: "all"}).Of(c.P.Fn("coreutils", "", "MineBlock"))
	g := f.Graph()
	c.VisitGraph(f)
	n := 0
	for _, node := range g.Nodes {
		if node.Block == nil || node.Block.Cond != node.AST || len(node.Succs) != 2 {
			continue
		}
		has := derivesFromCall(f, node.AST, func(call ir.Call) bool { return call.Fn != nil && call.Fn.Name() == "MaxBlockWeight" })
		if !has {
			continue
		}
		head, exit, _ := enclosingRange(f, node)
		if head == nil {
			continue
		}
		n++
		ob := c.Ob(f, "prefix-up-to-weight-limit", node.Pos())
		rs := head.AST.(*ast.RangeStmt)
		// appends to block lists inside this loop
		var appends []*cfgx.Node
		for _, m := range g.Nodes {
			if m.AST == nil || !containsNode(rs.Body, m.AST) {
				continue
			}
			for _, w := range f.WritesIn(m.AST, false) {
				if w.RHS == nil {
					continue
				}
				if ac, ok := ast.Unparen(w.RHS).(*ast.CallExpr); ok {
					if id, ok := ac.Fun.(*ast.Ident); ok && id.Name == "append" {
						appends = append(appends, m)
					}
				}
			}
		}
		// one side of the test reaches no append and does not come back to the loop head (break), the other dominates the appends
		good := false
		for i, over := range node.Succs {
			under := node.Succs[1-i]
			r := f.ReachableFromEdges([]*cfgx.Edge{over}, nil)
			leaves := true
			if _, back := r[head]; back {
				leaves = false
			}
			for _, a := range appends {
				if _, hit := r[a]; hit {
					leaves = false
				}
			}
			domAll := len(appends) > 0
			for _, a := range appends {
				cut := map[*cfgx.Edge]bool{under: true}
				var body *cfgx.Edge
				for _, e := range head.Succs {
					if e.Kind == cfgx.Br0 {
						body = e
					}
				}
				if reachAvoidingEdges(g, body, a, head, cut) {
					domAll = false
				}
			}
			if leaves && domAll {
				good = true
			}
		}
		_ = exit
		if !good && len(appends) == 0 {
			good = countThenSlice(f, g, node, head, rs)
		}
		ob.Check(good, nil, "the weight test at %s does not end the loop on its failing side while guarding every append on its passing side: the block is no longer a prefix of the pool (a skipped parent's child is included) or exceeds the weight limit", c.P.Pos(node.Pos()))
	}
	if n == 0 {
		ir.Fail("no block-weight test inside a pool loop found in MineBlock")
	}
	// and no loop fills the block without one (the v1 and the v2 pass may be one loop or two)
	isWeightTest := func(nd *cfgx.Node) bool {
		return nd.AST != nil && nd.Block != nil && nd.Block.Cond == nd.AST && len(nd.Succs) == 2 &&
			derivesFromCall(f, nd.AST, func(call ir.Call) bool { return call.Fn != nil && call.Fn.Name() == "MaxBlockWeight" })
	}
	ir.Walk(f.Body, false, func(x ast.Node) {
		rs, ok := x.(*ast.RangeStmt)
		if !ok {
			return
		}
		fills := false
		for _, w := range f.WritesIn(rs.Body, false) {
			if w.RHS == nil {
				continue
			}
			ac, isCall := ast.Unparen(w.RHS).(*ast.CallExpr)
			if !isCall {
				continue
			}
			if id, isID := ac.Fun.(*ast.Ident); !isID || id.Name != "append" {
				continue
			}
			if fld := f.FieldOf(w.LHS); fld != nil && fld.Name() == "Transactions" {
				fills = true
			}
		}
		if !fills {
			return
		}
		ob := c.Ob(f, "filling-loop-has-weight-test", rs.Pos())
		has := false
		for _, nd := range g.Nodes {
			if nd.AST != nil && containsNode(rs.Body, nd.AST) && isWeightTest(nd) {
				has = true
			}
		}
		ob.Check(has, nil, "the loop at %s appends pool transactions to the block without a test against MaxBlockWeight: the mined block can exceed the weight limit", c.P.Pos(rs.Pos()))
	})
}

// c05r7: &x handed to the element updater must not be rooted at a by-value local copy.
func c05r7(c *Ctx) {
	pu := proofUpdaterFn(c)
	var txnParam types.Object
	for _, nm := range pu.Type.Params.List[0].Names {
		txnParam = pu.Info().Defs[nm]
	}
	// every place where the updater (with the helpers that collect the elements expanded into it) takes the address of
	// a state element: handed to the per-element closure directly, or collected into a list first
	n := 0
	puv := getChainRoles(c.P).view(pu)
	var sites []*ast.UnaryExpr
	ir.Walk(puv.Body, false, func(x ast.Node) {
		if u, ok := x.(*ast.UnaryExpr); ok && u.Op == token.AND {
			if t := puv.TypeOf(u); t != nil && isPointer(t) && ir.IsNamed(t, ir.PkgPath("types"), "StateElement") {
				sites = append(sites, u)
			}
		}
	})
	for _, u := range sites {
		n++
		c.Visit(1)
		ob := c.Ob(puv, "pointer-into-transaction", u.Pos())
		root := puv.ObjOf(rootOfLvalue(u.X))
		switch {
		case root == txnParam || (root != nil && c.P.OrigObj(root) == txnParam):
			ob.OK("rooted at the transaction parameter")
		case root != nil && isPointer(root.Type()):
			ob.OK("rooted at a pointer-typed value")
		default:
			name := "?"
			if root != nil {
				name = root.Name()
			}
			ob.Bad(nil, "the element updater is given &%s at %s, which is rooted at the by-value local %q: the moved proof is written to a copy and discarded, so the pooled transaction keeps a stale proof and is dropped at the next revalidation", ir.ExprString(u.X), c.P.Pos(u.Pos()), name)
		}
	}
	if n == 0 {
		ir.Fail("no &element call of the per-element updater found")
	}
	// the same slip anywhere in the pool's update code: `for _, v := range list { h(&v.f) }` hands out the address of
	// a field of the loop's copy — what the callee writes through it is discarded with the copy (through a slice
	// element, `&txn.Inputs[i].Parent`, the address points into the shared backing array and is fine)
	for _, f := range c.P.PkgFuncs("chain") { // (as written: an expanded closure call would hide the operand)
		rangeVals := map[types.Object]bool{}
		ir.Walk(f.Body, false, func(x ast.Node) {
			if rs, ok := x.(*ast.RangeStmt); ok && rs.Value != nil && rs.Tok == token.DEFINE {
				// the list walked belongs to a (pooled) transaction: some prefix of the ranged expression is a
				// transaction or a list of transactions (the diffs of an update are values of their own: nothing
				// keeps what is written to them)
				ofTxn := false
				for e := ast.Unparen(rs.X); e != nil; {
					if t := f.TypeOf(e); t != nil {
						if sl, isSl := t.Underlying().(*types.Slice); isSl {
							t = sl.Elem()
						}
						if ir.IsNamed(t, "go.sia.tech/core/types", "V2Transaction") || ir.IsNamed(t, "go.sia.tech/core/types", "Transaction") {
							ofTxn = true
						}
					}
					switch y := e.(type) {
					case *ast.SelectorExpr:
						e = ast.Unparen(y.X)
					case *ast.IndexExpr:
						e = ast.Unparen(y.X)
					case *ast.SliceExpr:
						e = ast.Unparen(y.X)
					case *ast.StarExpr:
						e = ast.Unparen(y.X)
					default:
						e = nil
					}
				}
				if o := f.ObjOf(rs.Value); o != nil && !isPointer(o.Type()) && ofTxn {
					rangeVals[o] = true
				}
			}
		})
		if len(rangeVals) == 0 {
			continue
		}
		for _, call := range f.Calls(false) {
			for _, a := range call.Expr.Args {
				u, ok := ast.Unparen(a).(*ast.UnaryExpr)
				if !ok || u.Op != token.AND {
					continue
				}
				// a path of plain field selections down to the loop variable
				e := ast.Unparen(u.X)
				fields := 0
				for {
					sel, ok := e.(*ast.SelectorExpr)
					if !ok || f.Info().Selections[sel] == nil || isPointer(f.TypeOf(sel.X)) {
						break
					}
					e = ast.Unparen(sel.X)
					fields++
				}
				root := f.ObjOf(e)
				if _, isID := e.(*ast.Ident); !isID || fields == 0 || root == nil || !rangeVals[root] {
					continue
				}
				// does the callee store through that parameter? (local closures and repository functions are read;
				// anything else that takes a pointer to an element is assumed to)
				c.VisitGraph(f)
				ob := c.Ob(f, "pointer-into-loop-copy", call.Pos())
				ob.Bad(nil, "%s is handed &%s at %s, the address of a field of the loop variable %q, which is a copy of the list element: whatever is written through it (a moved proof, a replaced ephemeral element) is lost, and the pooled transaction keeps stale data and is dropped at the next revalidation", callName(call.Fn), ir.ExprString(u.X), c.P.Pos(call.Pos()), root.Name())
			}
		}
	}
}

func isPointer(t types.Type) bool {
	_, ok := t.Underlying().(*types.Pointer)
	return ok
}

// c05r8: the pool's recorded weight is what the eviction test reads ("the pool
// is full"). When the pool is rebuilt for a new tip, every surviving
// transaction's weight is added again, so the total must restart from zero on
// every path into the re-adding loops; otherwise the total grows with every
// block and, once past the limit, the eviction loop empties a pool that is far
// from full.
func c05r8(c *Ctx) {
	pf := getPoolFields(c.P)
	f := getChainRoles(c.P).view(revalidateFn(c, pf)) // helpers (also generic ones taking the admission test as a literal) expanded
	g := f.Graph()
	c.VisitGraph(f)
	var adds, resets, others []*cfgx.Node
	for _, n := range g.Nodes {
		if n.AST == nil {
			continue
		}
		for _, w := range f.WritesIn(n.AST, false) {
			if f.FieldOf(w.LHS) != pf.weight {
				continue
			}
			switch {
			case w.Tok == token.ADD_ASSIGN:
				adds = append(adds, n)
			case w.Tok == token.ASSIGN && w.RHS != nil:
				if v, ok := f.ConstInt(w.RHS); ok && v == 0 {
					resets = append(resets, n)
				} else if be, ok := ast.Unparen(w.RHS).(*ast.BinaryExpr); ok && be.Op == token.ADD && (f.FieldOf(be.X) == pf.weight || f.FieldOf(be.Y) == pf.weight) {
					adds = append(adds, n)
				} else {
					others = append(others, n)
				}
			default:
				others = append(others, n)
			}
		}
	}
	if len(adds) == 0 {
		ir.Fail("the pool rebuild does not add transaction weights to the pool's weight")
	}
	for _, a := range adds {
		ob := c.Ob(f, "weight-restarts-from-zero", a.Pos())
		good := false
		for _, r := range resets {
			if r == a || !g.DominatedByNode(a, r) {
				continue
			}
			dirty := false
			between := pathNodesBetween(g, r, a)
			for _, o := range others {
				if between[o] {
					dirty = true
				}
			}
			if !dirty {
				good = true
			}
		}
		ob.Check(good, nil, "the weight added at %s is not preceded on every path by a reset of the pool's weight to zero (with no other adjustment in between): after each tip change the surviving transactions are counted again on top of the old total, and the eviction loop eventually empties a pool that is not full", c.P.Pos(a.Pos()))
	}
}

// countThenSlice recognises the other spelling of "take a prefix up to the weight limit": the loop only counts — its
// failing side leaves the loop with the position of the first transaction that does not fit, exhaustion yields the
// length of the list — and the block then takes list[:count]. Every later append that mentions the list must be that
// slice, with the count defined only in those two ways.
func countThenSlice(f *ir.Func, g *cfgx.Graph, test, head *cfgx.Node, rs *ast.RangeStmt) bool {
	list := f.ObjOf(rs.X)
	key := f.ObjOf(rs.Key)
	if list == nil || key == nil {
		return false
	}
	// one side of the test leaves the loop for good
	leaves := false
	for _, e := range test.Succs {
		if _, back := f.ReachableFromEdges([]*cfgx.Edge{e}, nil)[head]; !back {
			leaves = true
		}
	}
	if !leaves {
		return false
	}
	uses := 0
	ok := true
	for _, m := range g.Nodes {
		if m.AST == nil || containsNode(rs, m.AST) {
			continue
		}
		for _, w := range f.WritesIn(m.AST, false) {
			if w.RHS == nil {
				continue
			}
			ac, isCall := ast.Unparen(w.RHS).(*ast.CallExpr)
			if !isCall || len(ac.Args) < 2 {
				continue
			}
			if id, isID := ac.Fun.(*ast.Ident); !isID || id.Name != "append" {
				continue
			}
			for _, a := range ac.Args[1:] {
				if !f.MentionsObj(a, false, list) {
					continue
				}
				uses++
				se, isSlice := ast.Unparen(a).(*ast.SliceExpr)
				if !isSlice || f.ObjOf(se.X) != list || se.Low != nil || se.High == nil || !ac.Ellipsis.IsValid() {
					ok = false
					continue
				}
				cnt := f.ObjOf(se.High)
				if cnt == nil {
					ok = false
					continue
				}
				for _, d := range ReachingDefs(f, cnt, m) {
					if d == nil || d.AST == nil {
						ok = false
						continue
					}
					fine := false
					for _, dw := range f.WritesIn(d.AST, false) {
						if f.ObjOf(dw.LHS) != cnt {
							continue
						}
						if dw.RHS != nil && (f.ObjOf(dw.RHS) == key || (lenOf(f, dw.RHS) != nil && f.ObjOf(lenOf(f, dw.RHS)) == list)) {
							fine = true
						}
					}
					if !fine {
						ok = false
					}
				}
			}
		}
	}
	return ok && uses > 0
}

// c05r10: the pool's recorded weight grows by the weight of exactly the transactions that enter the pool lists. The
// weight drives eviction; counting a transaction that was skipped (already pooled, duplicate) makes a nearly
// empty pool look full and evicts accepted transactions. Every contribution `weight += W(x)` — directly, or through
// a local accumulator that is added afterwards — sits in a loop iteration that also stores x into a pool list (or
// into the local list that becomes one), and neither happens without the other within the iteration.
func c05r10(c *Ctx) {
	pf := getPoolFields(c.P)
	n := 0
	isWeightCall := func(f *ir.Func, e ast.Expr) ast.Expr {
		call, ok := ast.Unparen(e).(*ast.CallExpr)
		if !ok || len(call.Args) != 1 {
			return nil
		}
		fn := f.Callee(call)
		if fn == nil || (fn.Name() != "TransactionWeight" && fn.Name() != "V2TransactionWeight") {
			return nil
		}
		return call.Args[0]
	}
	{
		direct := isWeightCall
		// the weight may reach the sum through a helper's parameter (`pool.push(id, txn, cs.TransactionWeight(txn))`)
		isWeightCall = func(f *ir.Func, e ast.Expr) ast.Expr {
			if x := direct(f, e); x != nil {
				return x
			}
			if _, isID := ast.Unparen(e).(*ast.Ident); isID {
				if o := origin(f, e); o != e {
					return direct(f, o)
				}
			}
			return nil
		}
	}
	for _, f := range getChainRoles(c.P).methodsV {
		g := f.Graph()
		type site struct {
			n *cfgx.Node
			x ast.Expr
		}
		var sites []site
		contributions := func(target func(ast.Expr) bool) []site {
			var out []site
			for _, nd := range g.Nodes {
				if nd.AST == nil {
					continue
				}
				for _, w := range f.WritesIn(nd.AST, false) {
					if !target(w.LHS) || w.RHS == nil {
						continue
					}
					var operand ast.Expr
					switch {
					case w.Tok == token.ADD_ASSIGN:
						operand = w.RHS
					case w.Tok == token.ASSIGN:
						if be, ok := ast.Unparen(w.RHS).(*ast.BinaryExpr); ok && be.Op == token.ADD {
							if target(be.X) {
								operand = be.Y
							} else if target(be.Y) {
								operand = be.X
							}
						}
					}
					if operand != nil {
						out = append(out, site{nd, operand})
					}
				}
			}
			return out
		}
		for _, s := range contributions(func(e ast.Expr) bool { return f.FieldOf(e) == pf.weight }) {
			if x := isWeightCall(f, s.x); x != nil {
				sites = append(sites, site{s.n, x})
				continue
			}
			// a local accumulator
			if acc, ok := f.ObjOf(s.x).(*types.Var); ok && !acc.IsField() && acc.Parent() != acc.Pkg().Scope() {
				for _, s2 := range contributions(func(e ast.Expr) bool { return f.ObjOf(e) == types.Object(acc) }) {
					if x := isWeightCall(f, s2.x); x != nil {
						sites = append(sites, site{s2.n, x})
					}
				}
			}
		}
		if len(sites) == 0 {
			continue
		}
		c.VisitGraph(f)
		// lists that are (or become) pool lists
		poolish := func(e ast.Expr) bool {
			if fl := f.FieldOf(e); fl == pf.txns || fl == pf.v2txns {
				return true
			}
			lo := f.ObjOf(e)
			if lo == nil {
				return false
			}
			if _, isSlice := lo.Type().Underlying().(*types.Slice); !isSlice {
				return false
			}
			found := false
			// stored as a pool list, or walked by a loop that stores its elements into one
			for _, w := range f.WritesIn(f.Body, false) {
				if fl := f.FieldOf(w.LHS); (fl == pf.txns || fl == pf.v2txns) && w.RHS != nil && f.ObjOf(w.RHS) == lo {
					found = true
				}
			}
			ir.Walk(f.Body, false, func(x ast.Node) {
				rs, ok := x.(*ast.RangeStmt)
				if !ok || f.ObjOf(rs.X) != lo {
					return
				}
				for _, w := range f.WritesIn(rs.Body, false) {
					root := w.LHS
					if ix, ok := ast.Unparen(root).(*ast.IndexExpr); ok {
						root = ix.X
					}
					if fl := f.FieldOf(root); fl == pf.txns || fl == pf.v2txns {
						found = true
					}
				}
			})
			return found
		}
		for _, s := range sites {
			n++
			ob := c.Ob(f, "weight-counts-what-is-pooled", s.n.Pos())
			head, _, body := enclosingRange(f, s.n)
			if head == nil {
				ob.Unknown("the weight contribution at %s is not inside a loop over transactions", c.P.Pos(s.n.Pos()))
				continue
			}
			rs := head.AST.(*ast.RangeStmt)
			// the stores of the same transaction into a pool(-to-be) list within this loop
			var stores []*cfgx.Node
			for _, nd := range g.Nodes {
				if nd.AST == nil || !containsNode(rs.Body, nd.AST) {
					continue
				}
				for _, w := range f.WritesIn(nd.AST, false) {
					if w.RHS == nil {
						continue
					}
					if ix, ok := ast.Unparen(w.LHS).(*ast.IndexExpr); ok && poolish(ix.X) && sameLvalue(f, w.RHS, s.x) {
						stores = append(stores, nd)
						continue
					}
					if ac, ok := ast.Unparen(w.RHS).(*ast.CallExpr); ok && len(ac.Args) == 2 && !ac.Ellipsis.IsValid() {
						if id, ok := ac.Fun.(*ast.Ident); ok && id.Name == "append" && poolish(w.LHS) {
							arg := ac.Args[1]
							if sameLvalue(f, arg, s.x) {
								stores = append(stores, nd)
							} else if cl, ok := ast.Unparen(arg).(*ast.CompositeLit); ok {
								for _, el := range cl.Elts {
									if kv, ok := el.(*ast.KeyValueExpr); ok {
										el = kv.Value
									}
									if sameLvalue(f, el, s.x) {
										stores = append(stores, nd)
									}
								}
							}
						}
					}
				}
			}
			if len(stores) == 0 {
				// the loop may walk a list of transactions that were all stored before (staged list): then the
				// ranged list itself must be a pool(-to-be) list or its elements were appended to one in full
				if poolish(rs.X) {
					ob.OK("the loop walks a list that is stored as a pool list")
					continue
				}
				ob.Bad(nil, "the weight of %s is added to the pool's weight at %s, but the loop does not store that transaction into a pool list: transactions that are skipped (already pooled, duplicates) are counted, the pool looks full and accepted transactions are evicted", ir.ExprString(s.x), c.P.Pos(s.n.Pos()))
				continue
			}
			bad := ""
			isStore := func(m *cfgx.Node) bool {
				for _, st := range stores {
					if st == m {
						return true
					}
				}
				return false
			}
			var after []*cfgx.Visit
			for _, e := range s.n.Succs {
				after = append(after, cfgx.StartAfter(e, 0))
			}
			storeBefore := false // is the contribution reached only through a store?
			if _, skip := g.Reach([]*cfgx.Visit{cfgx.StartAfter(body, 0)}, isStore)[s.n]; !skip && !isStore(s.n) {
				storeBefore = true
			}
			if !storeBefore && !isStore(s.n) {
				if _, leak := g.Reach(after, isStore)[head]; leak {
					bad = "the iteration can end after counting the weight without storing the transaction"
				}
			}
			// and no store without the contribution
			for _, st := range stores {
				if st == s.n {
					continue
				}
				var from []*cfgx.Visit
				for _, e := range st.Succs {
					from = append(from, cfgx.StartAfter(e, 0))
				}
				contribBefore := false
				if _, skip := g.Reach([]*cfgx.Visit{cfgx.StartAfter(body, 0)}, func(m *cfgx.Node) bool { return m == s.n })[st]; !skip {
					contribBefore = true
				}
				if !contribBefore {
					if _, leak := g.Reach(from, func(m *cfgx.Node) bool { return m == s.n })[head]; leak {
						bad = "a transaction can be stored without its weight being counted"
					}
				}
			}
			ob.Check(bad == "", nil, "pool weight and pool contents diverge at %s: %s (the weight drives eviction: an over-counted pool evicts accepted transactions, an under-counted one grows past its limit)", c.P.Pos(s.n.Pos()), bad)
		}
	}
	if n == 0 {
		ir.Fail("no contribution to the pool's weight found")
	}
}
