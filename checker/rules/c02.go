package rules

import (
	"fmt"
	"go/ast"
	"go/token"
	"go/types"
	"sort"
	"strings"

	"sialint/internal/cfgx"
	"sialint/internal/ir"
)

func init() {
	Explanations["C02"] = "Decides structural necessary conditions of 'chain state depends only on the best chain' as sibling agreement between the store's apply and revert sides in chain/db.go: (R1) for the three element-diff kinds the loops of the apply-side and revert-side functions are decomposed into branch classes (ephemeral / spent-or-resolved / revised / created, recognised from the conditions on the diff's own fields) and each class is summarised as a multiset of store effects put(prior|revised element), delete, putExp(prior|revised window, flag), delExp(window), optionally under the window-changed guard; the revert side must equal the algebraic inverse of the apply side class by class (put↔delete, put(revised)→put(prior), putExp(w,true)↔delExp(w), delExp(w)→putExp(w,false)), apply must append and revert prepend — the order is read from the body of the expiration helper called (where the id's bytes stand in its `append`, selected by the boolean argument when the helper has one) —, the functions are analysed with their helpers (a diff classifier, shared bodies) expanded, and on both sides no effect is reachable for a diff that is both created and spent/resolved; (R2) DBStore.ApplyBlock and RevertBlock gate element work with the same comparison against HardforkV2.RequireHeight; (R3) both sides forward every ForEachTreeNode node to the tree bucket with the same key function; (R4) the state functions are inverse: apply puts the best-index entry and Height, revert deletes the entry above the new tip and sets Height (shared with C03.R4). NOT decided: that core's diffs are themselves inverse, byte equality with a linear node, Merkle proof arithmetic, the expiring-order override table."

	register(&Rule{ID: "C02.R1", Prop: "C02", Floor: 16, Doc: "inverse-effect table: revert undoes exactly what apply did, class by class, and both skip ephemeral diffs", Run: c02r1})
	register(&Rule{ID: "C02.R2", Prop: "C02", Floor: 1, Doc: "apply and revert use the same height gate for element work", Run: c02r2})
	register(&Rule{ID: "C02.R3", Prop: "C02", Floor: 2, Doc: "both sides write every tree node with the same key function", Run: c02r3})
	register(&Rule{ID: "C02.R4", Prop: "C02", Floor: 2, Doc: "state functions are inverse (best-index entry and Height)", Run: func(c *Ctx) {
		s := getStoreRoles(c.P)
		ph, bw := bestIndexRoles(c, s)
		checkRevertRemovesEntry(c, s, ph, bw)
		// apply side puts the entry
		f := s.stateViews(c, ph, bw).Of(s.apply)
		if len(f.CallsTo(false, ph.Obj)) > 0 {
			ob := c.Ob(f, "apply-puts-entry", f.Body.Pos())
			rawPut := c.P.Method("chain", "DBBucket", "Put")
			puts := false
			for _, call := range f.Calls(false) {
				if bw[call.Fn] && reaches(c.P, call.Fn, rawPut, 3) {
					puts = true
				}
			}
			ob.Check(puts, nil, "applying a block does not put its best-index entry")
			if puts {
				stateStepOnEveryPath(c, f, "apply-state-on-every-path", func(fn *types.Func) bool {
					return fn == ph.Obj || (bw[fn] && reaches(c.P, fn, rawPut, 3))
				}, "applying a block can return at %s without recording its best-index entry and Height")
			}
		}
	}})
}

type eff struct {
	kind string // put, del, putExp, delExp
	who  string // prior, revised, ""
	flag string // true, false, ""
	cond bool   // under the window-changed guard
}

func (e eff) String() string {
	s := e.kind
	if e.who != "" || e.flag != "" {
		s += "(" + strings.TrimSuffix(e.who+","+e.flag, ",") + ")"
	}
	if e.cond {
		s += "?"
	}
	return s
}

func inverse(e eff) eff {
	switch e.kind {
	case "put":
		if e.who == "revised" {
			return eff{kind: "put", who: "prior", cond: e.cond}
		}
		return eff{kind: "del", cond: e.cond}
	case "del":
		return eff{kind: "put", who: "prior", cond: e.cond}
	case "putExp":
		return eff{kind: "delExp", who: e.who, cond: e.cond}
	case "delExp":
		return eff{kind: "putExp", who: e.who, flag: "false", cond: e.cond}
	}
	return e
}

func effKey(es []eff) string {
	var ss []string
	for _, e := range es {
		ss = append(ss, e.String())
	}
	sort.Strings(ss)
	return strings.Join(ss, " ")
}

// elementSides finds the apply-side and revert-side element functions: DBStore methods taking consensus.ApplyUpdate / RevertUpdate.
func elementSides(c *Ctx) (apply, revert *ir.Func) {
	effectProg = c.P
	for _, f := range c.P.MethodsOf("chain", "DBStore") {
		if exported(f) || f.Type.Params == nil {
			continue
		}
		for _, fld := range f.Type.Params.List {
			t := f.Info().TypeOf(fld.Type)
			if ir.IsNamed(t, ir.PkgPath("consensus"), "ApplyUpdate") {
				apply = f
			}
			if ir.IsNamed(t, ir.PkgPath("consensus"), "RevertUpdate") {
				revert = f
			}
		}
	}
	if apply == nil || revert == nil {
		ir.Fail("apply-side / revert-side element functions of DBStore not found")
	}
	// helpers (a diff classifier, shared per-kind bodies) expanded; the element effects themselves stay calls
	vs := c.P.Views("chain", ir.ExpandOpt{Key: "element-effects", Stop: func(fn *types.Func) bool { return effectRole(fn) != "" }})
	return vs.Of(apply), vs.Of(revert)
}

// effectRole classifies an element effect of the store: a function of package
// chain without results whose parameters are one element ("put"), or one id
// with an optional window height and an optional order flag — then it records
// an expiration when its body appends the id to a stored list ("putExp"),
// removes one when it rewrites a raw list without doing so ("delExp"), and
// deletes an element otherwise ("del"). The receiver may be the store or a
// small value the store hands out (a list handle that already knows its window).
func effectRole(fn *types.Func) string {
	if fn == nil || fn.Pkg() == nil || fn.Pkg().Path() != ir.PkgPath("chain") || fn.Exported() {
		return ""
	}
	sig := fn.Type().(*types.Signature)
	if sig.Recv() == nil || sig.Results().Len() != 0 {
		return ""
	}
	ps := sig.Params()
	isID := func(t types.Type) bool {
		n := ir.NamedOf(t)
		if n == nil {
			return false
		}
		_, isArr := n.Underlying().(*types.Array)
		return isArr
	}
	isElem := func(t types.Type) bool {
		n := ir.NamedOf(t)
		return n != nil && strings.HasSuffix(n.Obj().Name(), "Element")
	}
	isU64 := func(t types.Type) bool { b, ok := t.Underlying().(*types.Basic); return ok && b.Kind() == types.Uint64 }
	isBool := func(t types.Type) bool { b, ok := t.Underlying().(*types.Basic); return ok && b.Kind() == types.Bool }
	onStore := recvNamed(fn) != nil && recvNamed(fn).Obj().Name() == "DBStore"
	if ps.Len() == 1 && isElem(ps.At(0).Type()) && onStore {
		return "put"
	}
	// the bucket wrapper's own encode-and-put / delete, when the per-kind helpers above them were merged or dropped
	// (`setElement(e, present)`): put(key, encodable) and delete(key)
	if effectProg != nil {
		if is, skip := isBucketWrapperFn(effectProg, fn); is {
			if f := effectProg.FuncOf(fn); f != nil {
				rawPut, rawDel := effectProg.Method("chain", "DBBucket", "Put"), effectProg.Method("chain", "DBBucket", "Delete")
				if ps.Len() == 2+skip && reaches(effectProg, fn, rawPut, 2) {
					if _, isIface := ps.At(1 + skip).Type().Underlying().(*types.Interface); isIface {
						return "put"
					}
				}
				if ps.Len() == 1+skip && reaches(effectProg, fn, rawDel, 2) {
					return "del"
				}
			}
			return ""
		}
	}
	if ps.Len() == 0 || ps.Len() > 3 || !isID(ps.At(0).Type()) {
		return ""
	}
	for i := 1; i < ps.Len(); i++ {
		if t := ps.At(i).Type(); !isU64(t) && !isBool(t) {
			return ""
		}
	}
	f := effectProg.FuncOf(fn)
	if f == nil {
		return ""
	}
	if len(idAppends(f)) > 0 {
		return "putExp"
	}
	raw := false
	for _, call := range f.Calls(false) {
		if call.Fn != nil && (call.Fn.Name() == "putRaw" || call.Fn.Name() == "getRaw") {
			raw = true
		}
	}
	switch {
	case raw:
		return "delExp"
	case onStore && ps.Len() == 1:
		return "del"
	}
	return ""
}

// windowOperand: the window height an expiration effect is about: its uint64
// argument, or the uint64 argument of the call that produced its receiver.
func windowOperand(f *ir.Func, call ir.Call) ast.Expr {
	isU64 := func(e ast.Expr) bool {
		b, ok := f.TypeOf(e).Underlying().(*types.Basic)
		return ok && b.Kind() == types.Uint64
	}
	for _, a := range call.Expr.Args {
		if isU64(a) {
			return a
		}
	}
	if rc, ok := ast.Unparen(origin(f, call.Recv())).(*ast.CallExpr); ok {
		for _, a := range rc.Args {
			if isU64(a) {
				return a
			}
		}
	}
	return nil
}

// effectProg is the program effectRole resolves helper bodies in (set by getStoreRoles' users before analysis).
var effectProg *ir.Prog

// idAppends lists, for an expiration helper, the `append` calls one of whose
// operands is the helper's id parameter sliced (`id[:]`), with the order they
// establish: "true" when the id goes to the end of the stored list (the apply
// order), "false" when it goes to the front (the revert order).
type idAppend struct {
	call  *ast.CallExpr
	order string
}

func idAppends(f *ir.Func) []idAppend {
	if f.Type.Params == nil || len(f.Type.Params.List) == 0 || len(f.Type.Params.List[0].Names) == 0 {
		return nil
	}
	id := f.Info().Defs[f.Type.Params.List[0].Names[0]]
	isID := func(e ast.Expr) bool {
		se, ok := ast.Unparen(e).(*ast.SliceExpr)
		return ok && f.ObjOf(se.X) == id && id != nil
	}
	var out []idAppend
	ir.Walk(f.Body, false, func(n ast.Node) {
		call, ok := n.(*ast.CallExpr)
		if !ok || len(call.Args) != 2 {
			return
		}
		if fn, ok := ast.Unparen(call.Fun).(*ast.Ident); !ok || fn.Name != "append" {
			return
		}
		switch {
		case isID(call.Args[1]):
			out = append(out, idAppend{call, "true"})
		case isID(call.Args[0]):
			out = append(out, idAppend{call, "false"})
		}
	})
	return out
}

// expirationOrder: the order a call of a recording helper establishes —
// "true" (appended, the apply order), "false" (prepended, the revert order) or
// "?" — from the helper's body: a helper with a bool parameter chooses between
// its two appends by `if <param>`, one without has a single append.
func expirationOrder(p *ir.Prog, caller *ir.Func, call ir.Call) string {
	h := p.FuncOf(call.Fn)
	if h == nil {
		return "?"
	}
	apps := idAppends(h)
	var flagParam types.Object
	var flagIdx = -1
	i := 0
	for _, fld := range h.Type.Params.List {
		for _, nm := range fld.Names {
			if b, ok := h.Info().TypeOf(fld.Type).Underlying().(*types.Basic); ok && b.Kind() == types.Bool {
				flagParam, flagIdx = h.Info().Defs[nm], i
			}
			i++
		}
	}
	if flagParam == nil {
		if len(apps) == 1 {
			return apps[0].order
		}
		return "?"
	}
	if flagIdx >= len(call.Expr.Args) {
		return "?"
	}
	tv, ok := caller.Info().Types[call.Expr.Args[flagIdx]]
	if !ok || tv.Value == nil {
		return "?"
	}
	want := tv.Value.String() == "true"
	res := "?"
	ir.Walk(h.Body, false, func(n ast.Node) {
		ifs, ok := n.(*ast.IfStmt)
		if !ok {
			return
		}
		cond, neg := ast.Unparen(ifs.Cond), false
		if u, ok := cond.(*ast.UnaryExpr); ok && u.Op == token.NOT {
			cond, neg = ast.Unparen(u.X), true
		}
		if h.ObjOf(cond) != flagParam {
			return
		}
		var arm ast.Node = ifs.Body
		if want == neg {
			arm = ifs.Else
		}
		if arm == nil {
			return
		}
		n1 := 0
		for _, a := range apps {
			if containsNode(arm, a.call) {
				res = a.order
				n1++
			}
		}
		if n1 != 1 {
			res = "?"
		}
	})
	return res
}

type diffLoop struct {
	kind   string // Siacoin, Siafund, FileContract
	rs     *ast.RangeStmt
	head   *cfgx.Node
	d      types.Object
	class  map[string][]eff
	bad    []string
	ephOK  bool
	ephWhy string
}

func analyseSide(c *Ctx, f *ir.Func) map[string]*diffLoop {
	effectProg = c.P
	g := f.Graph()
	out := map[string]*diffLoop{}
	for _, n := range g.Nodes {
		rs, ok := n.AST.(*ast.RangeStmt)
		if !ok || rs.Value == nil {
			continue
		}
		call, ok := ast.Unparen(rs.X).(*ast.CallExpr)
		if !ok || f.Callee(call) == nil {
			continue
		}
		name := f.Callee(call).Name()
		if !strings.HasSuffix(name, "ElementDiffs") || strings.HasPrefix(name, "V2") {
			continue
		}
		dl := &diffLoop{kind: strings.TrimSuffix(name, "ElementDiffs"), rs: rs, head: n, d: f.ObjOf(rs.Value), class: map[string][]eff{}}
		out[dl.kind] = dl
		// atoms inside the body
		var goneNodes, revNodes, winNodes, createdNodes []*cfgx.Node
		for _, m := range g.Nodes {
			if m.AST == nil || !containsNode(rs.Body, m.AST) || m.Block == nil || m.Block.Cond != m.AST || len(m.Succs) != 2 {
				continue
			}
			e := m.AST.(ast.Expr)
			switch {
			case isFieldOfObj(f, e, dl.d, "Spent"), isFieldOfObj(f, e, dl.d, "Resolved"):
				goneNodes = append(goneNodes, m)
			case isFieldOfObj(f, e, dl.d, "Created"):
				createdNodes = append(createdNodes, m)
			default:
				if x, _, ok := f.NilTest(e); ok && isFieldOfObj(f, x, dl.d, "Revision") {
					revNodes = append(revNodes, m)
				} else if be, ok := ast.Unparen(e).(*ast.BinaryExpr); ok && (be.Op == token.NEQ || be.Op == token.EQL) {
					if strings.HasSuffix(ir.ExprString(be.X), "WindowEnd") && strings.HasSuffix(ir.ExprString(be.Y), "WindowEnd") {
						winNodes = append(winNodes, m)
					}
				}
			}
		}
		// revised variables: V.FileContract = *d.Revision ; pointer aliases
		alias := map[types.Object]types.Object{}
		for _, w := range f.WritesIn(rs.Body, false) {
			if w.RHS == nil {
				continue
			}
			l := f.ObjOf(w.LHS)
			if l == nil {
				continue
			}
			if r := f.ObjOf(w.RHS); r != nil && isPointer(r.Type()) {
				alias[l] = r
			}
		}
		rootAlias := func(o types.Object) types.Object {
			for i := 0; i < 5; i++ {
				if a, ok := alias[o]; ok {
					o = a
				} else {
					break
				}
			}
			return o
		}
		revised := map[types.Object]bool{}
		for _, w := range f.WritesIn(rs.Body, false) {
			sel, ok := ast.Unparen(w.LHS).(*ast.SelectorExpr)
			if !ok || sel.Sel.Name != "FileContract" || w.RHS == nil {
				continue
			}
			if st, ok := ast.Unparen(w.RHS).(*ast.StarExpr); ok && isFieldOfObj(f, st.X, dl.d, "Revision") {
				revised[rootAlias(f.ObjOf(sel.X))] = true
			}
		}
		// value copies (`x := y.Share()`, a helper's parameter bound to such a copy): a copy of the revised element is
		// the revised element; the source of a copy is not affected by what happens to the copy
		derived := map[types.Object]types.Object{}
		for _, w := range f.WritesIn(rs.Body, false) {
			if w.RHS == nil {
				continue
			}
			l := f.ObjOf(w.LHS)
			r := f.ObjOf(rootOfLvalue(stripCalls(w.RHS)))
			if l == nil || r == nil || l == r || isPointer(r.Type()) {
				continue
			}
			if _, isID := ast.Unparen(stripCalls(w.RHS)).(*ast.Ident); isID && types.Identical(l.Type(), r.Type()) {
				derived[l] = r
			}
		}
		who := func(e ast.Expr) string {
			// the diff's Revision field itself
			direct := false
			ir.Walk(e, false, func(x ast.Node) {
				if sel, ok := x.(*ast.SelectorExpr); ok && isFieldOfObj(f, sel, dl.d, "Revision") {
					direct = true
				}
			})
			if direct {
				return "revised"
			}
			// a helper's parameter bound to the operand (`from := d.Revision.WindowEnd`)
			if o := origin(f, e); o != e {
				viaRev := false
				ir.Walk(o, false, func(x ast.Node) {
					if sel, ok := x.(*ast.SelectorExpr); ok && isFieldOfObj(f, sel, dl.d, "Revision") {
						viaRev = true
					}
				})
				if viaRev {
					return "revised"
				}
				e = o
			}
			o := f.ObjOf(rootOfLvalue(stripCalls(e)))
			for i := 0; i < 4 && o != nil; i++ {
				if revised[rootAlias(o)] {
					return "revised"
				}
				o = derived[o]
			}
			return "prior"
		}
		// effects
		for _, m := range g.Nodes {
			if m.AST == nil || !containsNode(rs.Body, m.AST) || !g.Live(m) {
				continue
			}
			for _, call := range f.NodeCalls(m) {
				role := effectRole(call.Fn)
				if role == "" {
					continue
				}
				e := eff{kind: role}
				switch role {
				case "put":
					e.who = who(call.Expr.Args[len(call.Expr.Args)-1]) // the element (after the key, at wrapper level)
				case "putExp":
					if w := windowOperand(f, call); w != nil {
						e.who = who(w)
					}
					e.flag = expirationOrder(c.P, f, call)
				case "delExp":
					if w := windowOperand(f, call); w != nil {
						e.who = who(w)
					}
				}
				for _, wn := range winNodes {
					be := ast.Unparen(wn.AST.(ast.Expr)).(*ast.BinaryExpr)
					differs := wn.Succs[0]
					if be.Op == token.EQL {
						differs = wn.Succs[1]
					}
					if onlyViaInLoop(g, n, m, []*cfgx.Edge{differs}) {
						e.cond = true
					}
				}
				// class
				cls := ""
				for _, k := range goneNodes {
					if onlyViaInLoop(g, n, m, []*cfgx.Edge{k.Succs[0]}) {
						cls = "gone"
					}
				}
				if cls == "" {
					for _, r := range revNodes {
						x, nonNilOnTrue, _ := f.NilTest(r.AST.(ast.Expr))
						_ = x
						nn := r.Succs[0]
						if !nonNilOnTrue {
							nn = r.Succs[1]
						}
						if onlyViaInLoop(g, n, m, []*cfgx.Edge{nn}) {
							cls = "revised"
						}
					}
				}
				if cls == "" {
					for _, k := range goneNodes {
						if onlyViaInLoop(g, n, m, []*cfgx.Edge{k.Succs[1]}) {
							cls = "created"
						}
					}
				}
				if cls == "" {
					dl.bad = append(dl.bad, fmt.Sprintf("effect %s at %s is not confined to one branch class", e, c.P.Pos(call.Pos())))
					continue
				}
				dl.class[cls] = append(dl.class[cls], e)
				// ephemeral: the effect must be unreachable when Created && gone: only via Created.false or gone.false of the *first* test chain
				var escape []*cfgx.Edge
				for _, k := range createdNodes {
					escape = append(escape, k.Succs[1])
				}
				for _, k := range goneNodes {
					// a gone-test evaluated right after a Created test (the && chain): its false edge also means "not ephemeral"
					for _, ck := range createdNodes {
						if len(ck.Succs) == 2 && ck.Succs[0].To == k {
							escape = append(escape, k.Succs[1])
						}
					}
				}
				if len(createdNodes) == 0 || !onlyViaInLoop(g, n, m, escape) {
					dl.ephOK = false
					dl.ephWhy = fmt.Sprintf("effect %s at %s is reachable for a diff that is both created and spent/resolved", e, c.P.Pos(call.Pos()))
				}
			}
		}
		if dl.ephWhy == "" {
			dl.ephOK = true
		}
	}
	return out
}

func stripCalls(e ast.Expr) ast.Expr {
	for {
		e = ast.Unparen(e)
		call, ok := e.(*ast.CallExpr)
		if !ok {
			return e
		}
		sel, ok := call.Fun.(*ast.SelectorExpr)
		if !ok {
			return e
		}
		e = sel.X // x.Share() / x.Copy() / x.Move()
	}
}

// onlyViaInLoop: every path from the loop head's body edge to target (within one iteration) crosses one of edges.
func onlyViaInLoop(g *cfgx.Graph, head, target *cfgx.Node, edges []*cfgx.Edge) bool {
	if len(edges) == 0 {
		return false
	}
	var body *cfgx.Edge
	for _, e := range head.Succs {
		if e.Kind == cfgx.Br0 {
			body = e
		}
	}
	cut := map[*cfgx.Edge]bool{}
	for _, e := range edges {
		cut[e] = true
	}
	return !reachAvoidingEdges(g, body, target, head, cut)
}

func c02r1(c *Ctx) {
	af, rf := elementSides(c)
	c.VisitGraph(af)
	c.VisitGraph(rf)
	a, r := analyseSide(c, af), analyseSide(c, rf)
	for _, kind := range []string{"Siacoin", "Siafund", "FileContract"} {
		al, rl := a[kind], r[kind]
		if al == nil || rl == nil {
			ob := c.Ob(af, "loops-present:"+kind, af.Body.Pos())
			ob.Bad(nil, "the %s element diffs are not handled on both the apply and the revert side", kind)
			continue
		}
		for _, side := range []struct {
			f  *ir.Func
			dl *diffLoop
		}{{af, al}, {rf, rl}} {
			ob := c.Ob(side.f, "ephemeral-skipped:"+kind, side.dl.rs.Pos())
			ob.Check(side.dl.ephOK && len(side.dl.bad) == 0, nil, "%s%s: apply stores nothing for an element created and consumed in the same block, so the other side must not touch it either (a phantom element or a missing-expiration panic results)", side.dl.ephWhy, strings.Join(side.dl.bad, "; "))
		}
		classes := []string{"gone", "created"}
		if kind == "FileContract" {
			classes = []string{"gone", "revised", "created"}
		}
		for _, cls := range classes {
			ob := c.Ob(rf, "revert-inverts-apply:"+kind+":"+cls, rl.rs.Pos())
			var want []eff
			for _, e := range al.class[cls] {
				want = append(want, inverse(e))
			}
			got := rl.class[cls]
			if len(al.class[cls]) == 0 {
				ob.Bad(nil, "the apply side has no effect for %s diffs of class %q", kind, cls)
				continue
			}
			ob.Check(effKey(want) == effKey(got), nil, "for %s diffs of class %q apply performs {%s}, whose inverse is {%s}, but revert performs {%s}: applying and then reverting a block does not restore what the store serves", kind, cls, effKey(al.class[cls]), effKey(want), effKey(got))
			// flags: apply appends (true)
			ob2 := c.Ob(af, "apply-appends-expirations:"+kind+":"+cls, al.rs.Pos())
			goodFlags := true
			for _, e := range al.class[cls] {
				if e.kind == "putExp" && e.flag != "true" {
					goodFlags = false
				}
			}
			ob2.Check(goodFlags, nil, "the apply side records an expiration with the revert flag: the order of expiring contracts (and with it leaf indices of missed-proof outputs) becomes history dependent")
		}
	}
}

func c02r2(c *Ctx) {
	s := getStoreRoles(c.P)
	elementSides(c) // (sets up the effect classification)
	// ApplyBlock / RevertBlock with everything but the element effects expanded: the gate may sit in the exported
	// method, in the element function, or in a predicate of its own
	vs := c.P.Views("chain", ir.ExpandOpt{Key: "element-effects", Stop: func(fn *types.Func) bool { return effectRole(fn) != "" }})
	ob := c.Ob(s.apply, "same-height-gate", s.apply.Body.Pos())
	gate := func(base *ir.Func) string {
		f := vs.Of(base)
		g := f.Graph()
		c.VisitGraph(f)
		var effects []*cfgx.Node
		for _, n := range g.Nodes {
			for _, call := range f.NodeCalls(n) {
				if effectRole(call.Fn) == "" {
					continue
				}
				// the bucket wrapper's own put / delete count only where they stem from a function that is handed the
				// block's update (element work), not from the state writers next to it
				if is, _ := isBucketWrapperFn(c.P, call.Fn); is {
					orig := c.P.OrigNode(call.Expr)
					if orig == nil {
						orig = call.Expr
					}
					enc := c.P.EnclosingFunc(orig.Pos())
					takesUpdate := false
					if enc != nil && enc.Top() != nil && enc.Top().Type.Params != nil {
						for _, fld := range enc.Top().Type.Params.List {
							t := enc.Top().Info().TypeOf(fld.Type)
							if ir.IsNamed(t, ir.PkgPath("consensus"), "ApplyUpdate") || ir.IsNamed(t, ir.PkgPath("consensus"), "RevertUpdate") {
								takesUpdate = true
							}
						}
					}
					if !takesUpdate {
						continue
					}
				}
				effects = append(effects, n)
			}
		}
		if len(effects) == 0 {
			return ""
		}
		for _, m := range g.Nodes {
			if m.Block == nil || m.Block.Cond != m.AST || len(m.Succs) != 2 {
				continue
			}
			if !strings.Contains(ir.ExprString(m.AST.(ast.Expr)), "RequireHeight") {
				continue
			}
			be, ok := ast.Unparen(m.AST.(ast.Expr)).(*ast.BinaryExpr)
			if !ok {
				continue
			}
			for i, e := range m.Succs {
				all := true
				for _, n := range effects {
					if !f.OnlyVia(n, []*cfgx.Edge{e}) {
						all = false
					}
				}
				if !all {
					continue
				}
				// normalise: <state>.Index.Height OP <recv>.n.HardforkV2.RequireHeight, as seen on the passing side
				op := be.Op
				if i == 1 {
					switch op {
					case token.LSS:
						op = token.GEQ
					case token.LEQ:
						op = token.GTR
					case token.GTR:
						op = token.LEQ
					case token.GEQ:
						op = token.LSS
					case token.EQL:
						op = token.NEQ
					case token.NEQ:
						op = token.EQL
					}
				}
				return fmt.Sprintf("%s %s %s", shape(f, be.X), op, shape(f, be.Y))
			}
		}
		return ""
	}
	ga, gr := gate(s.apply), gate(s.revert)
	ob.Check(ga != "" && ga == gr, nil, "DBStore.ApplyBlock gates element work with %q but RevertBlock with %q: elements applied are not reverted (or vice versa) around the v2 require height", ga, gr)
}

// shape renders a selector chain with the root replaced by its kind (param / receiver).
func shape(f *ir.Func, e ast.Expr) string {
	s := ir.ExprString(e)
	root := f.ObjOf(rootOfLvalue(e))
	if root != nil {
		if i := strings.Index(s, "."); i > 0 {
			kind := "v"
			if f.Decl != nil && f.Decl.Recv != nil && len(f.Decl.Recv.List[0].Names) > 0 && f.Info().Defs[f.Decl.Recv.List[0].Names[0]] == root {
				kind = "recv"
			} else if _, isParam := root.(*types.Var); isParam {
				kind = "state"
			}
			return kind + s[i:]
		}
	}
	return s
}

// funcRef: e names a declared function or is a method value `x.m`; returns that function.
func funcRef(f *ir.Func, e ast.Expr) *types.Func {
	switch t := ast.Unparen(e).(type) {
	case *ast.Ident:
		fn, _ := f.Info().Uses[t].(*types.Func)
		return fn
	case *ast.SelectorExpr:
		fn, _ := f.Info().Uses[t.Sel].(*types.Func)
		return fn
	}
	return nil
}

func c02r3(c *Ctx) {
	av, rv := elementSides(c)
	af, rf := av.Base, rv.Base // the bucket-level writes are read as written (the bucket helpers are not expanded)
	keyOf := func(f *ir.Func) string {
		res := ""
		for _, call := range f.Calls(false) {
			if call.Fn == nil || call.Fn.Name() != "ForEachTreeNode" || len(call.Expr.Args) != 1 {
				continue
			}
			// the visitor: a literal, or a method value / function name (then its declaration is the visitor)
			var lf *ir.Func
			var ftype *ast.FuncType
			if lit, ok := ast.Unparen(call.Expr.Args[0]).(*ast.FuncLit); ok {
				lf, ftype = c.P.LitOf(lit), lit.Type
			} else if fn := funcRef(f, call.Expr.Args[0]); fn != nil {
				if lf = c.P.FuncOf(fn); lf != nil {
					ftype = lf.Type
				}
			}
			if lf == nil || ftype == nil {
				continue
			}
			for _, c2 := range lf.Calls(false) {
				// the raw put of the bucket wrapper: `db.bucket(B).putRaw(key, v)`, or with the wrapper dissolved
				// `db.putRaw(db.bucket(B), key, v)`
				isWrapper, skip := isBucketWrapperFn(c.P, c2.Fn)
				if c2.Fn != nil && isWrapper && len(c2.Expr.Args) == 2+skip && reaches(c.P, c2.Fn, c.P.Method("chain", "DBBucket", "Put"), 1) {
					// key function and bucket
					keyArg, valArg := c2.Expr.Args[skip], c2.Expr.Args[skip+1]
					if _, isIface := lf.TypeOf(valArg).Underlying().(*types.Interface); isIface {
						continue
					}
					if kc, ok := ast.Unparen(keyArg).(*ast.CallExpr); ok && lf.Callee(kc) != nil {
						bucket := ""
						bexpr := c2.Recv()
						if skip == 1 {
							bexpr = c2.Expr.Args[0]
						}
						if rcv, ok := ast.Unparen(bexpr).(*ast.CallExpr); ok && len(rcv.Args) == 1 {
							bucket = ir.ExprString(rcv.Args[0])
						}
						var params []string
						for _, fld := range ftype.Params.List {
							for _, nm := range fld.Names {
								params = append(params, nm.Name)
							}
						}
						args := []string{}
						for _, a := range kc.Args {
							for i, p := range params {
								if id, ok := ast.Unparen(a).(*ast.Ident); ok && id.Name == p {
									args = append(args, fmt.Sprintf("p%d", i))
								}
							}
						}
						val := "?"
						if se, ok := ast.Unparen(valArg).(*ast.SliceExpr); ok {
							for i, p := range params {
								if id, ok := ast.Unparen(se.X).(*ast.Ident); ok && id.Name == p {
									val = fmt.Sprintf("p%d", i)
								}
							}
						}
						res = fmt.Sprintf("%s[%s(%s)]=%s", bucket, lf.Callee(kc).Name(), strings.Join(args, ","), val)
					}
				}
			}
		}
		return res
	}
	ka, kr := keyOf(af), keyOf(rf)
	for _, side := range []struct {
		f *ir.Func
		k string
	}{{af, ka}, {rf, kr}} {
		c.VisitGraph(side.f)
		ob := c.Ob(side.f, "tree-nodes-forwarded", side.f.Body.Pos())
		ob.Check(side.k != "" && ka == kr && strings.HasSuffix(side.k, "=p2") && strings.Contains(side.k, "(p0,p1)"), nil, "tree nodes are written as %q on the apply side and %q on the revert side; both must store node (row, col) under the same key function with the node's hash: otherwise proofs handed out after a reorg differ from a linear node's", ka, kr)
	}
}
