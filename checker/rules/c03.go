package rules

import (
	"go/ast"
	"go/types"

	"sialint/internal/cfgx"
	"sialint/internal/ir"
)

func init() {
	Explanations["C03"] = "Decides structural necessary conditions of 'every durable commit point reopens to a consistent chain' (ordering and ownership of the durability point): (R1) the database's Flush is invoked only by DBStore.Flush and the caching wrapper; DBStore.Flush (or a wrapper method around it) is invoked only from DBStore.ApplyBlock/RevertBlock, store constructors and the migration they call; Store.Flush only by the tip walker; (R2) in DBStore.ApplyBlock/RevertBlock no bucket write is reachable after a flush point, so a commit only ever happens at a block boundary; (R3) in the Manager's apply step the state and block(+supplement) of the block are stored before Store.ApplyBlock on every path and no store write follows it; likewise nothing follows Store.RevertBlock; (R4) the functions that write the Height key also write/delete the best-index entry of that height and contain no flush point; (R5) every success return of the tip walker passes Store.Flush; (R6) the reopening constructor derives the tip it returns only from Height → BestIndex → State; (R7) BoltChainDB commit/rollback discipline is decided under C17.R3. (R2 also) in a store constructor no bucket write follows the block step (DBStore.ApplyBlock), which may already have committed. (R7) the check of C01.R12. NOT decided: that a reopened image equals an earlier tip, catch-up equality, bbolt's own atomicity, migration (treated as initialisation)."

	register(&Rule{ID: "C03.R1", Prop: "C03", Floor: 5, Doc: "who may flush: the durability point is owned by the block-boundary functions", Run: c03r1})
	register(&Rule{ID: "C03.R2", Prop: "C03", Floor: 2, Doc: "flush last: no bucket write after a flush point inside DBStore.ApplyBlock/RevertBlock", Run: c03r2})
	register(&Rule{ID: "C03.R3", Prop: "C03", Floor: 3, Doc: "one window per block: state and block stored before Store.ApplyBlock, nothing after; nothing after Store.RevertBlock", Run: c03r3})
	register(&Rule{ID: "C03.R4", Prop: "C03", Floor: 2, Doc: "Height and best-index entry are written together without a flush between", Run: c03r4})
	register(&Rule{ID: "C03.R5", Prop: "C03", Floor: 1, Doc: "a successful reorg is flushed before it is reported", Run: c03r5})
	register(&Rule{ID: "C03.R7", Prop: "C03", Floor: 1, Doc: "catch-up: resubmitted blocks the store already holds still advance the state the reorg gate compares (same check as C01.R12)", Run: c01r12})
	register(&Rule{ID: "C03.R6", Prop: "C03", Floor: 1, Doc: "reopen derives the tip from Height → BestIndex → State only", Run: c03r6})
}

type storeRoles struct {
	p             *ir.Prog
	dbFlush       *types.Func          // chain.DB.Flush (interface)
	dbsFlush      *ir.Func             // (*DBStore).Flush
	flushers      map[*types.Func]bool // DBStore methods that call the database's Flush themselves and write nothing
	apply, revert *ir.Func             // (*DBStore).ApplyBlock / RevertBlock
	bucketWrites  []*types.Func
	writers       map[*types.Func]bool // DBStore methods that transitively write buckets
	flushPoints   map[*types.Func]bool // DBStore.Flush and DBStore methods that transitively call it (except apply/revert)
	constructors  map[*ir.Func]bool
	methods       []*ir.Func
}

func getStoreRoles(p *ir.Prog) *storeRoles {
	s := &storeRoles{p: p, writers: map[*types.Func]bool{}, flushPoints: map[*types.Func]bool{}, constructors: map[*ir.Func]bool{}}
	s.dbFlush = p.Method("chain", "DB", "Flush")
	s.dbsFlush = p.Fn("chain", "DBStore", "Flush")
	s.apply = p.Fn("chain", "DBStore", "ApplyBlock")
	s.revert = p.Fn("chain", "DBStore", "RevertBlock")
	s.methods = p.MethodsOf("chain", "DBStore")
	wrapperFns := bucketWrapperFns(p)
	rawPut0 := p.Method("chain", "DBBucket", "Put")
	rawDel0 := p.Method("chain", "DBBucket", "Delete")
	// the wrapper's write methods: those that (transitively) reach DBBucket.Put / Delete
	wr := map[*types.Func]bool{}
	for round := 0; round < 3; round++ {
		for _, f := range wrapperFns {
			if len(f.CallsTo(false, rawPut0, rawDel0)) > 0 {
				wr[f.Obj] = true
			}
			for _, call := range f.Calls(false) {
				if wr[call.Fn] {
					wr[f.Obj] = true
				}
			}
		}
	}
	for _, f := range wrapperFns {
		if wr[f.Obj] {
			s.bucketWrites = append(s.bucketWrites, f.Obj)
		}
	}
	if len(s.bucketWrites) == 0 {
		ir.Fail("no write method on the bucket wrapper")
	}
	// direct raw writes through DBBucket as well
	rawPut := p.Method("chain", "DBBucket", "Put")
	rawDel := p.Method("chain", "DBBucket", "Delete")
	for _, f := range wrapperFns {
		if len(f.CallsTo(false, rawPut, rawDel)) > 0 {
			s.writers[f.Obj] = true
		}
	}
	for round := 0; round < 5; round++ {
		for _, f := range append(append([]*ir.Func{}, s.methods...), wrapperFns...) {
			for _, call := range f.Calls(true) {
				if s.writers[call.Fn] {
					s.writers[f.Obj] = true
				}
			}
		}
	}
	s.flushPoints[s.dbsFlush.Obj] = true
	s.flushers = map[*types.Func]bool{}
	for _, f := range s.methods {
		if len(f.CallsTo(false, s.dbFlush)) > 0 && !s.writers[f.Obj] && f != s.apply && f != s.revert {
			s.flushers[f.Obj] = true
			s.flushPoints[f.Obj] = true
		}
	}
	for round := 0; round < 4; round++ {
		for _, f := range s.methods {
			if f == s.apply || f == s.revert {
				continue
			}
			for _, call := range f.Calls(true) {
				if s.flushPoints[call.Fn] {
					s.flushPoints[f.Obj] = true
				}
			}
		}
	}
	// constructors: package functions of chain that build a DBStore composite literal, plus functions only they call
	dbsT := p.Named("chain", "DBStore")
	for _, f := range p.PkgFuncs("chain") {
		if f.Obj.Type().(*types.Signature).Recv() != nil {
			continue
		}
		builds := false
		ir.Walk(f.Body, false, func(x ast.Node) {
			if cl, ok := x.(*ast.CompositeLit); ok && types.Identical(f.TypeOf(cl), dbsT) {
				builds = true
			}
		})
		// (or hands one out: the literal may sit in a shared opening helper)
		if res := f.Obj.Type().(*types.Signature).Results(); !builds {
			for i := 0; i < res.Len(); i++ {
				if pt, ok := res.At(i).Type().(*types.Pointer); ok && types.Identical(pt.Elem(), dbsT) {
					builds = true
				}
			}
		}
		if builds {
			s.constructors[f] = true
		}
	}
	for round := 0; round < 3; round++ {
		for _, f := range p.PkgFuncs("chain") {
			// (unexported methods too: a constructor's body split into steps on the store under construction)
			if s.constructors[f] || (f.Obj.Type().(*types.Signature).Recv() != nil && exported(f)) {
				continue
			}
			callers, all := 0, true
			for _, g := range p.PkgFuncs("chain") {
				if len(g.CallsTo(true, f.Obj)) > 0 {
					callers++
					if !s.constructors[g] {
						all = false
					}
				}
			}
			if callers > 0 && all {
				s.constructors[f] = true // e.g. the migration routine
			}
		}
	}
	return s
}

func c03r1(c *Ctx) {
	s := getStoreRoles(c.P)
	r := getChainRoles(c.P)
	cacheFlush := c.P.Fn("chain", "CacheDB", "Flush")
	inScope := func(f *ir.Func) bool {
		pp := f.Pkg.PkgPath
		return pp == ir.PkgPath("chain") || pp == ir.PkgPath("coreutils")
	}
	for _, f := range c.P.Funcs {
		if !inScope(f) {
			continue
		}
		top := f.Top()
		for _, call := range f.Calls(false) {
			switch {
			case call.Fn == s.dbFlush.Origin():
				c.Visit(1)
				ob := c.Ob(top, "db-flush-owner", call.Pos())
				ob.Check(top == s.dbsFlush || top == cacheFlush || (top.Obj != nil && s.flushers[top.Obj]), nil, "the database's Flush is called at %s outside DBStore.Flush (or the non-writing store method that owns the commit) and the caching wrapper: a commit can happen in the middle of a block's writes", c.P.Pos(call.Pos()))
			case s.flushPoints[call.Fn]:
				c.Visit(1)
				ob := c.Ob(top, "store-flush-at-block-boundary", call.Pos())
				allowed := top == s.apply || top == s.revert || s.constructors[top] || (top.Obj != nil && s.flushPoints[top.Obj])
				ob.Check(allowed, nil, "%s (a commit point) is called at %s from %s, which is neither DBStore.ApplyBlock/RevertBlock nor a constructor: the store can commit between the writes of one block", call.Fn.Name(), c.P.Pos(call.Pos()), top.Name())
			case call.Fn == r.storeFlush.Origin():
				c.Visit(1)
				ob := c.Ob(top, "manager-flush-in-walker", call.Pos())
				// in the walker itself, or in a helper whose only role is to be part of the walker (absorbed by it)
				inWalker := top == r.reorgTo
				for _, vc := range r.view(r.reorgTo).CallsTo(true, r.storeFlush) {
					if c.P.OrigNode(vc.Expr) == ast.Node(call.Expr) && r.vs.Absorbed[top] {
						inWalker = true
					}
				}
				ob.Check(inWalker, nil, "Store.Flush is called at %s outside the tip walker", c.P.Pos(call.Pos()))
			}
		}
	}
}

func c03r2(c *Ctx) {
	s := getStoreRoles(c.P)
	scan := []*ir.Func{s.apply, s.revert}
	for _, m := range s.methods {
		if m != s.apply && m != s.revert && m != s.dbsFlush && !s.flushers[m.Obj] && s.flushPoints[m.Obj] {
			scan = append(scan, m) // wrappers around the commit point are held to the same rule
		}
	}
	for _, f := range scan {
		g := f.Graph()
		c.VisitGraph(f)
		ob := c.Ob(f, "no-write-after-flush-point", f.Body.Pos())
		bad := false
		for _, n := range g.Nodes {
			isFP := false
			for _, call := range f.NodeCalls(n) {
				if s.flushPoints[call.Fn] {
					isFP = true
				}
			}
			if !isFP {
				continue
			}
			var st []*cfgx.Visit
			for _, e := range n.Succs {
				st = append(st, cfgx.StartAfter(e, 0))
			}
			for m, v := range g.Reach(st, nil) {
				for _, call := range f.NodeCalls(m) {
					if s.writers[call.Fn] && !s.flushPoints[call.Fn] {
						ob.Bad(c.Witness(v), "%s writes buckets at %s after the commit point at %s: a stop right after that commit reopens to a tip whose index, height and element set belong to different blocks", callName(call.Fn), c.P.Pos(m.Pos()), c.P.Pos(n.Pos()))
						bad = true
					}
				}
			}
			// a flush point that itself writes before flushing (e.g. applyState with an embedded flush) splits the block too
			for _, call := range f.NodeCalls(n) {
				if s.flushPoints[call.Fn] && s.writers[call.Fn] && call.Fn != s.dbsFlush.Obj && !s.flushers[call.Fn] {
					// later writes in this function?
					for m := range g.Reach(st, nil) {
						for _, c2 := range f.NodeCalls(m) {
							if s.writers[c2.Fn] {
								bad = true
							}
						}
					}
				}
			}
		}
		if !bad {
			ob.OK("every flush point is the last bucket-affecting step")
		}
	}
	// a constructor that applies the first block through the block step (which may commit) must have stored
	// everything that belongs to that block before: no bucket write between the step and the next unconditional flush
	for f := range s.constructors {
		steps := f.CallsTo(false, s.apply.Obj, s.revert.Obj)
		if len(steps) == 0 {
			continue
		}
		g := f.Graph()
		c.VisitGraph(f)
		ob := c.Ob(f, "no-write-after-block-step", f.Body.Pos())
		bad := false
		for _, step := range steps {
			n := g.NodeContaining(step.Pos())
			if n == nil {
				continue
			}
			var st []*cfgx.Visit
			for _, e := range n.Succs {
				st = append(st, cfgx.StartAfter(e, 0))
			}
			after := g.Reach(st, nil)
			if _, again := after[n]; again {
				continue // a replay loop (migration): the writes that follow belong to the next block
			}
			for m, v := range after {
				for _, call := range f.NodeCalls(m) {
					if s.writers[call.Fn] && !s.flushPoints[call.Fn] && !bad {
						ob.Bad(c.Witness(v), "%s writes buckets at %s after the block step at %s, which may already have committed: a stop between the two reopens to a tip whose block or state was never stored", callName(call.Fn), c.P.Pos(m.Pos()), c.P.Pos(n.Pos()))
						bad = true
					}
				}
			}
		}
		if !bad {
			ob.OK("the block step is the last bucket write of the initialisation")
		}
	}
}

func c03r3(c *Ctx) {
	r := getChainRoles(c.P)
	storeWrites := []*types.Func{r.storeAddBlock, r.storeAddState, r.storePrune, c.P.Method("chain", "Store", "OverwriteExpiringFileContractIDs")}
	// apply step
	{
		f := r.view(r.applyTip)
		g := f.Graph()
		c.VisitGraph(f)
		for _, ac := range f.CallsTo(false, r.storeApply) {
			an := g.NodeContaining(ac.Pos())
			ob := c.Ob(f, "nothing-stored-after-ApplyBlock", ac.Pos())
			var st []*cfgx.Visit
			for _, e := range an.Succs {
				st = append(st, cfgx.StartAfter(e, 0))
			}
			bad := false
			for m, v := range g.Reach(st, nil) {
				if _, ok := f.NodeCallsTo(m, storeWrites...); ok {
					ob.Bad(c.Witness(v), "the store is written at %s after Store.ApplyBlock (which may commit): the block's state/supplement can be missing from the committed image that already lists the block as tip", c.P.Pos(m.Pos()))
					bad = true
				}
			}
			if !bad {
				ob.OK("no store write follows Store.ApplyBlock")
			}
			// on the path where the block was first validated (supplement freshly computed), AddState and AddBlock precede ApplyBlock
			ob2 := c.Ob(f, "state-and-block-stored-before-ApplyBlock", ac.Pos())
			var valEdges []*cfgx.Edge
			for _, vc := range f.CallsTo(false, r.validateBlock) {
				valEdges = append(valEdges, f.CheckOf(vc.Expr).Succ...)
			}
			good := len(valEdges) > 0
			isVal := map[*cfgx.Edge]bool{}
			for _, e := range valEdges {
				isVal[e] = true
			}
			for _, need := range []*types.Func{r.storeAddState, r.storeAddBlock} {
				isNeed := func(n *cfgx.Node) bool { _, ok := f.NodeCallsTo(n, need); return ok }
				// from the entry, so that what the path established before the validation (a flag saying the block
				// is new) still holds after it: state 1 = validated, not yet stored
				for _, v := range f.ExploreFeasible([]*cfgx.Visit{cfgx.StartAt(g.Entry, 0)}, cfgx.Walker{
					AtNode: func(n *cfgx.Node, s cfgx.State) (cfgx.State, bool) {
						if s == 1 && isNeed(n) {
							return 2, false
						}
						return s, true
					},
					OnEdge: func(e *cfgx.Edge, s cfgx.State) (cfgx.State, bool) {
						if isVal[e] && s == 0 {
							return 1, true
						}
						return s, true
					},
				}) {
					if v.Node == an && v.State == 1 {
						good = false
					}
				}
			}
			ob2.Check(good, nil, "on the path where the block is validated for the first time, Store.ApplyBlock is reachable without Store.AddState and Store.AddBlock(b, supplement) having been called: a commit inside ApplyBlock then holds the new tip with a header-only state or without its supplement")
		}
	}
	{
		f := r.view(r.revertTip)
		g := f.Graph()
		c.VisitGraph(f)
		for _, rc := range f.CallsTo(false, r.storeRevert) {
			rn := g.NodeContaining(rc.Pos())
			ob := c.Ob(f, "nothing-stored-after-RevertBlock", rc.Pos())
			var st []*cfgx.Visit
			for _, e := range rn.Succs {
				st = append(st, cfgx.StartAfter(e, 0))
			}
			bad := false
			for m, v := range g.Reach(st, nil) {
				if _, ok := f.NodeCallsTo(m, storeWrites...); ok {
					ob.Bad(c.Witness(v), "the store is written at %s after Store.RevertBlock (which may commit)", c.P.Pos(m.Pos()))
					bad = true
				}
			}
			if !bad {
				ob.OK("no store write follows Store.RevertBlock")
			}
		}
	}
}

func c03r4(c *Ctx) {
	s := getStoreRoles(c.P)
	putHeight, bestWriters := bestIndexRoles(c, s)
	vs := s.stateViews(c, putHeight, bestWriters)
	for _, f := range vs.Roots {
		if f.Base == putHeight || len(f.CallsTo(false, putHeight.Obj)) == 0 || !isMethodOf(f, "DBStore") {
			continue
		}
		g := f.Graph()
		c.VisitGraph(f)
		ob := c.Ob(f, "height-and-best-index-together", f.Body.Pos())
		var hs, bs []*cfgx.Node
		isFlush := func(n *cfgx.Node) bool {
			for _, call := range f.NodeCalls(n) {
				if s.flushPoints[call.Fn] {
					return true
				}
			}
			return false
		}
		for _, n := range g.Nodes {
			for _, call := range f.NodeCalls(n) {
				if call.Fn == putHeight.Obj {
					hs = append(hs, n)
				}
				if bestWriters[call.Fn] {
					bs = append(bs, n)
				}
			}
		}
		// every path that writes Height also writes (or deletes) the best-index entry …
		isBest := func(n *cfgx.Node) bool {
			for _, b := range bs {
				if b == n {
					return true
				}
			}
			return false
		}
		skips := false
		avoidBest := g.Reach([]*cfgx.Visit{cfgx.StartAt(g.Entry, 0)}, isBest)
		for _, h := range hs {
			if _, ok := avoidBest[h]; ok {
				// reached without a best-index write before it: one must follow on every way out
				var st []*cfgx.Visit
				for _, e := range h.Succs {
					st = append(st, cfgx.StartAfter(e, 0))
				}
				if _, out := g.Reach(st, isBest)[g.Exit]; out {
					skips = true
				}
			}
		}
		// … and no commit point separates the two writes
		split := false
		for _, h := range hs {
			for _, b := range bs {
				for n := range pathNodesBetween(g, h, b) {
					if isFlush(n) {
						split = true
					}
				}
				for n := range pathNodesBetween(g, b, h) {
					if isFlush(n) {
						split = true
					}
				}
			}
		}
		switch {
		case len(bs) == 0 || skips:
			ob.Bad(nil, "%s writes the Height key without writing or deleting the best-index entry: the reopened tip is looked up at a height whose index entry is stale", f.Name())
		case split:
			ob.Bad(nil, "%s commits between writing the best-index entry and the Height key", f.Name())
		default:
			ob.OK("best-index entry and Height written on the same paths without a commit point between them")
		}
	}
	checkRevertRemovesEntry(c, s, putHeight, bestWriters)
}

func isMethodOf(f *ir.Func, typ string) bool {
	if f.Obj == nil {
		return false
	}
	recv := f.Obj.Type().(*types.Signature).Recv()
	if recv == nil {
		return false
	}
	n := ir.NamedOf(recv.Type())
	return n != nil && n.Obj().Name() == typ
}

// stateViews: package chain with helpers expanded; the Height writer, the
// best-index writers and the store's commit points stay calls.
func (s *storeRoles) stateViews(c *Ctx, putHeight *ir.Func, bestWriters map[*types.Func]bool) *ir.ViewSet {
	return c.P.Views("chain", ir.ExpandOpt{Key: "store-state", Stop: func(fn *types.Func) bool {
		return fn == putHeight.Obj || bestWriters[fn] || s.flushPoints[fn]
	}})
}

// reaches reports whether fn's body reaches a call of target through repository functions (at most depth hops).
func reaches(p *ir.Prog, fn *types.Func, target *types.Func, depth int) bool {
	f := p.FuncOf(fn)
	if f == nil || depth < 0 {
		return false
	}
	for _, call := range f.Calls(true) {
		if call.Fn == nil {
			continue
		}
		if call.Fn == target.Origin() || reaches(p, call.Fn, target, depth-1) {
			return true
		}
	}
	return false
}

// bestIndexRoles finds the Height writer and the best-index writers of DBStore.
func bestIndexRoles(c *Ctx, s *storeRoles) (putHeight *ir.Func, bestWriters map[*types.Func]bool) {
	keyHeight := c.P.Package("chain").Types.Scope().Lookup("keyHeight")
	bMain := c.P.Package("chain").Types.Scope().Lookup("bMainChain")
	if keyHeight == nil || bMain == nil {
		ir.Fail("keyHeight / bMainChain not found")
	}
	bestWriters = map[*types.Func]bool{}
	for _, f := range s.methods {
		if !s.writers[f.Obj] {
			continue
		}
		if f.MentionsObj(f.Body, false, keyHeight) && len(f.CallsTo(false, s.bucketWrites...)) > 0 {
			putHeight = f
		} else if f.MentionsObj(f.Body, false, bMain) && len(f.CallsTo(false, s.bucketWrites...)) > 0 {
			bestWriters[f.Obj] = true
		}
	}
	if putHeight == nil {
		ir.Fail("Height writer not found in DBStore")
	}
	return
}

// checkRevertRemovesEntry: the store's revert step must delete (not overwrite) the entry above the new tip.
func checkRevertRemovesEntry(c *Ctx, s *storeRoles, putHeight *ir.Func, bestWriters map[*types.Func]bool) {
	f := s.stateViews(c, putHeight, bestWriters).Of(s.revert)
	if len(f.CallsTo(false, putHeight.Obj)) == 0 {
		return
	}
	c.VisitGraph(f)
	ob := c.Ob(f, "revert-removes-entry-above-tip", f.Body.Pos())
	rawDel := c.P.Method("chain", "DBBucket", "Delete")
	deletes := false
	for _, call := range f.Calls(false) {
		if bestWriters[call.Fn] && reaches(c.P, call.Fn, rawDel, 2) {
			deletes = true
		}
	}
	ob.Check(deletes, nil, "reverting a block does not delete the best-index entry of the reverted height: stale entries above the tip make a subscriber on the old branch look as if it were on the best chain")
	if deletes {
		stateStepOnEveryPath(c, f, "revert-state-on-every-path", func(fn *types.Func) bool {
			return fn == putHeight.Obj || (bestWriters[fn] && reaches(c.P, fn, rawDel, 2))
		}, "reverting a block can return at %s without deleting the best-index entry and lowering Height: after a rolled-back or completed reorg the index still names blocks above the tip")
	}
}

// stateStepOnEveryPath: every return of the store step f is preceded, on every path, by a call of each state writer
// selected by want (the Height writer and the best-index writer are distinct callees; both must be passed).
func stateStepOnEveryPath(c *Ctx, f *ir.Func, role string, want func(*types.Func) bool, msg string) {
	g := f.Graph()
	ob := c.Ob(f, role, f.Body.Pos())
	targets := map[*types.Func]bool{}
	for _, call := range f.Calls(false) {
		if call.Fn != nil && want(call.Fn) {
			targets[call.Fn] = true
		}
	}
	for t := range targets {
		t := t
		stop := func(n *cfgx.Node) bool { _, ok := f.NodeCallsTo(n, t); return ok }
		reach := g.Reach([]*cfgx.Visit{cfgx.StartAt(g.Entry, 0)}, stop)
		for _, ret := range g.Returns() {
			if v, ok := reach[ret]; ok {
				ob.Bad(c.Witness(v), msg+" (%s not called)", c.P.Pos(ret.Pos()), t.Name())
				return
			}
		}
	}
	ob.Check(len(targets) > 0, nil, "no state writer is called")
}

func c03r5(c *Ctx) {
	r := getChainRoles(c.P)
	f := r.view(r.reorgTo)
	g := f.Graph()
	c.VisitGraph(f)
	ob := c.Ob(f, "success-implies-flushed", f.Body.Pos())
	isFlush := func(n *cfgx.Node) bool { _, ok := f.NodeCallsTo(n, r.storeFlush); return ok }
	reach := g.Reach([]*cfgx.Visit{cfgx.StartAt(g.Entry, 0)}, isFlush)
	for _, ret := range g.Returns() {
		if v, ok := reach[ret]; ok && f.ClassifyReturn(ret) != ir.RetError {
			ob.Bad(c.Witness(v), "the tip walker can report success at %s without Store.Flush: an acknowledged reorg is lost on a stop", c.P.Pos(ret.Pos()))
			return
		}
	}
	// the flush's own error must be propagated
	for _, fc := range f.CallsTo(false, r.storeFlush) {
		chk := f.CheckOf(fc.Expr)
		if len(chk.Loose) > 0 {
			ob.Bad(nil, "the error of Store.Flush at %s is not tested", c.P.Pos(fc.Pos()))
			return
		}
	}
	ob.OK("every success return passes Store.Flush and its error is propagated")
}

func c03r6(c *Ctx) {
	s := getStoreRoles(c.P)
	n := 0
	var forms []*ir.Func
	for raw := range s.constructors {
		if raw.Type.Results == nil || raw.Type.Results.NumFields() != 3 {
			continue
		}
		// as written, and with bracket helpers and the literals handed to them expanded
		// (`guardInit(db, func() error { … })`); the first form that shows the reopening path is judged
		forms = append(forms, raw, c.P.Expand(raw, ir.ExpandOpt{Key: "all"}))
	}
	judged := map[*ir.Func]bool{}
	for _, f := range forms {
		base := f
		if f.Base != nil {
			base = f.Base
		}
		if judged[base] {
			continue
		}
		g := f.Graph()
		for _, ret := range g.Returns() {
			rs, ok := ret.AST.(*ast.ReturnStmt)
			if !ok || len(rs.Results) != 3 || f.ClassifyReturn(ret) == ir.RetError {
				continue
			}
			stObj := f.ObjOf(rs.Results[1])
			if stObj == nil {
				continue
			}
			// reaching definition of the returned state
			var defCall *ast.CallExpr
			for _, d := range ReachingDefs(f, stObj, ret) {
				if d == nil {
					continue
				}
				if rhs := ir.TupleRHS(d.AST); rhs != nil {
					defCall, _ = ast.Unparen(rhs).(*ast.CallExpr)
				}
			}
			if defCall == nil || f.Callee(defCall) == nil || f.Callee(defCall).Name() != "State" {
				continue // initialising path (state computed by applying the first block and flushed)
			}
			n++
			judged[base] = true
			c.VisitGraph(f)
			ob := c.Ob(f, "tip-from-height-and-best-index", rs.Pos())
			good := false
			if len(defCall.Args) == 1 {
				if sel, ok := ast.Unparen(defCall.Args[0]).(*ast.SelectorExpr); ok && sel.Sel.Name == "ID" {
					if bi, _ := tupleDef(f, f.ObjOf(sel.X)); bi != nil && f.Callee(bi) != nil && f.Callee(bi).Name() == "BestIndex" && len(bi.Args) == 1 {
						keyHeight := c.P.Package("chain").Types.Scope().Lookup("keyHeight")
						if hc, ok := ast.Unparen(bi.Args[0]).(*ast.CallExpr); ok && f.Callee(hc) != nil {
							hf := c.P.FuncOf(f.Callee(hc))
							if hf != nil && hf.MentionsObj(hf.Body, false, keyHeight) {
								good = true
							}
						}
						// (the height getter expanded in place: the argument is computed from the stored Height key)
						if !good {
							var seen func(e ast.Expr, depth int) bool
							seen = func(e ast.Expr, depth int) bool {
								if f.MentionsObj(e, false, keyHeight) {
									return true
								}
								if depth > 3 {
									return false
								}
								hit := false
								ast.Inspect(e, func(y ast.Node) bool {
									if id, isID := y.(*ast.Ident); isID && !hit {
										for _, d := range wholeDefs(f, f.ObjOf(id)) {
											if d.RHS != nil && seen(d.RHS, depth+1) {
												hit = true
											} else if d.RHS == nil {
												if rhs := ir.TupleRHS(d.Stmt); rhs != nil && seen(rhs, depth+1) {
													hit = true
												}
											}
										}
									}
									return !hit
								})
								return hit
							}
							good = seen(bi.Args[0], 0)
						}
					}
				}
			}
			ob.Check(good, nil, "the reopening constructor does not derive the tip it returns as State(BestIndex(<stored Height>).ID): the reopened node can start from a tip the database does not hold")
		}
	}
	if n == 0 {
		ir.Fail("no constructor returning a State loaded from the store found")
	}
}
