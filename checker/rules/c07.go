package rules

import (
	"go/ast"
	"go/token"
	"go/types"

	"sialint/internal/cfgx"
	"sialint/internal/ir"
)

func init() {
	Explanations["C07"] = "Decides structural necessary conditions of non-double-allocating wallet funding in wallet.SingleAddressWallet: (R1) the reservation map is read and written only at points where the wallet mutex is definitely held (lockset dataflow with call-site-derived entry states for unexported helpers); (R2) no error-capable return is reachable after the reservation call in any reserving function; (R3) every function that builds a pool-spent set from the v1 pool list also builds it from the v2 list and writes the same spent maps in both loops; (R4) when two loops take candidates from the same sorted candidate slice (largest-first, then defrag; or successive redistribute batches) every path between them re-slices the candidate variable past what was taken; (R5) every lock-holding loop over the stored unspent outputs applies all three filters (reserved, pool-spent, maturity) to the element; (R6) in every function that both selects (calls a helper consulting the reservation test) and reserves, no unlock of the wallet mutex lies on a path between the two; (R7) once output ids have been collected into the slice handed to the reservation call, no success return is reachable without passing that call; (R8) every lock-holding pool loop of a function that collects unconfirmed outputs into an element map deletes the ids spent by pooled inputs from that map. (R5 also) every append that collects the loop element is unreachable from the loop head without evaluating each of the three tests. (R10) every read of an entry of the reservation map is an operand of a time.Time method together with time.Now(). NOT decided: value conservation (inputs = amount + change + fee), acceptance of the funded transaction by the pool, reservation expiry timing, behaviour after restart."

	register(&Rule{ID: "C07.R1", Prop: "C07", Floor: 5,
		Doc: "one mutex: every access to the reservation map happens with the wallet mutex held",
		Run: c07r1})
	register(&Rule{ID: "C07.R2", Prop: "C07", Floor: 4,
		Doc: "a failed request reserves nothing: no error-capable return after the reservation call",
		Run: c07r2})
	register(&Rule{ID: "C07.R3", Prop: "C07", Floor: 6,
		Doc: "one view of the pool: v1 and v2 pool lists are consulted together and feed the same spent sets",
		Run: c07r3})
	register(&Rule{ID: "C07.R4", Prop: "C07", Floor: 1,
		Doc: "disjoint selection: candidates taken by one loop are sliced off before another loop takes from the same slice",
		Run: c07r4})
	register(&Rule{ID: "C07.R8", Prop: "C07", Floor: 6,
		Doc: "unconfirmed candidates exclude outputs spent by later pooled transactions (every pool loop deletes spent ids from the element map)",
		Run: c07r8})
	register(&Rule{ID: "C07.R10", Prop: "C07", Floor: 1, Doc: "every read of a reservation entry compares its expiry with the current time (a bare membership test makes expired reservations permanent)", Run: c07r10})
	register(&Rule{ID: "C07.R9", Prop: "C07", Floor: 2, Doc: "ids of outputs created by pooled transactions are derived with positions of the output list (same check as C13.R10, package wallet)", Run: func(c *Ctx) { derivedIDDomains(c, "wallet") }})
	register(&Rule{ID: "C07.R6", Prop: "C07", Floor: 3,
		Doc: "selection and reservation happen in one critical section (no unlock between them)",
		Run: c07r6})
	register(&Rule{ID: "C07.R7", Prop: "C07", Floor: 3,
		Doc: "a successful request reserves what it selected: no success return after collecting ids to reserve without the reservation call",
		Run: c07r7})
	register(&Rule{ID: "C07.R5", Prop: "C07", Floor: 5,
		Doc: "three filters everywhere: reserved, pool-spent and maturity tests in every lock-holding loop over stored outputs",
		Run: c07r5})
}

// walletViews: package wallet with helpers, lock brackets and local closures expanded; the methods that store
// into the reservation map stay calls (the rules treat "reserve" as one step).
func walletViews(c *Ctx) *ir.ViewSet {
	rs := map[*types.Func]bool{}
	for _, r := range reservers(c) {
		rs[r] = true
	}
	return c.P.Views("wallet", ir.ExpandOpt{Key: "wallet-roles", Stop: func(fn *types.Func) bool { return rs[fn] }})
}

// walletViewsD: walletViews with deferred calls made explicit before every return (a reservation performed by a
// deferred, flag-guarded closure is then an ordinary call on the paths where the flag is set).
func walletViewsD(c *Ctx) *ir.ViewSet {
	rs := map[*types.Func]bool{}
	for _, r := range reservers(c) {
		rs[r] = true
	}
	return c.P.Views("wallet", ir.ExpandOpt{Key: "wallet-roles+defers", Defers: true, Stop: func(fn *types.Func) bool { return rs[fn] }})
}

func walletMethodsD(c *Ctx) []*ir.Func {
	vs := walletViewsD(c)
	var out []*ir.Func
	for _, m := range c.P.MethodsOf("wallet", "SingleAddressWallet") {
		if !vs.Absorbed[m] {
			out = append(out, vs.Of(m))
		}
	}
	return out
}

// walletMethods: the wallet's methods as expanded views; helpers absorbed by their callers are not listed.
func walletMethods(c *Ctx) []*ir.Func {
	vs := walletViews(c)
	var out []*ir.Func
	for _, m := range c.P.MethodsOf("wallet", "SingleAddressWallet") {
		if !vs.Absorbed[m] {
			out = append(out, vs.Of(m))
		}
	}
	return out
}

func c07r1(c *Ctx) {
	mu := walletMuField(c.P)
	locked := walletLockedField(c.P)
	methods := walletMethods(c)
	ls := NewLocksetV(c.P, mu, methods, walletViews(c).Of)
	for _, m := range methods {
		for _, f := range append([]*ir.Func{m}, m.Lits...) {
			g := f.Graph()
			for _, n := range g.Nodes {
				if n.AST == nil || !f.MentionsField(n.AST, false, locked) {
					continue
				}
				c.Visit(1)
				ob := c.Ob(f, "locked-under-mu", n.Pos())
				st := ls.At(f, n)
				if st == lsHeld {
					ob.OK("mutex held (entry state of %s: %s)", f.Name(), ls.Entry(f))
				} else {
					ob.Bad(nil, "the reservation map is accessed at %s with the wallet mutex %s (entry state of %s derived from its call sites: %s): concurrent fund/release calls can double-allocate an output",
						c.P.Pos(n.Pos()), st, f.Name(), ls.Entry(f))
				}
			}
		}
	}
}

// reservers returns the methods that store into the reservation map (directly).
func reservers(c *Ctx) []*types.Func {
	locked := walletLockedField(c.P)
	var out []*types.Func
	for _, m := range c.P.PkgFuncs("wallet") { // (methods of the wallet, or of a reservations type it holds)
		for _, n := range m.Graph().Nodes {
			if n.AST == nil {
				continue
			}
			for _, w := range m.WritesIn(n.AST, false) {
				if ix, ok := ast.Unparen(w.LHS).(*ast.IndexExpr); ok && m.FieldOf(ix.X) == locked {
					out = append(out, m.Obj)
				}
			}
		}
	}
	return out
}

func c07r2(c *Ctx) {
	rs := reservers(c)
	if len(rs) == 0 {
		ir.Fail("no method stores into SingleAddressWallet.locked")
	}
	for _, f := range walletMethodsD(c) {
		isReserver := false
		for _, r := range rs {
			if f.Obj == r {
				isReserver = true
			}
		}
		if isReserver {
			continue
		}
		calls := f.CallsTo(false, rs...)
		if len(calls) == 0 {
			continue
		}
		g := f.Graph()
		c.VisitGraph(f)
		for _, call := range calls {
			n := g.NodeContaining(call.Pos())
			if n == nil || !g.Live(n) {
				continue // e.g. the copy of a flag-guarded deferred reservation before a return on which the flag is never set
			}
			ob := c.Ob(f, "no-error-after-reserve", call.Pos())
			var st []*cfgx.Visit
			for _, e := range n.Succs {
				st = append(st, cfgx.StartAfter(e, 0))
			}
			reach := g.Reach(st, nil)
			kinds := f.ReturnKindsFrom(st) // per path: a result copied into a named result keeps its meaning
			// what a path knows about the returned error variable *on arrival at the reservation* counts too (a single
			// exit `return v, err` behind `if err = broadcast(); err != nil { …; break }; reserve()`): walked from the
			// entry, a return that hands back an error variable known to be nil on every path through the reservation
			// is a success return
			knownNil := map[*cfgx.Node]bool{}
			maybeErr := map[*cfgx.Node]bool{}
			f.ExploreFeasibleWith([]*cfgx.Visit{cfgx.StartAt(g.Entry, 0)}, cfgx.Walker{
				AtNode: func(m *cfgx.Node, s cfgx.State) (cfgx.State, bool) {
					if m == n {
						s |= 1
					}
					return s, true
				},
			}, func(v *cfgx.Visit, val func(types.Object) uint64) {
				rs, isRet := v.Node.AST.(*ast.ReturnStmt)
				if !isRet || v.State&1 == 0 || len(rs.Results) == 0 {
					return
				}
				if o := f.ObjOf(ast.Unparen(rs.Results[len(rs.Results)-1])); o != nil && val(o)&1 == 0 {
					knownNil[v.Node] = true
				} else {
					maybeErr[v.Node] = true
				}
			})
			bad := false
			for _, r := range g.Returns() {
				k := kinds[r]
				if knownNil[r] && !maybeErr[r] {
					continue
				}
				if v, ok := reach[r]; ok && (k&(1<<uint(ir.RetError)) != 0 || k&(1<<uint(ir.RetMaybe)) != 0) {
					ob.Bad(c.Witness(v), "return at %s can carry an error after outputs were reserved at %s: a failed request keeps its reservation", c.P.Pos(r.Pos()), c.P.Pos(call.Pos()))
					bad = true
					break
				}
			}
			if !bad {
				ob.OK("only success returns follow the reservation")
			}
		}
	}
}

func c07r3(c *Ctx) {
	poolV1 := c.P.Method("wallet", "ChainManager", "PoolTransactions")
	poolV2 := c.P.Method("wallet", "ChainManager", "V2PoolTransactions")
	for _, f := range walletViews(c).Roots {
		all := append([]*ir.Func{f}, f.Lits...)
		var v1Loops, v2Loops []*ast.RangeStmt
		var owner = map[*ast.RangeStmt]*ir.Func{}
		n1, n2 := 0, 0
		for _, fn := range all {
			n1 += len(fn.CallsTo(false, poolV1))
			n2 += len(fn.CallsTo(false, poolV2))
			ir.Walk(fn.Body, false, func(x ast.Node) {
				rs, ok := x.(*ast.RangeStmt)
				if !ok {
					return
				}
				if call, ok := ast.Unparen(origin(fn, rs.X)).(*ast.CallExpr); ok {
					switch fn.Callee(call) {
					case poolV1.Origin():
						v1Loops = append(v1Loops, rs)
						owner[rs] = fn
					case poolV2.Origin():
						v2Loops = append(v2Loops, rs)
						owner[rs] = fn
					}
				}
			})
		}
		if n1 == 0 && n2 == 0 {
			continue
		}
		c.VisitGraph(f)
		ob := c.Ob(f, "both-pools-consulted", f.Body.Pos())
		if n1 == 0 || n2 == 0 {
			which := "v2"
			if n1 == 0 {
				which = "v1"
			}
			ob.Bad(nil, "%s consults only one of the two pool lists (the %s list is missing): outputs spent by pooled transactions of the other kind look spendable here but not elsewhere", f.Name(), which)
			continue
		}
		ob.OK("v1 and v2 pool lists both consulted")
		// spent sets: map[…]bool variables written in loop bodies
		sets := func(loops []*ast.RangeStmt) map[types.Object]bool {
			out := map[types.Object]bool{}
			// (ids first collected into a local list that is then walked: the loops over that list count too)
			for _, rs := range append([]*ast.RangeStmt(nil), loops...) {
				fn := owner[rs]
				for _, w := range fn.WritesIn(rs.Body, false) {
					lst := fn.ObjOf(w.LHS)
					if lst == nil || w.RHS == nil {
						continue
					}
					if _, isSlice := lst.Type().Underlying().(*types.Slice); !isSlice {
						continue
					}
					if ac, ok := ast.Unparen(w.RHS).(*ast.CallExpr); !ok || len(ac.Args) < 2 || fn.ObjOf(ac.Args[0]) != lst {
						continue
					}
					ir.Walk(fn.Body, false, func(x ast.Node) {
						if rs2, ok := x.(*ast.RangeStmt); ok && fn.ObjOf(rs2.X) == lst {
							if _, seen := owner[rs2]; !seen {
								owner[rs2] = fn
								loops = append(loops, rs2)
							}
						}
					})
				}
			}
			for _, rs := range loops {
				fn := owner[rs]
				for _, w := range fn.WritesIn(rs.Body, false) {
					if ix, ok := ast.Unparen(w.LHS).(*ast.IndexExpr); ok {
						if obj := fn.ObjOf(ix.X); obj != nil {
							if mt, ok := obj.Type().Underlying().(*types.Map); ok {
								if b, ok := mt.Elem().Underlying().(*types.Basic); ok && b.Kind() == types.Bool {
									out[obj] = true
								}
							}
						}
					}
				}
			}
			return out
		}
		s1, s2 := sets(v1Loops), sets(v2Loops)
		if len(s1) == 0 && len(s2) == 0 {
			continue
		}
		ob2 := c.Ob(f, "same-spent-sets", f.Body.Pos())
		okSets := true
		for o := range s1 {
			if !s2[o] {
				okSets = false
				ob2.Bad(nil, "spent set %q is filled from the v1 pool list but not from the v2 list", o.Name())
			}
		}
		for o := range s2 {
			if !s1[o] {
				okSets = false
				ob2.Bad(nil, "spent set %q is filled from the v2 pool list but not from the v1 list", o.Name())
			}
		}
		if okSets {
			ob2.OK("%d spent set(s) filled from both lists", len(s1))
		}
	}
}

// takeLoop is a loop that moves elements of a candidate slice into a result.
type takeLoop struct {
	stmt  ast.Stmt     // *ast.RangeStmt or *ast.ForStmt
	head  *cfgx.Node   // loop head node in the graph
	slice types.Object // root of the alias chain of the list taken from
	own   types.Object // the variable a range loop ranges over (nil for other loops)
}

func c07r4(c *Ctx) {
	for _, f := range walletMethods(c) {
		g := f.Graph()
		// alias map: D := S / D = S[...] / D = D[...]
		alias := map[types.Object]types.Object{}
		root := func(o types.Object) types.Object {
			for i := 0; i < 10; i++ {
				n, ok := alias[o]
				if !ok || n == o {
					return o
				}
				o = n
			}
			return o
		}
		for _, w := range f.WritesIn(f.Body, false) {
			if w.RHS == nil {
				continue
			}
			l := f.ObjOf(w.LHS)
			if l == nil {
				continue
			}
			r := ast.Unparen(w.RHS)
			if se, ok := r.(*ast.SliceExpr); ok {
				r = ast.Unparen(se.X)
			}
			if ro := f.ObjOf(r); ro != nil && ro != l {
				if _, isSlice := ro.Type().Underlying().(*types.Slice); isSlice {
					alias[l] = ro
				}
			}
		}
		isElemSlice := func(o types.Object) bool {
			sl, ok := o.Type().Underlying().(*types.Slice)
			return ok && ir.IsNamed(sl.Elem(), ir.PkgPath("types"), "SiacoinElement")
		}
		// find take loops
		var loops []takeLoop
		ir.Walk(f.Body, false, func(x ast.Node) {
			var body *ast.BlockStmt
			var elemVars = map[types.Object]types.Object{} // element var → slice
			var indexed types.Object                       // the slice a counting loop subscripts
			var stmt ast.Stmt
			switch s := x.(type) {
			case *ast.RangeStmt:
				so := f.ObjOf(s.X)
				if so == nil || !isElemSlice(so) || s.Value == nil {
					return
				}
				if v := f.ObjOf(s.Value); v != nil {
					elemVars[v] = root(so)
				}
				body, stmt = s.Body, s
			case *ast.ForStmt:
				body, stmt = s.Body, s
			default:
				return
			}
			// element variables defined in the body from S[i] / &S[i]
			for _, w := range f.WritesIn(body, false) {
				if w.RHS == nil {
					continue
				}
				r := ast.Unparen(w.RHS)
				if u, ok := r.(*ast.UnaryExpr); ok && u.Op == token.AND {
					r = ast.Unparen(u.X)
				}
				if ix, ok := r.(*ast.IndexExpr); ok {
					if so := f.ObjOf(ix.X); so != nil && isElemSlice(so) {
						if v := f.ObjOf(w.LHS); v != nil {
							elemVars[v] = root(so)
							if indexed == nil {
								indexed = so
							}
						}
					}
				}
			}
			if len(elemVars) == 0 {
				return
			}
			// does the body append something derived from an element variable?
			var taken, own types.Object
			if rs, ok := stmt.(*ast.RangeStmt); ok {
				own = f.ObjOf(rs.X)
			} else {
				own = indexed
			}
			for _, call := range f.CallsIn(body, false) {
				id, ok := call.Expr.Fun.(*ast.Ident)
				if !ok {
					continue
				}
				if b, ok := f.Info().Uses[id].(*types.Builtin); !ok || b.Name() != "append" {
					continue
				}
				// a take puts the candidate into a selection (a list of elements); collecting ids or building
				// inputs from an already made selection is not one
				if dst, ok := f.TypeOf(call.Expr.Args[0]).Underlying().(*types.Slice); !ok || !ir.IsNamed(dst.Elem(), ir.PkgPath("types"), "SiacoinElement") {
					continue
				}
				for _, a := range call.Expr.Args[1:] {
					for v, s := range elemVars {
						if f.MentionsObj(a, false, v) {
							taken = s
						}
					}
				}
			}
			if taken == nil {
				return
			}
			var head *cfgx.Node
			if rs, ok := stmt.(*ast.RangeStmt); ok {
				head = g.NodeOf(rs)
			} else {
				// first node of the for body / cond
				for _, n := range g.Nodes {
					if n.Block != nil && n.Block.Stmt == stmt && (n.Block.Kind.String() == "ForLoop" || n.Block.Kind.String() == "ForBody") {
						if head == nil || n.ID < head.ID {
							head = n
						}
					}
				}
			}
			if head != nil {
				loops = append(loops, takeLoop{stmt: stmt, head: head, slice: taken, own: own})
			}
		})
		if len(loops) == 0 {
			continue
		}
		c.VisitGraph(f)
		// for each ordered pair (L1, L2) over the same root slice with a path L1-exit → L2-head
		for i, l1 := range loops {
			for j, l2 := range loops {
				if l1.slice != l2.slice {
					continue
				}
				if containsNode(l1.stmt, l2.stmt) && i != j {
					continue // nested
				}
				if containsNode(l2.stmt, l1.stmt) && i != j {
					continue
				}
				// start: every edge leaving loop l1 (from a node inside the statement to a node outside)
				var start []*cfgx.Visit
				for _, n := range g.Nodes {
					if !nodeInStmt(n, l1.stmt) && n != l1.head {
						continue
					}
					for _, e := range n.Succs {
						if e.To.Exit || e.To == l1.head || nodeInStmt(e.To, l1.stmt) {
							continue
						}
						start = append(start, cfgx.StartAfter(e, 0))
					}
				}
				if len(start) == 0 {
					continue
				}
				// the variables through which the second loop reaches the list (its own slice and what that was copied from)
				chain2 := map[types.Object]bool{}
				for o, k := l2.own, 0; o != nil && k < 10 && !chain2[o]; k++ {
					chain2[o] = true
					o = alias[o]
				}
				resliced := func(n *cfgx.Node) bool {
					if n.AST == nil {
						return false
					}
					if containsNode(l1.stmt, n.AST) {
						return false // a reslice inside the loop is on some exits only; those exits are handled by starting after it
					}
					for _, w := range f.WritesIn(n.AST, false) {
						lo := f.ObjOf(w.LHS)
						// the list itself, or the copy of it that the second loop ranges over
						if lo == nil || (lo != l1.slice && !(chain2[lo] && root(lo) == l1.slice)) {
							continue
						}
						if _, isID := ast.Unparen(w.LHS).(*ast.Ident); !isID {
							continue
						}
						if w.RHS == nil {
							if vs, ok := w.Stmt.(*ast.ValueSpec); ok && len(vs.Values) == 0 {
								return true // fresh declaration (zero value)
							}
							continue
						}
						if se, ok := ast.Unparen(w.RHS).(*ast.SliceExpr); ok && se.Low != nil {
							if ro := f.ObjOf(se.X); ro != nil && root(ro) == l1.slice {
								return true
							}
						}
						if !f.MentionsObj(w.RHS, false, l1.slice) && !f.MentionsObj(w.RHS, false, lo) {
							return true // replaced by a value not derived from itself
						}
					}
					return false
				}
				// exits taken after an in-loop reslice (the `utxos = utxos[i:]; break` idiom) are fine: drop start edges whose source path passed a reslice in the same iteration
				var filtered []*cfgx.Visit
				for _, sv := range start {
					from := sv.Via.From
					inLoopReslice := false
					// walk back inside the loop body along unique predecessors
					for k, cur := 0, from; k < 6 && cur != nil; k++ {
						if cur.AST != nil {
							for _, w := range f.WritesIn(cur.AST, false) {
								lo := f.ObjOf(w.LHS)
								if lo != nil && root(lo) == l1.slice && w.RHS != nil {
									if se, ok := ast.Unparen(w.RHS).(*ast.SliceExpr); ok && se.Low != nil {
										inLoopReslice = true
									}
								}
							}
						}
						if len(cur.Preds) != 1 {
							break
						}
						cur = cur.Preds[0].From
					}
					if !inLoopReslice {
						filtered = append(filtered, sv)
					}
				}
				if _, any := g.Reach(start, nil)[l2.head]; !any {
					continue // the second loop cannot follow the first
				}
				if len(filtered) == 0 {
					ob := c.Ob(f, "resliced-between-takes:"+l1.slice.Name(), l1.stmt.Pos())
					ob.OK("every exit of the first loop re-slices %s", l1.slice.Name())
					continue
				}
				r := g.Reach(filtered, resliced)
				v, reaches := r[l2.head]
				if !reaches {
					ob := c.Ob(f, "resliced-between-takes:"+l1.slice.Name(), l1.stmt.Pos())
					ob.OK("every path from the loop at %s to the loop at %s re-slices or replaces %s", c.P.Pos(l1.stmt.Pos()), c.P.Pos(l2.stmt.Pos()), l1.slice.Name())
					continue
				}
				ob := c.Ob(f, "resliced-between-takes:"+l1.slice.Name(), l1.stmt.Pos())
				// a different correct design (membership test on already selected ids) is not decided here
				if usesMembershipTest(f, l2.stmt) {
					ob.OK("second loop filters by a membership test; overlap not decided structurally")
					continue
				}
				ob.Bad(c.Witness(v), "candidates taken from %s by the loop at %s can be taken again by the loop at %s: a path between them does not slice the taken prefix off (the same output is selected twice)",
					l1.slice.Name(), c.P.Pos(l1.stmt.Pos()), c.P.Pos(l2.stmt.Pos()))
			}
		}
	}
}

// nodeInStmt reports whether graph node n belongs to statement stmt (synthetic
// nodes are attributed through the statement that gave rise to their block).
func nodeInStmt(n *cfgx.Node, stmt ast.Stmt) bool {
	if n.Exit {
		return false
	}
	if n.AST != nil {
		return containsNode(stmt, n.AST)
	}
	if n.Block == nil || n.Block.Stmt == nil {
		return false
	}
	if n.Block.Stmt == stmt {
		switch n.Block.Kind.String() {
		case "RangeDone", "ForDone":
			return false
		}
		return true
	}
	return containsNode(stmt, n.Block.Stmt)
}

func usesMembershipTest(f *ir.Func, loop ast.Stmt) bool {
	found := false
	ir.Walk(loop, false, func(x ast.Node) {
		if ix, ok := x.(*ast.IndexExpr); ok {
			if t := f.TypeOf(ix.X); t != nil {
				if _, isMap := t.Underlying().(*types.Map); isMap {
					found = true
				}
			}
		}
	})
	return found
}

func c07r5(c *Ctx) {
	mu := walletMuField(c.P)
	locked := walletLockedField(c.P)
	unspent := c.P.Method("wallet", "SingleAddressStore", "UnspentSiacoinElements")
	maturity := c.P.Field("types", "SiacoinElement", "MaturityHeight")
	methods := walletMethods(c)
	ls := NewLocksetV(c.P, mu, methods, walletViews(c).Of)
	// the reservation test: methods that read locked[...] and return bool
	var isLockedFns []*types.Func
	for _, m := range methods {
		if m.Type.Results == nil || len(m.Type.Results.List) != 1 {
			continue
		}
		if b, ok := m.Info().TypeOf(m.Type.Results.List[0].Type).Underlying().(*types.Basic); !ok || b.Kind() != types.Bool {
			continue
		}
		if m.MentionsField(m.Body, false, locked) {
			isLockedFns = append(isLockedFns, m.Obj)
		}
	}
	// (none is left as a call when the test is written out or fully expanded; the loops are then recognised by
	// their direct read of the reservation map)
	// stored-element variables: second result of UnspentSiacoinElements; parameters fed with such a variable
	stored := map[types.Object]bool{}
	for _, m := range methods {
		for _, call := range m.CallsTo(false, unspent) {
			n := m.Graph().NodeContaining(call.Pos())
			if as, ok := n.AST.(*ast.AssignStmt); ok && len(as.Lhs) == 3 {
				if o := m.ObjOf(as.Lhs[1]); o != nil {
					stored[o] = true
				}
			}
		}
	}
	for round := 0; round < 2; round++ {
		for _, m := range methods {
			for _, call := range m.Calls(false) {
				callee := c.P.FuncOf(call.Fn)
				if callee == nil || exported(callee) {
					continue
				}
				i := 0
				for _, fld := range callee.Type.Params.List {
					for _, nm := range fld.Names {
						if i < len(call.Expr.Args) {
							if o := m.ObjOf(call.Expr.Args[i]); o != nil && stored[o] {
								stored[callee.Info().Defs[nm]] = true
							}
						}
						i++
					}
				}
			}
		}
	}
	for _, m := range methods {
		g := m.Graph()
		ir.Walk(m.Body, false, func(x ast.Node) {
			rs, ok := x.(*ast.RangeStmt)
			if !ok || rs.Value == nil {
				return
			}
			so := m.ObjOf(rs.X)
			if so == nil || !stored[so] {
				return
			}
			head := g.NodeOf(rs)
			if head == nil || ls.At(m, head) != lsHeld {
				return // not a lock-holding admission loop (e.g. event annotation)
			}
			elem := m.ObjOf(rs.Value)
			c.VisitGraph(m)
			// 1. reservation test on the element
			has1 := false
			for _, call := range m.CallsIn(rs.Body, false) {
				for _, lf := range isLockedFns {
					if call.Fn == lf && len(call.Expr.Args) == 1 && m.MentionsObj(call.Expr.Args[0], false, elem) {
						has1 = true
					}
				}
			}
			// (the reservation test written out: a read of the reservation map keyed by the element)
			ir.Walk(rs.Body, false, func(y ast.Node) {
				if ix, ok := y.(*ast.IndexExpr); ok && m.FieldOf(ix.X) == locked && m.MentionsObj(ix.Index, false, elem) {
					has1 = true
				}
			})
			// 2. pool-spent membership with the element's id: a lookup in a local set (map[id]bool, map[id]struct{} …)
			has2 := false
			ir.Walk(rs.Body, false, func(y ast.Node) {
				if ix, ok := y.(*ast.IndexExpr); ok && m.MentionsObj(ix.Index, false, elem) && m.FieldOf(ix.X) == nil {
					if mt, ok := m.TypeOf(ix.X).Underlying().(*types.Map); ok {
						switch e := mt.Elem().Underlying().(type) {
						case *types.Basic:
							if e.Kind() == types.Bool {
								has2 = true
							}
						case *types.Struct:
							if e.NumFields() == 0 {
								has2 = true
							}
						}
					}
				}
			})
			// 3. maturity comparison
			has3 := false
			ir.Walk(rs.Body, false, func(y ast.Node) {
				if be, ok := y.(*ast.BinaryExpr); ok {
					switch be.Op {
					case token.LSS, token.GTR, token.LEQ, token.GEQ:
						if (m.FieldOf(be.X) == maturity && m.MentionsObj(be.X, false, elem)) || (m.FieldOf(be.Y) == maturity && m.MentionsObj(be.Y, false, elem)) {
							has3 = true
						}
					}
				}
			})
			// every place where the loop collects the element lies behind each of the three tests: no path from the
			// loop head reaches it without evaluating the test (a test that only guards a sibling branch filters nothing)
			testNodes := [3]map[*cfgx.Node]bool{{}, {}, {}}
			ir.Walk(rs.Body, false, func(y ast.Node) {
				mark := func(i int) {
					if n := g.NodeContaining(y.Pos()); n != nil {
						testNodes[i][n] = true
					}
				}
				switch y := y.(type) {
				case *ast.CallExpr:
					for _, lf := range isLockedFns {
						if m.Callee(y) == lf && len(y.Args) == 1 && m.MentionsObj(y.Args[0], false, elem) {
							mark(0)
						}
					}
				case *ast.IndexExpr:
					if !m.MentionsObj(y.Index, false, elem) {
						return
					}
					if m.FieldOf(y.X) == locked {
						mark(0)
					} else if m.FieldOf(y.X) == nil {
						if mt, ok := m.TypeOf(y.X).Underlying().(*types.Map); ok {
							if e, ok := mt.Elem().Underlying().(*types.Basic); ok && e.Kind() == types.Bool {
								mark(1)
							} else if e, ok := mt.Elem().Underlying().(*types.Struct); ok && e.NumFields() == 0 {
								mark(1)
							}
						}
					}
				case *ast.BinaryExpr:
					switch y.Op {
					case token.LSS, token.GTR, token.LEQ, token.GEQ:
						if (m.FieldOf(y.X) == maturity && m.MentionsObj(y.X, false, elem)) || (m.FieldOf(y.Y) == maturity && m.MentionsObj(y.Y, false, elem)) {
							mark(2)
						}
					}
				}
			})
			var collects []*cfgx.Node
			ir.Walk(rs.Body, false, func(y ast.Node) {
				ce, ok := y.(*ast.CallExpr)
				if !ok || len(ce.Args) < 2 {
					return
				}
				if id, ok := ast.Unparen(ce.Fun).(*ast.Ident); !ok || id.Name != "append" || m.ObjOf(id) == nil || m.ObjOf(id).Pkg() != nil {
					return
				}
				for _, a := range ce.Args[1:] {
					if m.MentionsObj(a, false, elem) {
						if n := g.NodeContaining(ce.Pos()); n != nil {
							collects = append(collects, n)
						}
					}
				}
			})
			var into []*cfgx.Edge
			if head != nil {
				into = head.Succs
			}
			bypass := [3]*cfgx.Node{}
			for i := range testNodes {
				if len(testNodes[i]) == 0 || len(collects) == 0 {
					continue
				}
				i := i
				reach := m.ReachableFromEdges(into, func(n *cfgx.Node) bool { return testNodes[i][n] })
				// (a loop that sorts the outputs into several lists — immature, confirmed, spendable — filters only
				// the list that is meant to be spendable: the test filters nothing when *no* list lies behind it)
				behind := 0
				var first *cfgx.Node
				for _, cn := range collects {
					if _, ok := reach[cn]; ok && !testNodes[i][cn] {
						if first == nil {
							first = cn
						}
					} else {
						behind++
					}
				}
				if behind == 0 {
					bypass[i] = first
				}
			}
			for i, t := range []struct {
				ok   bool
				role string
				msg  string
			}{
				{has1, "filter-reserved", "outputs reserved by another outstanding request are admitted"},
				{has2, "filter-pool-spent", "outputs already spent by a pooled transaction are admitted"},
				{has3, "filter-immature", "immature outputs are admitted"},
			} {
				ob := c.Ob(m, t.role, rs.Pos())
				if t.ok && bypass[i] != nil {
					ob.Bad(nil, "the loop over stored outputs at %s collects the element at %s on a path that never evaluates the %s test (the test guards only a sibling branch): %s", c.P.Pos(rs.Pos()), c.P.Pos(bypass[i].Pos()), t.role, t.msg)
					continue
				}
				ob.Check(t.ok, nil, "the loop over stored outputs at %s has no %s test on the element: %s, so this view disagrees with the other views and selection", c.P.Pos(rs.Pos()), t.role, t.msg)
			}
		})
	}
}

func c07r6(c *Ctx) {
	mu := walletMuField(c.P)
	locked := walletLockedField(c.P)
	methods := walletMethodsD(c)
	ls := NewLocksetV(c.P, mu, methods, walletViewsD(c).Of)
	rs := reservers(c)
	// selectors: unexported methods that (transitively, 2 hops) read the reservation map and return candidate elements
	reads := map[*types.Func]bool{}
	for round := 0; round < 3; round++ {
		for _, m := range methods {
			if exported(m) {
				continue
			}
			isRes := false
			for _, r := range rs {
				if m.Obj == r {
					isRes = true
				}
			}
			if isRes {
				continue
			}
			if m.MentionsField(m.Body, true, locked) {
				reads[m.Obj] = true
			}
			for _, call := range m.Calls(true) {
				if reads[call.Fn] {
					reads[m.Obj] = true
				}
			}
		}
	}
	for _, f := range methods {
		resCalls := f.CallsTo(false, rs...)
		if len(resCalls) == 0 {
			continue
		}
		isRes := false
		for _, r := range rs {
			if f.Obj == r {
				isRes = true
			}
		}
		if isRes {
			continue
		}
		g := f.Graph()
		// selection points: calls of reading helpers, or direct reads of the map
		var sel []*cfgx.Node
		for _, n := range g.Nodes {
			if n.AST == nil {
				continue
			}
			hit := f.MentionsField(n.AST, false, locked)
			for _, call := range f.NodeCalls(n) {
				if reads[call.Fn] {
					hit = true
				}
			}
			if hit {
				sel = append(sel, n)
			}
		}
		if len(sel) == 0 {
			continue
		}
		c.VisitGraph(f)
		ob := c.Ob(f, "select-and-reserve-atomic", resCalls[0].Pos())
		bad := ""
		for _, rc := range resCalls {
			rn := g.NodeContaining(rc.Pos())
			for _, sn := range sel {
				if sn == rn {
					continue
				}
				for x := range pathNodesBetween(g, sn, rn) {
					if x.AST == nil {
						continue
					}
					if _, isDefer := x.AST.(*ast.DeferStmt); isDefer {
						continue
					}
					for _, call := range f.NodeCalls(x) {
						if ls.lockOp(f, call) == -1 {
							bad = c.P.Pos(x.Pos())
						}
					}
				}
			}
		}
		ob.Check(bad == "", nil, "the wallet mutex is released at %s between selecting outputs and reserving them: a concurrent request selects the same outputs in the gap and two un-released funded transactions share an input", bad)
	}
}

func c07r7(c *Ctx) {
	rs := reservers(c)
	for _, f := range walletMethodsD(c) {
		isRes := false
		for _, r := range rs {
			if f.Obj == r {
				isRes = true
			}
		}
		if isRes {
			continue
		}
		for _, rc := range f.CallsTo(false, rs...) {
			// the list of ids handed to the reservation step (its only operand, or the list among several:
			// `updateReservations(nil, ids)`)
			var ids types.Object
			for _, a := range rc.Expr.Args {
				if o := f.ObjOf(a); o != nil {
					if _, isSlice := o.Type().Underlying().(*types.Slice); isSlice {
						ids = o
					}
				}
			}
			if ids == nil {
				continue // a literal list is reserved where it is built
			}
			g := f.Graph()
			c.VisitGraph(f)
			ob := c.Ob(f, "collected-ids-are-reserved", rc.Pos())
			isLock := func(n *cfgx.Node) bool {
				for _, call := range f.NodeCalls(n) {
					for _, r := range rs {
						if call.Fn != r {
							continue
						}
						for _, a := range call.Expr.Args {
							if f.ObjOf(a) == ids {
								return true
							}
						}
					}
				}
				return false
			}
			bad := false
			for _, n := range g.Nodes {
				if n.AST == nil {
					continue
				}
				appends := false
				for _, w := range f.WritesIn(n.AST, false) {
					if f.ObjOf(w.LHS) == ids && w.RHS != nil {
						if ac, ok := ast.Unparen(w.RHS).(*ast.CallExpr); ok {
							if id, ok := ac.Fun.(*ast.Ident); ok && id.Name == "append" {
								appends = true
							}
						}
					}
				}
				if !appends {
					continue
				}
				var st []*cfgx.Visit
				for _, e := range n.Succs {
					st = append(st, cfgx.StartAfter(e, 0))
				}
				reach := g.Reach(st, isLock)
				for _, ret := range g.Returns() {
					if v, ok := reach[ret]; ok && f.ClassifyReturn(ret) != ir.RetError {
						ob.Bad(c.Witness(v), "the return at %s is reachable after output ids were collected at %s without reserving them: the returned transactions spend outputs that later requests will select again", c.P.Pos(ret.Pos()), c.P.Pos(n.Pos()))
						bad = true
						break
					}
				}
				if bad {
					break
				}
			}
			if !bad {
				ob.OK("every non-error return after collecting ids passes the reservation")
			}
		}
	}
}

// c07r8: wherever a lock-holding function collects unconfirmed outputs from the pool into an element map, every
// pool loop that sees an input removes the spent id from that map (an unconfirmed output spent by a later pooled
// transaction is not a candidate).
func c07r8(c *Ctx) {
	mu := walletMuField(c.P)
	poolV1 := c.P.Method("wallet", "ChainManager", "PoolTransactions")
	poolV2 := c.P.Method("wallet", "ChainManager", "V2PoolTransactions")
	methods := walletMethods(c)
	ls := NewLocksetV(c.P, mu, methods, walletViews(c).Of)
	n := 0
	for _, f := range methods {
		g := f.Graph()
		var loops []*ast.RangeStmt
		ir.Walk(f.Body, false, func(x ast.Node) {
			if rs, ok := x.(*ast.RangeStmt); ok {
				if call, ok := ast.Unparen(rs.X).(*ast.CallExpr); ok && (f.Callee(call) == poolV1.Origin() || f.Callee(call) == poolV2.Origin()) {
					if head := g.NodeOf(rs); head != nil && ls.At(f, head) == lsHeld {
						loops = append(loops, rs)
					}
				}
			}
		})
		if len(loops) == 0 {
			continue
		}
		// element maps filled inside the pool loops
		elemMaps := map[types.Object]bool{}
		for _, rs := range loops {
			for _, w := range f.WritesIn(rs.Body, false) {
				if ix, ok := ast.Unparen(w.LHS).(*ast.IndexExpr); ok {
					if mo := f.ObjOf(ix.X); mo != nil {
						if mt, ok := mo.Type().Underlying().(*types.Map); ok && ir.IsNamed(mt.Elem(), ir.PkgPath("types"), "SiacoinElement") {
							elemMaps[mo] = true
						}
					}
				}
			}
		}
		for mo := range elemMaps {
			for _, rs := range loops {
				n++
				c.VisitGraph(f)
				ob := c.Ob(f, "pool-spent-removed-from-unconfirmed:"+mo.Name(), rs.Pos())
				has := false
				for _, call := range f.CallsIn(rs.Body, false) {
					if id, ok := call.Expr.Fun.(*ast.Ident); ok && id.Name == "delete" && len(call.Expr.Args) == 2 && f.ObjOf(call.Expr.Args[0]) == mo {
						has = true
					}
				}
				ob.Check(has, nil, "the pool loop at %s adds unconfirmed outputs to %q (or a sibling loop does) but does not remove ids spent by pooled inputs from it: an unconfirmed output already spent by a later pooled transaction is offered for selection, and a request above the real balance succeeds", c.P.Pos(rs.Pos()), mo.Name())
			}
		}
	}
	if n == 0 {
		ir.Fail("no lock-holding pool loop collecting unconfirmed outputs found")
	}
}

// c07r10: a reservation ends when its period is over. The reservation map holds an expiry time per output id; every
// *read* of an entry compares that time with the current time (time.Now().Before(entry), entry.After(time.Now()),
// …). A bare membership test turns an expired reservation — which is pruned only by a later successful selection or
// an explicit release — into a permanent one: the output vanishes from balance, listing and selection.
func c07r10(c *Ctx) {
	locked := walletLockedField(c.P)
	n := 0
	for _, f := range c.P.PkgFuncs("wallet") {
		if !f.MentionsField(f.Body, true, locked) {
			continue
		}
		all := append([]*ir.Func{f}, f.Lits...)
		for _, fn := range all {
			parents := map[ast.Node]ast.Node{}
			var stack []ast.Node
			ast.Inspect(fn.Body, func(x ast.Node) bool {
				if x == nil {
					stack = stack[:len(stack)-1]
					return true
				}
				if len(stack) > 0 {
					parents[x] = stack[len(stack)-1]
				}
				stack = append(stack, x)
				return true
			})
			ast.Inspect(fn.Body, func(x ast.Node) bool {
				if lit, isLit := x.(*ast.FuncLit); isLit && lit.Body != fn.Body {
					return false
				}
				ix, ok := x.(*ast.IndexExpr)
				if !ok || fn.FieldOf(ix.X) != locked {
					return true
				}
				// writes: `locked[id] = t`, and delete(locked, id) is a call, not an index
				if as, isAs := parents[ix].(*ast.AssignStmt); isAs {
					for _, l := range as.Lhs {
						if l == ast.Expr(ix) {
							return true
						}
					}
				}
				n++
				c.VisitGraph(fn)
				ob := c.Ob(fn, "reservation-read-compares-expiry", ix.Pos())
				// the entry is an operand (receiver or argument) of a method of time.Time together with time.Now()
				good := false
				for p := parents[ix]; p != nil; p = parents[p] {
					call, isCall := p.(*ast.CallExpr)
					if !isCall {
						if _, isParen := p.(*ast.ParenExpr); isParen {
							continue
						}
						if _, isSel := p.(*ast.SelectorExpr); isSel {
							continue
						}
						break
					}
					callee := fn.Callee(call)
					if callee == nil || callee.Pkg() == nil || callee.Pkg().Path() != "time" {
						break
					}
					usesNow := false
					ast.Inspect(call, func(y ast.Node) bool {
						if c2, ok := y.(*ast.CallExpr); ok {
							if fn2 := fn.Callee(c2); fn2 != nil && fn2.Pkg() != nil && fn2.Pkg().Path() == "time" && fn2.Name() == "Now" {
								usesNow = true
							}
						}
						return true
					})
					if usesNow {
						good = true
					}
					break
				}
				if !good {
					// a value bound to a local first: `exp, ok := locked[id]` with exp compared with the clock later
					if as, isAs := parents[ix].(*ast.AssignStmt); isAs && len(as.Lhs) >= 1 {
						if o := fn.ObjOf(as.Lhs[0]); o != nil && o.Name() != "_" {
							ast.Inspect(fn.Body, func(y ast.Node) bool {
								c2, ok := y.(*ast.CallExpr)
								if !ok {
									return true
								}
								callee := fn.Callee(c2)
								if callee == nil || callee.Pkg() == nil || callee.Pkg().Path() != "time" {
									return true
								}
								if fn.MentionsObj(c2, false, o) {
									good = true
								}
								return true
							})
						}
					}
				}
				ob.Check(good, nil, "the reservation entry read at %s is not compared with the current time: an expired reservation keeps its output out of balance, listing and selection until something else prunes it", c.P.Pos(ix.Pos()))
				return true
			})
		}
	}
	if n == 0 {
		ir.Fail("no read of the wallet's reservation map found")
	}
}
