package rules

import (
	"go/ast"
	"go/token"
	"go/types"
	"strings"

	"sialint/internal/cfgx"
	"sialint/internal/ir"
)

func init() {
	Explanations["C08"] = "Decides structural necessary conditions of 'the host commits only doubly-signed revisions derived from the locked contract' for every RHP4 handler of rhp.Server that reaches a Contractor mutator: (R1) revising sinks are dominated by a successful contract lock whose Revisable flag was tested, with the unlock deferred and never called before the sink; (R2) where the request type has a challenge signature it is validated against the locked revision before the sink; (R3) the revision handed to the sink is the result of a core constructor applied to the locked revision (never a contract decoded from the wire); (R4) the sink is dominated by the true edge of RenterPublicKey.VerifyHash over the sig-hash of exactly the value handed to the sink, and between hashing and the sink only the two signature fields of that value are written; (R5) the stored host signature signs that same hash; (R6) every use of the request's price table / account token is dominated by the success edge of a Validate call that (per a summary recomputed from core's source) checks the host's signature and expiry with the host's own key. (R7) AddV2Contract / RenewV2Contract are dominated by the success edge of ChainManager.AddV2PoolTransactions over the same basis and transaction set, so the host records (and finalises the old contract for) only a formation or renewal that consensus validation accepted (same check as C16.R3). (R8) where the server signs its price table, the expiry written to Prices.ValidUntil is the current time plus one duration setting of the Server that is not also used to compute a stream deadline (SetDeadline and friends): the operator's price-table validity, not the RPC timeout, limits how long a signed table can be presented. NOT decided: arithmetic of core's ReviseFor*/PayWithContract (value conservation, monotone revision numbers), consensus acceptability, races between RPCs beyond the lock discipline."

	register(&Rule{ID: "C08.R1", Prop: "C08", Floor: 8, Doc: "revising sinks run under a revisable contract lock whose unlock is deferred", Run: c08r1})
	register(&Rule{ID: "C08.R2", Prop: "C08", Floor: 6, Doc: "challenge signature validated against the locked revision before the sink", Run: c08r2})
	register(&Rule{ID: "C08.R3", Prop: "C08", Floor: 6, Doc: "the persisted revision is a core constructor's result over the locked revision", Run: c08r3})
	register(&Rule{ID: "C08.R4", Prop: "C08", Floor: 9, Doc: "renter signature verified over the hash of exactly the persisted value before the sink", Run: c08r4})
	register(&Rule{ID: "C08.R5", Prop: "C08", Floor: 9, Doc: "host signature stored is SignHash of the verified hash", Run: c08r5})
	register(&Rule{ID: "C08.R8", Prop: "C08", Floor: 1, Doc: "the signed price table expires after the configured price-table validity, not after a setting that times streams", Run: c08r8})
	register(&Rule{ID: "C08.R7", Prop: "C08", Floor: 3, Doc: "formation/renewal sets are accepted by the transaction pool before the contractor records them (consensus acceptability)", Run: c16r3})
	register(&Rule{ID: "C08.R6", Prop: "C08", Floor: 9, Doc: "price table and account token used only after validation with the host key", Run: c08r6})
}

type hostAPI struct {
	p                                                          *ir.Prog
	lockV2, revise, creditAcc, creditPools, addC, renewC       *types.Func
	debit, attach, detach                                      *types.Func
	readRequest, verifyHash, signHash, contractSig, renewalSig *types.Func
	hostKey                                                    *types.Var
	vsD                                                        *ir.ViewSet // the same views with deferred calls made explicit before every return
	handlers                                                   []*ir.Func  // expanded views (helpers inlined; handlers and lock wrappers stay calls)
	lockWrappers                                               []*ir.Func
	vs                                                         *ir.ViewSet
}

func getHostAPI(p *ir.Prog) *hostAPI {
	h := &hostAPI{p: p}
	h.lockV2 = p.Method("rhp", "Contractor", "LockV2Contract")
	h.revise = p.Method("rhp", "Contractor", "ReviseV2Contract")
	h.creditAcc = p.Method("rhp", "Contractor", "CreditAccountsWithContract")
	h.creditPools = p.Method("rhp", "Contractor", "CreditPoolsWithContract")
	h.addC = p.Method("rhp", "Contractor", "AddV2Contract")
	h.renewC = p.Method("rhp", "Contractor", "RenewV2Contract")
	h.debit = p.Method("rhp", "Contractor", "DebitAccount")
	h.attach = p.Method("rhp", "Contractor", "AttachPools")
	h.detach = p.Method("rhp", "Contractor", "DetachPools")
	h.readRequest = p.FuncObj("rhp4", "ReadRequest")
	h.verifyHash = p.Method("types", "PublicKey", "VerifyHash")
	h.signHash = p.Method("types", "PrivateKey", "SignHash")
	h.contractSig = p.Method("consensus", "State", "ContractSigHash")
	h.renewalSig = p.Method("consensus", "State", "RenewalSigHash")
	h.hostKey = p.FieldOr("rhp", "Server", "hostKey", isNamedT("types", "PrivateKey"))
	// lock wrappers: functions of the package that call LockV2Contract and hand on (state, unlock, error)
	units := map[*types.Func]bool{}
	for _, f := range p.PkgFuncs("rhp") {
		if len(f.CallsTo(false, h.lockV2)) > 0 && f.Type.Results != nil && f.Type.Results.NumFields() == 3 {
			h.lockWrappers = append(h.lockWrappers, f)
			units[f.Obj] = true
		}
	}
	// the handlers: the Server methods the dispatcher (the method that reads the RPC id) refers to, by call,
	// method value or method expression; failing that, every Server method that reads a request itself
	var raw []*ir.Func
	readID := p.FuncObj("rhp4", "ReadID")
	seen := map[*types.Func]bool{}
	for _, d := range p.PkgFuncs("rhp") {
		if len(d.CallsTo(true, readID)) == 0 {
			continue
		}
		refs := map[*types.Func]bool{}
		ast.Inspect(d.Body, func(n ast.Node) bool {
			if id, ok := n.(*ast.Ident); ok {
				if fn, ok := d.Info().Uses[id].(*types.Func); ok {
					refs[fn.Origin()] = true
				}
			}
			return true
		})
		// a dispatch table declared at package level
		for _, file := range d.Pkg.Syntax {
			for _, decl := range file.Decls {
				gd, ok := decl.(*ast.GenDecl)
				if !ok || gd.Tok != token.VAR {
					continue
				}
				mentioned := false
				for _, sp := range gd.Specs {
					for _, nm := range sp.(*ast.ValueSpec).Names {
						if o := d.Info().Defs[nm]; o != nil && d.MentionsObj(d.Body, true, o) {
							mentioned = true
						}
					}
				}
				if mentioned {
					ast.Inspect(gd, func(n ast.Node) bool {
						if id, ok := n.(*ast.Ident); ok {
							if fn, ok := d.Info().Uses[id].(*types.Func); ok {
								refs[fn.Origin()] = true
							}
						}
						return true
					})
				}
			}
		}
		// a referenced method that reads no request itself but refers to methods that do is a part of the
		// dispatcher split off (an id → handler switch of its own): its references are the handlers
		readsReq := func(f *ir.Func) bool { return len(f.CallsTo(true, h.readRequest)) > 0 }
		methodRefs := func(f *ir.Func) []*ir.Func {
			var out []*ir.Func
			for _, m := range p.MethodsOf("rhp", "Server") {
				if m != f && f.MentionsObj(f.Body, true, m.Obj) {
					out = append(out, m)
				}
			}
			return out
		}
		var add func(f *ir.Func, depth int)
		add = func(f *ir.Func, depth int) {
			if f == d || units[f.Obj] || seen[f.Obj] {
				return
			}
			if !readsReq(f) && depth < 3 {
				sub := methodRefs(f)
				n := 0
				for _, m := range sub {
					if readsReq(m) {
						n++
					}
				}
				if n > 1 { // (a wrapper delegating to one shared body is a handler itself)
					seen[f.Obj] = true
					for _, m := range sub {
						add(m, depth+1)
					}
					return
				}
			}
			seen[f.Obj] = true
			raw = append(raw, f)
		}
		for _, f := range p.MethodsOf("rhp", "Server") {
			if refs[f.Obj] {
				add(f, 0)
			}
		}
	}
	if len(raw) == 0 {
		for _, f := range p.MethodsOf("rhp", "Server") {
			if len(f.CallsTo(false, h.readRequest)) > 0 {
				raw = append(raw, f)
			}
		}
	}
	for _, f := range raw {
		units[f.Obj] = true
	}
	h.vs = p.Views("rhp", ir.ExpandOpt{Key: "host-handlers", Stop: func(fn *types.Func) bool { return units[fn] }})
	h.vsD = p.Views("rhp", ir.ExpandOpt{Key: "host-handlers+defers", Stop: func(fn *types.Func) bool { return units[fn] }, Defers: true})
	for _, f := range raw {
		if v := h.vs.Of(f); len(v.CallsTo(false, h.readRequest)) > 0 || reqParam(v) != nil {
			h.handlers = append(h.handlers, v)
		}
	}
	return h
}

func (h *hostAPI) revisingSinks() []*types.Func {
	return []*types.Func{h.revise, h.creditAcc, h.creditPools, h.renewC}
}

func (h *hostAPI) allSinks() []*types.Func {
	return []*types.Func{h.revise, h.creditAcc, h.creditPools, h.renewC, h.addC}
}

// lockSite describes how a handler locks the contract.
type lockSite struct {
	call    *ast.CallExpr
	state   types.Object
	unlock  types.Object
	wrapper *ir.Func // nil when LockV2Contract is called directly
	chk     ir.Check
}

func (h *hostAPI) lockSites(f *ir.Func) []lockSite {
	var out []lockSite
	fns := []*types.Func{h.lockV2}
	for _, w := range h.lockWrappers {
		fns = append(fns, w.Obj)
	}
	for _, call := range f.CallsTo(false, fns...) {
		n := f.Graph().NodeContaining(call.Pos())
		as, ok := n.AST.(*ast.AssignStmt)
		if !ok || len(as.Lhs) != 3 {
			continue
		}
		ls := lockSite{call: call.Expr, state: f.ObjOf(as.Lhs[0]), unlock: f.ObjOf(as.Lhs[1]), chk: f.CheckOf(call.Expr)}
		if call.Fn != h.lockV2.Origin() {
			ls.wrapper = h.p.FuncOf(call.Fn)
		}
		out = append(out, ls)
	}
	return out
}

// revisableTrueEdges returns the edges of f on which `state.Revisable` is known true.
func revisableTrueEdges(f *ir.Func, state types.Object) []*cfgx.Edge {
	var out []*cfgx.Edge
	for _, n := range f.Graph().Nodes {
		if n.Block == nil || n.Block.Cond != n.AST || len(n.Succs) != 2 {
			continue
		}
		if isFieldOfObj(f, n.AST.(ast.Expr), state, "Revisable") {
			out = append(out, n.Succs[0])
		}
	}
	return out
}

func c08r1(c *Ctx) {
	h := getHostAPI(c.P)
	// wrapper summaries: every success return is dominated by Revisable == true of its own lock result
	wrapperOK := map[*ir.Func]bool{}
	for _, w := range h.lockWrappers {
		c.VisitGraph(w)
		ob := c.Ob(w, "wrapper-checks-revisable", w.Body.Pos())
		sites := h.lockSites(w)
		good := len(sites) == 1
		if good {
			edges := revisableTrueEdges(w, sites[0].state)
			for _, r := range w.Graph().Returns() {
				if w.ClassifyReturn(r) == ir.RetError {
					continue
				}
				if !w.OnlyVia(r, edges) || !w.OnlyVia(r, sites[0].chk.Succ) {
					good = false
				}
			}
		}
		wrapperOK[w] = good
		if good {
			ob.OK("every success return follows the Revisable test")
		} else {
			// a plain lock wrapper (also used by read-only RPCs): the revising callers are then held to the test themselves
			ob.OK("does not test Revisable itself; each revising caller is checked for it")
		}
	}
	for _, f := range h.handlers {
		sinks := f.CallsTo(false, h.revisingSinks()...)
		if len(sinks) == 0 {
			continue
		}
		g := f.Graph()
		c.VisitGraph(f)
		sites := h.lockSites(f)
		for _, sink := range sinks {
			sn := g.NodeContaining(sink.Pos())
			ob := c.Ob(f, "locked-revisable:"+sink.Fn.Name(), sink.Pos())
			var site *lockSite
			for i := range sites {
				if f.OnlyVia(sn, sites[i].chk.Succ) {
					site = &sites[i]
				}
			}
			if site == nil {
				ob.Bad(nil, "%s is not dominated by a successful contract lock", sink.Fn.Name())
				continue
			}
			revisable := false
			if site.wrapper != nil && wrapperOK[site.wrapper] {
				revisable = true
			} else {
				revisable = f.OnlyVia(sn, revisableTrueEdges(f, site.state))
			}
			if !revisable {
				ob.Bad(nil, "the contract is locked at %s without testing Revisable before %s: a renewed/expired contract can still be revised and credited", c.P.Pos(site.call.Pos()), sink.Fn.Name())
				continue
			}
			ob.OK("lock at %s, Revisable tested", c.P.Pos(site.call.Pos()))

			ob2 := c.Ob(f, "unlock-deferred:"+sink.Fn.Name(), sink.Pos())
			deferred := false
			// the deferred function is the unlock handed out by the lock, possibly through a copy (a field of a small
			// "locked contract" value): every definition of the called variable that reaches the defer is that copy
			isUnlock := func(fn types.Object, at *cfgx.Node) bool {
				if fn == nil {
					return false
				}
				if fn == site.unlock {
					return true
				}
				defs := ReachingDefs(f, fn, at)
				if len(defs) == 0 {
					return false
				}
				for _, d := range defs {
					if d == nil || d.AST == nil {
						return false
					}
					ok := false
					for _, w := range f.WritesIn(d.AST, false) {
						if f.ObjOf(w.LHS) == fn && w.RHS != nil && f.ObjOf(w.RHS) == site.unlock {
							ok = true
						}
					}
					if !ok {
						return false
					}
				}
				return true
			}
			for _, d := range f.Defers() {
				if isUnlock(f.ObjOf(d.Stmt.Call.Fun), d.Node) && g.DominatedByNode(sn, d.Node) {
					deferred = true
				}
			}
			early := false
			for _, n := range g.Nodes {
				if n.AST == nil {
					continue
				}
				if _, isDefer := n.AST.(*ast.DeferStmt); isDefer {
					continue
				}
				for _, call := range f.NodeCalls(n) {
					if f.ObjOf(call.Expr.Fun) == site.unlock {
						// is it on a path from the lock to the sink?
						between := pathNodesBetween(g, site.chk.Node, sn)
						if between[n] {
							early = true
						}
					}
				}
			}
			switch {
			case early:
				ob2.Bad(nil, "the contract lock is released before %s at %s: a concurrent RPC can build a second revision with the same number from the same base", sink.Fn.Name(), c.P.Pos(sink.Pos()))
			case !deferred:
				ob2.Bad(nil, "no deferred unlock dominates %s: error exits leak the contract lock or release it early", sink.Fn.Name())
			default:
				ob2.OK("unlock deferred before the sink")
			}
		}
	}
}

func c08r2(c *Ctx) {
	h := getHostAPI(c.P)
	for _, f := range h.handlers {
		req, _ := reqVar(f, h.readRequest)
		vcs := methodOfVar(req, "ValidChallengeSignature")
		if vcs == nil {
			continue
		}
		sinks := f.CallsTo(false, h.allSinks()...)
		if len(sinks) == 0 {
			continue
		}
		g := f.Graph()
		c.VisitGraph(f)
		sites := h.lockSites(f)
		for _, sink := range sinks {
			ob := c.Ob(f, "challenge-before:"+sink.Fn.Name(), sink.Pos())
			sn := g.NodeContaining(sink.Pos())
			var edges []*cfgx.Edge
			for _, call := range f.CallsTo(false, vcs) {
				rcv := call.Recv()
				if rcv == nil {
					// called through a method value bound to a local (`valid := req.ValidChallengeSignature`)
					if mv, ok := ast.Unparen(origin(f, call.Expr.Fun)).(*ast.SelectorExpr); ok {
						rcv = mv.X
					}
				}
				if rcv == nil || f.ObjOf(rcv) != req || len(call.Expr.Args) != 1 {
					continue
				}
				// argument must be the locked revision
				o := origin(f, call.Expr.Args[0])
				okArg := false
				for _, s := range sites {
					if isFieldOfObj(f, o, s.state, "Revision") {
						okArg = true
					}
				}
				if !okArg {
					continue
				}
				t, _ := boolCallEdges(f, call.Expr)
				edges = append(edges, t...)
			}
			ob.Check(f.OnlyVia(sn, edges), nil, "%s is reachable without a successful ValidChallengeSignature over the locked revision: a replayed or forged request changes the contract", sink.Fn.Name())
		}
	}
}

// coreConstructors lists the rhp4 functions that build revisions/renewals.
func isCoreConstructor(fn *types.Func) bool {
	if fn == nil || fn.Pkg() == nil || fn.Pkg().Path() != ir.PkgPath("rhp4") {
		return false
	}
	n := fn.Name()
	return strings.HasPrefix(n, "ReviseFor") || n == "RenewContract" || strings.HasPrefix(n, "RefreshContract") || n == "NewContract"
}

// persistedValue returns the variable whose value a sink persists: the
// revision argument of the revising sinks; for Add/Renew the contract/renewal
// variable placed into the transaction (found through sigHashTargets).
func (h *hostAPI) revisionArg(f *ir.Func, sink ir.Call) types.Object {
	switch sink.Fn {
	case h.revise.Origin():
		return f.ObjOf(sink.Expr.Args[1])
	case h.creditAcc.Origin(), h.creditPools.Origin():
		return f.ObjOf(sink.Expr.Args[2])
	}
	return nil
}

func c08r3(c *Ctx) {
	h := getHostAPI(c.P)
	for _, f := range h.handlers {
		sites := h.lockSites(f)
		for _, sink := range f.CallsTo(false, h.revise, h.creditAcc, h.creditPools) {
			c.VisitGraph(f)
			ob := c.Ob(f, "constructed-from-locked:"+sink.Fn.Name(), sink.Pos())
			v := h.revisionArg(f, sink)
			if v == nil {
				ob.Bad(nil, "the revision argument of %s is not a local variable built by a core constructor", sink.Fn.Name())
				continue
			}
			call, idx := tupleDef(f, v)
			if call == nil || idx != 0 || !isCoreConstructor(f.Callee(call)) {
				ob.Bad(nil, "the revision persisted by %s is not (only) defined as the result of a core ReviseFor* constructor", sink.Fn.Name())
				continue
			}
			o := origin(f, call.Args[0])
			okBase := false
			for _, s := range sites {
				if isFieldOfObj(f, o, s.state, "Revision") {
					okBase = true
				}
			}
			ob.Check(okBase, nil, "the constructor %s is not applied to the revision obtained from the contract lock", f.Callee(call).Name())
		}
		// renew / refresh: the renewal variable comes from a core constructor over the locked revision
		for _, sink := range f.CallsTo(false, h.renewC) {
			c.VisitGraph(f)
			ob := c.Ob(f, "constructed-from-locked:"+sink.Fn.Name(), sink.Pos())
			found, good := false, true
			isRenewalCtor := func(fn *types.Func) bool {
				return isCoreConstructor(fn) && (fn.Name() == "RenewContract" || strings.HasPrefix(fn.Name(), "RefreshContract"))
			}
			for _, call := range f.Calls(false) {
				ctor := isRenewalCtor(call.Fn)
				if call.Fn == nil {
					// through a function variable that only ever holds such constructors (full / partial rollover)
					if fns := calleesThrough(f, call.Expr); len(fns) > 0 {
						ctor = true
						for _, fn := range fns {
							if !isRenewalCtor(fn) {
								ctor = false
							}
						}
					}
				}
				if ctor {
					found = true
					o := origin(f, call.Expr.Args[0])
					okBase := false
					for _, s := range sites {
						if isFieldOfObj(f, o, s.state, "Revision") {
							okBase = true
						}
					}
					if !okBase {
						good = false
					}
				}
			}
			ob.Check(found && good, nil, "the renewal persisted by %s is not built by a core Renew/Refresh constructor over the locked revision", sink.Fn.Name())
		}
	}
}

// sigCheck is one verified signature hash in a handler.
type sigCheck struct {
	hashVar  types.Object  // variable holding the hash
	hashCall *ast.CallExpr // cs.ContractSigHash(x) / cs.RenewalSigHash(x)
	target   ast.Expr      // x
	verify   *ast.CallExpr // pk.VerifyHash(hashVar, sig)
	okEdges  []*cfgx.Edge
}

func (h *hostAPI) sigChecks(f *ir.Func) []sigCheck {
	var out []sigCheck
	for _, v := range f.CallsTo(false, h.verifyHash) {
		if len(v.Expr.Args) != 2 {
			continue
		}
		hv := f.ObjOf(v.Expr.Args[0])
		var hc *ast.CallExpr
		if hv != nil {
			if call, _ := tupleDef(f, hv); call != nil {
				hc = call
			}
		} else if call, ok := ast.Unparen(v.Expr.Args[0]).(*ast.CallExpr); ok {
			hc = call
		}
		if hc == nil {
			continue
		}
		fn := f.Callee(hc)
		if fn != h.contractSig.Origin() && fn != h.renewalSig.Origin() {
			continue
		}
		// the receiver must be a RenterPublicKey field
		rcv := ast.Unparen(v.Expr.Fun.(*ast.SelectorExpr).X)
		if sel, ok := rcv.(*ast.SelectorExpr); !ok || sel.Sel.Name != "RenterPublicKey" {
			continue
		}
		t, _ := boolCallEdges(f, v.Expr)
		out = append(out, sigCheck{hashVar: hv, hashCall: hc, target: hc.Args[0], verify: v.Expr, okEdges: t})
	}
	return out
}

// pointee: `*p`, or a pointer-typed local p used as the base of a selector, where p is defined once as `&E`: E.
func pointee(f *ir.Func, e ast.Expr) ast.Expr {
	e = ast.Unparen(e)
	base := e
	if st, isStar := e.(*ast.StarExpr); isStar {
		base = ast.Unparen(st.X)
	} else if t := f.TypeOf(e); t == nil || !isPointer(t) {
		return e
	}
	if _, isID := base.(*ast.Ident); !isID {
		return e
	}
	if u, isAddr := ast.Unparen(origin(f, base)).(*ast.UnaryExpr); isAddr && u.Op == token.AND {
		return ast.Unparen(u.X)
	}
	return e
}

// sameLvalue compares two lvalue expressions structurally (identifiers by object, fields by object, constant indices).
func sameLvalue(f *ir.Func, a, b ast.Expr) bool {
	a, b = ast.Unparen(a), ast.Unparen(b)
	switch x := a.(type) {
	case *ast.Ident:
		y, ok := b.(*ast.Ident)
		return ok && f.ObjOf(x) != nil && f.ObjOf(x) == f.ObjOf(y)
	case *ast.SelectorExpr:
		y, ok := b.(*ast.SelectorExpr)
		return ok && x.Sel.Name == y.Sel.Name && sameLvalue(f, x.X, y.X)
	case *ast.IndexExpr:
		y, ok := b.(*ast.IndexExpr)
		if !ok || !sameLvalue(f, x.X, y.X) {
			return false
		}
		xi, ok1 := f.ConstInt(x.Index)
		yi, ok2 := f.ConstInt(y.Index)
		if ok1 && ok2 {
			return xi == yi
		}
		return !ok1 && !ok2 && sameLvalue(f, x.Index, y.Index)
	}
	return false
}

// isPrefixLvalue reports whether `prefix` is a (non-strict) prefix path of `e`: e = prefix(.f|[i])*.
func isPrefixLvalue(f *ir.Func, prefix, e ast.Expr) bool {
	for {
		if sameLvalue(f, prefix, e) {
			return true
		}
		switch x := ast.Unparen(e).(type) {
		case *ast.SelectorExpr:
			e = x.X
		case *ast.IndexExpr:
			e = x.X
		default:
			return false
		}
	}
}

// expectedTargets returns, per sink, the lvalues whose hashes must have been verified.
func (h *hostAPI) expectedTargets(f *ir.Func, sink ir.Call, checks []sigCheck) (need []string, have map[string]sigCheck) {
	have = map[string]sigCheck{}
	switch sink.Fn {
	case h.revise.Origin(), h.creditAcc.Origin(), h.creditPools.Origin():
		v := h.revisionArg(f, sink)
		need = []string{"revision"}
		for _, ck := range checks {
			if v != nil && f.ObjOf(ck.target) != nil && copyRoot(f, f.ObjOf(ck.target)) == copyRoot(f, v) && f.Callee(ck.hashCall) == h.contractSig.Origin() {
				have["revision"] = ck
			}
		}
	case h.addC.Origin():
		need = []string{"contract"}
		for _, ck := range checks {
			// hash of <txn>.FileContracts[0] — possibly through a pointer taken once: `c := &txn.FileContracts[0]`, `*c`
			tgt := ast.Unparen(ck.target)
			if st, isStar := tgt.(*ast.StarExpr); isStar {
				if u, isAddr := ast.Unparen(origin(f, st.X)).(*ast.UnaryExpr); isAddr && u.Op == token.AND {
					tgt = ast.Unparen(u.X)
				}
			}
			if ix, ok := tgt.(*ast.IndexExpr); ok {
				if sel, ok := ast.Unparen(ix.X).(*ast.SelectorExpr); ok && sel.Sel.Name == "FileContracts" && f.Callee(ck.hashCall) == h.contractSig.Origin() {
					have["contract"] = ck
				}
			}
		}
	case h.renewC.Origin():
		need = []string{"renewal", "new-contract"}
		for _, ck := range checks {
			if f.Callee(ck.hashCall) == h.renewalSig.Origin() {
				have["renewal"] = ck
			}
			if sel, ok := ast.Unparen(ck.target).(*ast.SelectorExpr); ok && sel.Sel.Name == "NewContract" && f.Callee(ck.hashCall) == h.contractSig.Origin() {
				have["new-contract"] = ck
			}
		}
	}
	return
}

func c08r4(c *Ctx) {
	h := getHostAPI(c.P)
	for _, f := range h.handlers {
		sinks := f.CallsTo(false, h.allSinks()...)
		if len(sinks) == 0 {
			continue
		}
		g := f.Graph()
		c.VisitGraph(f)
		checks := h.sigChecks(f)
		for _, sink := range sinks {
			sn := g.NodeContaining(sink.Pos())
			need, have := h.expectedTargets(f, sink, checks)
			for _, role := range need {
				ob := c.Ob(f, "renter-sig-verified:"+role+":"+sink.Fn.Name(), sink.Pos())
				ck, ok := have[role]
				if !ok {
					ob.Bad(nil, "%s persists a %s whose signature hash is never verified with RenterPublicKey.VerifyHash in this handler", sink.Fn.Name(), role)
					continue
				}
				if !f.OnlyVia(sn, ck.okEdges) {
					ob.Bad(nil, "%s at %s is reachable without passing the true edge of the renter signature check at %s: an unsigned or wrongly signed %s is persisted", sink.Fn.Name(), c.P.Pos(sink.Pos()), c.P.Pos(ck.verify.Pos()), role)
					continue
				}
				// between hashing and the sink, only signature fields of the hashed value may be written
				hn := g.NodeContaining(ck.hashCall.Pos())
				bad := ""
				for n := range pathNodesBetween(g, hn, sn) {
					if n.AST == nil {
						continue
					}
					for _, w := range f.WritesIn(n.AST, false) {
						// (the hashed value, or the copy of it that is persisted)
						root := f.ObjOf(rootOfLvalue(w.LHS))
						onCopy := root != nil && f.ObjOf(ck.target) != nil && root != f.ObjOf(ck.target) && copyRoot(f, root) == copyRoot(f, f.ObjOf(ck.target))
						if !isPrefixLvalue(f, ck.target, w.LHS) && !onCopy {
							continue
						}
						if sel, ok := ast.Unparen(w.LHS).(*ast.SelectorExpr); ok && (sel.Sel.Name == "RenterSignature" || sel.Sel.Name == "HostSignature") {
							continue
						}
						if onCopy && f.ObjOf(w.LHS) == root && w.RHS != nil && f.ObjOf(w.RHS) != nil && copyRoot(f, f.ObjOf(w.RHS)) == copyRoot(f, root) {
							continue // the copy itself
						}
						bad = c.P.Pos(n.Pos())
					}
				}
				if bad != "" {
					ob.Bad(nil, "the %s is modified at %s after its signature hash was computed and before it is persisted: the renter signed a different value", role, bad)
					continue
				}
				ob.OK("verified at %s over %s", c.P.Pos(ck.verify.Pos()), ir.ExprString(ck.target))
			}
		}
	}
}

func c08r5(c *Ctx) {
	h := getHostAPI(c.P)
	for _, f := range h.handlers {
		sinks := f.CallsTo(false, h.allSinks()...)
		if len(sinks) == 0 {
			continue
		}
		g := f.Graph()
		c.VisitGraph(f)
		checks := h.sigChecks(f)
		for _, sink := range sinks {
			sn := g.NodeContaining(sink.Pos())
			need, have := h.expectedTargets(f, sink, checks)
			for _, role := range need {
				ck, ok := have[role]
				if !ok {
					continue // reported by R4
				}
				ob := c.Ob(f, "host-signs-verified-hash:"+role+":"+sink.Fn.Name(), sink.Pos())
				// find `<target>.HostSignature = s.hostKey.SignHash(hashVar)` dominating the sink
				found := false
				for _, n := range g.Nodes {
					if n.AST == nil {
						continue
					}
					for _, w := range f.WritesIn(n.AST, false) {
						sel, ok := ast.Unparen(w.LHS).(*ast.SelectorExpr)
						if !ok || sel.Sel.Name != "HostSignature" || w.RHS == nil {
							continue
						}
						if !sameLvalue(f, sel.X, ck.target) && !sameLvalue(f, pointee(f, sel.X), pointee(f, ck.target)) && !(f.ObjOf(sel.X) != nil && f.ObjOf(ck.target) != nil && copyRoot(f, f.ObjOf(sel.X)) == copyRoot(f, f.ObjOf(ck.target))) {
							continue
						}
						call, ok := ast.Unparen(w.RHS).(*ast.CallExpr)
						if !ok || f.Callee(call) != h.signHash.Origin() || len(call.Args) != 1 {
							continue
						}
						if rcv, ok := call.Fun.(*ast.SelectorExpr); !ok || (f.FieldOf(rcv.X) != h.hostKey && f.FieldOf(origin(f, rcv.X)) != h.hostKey) {
							continue
						}
						sameHash := ck.hashVar != nil && f.ObjOf(call.Args[0]) == ck.hashVar
						if sameHash && g.DominatedByNode(sn, n) {
							found = true
						}
					}
				}
				ob.Check(found, nil, "before %s the host does not store hostKey.SignHash(<the verified hash>) into the %s's HostSignature: the persisted %s is not validly doubly signed", sink.Fn.Name(), role, role)
			}
		}
	}
}

// validatesWithKey reports whether method fn of a request type calls
// HostPrices.Validate / AccountToken.Validate on its own fields with its
// first parameter (summary from core's syntax).
func validatesField(p *ir.Prog, fn *types.Func, pricesValidate, tokenValidate *types.Func) (prices, token bool) {
	df := p.DepFunc(fn)
	if df == nil || df.Type.Params == nil || len(df.Type.Params.List) == 0 || len(df.Type.Params.List[0].Names) == 0 {
		return
	}
	key := df.Info().Defs[df.Type.Params.List[0].Names[0]]
	for _, call := range df.Calls(false) {
		if len(call.Expr.Args) != 1 || df.ObjOf(call.Expr.Args[0]) != key {
			continue
		}
		chk := df.CheckOf(call.Expr)
		allErr := len(chk.Fail) > 0
		for _, e := range chk.Fail {
			for n := range df.ReachableFromEdges([]*cfgx.Edge{e}, nil) {
				if n.Exit {
					continue
				}
				if _, isRet := n.AST.(*ast.ReturnStmt); isRet && df.ClassifyReturn(n) != ir.RetError {
					// a non-error return reachable from the failing edge
					if _, viaSucc := df.ReachableFromEdges(chk.Succ, nil)[n]; !viaSucc {
						allErr = false
					}
				}
			}
		}
		if !allErr {
			continue
		}
		switch call.Fn {
		case pricesValidate.Origin():
			prices = true
		case tokenValidate.Origin():
			token = true
		}
	}
	return
}

func c08r6(c *Ctx) {
	h := getHostAPI(c.P)
	pricesValidate := c.P.Method("rhp4", "HostPrices", "Validate")
	tokenValidate := c.P.Method("rhp4", "AccountToken", "Validate")
	hostPrices := c.P.Named("rhp4", "HostPrices")
	accountToken := c.P.Named("rhp4", "AccountToken")
	isHostPub := func(f *ir.Func, e ast.Expr) bool {
		call, ok := origin(f, e).(*ast.CallExpr)
		if !ok {
			return false
		}
		sel, ok := call.Fun.(*ast.SelectorExpr)
		return ok && sel.Sel.Name == "PublicKey" && f.FieldOf(sel.X) == h.hostKey
	}
	for _, f := range h.handlers {
		req, _ := reqVar(f, h.readRequest)
		if req == nil {
			continue
		}
		g := f.Graph()
		// validation success edges for prices / token
		var okPrices, okToken []*cfgx.Edge
		for _, call := range f.Calls(false) {
			if call.Fn == nil || call.Fn.Name() != "Validate" || len(call.Expr.Args) == 0 || !isHostPub(f, call.Expr.Args[0]) {
				continue
			}
			rcv := call.Recv()
			if rcv == nil {
				continue
			}
			chk := f.CheckOf(call.Expr)
			if f.ObjOf(rcv) == req {
				pr, tk := validatesField(c.P, call.Fn, pricesValidate, tokenValidate)
				if pr {
					okPrices = append(okPrices, chk.Succ...)
				}
				if tk {
					okToken = append(okToken, chk.Succ...)
				}
			} else if o := origin(f, rcv); isFieldOfObj(f, o, req, "Prices") && call.Fn == pricesValidate.Origin() {
				okPrices = append(okPrices, chk.Succ...)
			} else if isFieldOfObj(f, o, req, "Token") && call.Fn == tokenValidate.Origin() {
				okToken = append(okToken, chk.Succ...)
			}
		}
		for _, kind := range []struct {
			field string
			typ   *types.Named
			edges []*cfgx.Edge
		}{{"Prices", hostPrices, okPrices}, {"Token", accountToken, okToken}} {
			// does the request type have that field?
			st, ok := req.Type().Underlying().(*types.Struct)
			if !ok {
				continue
			}
			has := false
			for i := 0; i < st.NumFields(); i++ {
				if st.Field(i).Name() == kind.field && types.Identical(st.Field(i).Type(), kind.typ) {
					has = true
				}
			}
			if !has {
				continue
			}
			c.VisitGraph(f)
			ob := c.Ob(f, "validated-before-use:"+kind.field, f.Body.Pos())
			// uses: nodes mentioning req.<field>, except the validating calls' own nodes
			var firstBad *cfgx.Node
			uses := 0
			// local copies (`prices := req.Prices`) are aliases: defining one is not a use, using one is
			aliases := map[types.Object]bool{}
			aliasDef := map[*cfgx.Node]bool{}
			for _, w := range f.WritesIn(f.Body, false) {
				if w.RHS == nil || !isFieldOfObj(f, w.RHS, req, kind.field) {
					continue
				}
				if id, ok := ast.Unparen(w.LHS).(*ast.Ident); ok {
					if o := f.ObjOf(id); o != nil && len(wholeDefs(f, o)) == 1 {
						aliases[o] = true
						aliasDef[g.NodeContaining(w.LHS.Pos())] = true
					}
				}
			}
			for _, n := range g.Nodes {
				if n.AST == nil {
					continue
				}
				mention := false
				ir.Walk(n.AST, true, func(x ast.Node) {
					if e, ok := x.(ast.Expr); ok {
						if isFieldOfObj(f, e, req, kind.field) && !aliasDef[n] {
							mention = true
						}
						if id, ok := e.(*ast.Ident); ok && aliases[f.Info().Uses[id]] {
							mention = true
						}
					}
				})
				if !mention {
					continue
				}
				// a node that itself is the validating call (x.Validate) is fine
				isValidator := false
				for _, call := range f.NodeCalls(n) {
					if call.Fn != nil && call.Fn.Name() == "Validate" {
						isValidator = true
					}
				}
				if isValidator {
					continue
				}
				uses++
				if !f.OnlyVia(n, kind.edges) && firstBad == nil {
					firstBad = n
				}
			}
			if firstBad != nil {
				ob.Pos = c.P.Pos(firstBad.Pos())
				ob.Bad(nil, "the request's %s is used at %s on a path that has not passed a successful Validate with the host's public key: an expired, foreign or forged %s is honoured", kind.field, c.P.Pos(firstBad.Pos()), strings.ToLower(kind.field))
			} else if len(kind.edges) == 0 && uses > 0 {
				ob.Bad(nil, "the request's %s is used but never validated with the host's public key", kind.field)
			} else {
				ob.OK("%d use(s), all after validation", uses)
			}
		}
	}
}

// c08r8: ValidUntil is computed from the price-table validity setting.
func c08r8(c *Ctx) {
	srvT := c.P.Named("rhp", "Server")
	isSrvDuration := func(f *ir.Func, e ast.Expr) *types.Var {
		sel, ok := ast.Unparen(e).(*ast.SelectorExpr)
		if !ok {
			return nil
		}
		fld := f.FieldOf(sel)
		if fld == nil || !ir.IsNamed(fld.Type(), "time", "Duration") {
			return nil
		}
		if rt := f.TypeOf(sel.X); rt != nil {
			if pt, ok := rt.Underlying().(*types.Pointer); ok {
				rt = pt.Elem()
			}
			if types.Identical(rt, srvT) {
				return fld
			}
		}
		return nil
	}
	// settings that time streams
	deadline := map[*types.Var]bool{}
	for _, f := range c.P.PkgFuncs("rhp") {
		for _, fn := range append([]*ir.Func{f}, f.Lits...) {
			for _, call := range fn.Calls(false) {
				if call.Fn == nil || !strings.HasSuffix(call.Fn.Name(), "Deadline") {
					continue
				}
				for _, a := range call.Expr.Args {
					ir.Walk(a, false, func(x ast.Node) {
						if e, ok := x.(ast.Expr); ok {
							if fld := isSrvDuration(fn, e); fld != nil {
								deadline[fld] = true
							}
						}
					})
				}
			}
		}
	}
	n := 0
	for _, f := range c.P.MethodsOf("rhp", "Server") {
		for _, w := range f.WritesIn(f.Body, false) {
			sel, ok := ast.Unparen(w.LHS).(*ast.SelectorExpr)
			if !ok || sel.Sel.Name != "ValidUntil" || w.RHS == nil {
				continue
			}
			n++
			c.VisitGraph(f)
			ob := c.Ob(f, "price-table-expiry-from-validity-setting", w.LHS.Pos())
			var used []*types.Var
			ir.Walk(origin(f, w.RHS), false, func(x ast.Node) {
				if e, ok := x.(ast.Expr); ok {
					if fld := isSrvDuration(f, e); fld != nil {
						used = append(used, fld)
					}
				}
			})
			switch {
			case len(used) != 1:
				ob.Unknown("the expiry is not the current time plus one duration setting of the server")
			case deadline[used[0]]:
				ob.Bad(nil, "the price table's expiry is computed from Server.%s, the setting that bounds stream deadlines: the configured price-table validity is ignored, so a signed table is accepted for revising RPCs after the operator's validity period", used[0].Name())
			default:
				ob.OK("expiry = now + Server.%s", used[0].Name())
			}
		}
	}
	if n == 0 {
		ir.Fail("no write of Prices.ValidUntil found in the server")
	}
}

// copyRoot follows whole copies `x := y` (x defined exactly once, by the plain variable y of the same type) to the
// variable the value was first held in.
func copyRoot(f *ir.Func, obj types.Object) types.Object {
	for i := 0; i < 4 && obj != nil; i++ {
		ds := wholeDefs(f, obj)
		if len(ds) != 1 || ds[0].RHS == nil {
			break
		}
		if _, isID := ast.Unparen(ds[0].RHS).(*ast.Ident); !isID {
			break
		}
		src, ok := f.ObjOf(ds[0].RHS).(*types.Var)
		if !ok || src.IsField() || src == obj || !types.Identical(src.Type(), obj.Type()) {
			break
		}
		obj = src
	}
	return obj
}
