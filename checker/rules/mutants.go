package rules

// Hand-written single-instance mutants for the thorough tier's self-test: each
// is an exact source rewrite that breaks one rule's structural predicate while
// still type-checking. A mutant whose Old text no longer exists is reported as
// stale and skipped. The committed seeded changes under /verif/seeded are
// replayed in addition to these.
func init() {
	const mgr, db, srv, rpc, wal, syn, peer, psync, tg, seed, upd, evt = "chain/manager.go", "chain/db.go", "rhp/v4/server.go", "rhp/v4/rpc.go", "wallet/wallet.go", "syncer/syncer.go", "syncer/peer.go", "syncer/parallel_sync.go", "threadgroup/threadgroup.go", "wallet/seed.go", "wallet/update.go", "wallet/events.go"

	mutant(Mutant{Rule: "C01.R1", Name: "tipState-before-store-apply", File: mgr,
		Old: "\tm.store.ApplyBlock(cs, cau)\n\tm.applyPoolUpdate(cau, cs)\n\tm.tipState = cs\n",
		New: "\tm.tipState = cs\n\tm.store.ApplyBlock(cs, cau)\n\tm.applyPoolUpdate(cau, cs)\n"})
	mutant(Mutant{Rule: "C01.R6", Name: "BestIndex-unlocked", File: mgr,
		Old: "func (m *Manager) BestIndex(height uint64) (types.ChainIndex, bool) {\n\tm.mu.Lock()\n\tdefer m.mu.Unlock()\n",
		New: "func (m *Manager) BestIndex(height uint64) (types.ChainIndex, bool) {\n"})
	mutant(Mutant{Rule: "C01.R7", Name: "drop-ValidateOrphan", File: mgr,
		Old: "\t\t} else if err := consensus.ValidateOrphan(cs, b); err != nil {\n\t\t\treturn fmt.Errorf(\"block %v is invalid: %w\", types.ChainIndex{Height: cs.Index.Height + 1, ID: bid}, err)\n\t\t}\n",
		New: "\t\t}\n"})
	mutant(Mutant{Rule: "C02.R2", Name: "revert-gate-strict", File: db,
		Old: "func (db *DBStore) RevertBlock(s consensus.State, cru consensus.RevertUpdate) {\n\tif s.Index.Height <= db.n.HardforkV2.RequireHeight {",
		New: "func (db *DBStore) RevertBlock(s consensus.State, cru consensus.RevertUpdate) {\n\tif s.Index.Height < db.n.HardforkV2.RequireHeight {"})
	mutant(Mutant{Rule: "C02.R3", Name: "revert-tree-key-swapped", File: db,
		Old: "\tcru.ForEachTreeNode(func(row, col uint64, h types.Hash256) {\n\t\tdb.bucket(bTree).putRaw(db.treeKey(row, col), h[:])",
		New: "\tcru.ForEachTreeNode(func(row, col uint64, h types.Hash256) {\n\t\tdb.bucket(bTree).putRaw(db.treeKey(col, row), h[:])"})
	mutant(Mutant{Rule: "C03.R2", Name: "flush-inside-expiration-write", File: db,
		Old: "\tb := db.bucket(bFileContractElements)\n\tkey := db.encHeight(windowEnd)\n\t// When applying, we append",
		New: "\tb := db.bucket(bFileContractElements)\n\tdb.Flush()\n\tkey := db.encHeight(windowEnd)\n\t// When applying, we append"})
	mutant(Mutant{Rule: "C03.R5", Name: "reorg-without-flush", File: mgr,
		Old: "\tif err := m.store.Flush(); err != nil {\n\t\treturn err\n\t}\n\n\t// invalidate txpool caches",
		New: "\t// invalidate txpool caches"})
	mutant(Mutant{Rule: "C03.R6", Name: "reopen-ignores-height", File: db,
		Old: "\tindex, _ := dbs.BestIndex(dbs.getHeight())\n\tcs, _ := dbs.State(index.ID)\n\treturn dbs, cs, err",
		New: "\tindex, _ := dbs.BestIndex(0)\n\tcs, _ := dbs.State(index.ID)\n\treturn dbs, cs, err"})
	mutant(Mutant{Rule: "C04.R2", Name: "listeners-under-lock", File: mgr,
		Old: "\t\tm.mu.Unlock()\n\t\tfor _, fn := range fns {\n\t\t\tfn()\n\t\t}\n\t\tm.mu.Lock()\n\t}\n\treturn nil\n}\n\n// AddValidatedV2Blocks",
		New: "\t\tfor _, fn := range fns {\n\t\t\tfn()\n\t\t}\n\t}\n\treturn nil\n}\n\n// AddValidatedV2Blocks"})
	mutant(Mutant{Rule: "C04.R3", Name: "updates-bound-off-by-one", File: mgr,
		Old: "len(rus)+len(aus) < maxBlocks", New: "len(rus)+len(aus) <= maxBlocks"})
	mutant(Mutant{Rule: "C05.R2", Name: "midstate-kept-across-reorg", File: mgr,
		Old: "\t// invalidate txpool caches\n\tm.txpool.ms = nil\n\tm.txpool.medianFee = nil\n\tif len(revert) > 0",
		New: "\t// invalidate txpool caches\n\tm.txpool.medianFee = nil\n\tif len(revert) > 0"})
	mutant(Mutant{Rule: "C05.R4", Name: "revalidate-skips-v2-validation", File: mgr,
		Old: "\t\t} else if err := consensus.ValidateV2Transaction(m.txpool.ms, txn); err != nil {\n\t\t\tlog.Debug(\"dropping invalid pool v2 transaction\", zap.Stringer(\"id\", txn.ID()), zap.Error(err))\n\t\t\tcontinue\n\t\t}\n",
		New: "\t\t}\n"})
	mutant(Mutant{Rule: "C06.R2", Name: "inflow-misses-v2-resolution", File: evt,
		Old: "\tcase EventV2ContractResolution:\n\t\treturn e.Data.(EventV2ContractResolution).SiacoinElement.SiacoinOutput.Value\n",
		New: ""})
	mutant(Mutant{Rule: "C07.R1", Name: "release-unlocked", File: wal,
		Old: "func (sw *SingleAddressWallet) ReleaseInputs(txns []types.Transaction, v2txns []types.V2Transaction) {\n\tsw.mu.Lock()\n\tdefer sw.mu.Unlock()\n",
		New: "func (sw *SingleAddressWallet) ReleaseInputs(txns []types.Transaction, v2txns []types.V2Transaction) {\n"})
	mutant(Mutant{Rule: "C07.R2", Name: "error-after-reserve", File: wal,
		Old: "\tsw.lockUTXOs(toLock)\n\treturn tip, toSign, nil",
		New: "\tsw.lockUTXOs(toLock)\n\tif len(toSign) > 1000 {\n\t\treturn types.ChainIndex{}, nil, ErrNotEnoughFunds\n\t}\n\treturn tip, toSign, nil"})
	mutant(Mutant{Rule: "C07.R5", Name: "split-ignores-reservations", File: wal,
		Old: "\t\tif used := sw.isLocked(sce.ID) || tpoolSpent[sce.ID]; used {\n\t\t\tcontinue\n\t\t} else if tip.Height < sce.MaturityHeight {\n\t\t\tcontinue\n\t\t} else if sce.SiacoinOutput.Value.Cmp(minAmount) < 0 {",
		New: "\t\tif used := tpoolSpent[sce.ID]; used {\n\t\t\tcontinue\n\t\t} else if tip.Height < sce.MaturityHeight {\n\t\t\tcontinue\n\t\t} else if sce.SiacoinOutput.Value.Cmp(minAmount) < 0 {"})
	mutant(Mutant{Rule: "C08.R2", Name: "free-without-challenge", File: srv,
		Old: "\texisting := state.Revision\n\tif !req.ValidChallengeSignature(existing) {\n\t\treturn errorBadRequest(\"failed to validate challenge signature: %v\", rhp4.ErrInvalidSignature)\n\t}\n\n\tif err := req.Validate(s.hostKey.PublicKey(), existing); err != nil {",
		New: "\texisting := state.Revision\n\n\tif err := req.Validate(s.hostKey.PublicKey(), existing); err != nil {"})
	mutant(Mutant{Rule: "C08.R3", Name: "fund-revises-foreign-contract", File: srv,
		Old: "rhp4.ReviseForFundAccounts(state.Revision, totalDeposits)", New: "rhp4.ReviseForFundAccounts(types.V2FileContract{RenterPublicKey: state.Revision.RenterPublicKey}, totalDeposits)"})
	mutant(Mutant{Rule: "C08.R4", Name: "free-verifies-old-revision", File: srv,
		Old: "\tsigHash := cs.ContractSigHash(revision)\n\n\tif !existing.RenterPublicKey.VerifyHash(sigHash, renterSigResponse.RenterSignature) {\n\t\treturn rhp4.ErrInvalidSignature\n\t}\n\trevision.RenterSignature = renterSigResponse.RenterSignature",
		New: "\tsigHash := cs.ContractSigHash(existing)\n\n\tif !existing.RenterPublicKey.VerifyHash(sigHash, renterSigResponse.RenterSignature) {\n\t\treturn rhp4.ErrInvalidSignature\n\t}\n\trevision.RenterSignature = renterSigResponse.RenterSignature"})
	mutant(Mutant{Rule: "C08.R5", Name: "roots-host-signs-other-hash", File: srv,
		Old: "\trevision.HostSignature = s.hostKey.SignHash(sigHash)\n\trevision.RenterSignature = req.RenterSignature",
		New: "\trevision.HostSignature = s.hostKey.SignHash(types.Hash256{})\n\trevision.RenterSignature = req.RenterSignature"})
	mutant(Mutant{Rule: "C08.R6", Name: "write-skips-request-validation", File: srv,
		Old: "\t} else if err := req.Validate(s.hostKey.PublicKey()); err != nil {\n\t\treturn errorBadRequest(\"request invalid: %v\", err)\n\t}\n\tprices := req.Prices\n\n\tbuf := newSectorBuffer()",
		New: "\t}\n\tprices := req.Prices\n\n\tbuf := newSectorBuffer()"})
	mutant(Mutant{Rule: "C09.R3", Name: "roots-range-unvalidated", File: srv,
		Old: "req.Validate(s.hostKey.PublicKey(), state.Revision); err != nil {\n\t\treturn rhp4.NewRPCError(rhp4.ErrorCodeBadRequest, err.Error())\n\t}\n\tprices := req.Prices\n\n\t// update the revision",
		New: "req.Validate(s.hostKey.PublicKey(), types.V2FileContract{}); err != nil {\n\t\treturn rhp4.NewRPCError(rhp4.ErrorCodeBadRequest, err.Error())\n\t}\n\tprices := req.Prices\n\n\t// update the revision"})
	mutant(Mutant{Rule: "C09.R4", Name: "free-indices-not-compacted", File: rpc,
		Old: "\tindices = slices.Compact(indices)\n", New: ""})
	mutant(Mutant{Rule: "C11.R1", Name: "finisher-uses-allow-height", File: psync,
		Old: "\t\t\t\tif r.req.base.Height >= cs.Network.HardforkV2.RequireHeight {\n\t\t\t\t\terr = s.cm.AddValidatedV2Blocks",
		New: "\t\t\t\tif r.req.base.Height >= cs.Network.HardforkV2.AllowHeight {\n\t\t\t\t\terr = s.cm.AddValidatedV2Blocks"})
	mutant(Mutant{Rule: "C11.R3", Name: "header-relayed-without-work", File: peer,
		Old: "\t\t} else if bid.CmpWork(cs.PoWTarget()) < 0 {\n\t\t\treturn s.ban(origin, errors.New(\"peer sent v2 header with insufficient work\"))\n\t\t} else if r.Header.ParentID",
		New: "\t\t} else if cs.Index.Height == 0 {\n\t\t\treturn nil\n\t\t} else if r.Header.ParentID"})
	mutant(Mutant{Rule: "C11.R4", Name: "dispatcher-without-recover", File: peer,
		Old: "\tdefer func() {\n\t\tif err := recover(); err != nil {\n\t\t\ts.log.Error(\"panic in RPC handler\", zap.Stringer(\"id\", id), zap.Stringer(\"origin\", origin), zap.Any(\"error\", err), zap.Stack(\"stack\"))\n\t\t}\n\t}()\n",
		New: ""})
	mutant(Mutant{Rule: "C13.R1", Name: "rebase-without-element-validation", File: mgr,
		Old: "\tfor _, txn := range txns {\n\t\tif err := basisState.Elements.ValidateTransactionElements(txn); err != nil {\n\t\t\treturn nil, fmt.Errorf(\"transaction %v is invalid: %w\", txn.ID(), err)\n\t\t}\n\t}\n",
		New: "\t_ = basisState\n"})
	mutant(Mutant{Rule: "C13.R4", Name: "rebase-unbounded-path", File: mgr,
		Old: "m.reorgPath(from, to, 144)", New: "m.reorgPath(from, to, math.MaxInt)"})
	mutant(Mutant{Rule: "C14.R4", Name: "pool-retains-caller-slice", File: mgr,
		Old: "\t// take ownership of Merkle proofs, and update them to the current tip\n\ttxns = slices.Clone(txns)",
		New: "\tm.txpool.lastRevertedV2 = txns\n\ttxns = slices.Clone(txns)"})
	mutant(Mutant{Rule: "C15.R1", Name: "write-without-debit", File: srv,
		Old: "\tusage := prices.RPCWriteSectorCost(req.DataLength)\n\tif err := s.contractor.DebitAccount(req.Token.Account, usage); err != nil {\n\t\treturn fmt.Errorf(\"failed to debit account: %w\", err)\n\t}\n",
		New: "\tusage := prices.RPCWriteSectorCost(req.DataLength)\n\t_ = usage\n"})
	mutant(Mutant{Rule: "C15.R2", Name: "read-debits-missing-sector", File: srv,
		Old: "\tif exists, err := s.sectors.HasSector(req.Root); err != nil {\n\t\treturn fmt.Errorf(\"failed to check sector: %w\", err)\n\t} else if !exists {\n\t\treturn rhp4.ErrSectorNotFound\n\t}\n\tlap(\"check sector\")",
		New: "\tlap(\"check sector\")"})
	mutant(Mutant{Rule: "C15.R4", Name: "attach-without-signature-check", File: srv,
		Old: "\tfor i := range req.Attachments {\n\t\tif !req.Attachments[i].ValidSignature(hostKey) {\n\t\t\treturn rhp4.ErrInvalidSignature\n\t\t}\n\t}\n",
		New: "\t_ = hostKey\n"})
	mutant(Mutant{Rule: "C17.R3", Name: "cache-cancel-keeps-backend-writes", File: db,
		Old: "\tdb.mem.Cancel()\n\tdb.db.Cancel()\n", New: "\tdb.mem.Cancel()\n"})
	mutant(Mutant{Rule: "C18.R2", Name: "subnet-slot-never-released", File: syn,
		Old: "\t\t\tdefer func() { <-inflight }()\n\t\t\tdefer s.releaseInflight(subnet)\n",
		New: "\t\t\tdefer func() { <-inflight }()\n"})
	mutant(Mutant{Rule: "C18.R3", Name: "withPeers-done-dropped", File: syn,
		Old: "\t\t\t\terrCh <- err\n\t\t\t\treturn\n\t\t\t}\n\t\t\tdefer done()\n",
		New: "\t\t\t\terrCh <- err\n\t\t\t\treturn\n\t\t\t}\n\t\t\t_ = done\n"})
	mutant(Mutant{Rule: "C18.R4", Name: "stop-waits-under-mutex", File: tg,
		Old: "\ttg.mu.Unlock()\n\ttg.wg.Wait()\n", New: "\ttg.wg.Wait()\n\ttg.mu.Unlock()\n"})
	mutant(Mutant{Rule: "C18.R5", Name: "per-peer-slot-dropping", File: syn,
		Old: "\t\tcase inflight <- struct{}{}:\n\t\tcase <-s.tg.Done():\n\t\t\treturn\n\t\t}",
		New: "\t\tcase inflight <- struct{}{}:\n\t\tcase <-s.tg.Done():\n\t\t\treturn\n\t\tdefault:\n\t\t\tstream.Close()\n\t\t\tcontinue\n\t\t}"})
	mutant(Mutant{Rule: "C18.R8", Name: "syncer-mutex-reentered", File: syn,
		Old: "func (s *Syncer) alreadyConnected(id gateway.UniqueID) bool {\n\ts.mu.Lock()\n\tdefer s.mu.Unlock()\n\tfor _, p := range s.peers {",
		New: "func (s *Syncer) alreadyConnected(id gateway.UniqueID) bool {\n\ts.mu.Lock()\n\tdefer s.mu.Unlock()\n\tfor _, p := range s.Peers() {"})
	mutant(Mutant{Rule: "C19.R1", Name: "prune-keeps-body", File: db,
		Old: "\tif bh, _, _, ok := db.getBlock(id); ok {\n\t\tdb.putBlock(bh, nil, nil)",
		New: "\tif bh, b, _, ok := db.getBlock(id); ok {\n\t\tdb.putBlock(bh, b, nil)"})
	mutant(Mutant{Rule: "C20.R1", Name: "duplicate-word", File: seed,
		Old: "\t\"abandon\", \"ability\", \"able\",", New: "\t\"abandon\", \"abandon\", \"able\","})
	mutant(Mutant{Rule: "C20.R2", Name: "key-derivation-reads-randomness", File: seed,
		Old: "\tbinary.LittleEndian.PutUint64(buf[32:], index)\n", New: "\tbinary.LittleEndian.PutUint64(buf[32:], index)\n\tfrand.Read(buf[:0])\n"})
	mutant(Mutant{Rule: "C20.R5", Name: "encoder-word-mask-10-bits", File: seed,
		Old: "bip39EnglishWordList[lo&0x7FF]", New: "bip39EnglishWordList[lo&0x3FF]"})
}

func init() {
	mutant(Mutant{Rule: "C03.R1", Name: "manager-flushes-per-block", File: "chain/manager.go",
		Old: "\tm.store.ApplyBlock(cs, cau)\n\tm.applyPoolUpdate(cau, cs)\n",
		New: "\tm.store.ApplyBlock(cs, cau)\n\tm.store.Flush()\n\tm.applyPoolUpdate(cau, cs)\n"})
}

func init() {
	mutant(Mutant{Rule: "C01.R8", Name: "apply-non-attaching-block", File: "chain/manager.go",
		Old: "\t} else if b.ParentID != m.tipState.Index.ID {\n\t\tpanic(\"applyTip called with non-attaching block\")\n\t} else if bs == nil {",
		New: "\t} else if bs == nil {"})
	mutant(Mutant{Rule: "C07.R8", Name: "unconfirmed-spent-kept", File: "wallet/wallet.go", Nth: 1,
		Old: "\t\t\ttpoolSpent[sci.Parent.ID] = true\n\t\t\tdelete(tpoolUtxos, sci.Parent.ID)\n",
		New: "\t\t\ttpoolSpent[sci.Parent.ID] = true\n"})
}

func init() {
	const syn, peer = "syncer/syncer.go", "syncer/peer.go"
	mutant(Mutant{Rule: "C12.R1", Name: "resync-does-nothing", File: syn,
		Old: "\tif p.Synced() {\n\t\tp.setSynced(false)\n\t\ts.log.Debug(\"resync triggered\"",
		New: "\tif p.Synced() {\n\t\ts.log.Debug(\"resync triggered\""})
	mutant(Mutant{Rule: "C12.R1", Name: "detached-header-ignored", File: peer,
		Old: "\t\t\ts.resync(origin, \"peer relayed a v2 header that does not attach to our tip\")\n\t\t\treturn nil",
		New: "\t\t\treturn nil"})
	mutant(Mutant{Rule: "C12.R1", Name: "unknown-parent-outline-ignored", File: peer,
		Old: "\t\t\ts.resync(origin, fmt.Sprintf(\"peer relayed a v2 outline with unknown parent (%v)\", r.Block.ParentID))\n\t\t\treturn nil",
		New: "\t\t\treturn nil"})
	mutant(Mutant{Rule: "C12.R2", Name: "synced-with-headers-remaining", File: syn,
		Old: "\t\t\t\t} else if r.remaining == 0 {\n\t\t\t\t\t// peer sent all their headers",
		New: "\t\t\t\t} else {\n\t\t\t\t\t// peer sent all their headers"})
	mutant(Mutant{Rule: "C12.R2", Name: "synced-after-failed-fetch", File: syn,
		Old: "\t\t\t\t\ts.log.Debug(\"sync failed\", zap.Stringer(\"peer\", r.peer), zap.Error(err))\n",
		New: "\t\t\t\t\ts.log.Debug(\"sync failed\", zap.Stringer(\"peer\", r.peer), zap.Error(err))\n\t\t\t\t\tif r.remaining == 0 {\n\t\t\t\t\t\tr.peer.setSynced(true)\n\t\t\t\t\t}\n"})
	mutant(Mutant{Rule: "C12.R3", Name: "only-outbound-peers-asked", File: syn,
		Old: "\t\t\tif p.Err() == nil && !p.Synced() {\n\t\t\t\tpeers = append(peers, p)",
		New: "\t\t\tif p.Err() == nil && !p.Synced() && !p.Inbound {\n\t\t\t\tpeers = append(peers, p)"})
	mutant(Mutant{Rule: "C12.R4", Name: "ancestor-search-gives-up", File: syn,
		Old: "\t\t\t\t\t\t\tcontinue // probably \"index is not on our best chain\"\n",
		New: "\t\t\t\t\t\t\treturn consensus.State{}, nil, 0, err\n"})
	mutant(Mutant{Rule: "C12.R5", Name: "completed-sync-not-announced", File: syn,
		Old: "\t\t\t\t\tr.peer.setSynced(true)\n\t\t\t\t\tgo s.relayV2Header(r.headers[len(r.headers)-1], r.peer)\n",
		New: "\t\t\t\t\tr.peer.setSynced(true)\n"})
	mutant(Mutant{Rule: "C12.R5", Name: "added-outline-not-relayed", File: peer,
		Old: "\t\tr.Block.RemoveTransactions(txns, v2txns)\n\t\tgo s.relayV2BlockOutline(r.Block, origin) // non-blocking\n",
		New: "\t\tr.Block.RemoveTransactions(txns, v2txns)\n"})
	mutant(Mutant{Rule: "C12.R5", Name: "header-relay-only-when-synced", File: peer,
		Old: "\t\tgo s.relayV2Header(r.Header, origin) // non-blocking\n",
		New: "\t\tif origin.Synced() {\n\t\t\tgo s.relayV2Header(r.Header, origin) // non-blocking\n\t\t}\n"})
}

func init() {
	mutant(Mutant{Rule: "C12.R6", Name: "failed-txn-fetch-returns-error", File: "syncer/peer.go",
		Old: "\t\t\t\ts.resync(origin, fmt.Sprintf(\"failed to retrieve missing v2 transactions for block %v from peer %v: %v\", bid, origin, err))\n\t\t\t\treturn nil",
		New: "\t\t\t\treturn fmt.Errorf(\"failed to retrieve missing v2 transactions for block %v from peer %v: %w\", bid, origin, err)"})
}

func init() {
	const host, wstore, mgr, srv, evt, psync, db = "testutil/host.go", "testutil/wallet.go", "chain/manager.go", "rhp/v4/server.go", "wallet/events.go", "syncer/parallel_sync.go", "chain/db.go"
	mutant(Mutant{Rule: "C08.R9", Name: "revisable-at-proof-height", File: host,
		Old: "Revisable: !renewed && ec.tip.Height < rev.ProofHeight,", New: "Revisable: !renewed && ec.tip.Height <= rev.ProofHeight,"})
	mutant(Mutant{Rule: "C09.R7", Name: "empty-roots-not-stored", File: host,
		Old: "\tec.roots[contractID] = append([]types.Hash256(nil), roots...)\n",
		New: "\tif len(roots) > 0 {\n\t\tec.roots[contractID] = append([]types.Hash256(nil), roots...)\n\t}\n"})
	mutant(Mutant{Rule: "C09.R8", Name: "lock-helper-defers-unlock", File: srv,
		Old: "\t} else if !rs.Revisable {\n\t\tunlock()\n\t\treturn RevisionState{}, nil, errorBadRequest(\"contract is not revisable\")\n\t}\n\treturn rs, unlock, nil",
		New: "\t}\n\tdefer unlock()\n\tif !rs.Revisable {\n\t\treturn RevisionState{}, nil, errorBadRequest(\"contract is not revisable\")\n\t}\n\treturn rs, unlock, nil"})
	mutant(Mutant{Rule: "C06.R10", Name: "proof-update-not-stored-back", File: wstore,
		Old: "\t\tpu.UpdateElementProof(&se.StateElement)\n\t\tet.store.utxos[se.ID] = se.Move()\n",
		New: "\t\tn := len(se.StateElement.MerkleProof)\n\t\tpu.UpdateElementProof(&se.StateElement)\n\t\tif len(se.StateElement.MerkleProof) > n {\n\t\t\tet.store.utxos[se.ID] = se.Move()\n\t\t}\n"})
	mutant(Mutant{Rule: "C06.R9", Name: "v2-outflow-counts-everyone", File: evt,
		Old: "\t\t\tif !relevant[se.Parent.SiacoinOutput.Address] {\n\t\t\t\tcontinue\n\t\t\t}\n\t\t\tinflow = inflow.Add(se.Parent.SiacoinOutput.Value)",
		New: "\t\t\tinflow = inflow.Add(se.Parent.SiacoinOutput.Value)"})
	mutant(Mutant{Rule: "C13.R14", Name: "reorg-path-steps-before-recording", File: mgr,
		Old: "\t\trevert = append(revert, a)\n\t\tif !rewind(&a) {\n\t\t\treturn\n\t\t}\n",
		New: "\t\tif !rewind(&a) {\n\t\t\treturn\n\t\t}\n\t\trevert = append(revert, a)\n"})
	mutant(Mutant{Rule: "C04.R9", Name: "walker-shortcut-on-best-chain", File: mgr,
		Old: "func (m *Manager) reorgTo(index types.ChainIndex) error {\n",
		New: "func (m *Manager) reorgTo(index types.ChainIndex) error {\n\tif best, ok := m.store.BestIndex(index.Height); ok && best == index {\n\t\treturn nil\n\t}\n"})
	mutant(Mutant{Rule: "C12.R8", Name: "checkpoint-blocks-checked-against-base", File: psync,
		Old: "blocks[len(blocks)-1].ID() != req.tip.ID", New: "blocks[0].ParentID != req.base.ID"})
	mutant(Mutant{Rule: "C12.R7", Name: "worker-regime-by-request-tip", File: psync,
		Old: "\t\tif req.base.Height >= cs.Network.HardforkV2.RequireHeight {\n\t\t\tcs, b, err := p.SendCheckpoint",
		New: "\t\tif req.tip.Height >= cs.Network.HardforkV2.RequireHeight {\n\t\t\tcs, b, err := p.SendCheckpoint"})
}
