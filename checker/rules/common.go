package rules

import (
	"go/ast"
	"go/token"
	"go/types"

	"sialint/internal/cfgx"
	"sialint/internal/ir"
)

// writesField reports whether node n (not its nested literals) assigns to,
// increments, or appends into field fld (as x.fld = …, x.fld[i] = …, x.fld += …).
func writesField(f *ir.Func, n *cfgx.Node, fld *types.Var) (ast.Expr, bool) {
	if n == nil || n.AST == nil {
		return nil, false
	}
	for _, w := range f.WritesIn(n.AST, false) {
		if lhsField(f, w.LHS) == fld {
			return w.LHS, true
		}
	}
	// delete(x.fld, k) mutates the map as well
	for _, c := range f.CallsIn(n.AST, false) {
		if id, ok := c.Expr.Fun.(*ast.Ident); ok && len(c.Expr.Args) > 0 {
			if b, ok := f.Info().Uses[id].(*types.Builtin); ok && (b.Name() == "delete" || b.Name() == "clear") {
				if lhsField(f, c.Expr.Args[0]) == fld {
					return c.Expr.Args[0], true
				}
			}
		}
	}
	return nil, false
}

// lhsField returns the innermost field selected by an lvalue, looking through
// index and slice expressions: x.f, x.f[i], x.f[i:j] → f.
func lhsField(f *ir.Func, e ast.Expr) *types.Var {
	for {
		switch x := ast.Unparen(e).(type) {
		case *ast.IndexExpr:
			e = x.X
		case *ast.SliceExpr:
			e = x.X
		case *ast.StarExpr:
			e = x.X
		case *ast.SelectorExpr:
			return f.FieldOf(x)
		default:
			return nil
		}
	}
}

// lhsFieldA is lhsField that also sees through a local variable bound once to
// a field path (`m := db.mem.puts`, as a helper's parameter binding is): maps,
// slices and pointers copied that way still denote the field's storage.
func lhsFieldA(f *ir.Func, e ast.Expr) *types.Var {
	if v := lhsField(f, e); v != nil {
		return v
	}
	for {
		switch x := ast.Unparen(e).(type) {
		case *ast.IndexExpr:
			e = x.X
			continue
		case *ast.SliceExpr:
			e = x.X
			continue
		case *ast.StarExpr:
			e = x.X
			continue
		case *ast.Ident:
			switch f.TypeOf(x).Underlying().(type) {
			case *types.Map, *types.Slice, *types.Pointer:
				if o := origin(f, x); o != ast.Expr(x) {
					if v := lhsField(f, o); v != nil {
						return v
					}
					return lhsFieldAt(f, o, 3)
				}
				// a helper's result: one definition that matters, next to nil on the helper's failure path
				return lhsFieldAt(f, x, 3)
			}
		}
		return nil
	}
}

// lhsFieldAt follows a map / slice / pointer local through its definitions other than nil (a declaration, the nil
// a helper yields on failure) when there is exactly one, at most depth times.
func lhsFieldAt(f *ir.Func, e ast.Expr, depth int) *types.Var {
	if depth == 0 {
		return nil
	}
	if v := lhsField(f, e); v != nil {
		return v
	}
	for {
		switch x := ast.Unparen(e).(type) {
		case *ast.IndexExpr:
			e = x.X
			continue
		case *ast.SliceExpr:
			e = x.X
			continue
		case *ast.StarExpr:
			e = x.X
			continue
		case *ast.Ident:
			obj := f.ObjOf(x)
			if v, ok := obj.(*types.Var); !ok || v.IsField() {
				return nil
			}
			var rhs ast.Expr
			n := 0
			for _, d := range wholeDefs(f, obj) {
				if d.RHS == nil || f.IsNil(d.RHS) {
					continue
				}
				rhs = d.RHS
				n++
			}
			if n != 1 {
				return nil
			}
			return lhsFieldAt(f, rhs, depth-1)
		}
		return nil
	}
}

// isFieldExpr reports whether e is exactly a selection of fld (x.fld).
func isFieldExpr(f *ir.Func, e ast.Expr, fld *types.Var) bool {
	return fld != nil && f.FieldOf(ast.Unparen(e)) == fld
}

// isNilAssign reports whether node n contains `x.fld = nil`.
func isNilAssign(f *ir.Func, n *cfgx.Node, fld *types.Var) bool {
	if n == nil || n.AST == nil {
		return false
	}
	for _, w := range f.WritesIn(n.AST, false) {
		if f.FieldOf(w.LHS) == fld && w.RHS != nil && f.IsNil(w.RHS) {
			return true
		}
	}
	return false
}

// errorish reports whether a return kind can carry a non-nil error.
func errorish(k ir.RetKind) bool { return k == ir.RetError || k == ir.RetMaybe }

// errorishKinds: a set of return kinds (as produced by ReturnKindsFrom) holding an error-capable one.
func errorishKinds(set uint) bool {
	return set&(1<<uint(ir.RetError)|1<<uint(ir.RetMaybe)) != 0
}

// lenOf matches len(x) and returns x.
func lenOf(f *ir.Func, e ast.Expr) ast.Expr {
	c, ok := ast.Unparen(e).(*ast.CallExpr)
	if !ok || len(c.Args) != 1 {
		return nil
	}
	id, ok := c.Fun.(*ast.Ident)
	if !ok {
		return nil
	}
	if b, ok := f.Info().Uses[id].(*types.Builtin); !ok || b.Name() != "len" {
		return nil
	}
	return c.Args[0]
}

// cmpFact describes what a leaf comparison `a op b` establishes on an edge.
// less(a,b) reports whether on edge e it is known that a < b, where the
// caller supplies matchers for a and b.
func edgeEstablishesLess(e *cfgx.Edge, isA, isB func(ast.Expr) bool) bool {
	if e.Cond == nil || (e.Kind != cfgx.True && e.Kind != cfgx.False) {
		return false
	}
	be, ok := ast.Unparen(e.Cond).(*ast.BinaryExpr)
	if !ok {
		return false
	}
	onTrue := e.Kind == cfgx.True
	switch {
	case isA(be.X) && isB(be.Y):
		// a < b true-edge, a >= b false-edge
		return (be.Op == token.LSS && onTrue) || (be.Op == token.GEQ && !onTrue)
	case isB(be.X) && isA(be.Y):
		// b > a true-edge, b <= a false-edge
		return (be.Op == token.GTR && onTrue) || (be.Op == token.LEQ && !onTrue)
	}
	return false
}

// edgeEstablishesEq reports whether on edge e it is known that a == b.
func edgeEstablishesEq(e *cfgx.Edge, isA, isB func(ast.Expr) bool) bool {
	if e.Cond == nil || (e.Kind != cfgx.True && e.Kind != cfgx.False) {
		return false
	}
	be, ok := ast.Unparen(e.Cond).(*ast.BinaryExpr)
	if !ok {
		return false
	}
	if !((isA(be.X) && isB(be.Y)) || (isB(be.X) && isA(be.Y))) {
		return false
	}
	onTrue := e.Kind == cfgx.True
	return (be.Op == token.EQL && onTrue) || (be.Op == token.NEQ && !onTrue)
}

// dominatingEdges returns, for node n, whether every entry→n path crosses an
// edge satisfying pred.
func dominatedByEdgeWhere(f *ir.Func, n *cfgx.Node, pred func(*cfgx.Edge) bool) bool {
	var edges []*cfgx.Edge
	for _, m := range f.Graph().Nodes {
		for _, e := range m.Succs {
			if pred(e) {
				edges = append(edges, e)
			}
		}
	}
	return f.OnlyVia(n, edges)
}

// sameObjExpr returns a matcher for identifiers denoting obj.
func sameObjExpr(f *ir.Func, obj types.Object) func(ast.Expr) bool {
	return func(e ast.Expr) bool { return obj != nil && f.ObjOf(ast.Unparen(e)) == obj }
}

// callName renders a callee for reports.
func callName(fn *types.Func) string {
	if fn == nil {
		return "<dynamic>"
	}
	return fn.FullName()
}

// recvNamed returns the receiver's named type of a method (through pointer), or nil.
func recvNamed(fn *types.Func) *types.Named {
	if fn == nil {
		return nil
	}
	r := fn.Type().(*types.Signature).Recv()
	if r == nil {
		return nil
	}
	return ir.NamedOf(r.Type())
}

// exported reports whether f is an exported method/function declaration.
func exported(f *ir.Func) bool { return f.Obj != nil && f.Obj.Exported() }
