package rules

import (
	"go/ast"
	"go/token"
	"go/types"
	"os"
	"strings"

	"sialint/internal/cfgx"
	"sialint/internal/ir"
)

func init() {
	Explanations["C15"] = "Decides structural necessary conditions of 'accounts are a conserved ledger and service is paid before delivery' in the rhp.Server handlers: (R1) every Sectors.ReadSector/StoreSector call lies on the success edge of Contractor.DebitAccount for the request token's account and a cost computed by the request's (validated, see C08.R6) price table; (R2) where a handler checks existence (read, verify) the debit follows the positive existence test; (R3) the amount from which the fund/replenish revision is built is an Add-fold over exactly the deposit list handed to the atomic Credit*WithContract sink (same slice, or the element appended to it in the same loop iteration), and fund/replenish use only those atomic sinks; (R4) AttachPools/DetachPools are reached only through the natural exit of a loop that calls ValidSignature(host key) on every element of the very slice handed to the sink; (R5) a handler that derives deposits from a balance snapshot writes a non-zero amount only on the negative edge of a membership test in a map keyed by the account, and records the key on every iteration (top-up once per distinct key); (R6) in the reference Contractor (package testutil) and the server, a scan-then-append insertion into a keyed list compares the list's elements with the very value it appends (pool attachment is idempotent, so a pool is never drawable twice). (R7) the keyed list the scan-then-append idiom inserts into (attached pools, drained in attachment order) is never overwritten in place nor handed to a sorting, reversing or shuffling routine. NOT decided: non-negativity and pool drain order inside the Contractor implementation, exact prices."

	register(&Rule{ID: "C15.R1", Prop: "C15", Floor: 3, Doc: "service (sector read/store) only on the success edge of the debit for the token's account at the priced cost", Run: c15r1})
	register(&Rule{ID: "C15.R2", Prop: "C15", Floor: 2, Doc: "existence check precedes the debit", Run: c15r2})
	register(&Rule{ID: "C15.R3", Prop: "C15", Floor: 3, Doc: "credited deposits and revision amount are the same fold; only atomic credit sinks are used", Run: c15r3})
	register(&Rule{ID: "C15.R4", Prop: "C15", Floor: 2, Doc: "pool attach/detach only after every entry's signature was verified against the host key", Run: c15r4})
	register(&Rule{ID: "C15.R6", Prop: "C15", Floor: 1, Doc: "idempotent attachment: the membership scan compares with the value that is inserted", Run: c15r6})
	register(&Rule{ID: "C15.R7", Prop: "C15", Floor: 1, Doc: "the attached-pool list keeps attachment order: no element overwritten in place, never sorted/reversed/shuffled", Run: c15r7})
	register(&Rule{ID: "C15.R5", Prop: "C15", Floor: 1, Doc: "replenish tops up each distinct key once", Run: c15r5})
}

func c15r1(c *Ctx) {
	h := getHostAPI(c.P)
	read := c.P.Method("rhp", "Sectors", "ReadSector")
	store := c.P.Method("rhp", "Sectors", "StoreSector")
	for _, f := range h.handlers {
		services := f.CallsTo(false, read, store)
		if len(services) == 0 {
			continue
		}
		req, _ := reqVar(f, h.readRequest)
		g := f.Graph()
		c.VisitGraph(f)
		for _, svc := range services {
			ob := c.Ob(f, "debit-before:"+svc.Fn.Name(), svc.Pos())
			sn := g.NodeContaining(svc.Pos())
			var edges []*cfgx.Edge
			why := "no DebitAccount call in the handler"
			for _, d := range f.CallsTo(false, h.debit) {
				if len(d.Expr.Args) != 2 {
					continue
				}
				// account: <req.Token>.Account
				acct := ast.Unparen(d.Expr.Args[0])
				sel, ok := acct.(*ast.SelectorExpr)
				if !ok || sel.Sel.Name != "Account" || !isFieldOfObj(f, origin(f, sel.X), req, "Token") {
					why = "the debited account is not the request token's account"
					continue
				}
				// cost: <req.Prices>.RPC…Cost(...)
				cost, ok := origin(f, d.Expr.Args[1]).(*ast.CallExpr)
				if !ok {
					why = "the debited amount is not a cost computed from the request's price table"
					continue
				}
				// (the price method may arrive as a method value bound to a helper's parameter: `cost()` with
				// cost = req.Prices.RPCVerifySectorCost)
				csel, ok := ast.Unparen(origin(f, cost.Fun)).(*ast.SelectorExpr)
				if !ok || !strings.HasSuffix(csel.Sel.Name, "Cost") || !isFieldOfObj(f, origin(f, csel.X), req, "Prices") {
					why = "the debited amount is not a cost computed from the request's price table"
					continue
				}
				edges = append(edges, f.CheckOf(d.Expr).Succ...)
			}
			if f.OnlyVia(sn, edges) {
				ob.OK("on the success edge of DebitAccount")
			} else {
				ob.Bad(nil, "%s at %s is reachable without a successful DebitAccount for the token's account at the priced cost (%s): data is delivered or stored unpaid", svc.Fn.Name(), c.P.Pos(svc.Pos()), why)
			}
		}
	}
}

func c15r2(c *Ctx) {
	h := getHostAPI(c.P)
	has := c.P.Method("rhp", "Sectors", "HasSector")
	for _, f := range h.handlers {
		debits := f.CallsTo(false, h.debit)
		hs := f.CallsTo(false, has)
		// handlers that serve stored sector data (they call Sectors.ReadSector) must look the sector up first
		serves := c.P.HasMethod("rhp", "Sectors", "ReadSector") && len(f.CallsTo(false, c.P.Method("rhp", "Sectors", "ReadSector"))) > 0
		if len(debits) == 0 || (len(hs) == 0 && !serves) {
			continue
		}
		g := f.Graph()
		c.VisitGraph(f)
		var edges []*cfgx.Edge
		for _, call := range hs {
			n := g.NodeContaining(call.Pos())
			as, ok := n.AST.(*ast.AssignStmt)
			if !ok || len(as.Lhs) != 2 {
				continue
			}
			exists := f.ObjOf(as.Lhs[0])
			for _, m := range g.Nodes {
				if m.Block != nil && m.Block.Cond == m.AST && len(m.Succs) == 2 && f.ObjOf(m.AST.(ast.Expr)) == exists && exists != nil {
					edges = append(edges, m.Succs[0])
				}
			}
		}
		for _, d := range debits {
			ob := c.Ob(f, "exists-before-debit", d.Pos())
			ob.Check(f.OnlyVia(g.NodeContaining(d.Pos()), edges), nil, "the account is debited at %s on a path where the sector was not found (or not looked up): the renter pays for a sector that cannot be served", c.P.Pos(d.Pos()))
		}
	}
}

func c15r3(c *Ctx) {
	h := getHostAPI(c.P)
	for _, f := range h.handlers {
		sinks := f.CallsTo(false, h.creditAcc, h.creditPools)
		if len(sinks) == 0 {
			continue
		}
		g := f.Graph()
		c.VisitGraph(f)
		for _, sink := range sinks {
			ob := c.Ob(f, "credit-equals-revision-amount:"+sink.Fn.Name(), sink.Pos())
			// the list handed to the sink, looked through a final whole copy out of a helper's result
			deposits := lvalueCopySource(f, sink.Expr.Args[0])
			rev := f.ObjOf(sink.Expr.Args[2])
			k, _ := tupleDef(f, rev)
			if rev == nil || k == nil || !isCoreConstructor(f.Callee(k)) || len(k.Args) < 2 {
				if os.Getenv("SIALINT_DEBUGTUPLE") != "" {
					println("c15r3", rev != nil, k != nil, len(wholeDefs(f, rev)))
					for _, d := range wholeDefs(f, rev) {
						println("   def", c.P.Pos(d.LHS.Pos()), d.RHS != nil)
					}
				}
				ob.Bad(nil, "the revision credited with is not built by a core ReviseForFundAccounts/ReviseForReplenish call")
				continue
			}
			// alternative: the amount is <resp>.TotalCost()-style — a method of the value whose list is handed to the
			// sink that folds exactly that list's amounts (summary recomputed from the method's source)
			if sumByMethod(c, f, k.Args[len(k.Args)-1], deposits, sink) {
				ob.OK("the amount is the method-computed sum of the list handed to the sink")
				continue
			}
			sum := copySource(f, f.ObjOf(k.Args[len(k.Args)-1]))
			if sum == nil {
				ob.Bad(nil, "the amount given to %s is not a local accumulator", f.Callee(k).Name())
				continue
			}
			// all non-declaration definitions of sum are `sum = sum.Add(E.Amount)`
			var addNodes []*cfgx.Node
			var elems []types.Object
			amountVar := map[types.Object]bool{}
			good := true
			for _, d := range wholeDefs(f, sum) {
				if vs, ok := d.Stmt.(*ast.ValueSpec); ok && len(vs.Values) == 0 {
					continue
				}
				call, ok := ast.Unparen(d.RHS).(*ast.CallExpr)
				if d.RHS == nil || !ok || len(call.Args) != 1 {
					good = false
					continue
				}
				sel, ok := call.Fun.(*ast.SelectorExpr)
				if !ok || sel.Sel.Name != "Add" || f.ObjOf(sel.X) != sum {
					good = false
					continue
				}
				amt, ok := ast.Unparen(call.Args[0]).(*ast.SelectorExpr)
				if !ok || amt.Sel.Name != "Amount" || f.ObjOf(amt.X) == nil {
					// the amount kept in a local of its own that also fills the deposit's Amount (`Deposit{…, Amount: a}`)
					if a, isVar := f.ObjOf(call.Args[0]).(*types.Var); isVar && !a.IsField() {
						elems = append(elems, a)
						addNodes = append(addNodes, g.NodeContaining(d.LHS.Pos()))
						amountVar[a] = true
						continue
					}
					good = false
					continue
				}
				elems = append(elems, f.ObjOf(amt.X))
				addNodes = append(addNodes, g.NodeContaining(d.LHS.Pos()))
			}
			if !good || len(addNodes) != 1 {
				ob.Bad(nil, "the amount given to %s is not a single Add-fold over deposit amounts", f.Callee(k).Name())
				continue
			}
			elem, addNode := elems[0], addNodes[0]
			// case A: elem is the range value over the very slice handed to the sink
			okFold := false
			var loop *ast.RangeStmt
			for _, n := range g.Nodes {
				if rs, ok := n.AST.(*ast.RangeStmt); ok && containsNode(rs.Body, addNode.AST) {
					if loop == nil || containsNode(loop.Body, rs) {
						loop = rs
					}
				}
			}
			if loop == nil {
				ob.Bad(nil, "the deposit amounts are not summed inside a loop")
				continue
			}
			if loop.Value != nil && f.ObjOf(loop.Value) == elem && sameLvalue(f, loop.X, deposits) {
				// … and every iteration adds its amount: an element that is skipped (de-duplicated, filtered) is
				// still in the list handed to the sink, and is credited without having been paid for
				head := g.NodeOf(loop)
				var body *cfgx.Edge
				for _, e := range head.Succs {
					if e.Kind == cfgx.Br0 {
						body = e
					}
				}
				okFold = !reachAvoidingNode(g, body, head, addNode)
				if !okFold {
					ob.Bad(nil, "the loop at %s sums the amounts of the list handed to %s but can skip an element (a filtered or repeated entry is still credited by the sink): the accounts receive more than the contract pays", c.P.Pos(loop.Pos()), sink.Fn.Name())
					continue
				}
			}
			// case B: elem is appended to the slice handed to the sink in the same iteration, unconditionally
			if !okFold {
				var appendNode *cfgx.Node
				appends := 0
				for _, n := range g.Nodes {
					if n.AST == nil {
						continue
					}
					for _, w := range f.WritesIn(n.AST, false) {
						if !sameLvalue(f, w.LHS, deposits) || w.RHS == nil {
							continue
						}
						appends++
						if ac, ok := ast.Unparen(w.RHS).(*ast.CallExpr); ok && len(ac.Args) == 2 && sameLvalue(f, ac.Args[0], deposits) && (f.ObjOf(ac.Args[1]) == elem || (amountVar[elem] && literalAmountIs(f, ac.Args[1], elem))) {
							if id, ok := ac.Fun.(*ast.Ident); ok && id.Name == "append" && containsNode(loop.Body, n.AST) {
								appendNode = n
							}
						}
					}
				}
				if appendNode != nil && appends == 1 {
					head := g.NodeOf(loop)
					var body *cfgx.Edge
					for _, e := range head.Succs {
						if e.Kind == cfgx.Br0 {
							body = e
						}
					}
					// neither the add nor the append can be skipped within an iteration, and elem is not modified between them
					skipAdd := reachAvoidingNode(g, body, head, addNode)
					skipApp := reachAvoidingNode(g, body, head, appendNode)
					modified := false
					// (in either order, within one iteration)
					between := pathNodesBetweenAvoiding(g, addNode, appendNode, head)
					for n := range pathNodesBetweenAvoiding(g, appendNode, addNode, head) {
						between[n] = true
					}
					for n := range between {
						if n.AST != nil {
							for _, w := range f.WritesIn(n.AST, false) {
								if f.ObjOf(rootOfLvalue(w.LHS)) == elem {
									modified = true
								}
							}
						}
					}
					okFold = !skipAdd && !skipApp && !modified
				}
			}
			ob.Check(okFold, nil, "the revision amount is not the sum of exactly the deposits handed to %s: the contract moves a different total than the accounts are credited with", sink.Fn.Name())
		}
	}
	// only atomic sinks: fund/replenish handlers never call ReviseV2Contract
}

// reachAvoidingNode reports whether target is reachable from edge start without entering node avoid.
func reachAvoidingNode(g *cfgx.Graph, start *cfgx.Edge, target, avoid *cfgx.Node) bool {
	if start == nil {
		return true
	}
	r := g.Reach([]*cfgx.Visit{cfgx.StartAfter(start, 0)}, func(n *cfgx.Node) bool { return n == avoid })
	_, ok := r[target]
	return ok
}

func c15r4(c *Ctx) {
	h := getHostAPI(c.P)
	for _, f := range h.handlers {
		for _, sink := range f.CallsTo(false, h.attach, h.detach) {
			g := f.Graph()
			c.VisitGraph(f)
			ob := c.Ob(f, "signatures-verified-before:"+sink.Fn.Name(), sink.Pos())
			sn := g.NodeContaining(sink.Pos())
			list := sink.Expr.Args[0]
			var exits []*cfgx.Edge
			for _, n := range g.Nodes {
				rs, ok := n.AST.(*ast.RangeStmt)
				if !ok || !sameLvalue(f, rs.X, list) {
					continue
				}
				var body, exit *cfgx.Edge
				for _, e := range n.Succs {
					switch e.Kind {
					case cfgx.Br0:
						body = e
					case cfgx.Br1:
						exit = e
					}
				}
				// a ValidSignature(hostKey) test on the element inside the body whose passing edge is the only way to the next iteration
				for _, call := range f.CallsIn(rs.Body, false) {
					if call.Fn == nil || call.Fn.Name() != "ValidSignature" || len(call.Expr.Args) != 1 {
						continue
					}
					hk, ok := origin(f, call.Expr.Args[0]).(*ast.CallExpr)
					if !ok {
						continue
					}
					if sel, ok := hk.Fun.(*ast.SelectorExpr); !ok || sel.Sel.Name != "PublicKey" || f.FieldOf(sel.X) != h.hostKey {
						continue
					}
					// receiver must be an element of the list: list[i] with i the range key, or the range value
					rcv := ast.Unparen(call.Recv())
					// (through an address-of and a conversion to a constrained pointer type: `P(&list[i]).ValidSignature`)
					for k := 0; k < 4; k++ {
						switch t := rcv.(type) {
						case *ast.CallExpr:
							if tv, ok := f.Info().Types[t.Fun]; ok && tv.IsType() && len(t.Args) == 1 {
								rcv = ast.Unparen(t.Args[0])
								continue
							}
						case *ast.UnaryExpr:
							if t.Op == token.AND {
								rcv = ast.Unparen(t.X)
								continue
							}
						case *ast.StarExpr:
							rcv = ast.Unparen(t.X)
							continue
						}
						break
					}
					isElem := false
					if ix, ok := rcv.(*ast.IndexExpr); ok && sameLvalue(f, ix.X, list) && rs.Key != nil && f.ObjOf(ix.Index) == f.ObjOf(rs.Key) {
						isElem = true
					}
					if rs.Value != nil && f.ObjOf(rcv) == f.ObjOf(rs.Value) {
						isElem = true
					}
					if !isElem {
						continue
					}
					t, _ := boolCallEdges(f, call.Expr)
					cut := map[*cfgx.Edge]bool{}
					for _, e := range t {
						cut[e] = true
					}
					if len(t) > 0 && !reachAvoidingEdges(g, body, n, nil, cut) {
						exits = append(exits, exit)
					}
				}
			}
			ob.Check(f.OnlyVia(sn, exits), nil, "%s is reachable without every entry of %s having passed ValidSignature(host key): a forged attachment/detachment takes effect", sink.Fn.Name(), ir.ExprString(list))
		}
	}
}

func c15r5(c *Ctx) {
	h := getHostAPI(c.P)
	accBal := c.P.Method("rhp", "Contractor", "AccountBalances")
	poolBal := c.P.Method("rhp", "Contractor", "PoolBalances")
	account := c.P.Named("rhp4", "Account")
	for _, f := range h.handlers {
		snaps := f.CallsTo(false, accBal, poolBal)
		if len(snaps) == 0 || len(f.CallsTo(false, h.creditAcc, h.creditPools)) == 0 {
			continue
		}
		g := f.Graph()
		c.VisitGraph(f)
		ob := c.Ob(f, "topup-deduplicated", f.Body.Pos())
		// stores of a non-constant value into <x>.Amount inside a loop
		var amountStores []*cfgx.Node
		// (or into a local that only exists to fill a deposit's Amount: `Deposit{Account: k, Amount: a}`)
		amountVars := map[types.Object]bool{}
		ir.Walk(f.Body, false, func(x ast.Node) {
			if kv, ok := x.(*ast.KeyValueExpr); ok {
				if k, ok := kv.Key.(*ast.Ident); ok && k.Name == "Amount" {
					if v, ok := f.ObjOf(kv.Value).(*types.Var); ok && !v.IsField() {
						amountVars[v] = true
					}
				}
			}
		})
		for _, n := range g.Nodes {
			if n.AST == nil {
				continue
			}
			for _, w := range f.WritesIn(n.AST, false) {
				if sel, ok := ast.Unparen(w.LHS).(*ast.SelectorExpr); ok && sel.Sel.Name == "Amount" {
					amountStores = append(amountStores, n)
				} else if w.RHS != nil && amountVars[f.ObjOf(w.LHS)] {
					amountStores = append(amountStores, n)
				}
			}
		}
		if len(amountStores) == 0 {
			ob.Unknown("no store to a deposit's Amount found")
			continue
		}
		good := true
		why := ""
		for _, st := range amountStores {
			head, _, body := enclosingRange(f, st)
			if head == nil {
				good, why = false, "the deposit amount is not computed inside a loop over the snapshot"
				continue
			}
			rs := head.AST.(*ast.RangeStmt)
			// maps keyed by Account consulted in the loop
			var missEdges []*cfgx.Edge
			maps := map[types.Object]bool{}
			for _, m := range g.Nodes {
				if m.AST == nil || !containsNode(rs.Body, m.AST) || m.Block == nil || m.Block.Cond != m.AST || len(m.Succs) != 2 {
					continue
				}
				if mo, miss, ok := membershipTest(f, m, account); ok {
					maps[mo] = true
					missEdges = append(missEdges, miss)
				}
			}
			if len(missEdges) == 0 {
				good, why = false, "no membership test in a map keyed by the account guards the deposit amount"
				continue
			}
			cut := map[*cfgx.Edge]bool{}
			for _, e := range missEdges {
				cut[e] = true
			}
			if reachAvoidingEdges(g, body, st, head, cut) {
				good, why = false, "the deposit amount can be set without the account having missed in the seen-set"
				continue
			}
			// every iteration records the key
			isRecord := func(n *cfgx.Node) bool {
				if n.AST == nil {
					return false
				}
				for _, w := range f.WritesIn(n.AST, false) {
					if ix, ok := ast.Unparen(w.LHS).(*ast.IndexExpr); ok && maps[f.ObjOf(ix.X)] {
						// a mark in a map of bools is a mark only when it is `true` (a computed value can clear an
						// earlier mark, and a key listed a third time is then topped up again)
						if mt, isMap := f.TypeOf(ix.X).Underlying().(*types.Map); isMap && isBasicKind(types.Bool)(mt.Elem()) {
							if v, isConst := constBoolOf(f, w.RHS); w.RHS == nil || !isConst || !v {
								continue
							}
						}
						return true
					}
				}
				return false
			}
			if _, skip := g.Reach([]*cfgx.Visit{cfgx.StartAfter(body, 0)}, isRecord)[head]; skip {
				good, why = false, "an iteration can finish without recording the account in the seen-set"
			}
		}
		if !good && rejectsDuplicates(c, h, f, account) {
			ob.OK("duplicate keys are rejected before the snapshot is taken")
			continue
		}
		ob.Check(good, nil, "deposits are derived from a balance snapshot but %s: an account or pool listed n times is credited n times its shortfall, ending above the target", why)
	}
}

// rejectsDuplicates recognises the alternative correct design: duplicates in the
// request's key list are rejected up front, either by a loop in the handler
// (membership test in an Account-keyed map whose hit edge reaches only error
// returns, dominating the credit sink through the loop's natural exit) or by
// the request's Validate method in core (which then contains such a map).
func rejectsDuplicates(c *Ctx, h *hostAPI, f *ir.Func, account *types.Named) bool {
	g := f.Graph()
	isAcctMap := func(fn *ir.Func, e ast.Expr) bool {
		if t := fn.TypeOf(e); t != nil {
			if mt, ok := t.Underlying().(*types.Map); ok && types.Identical(mt.Key(), account) {
				return true
			}
		}
		return false
	}
	var exits []*cfgx.Edge
	for _, n := range g.Nodes {
		rs, ok := n.AST.(*ast.RangeStmt)
		if !ok {
			continue
		}
		for _, m := range g.Nodes {
			if m.AST == nil || !containsNode(rs.Body, m.AST) || m.Block == nil || m.Block.Cond != m.AST || len(m.Succs) != 2 {
				continue
			}
			_, miss, ok := membershipTest(f, m, account)
			if !ok {
				continue
			}
			hit := m.Succs[0]
			if hit == miss {
				hit = m.Succs[1]
			}
			// the hit side rejects: it reaches an error return, no other return, and never the next iteration
			onlyErr, errs := true, 0
			for x := range f.ReachableFromEdges([]*cfgx.Edge{hit}, nil) {
				if _, isRet := x.AST.(*ast.ReturnStmt); isRet {
					if f.ClassifyReturn(x) != ir.RetError {
						onlyErr = false
					} else {
						errs++
					}
				}
				if x == n {
					onlyErr = false
				}
			}
			if onlyErr && errs > 0 {
				for _, e := range n.Succs {
					if e.Kind == cfgx.Br1 {
						exits = append(exits, e)
					}
				}
			}
		}
	}
	if len(exits) > 0 {
		all := true
		for _, sink := range f.CallsTo(false, h.creditAcc, h.creditPools) {
			if !f.OnlyVia(g.NodeContaining(sink.Pos()), exits) {
				all = false
			}
		}
		if all {
			return true
		}
	}
	// core-side validation
	req, _ := reqVar(f, h.readRequest)
	if v := methodOfVar(req, "Validate"); v != nil {
		if df := c.P.DepFunc(v); df != nil {
			found := false
			ir.Walk(df.Body, false, func(x ast.Node) {
				if ix, ok := x.(*ast.IndexExpr); ok && isAcctMap(df, ix.X) {
					found = true
				}
			})
			if found {
				for _, call := range f.CallsTo(false, v) {
					chk := f.CheckOf(call.Expr)
					all := true
					for _, sink := range f.CallsTo(false, h.creditAcc, h.creditPools) {
						if !f.OnlyVia(g.NodeContaining(sink.Pos()), chk.Succ) {
							all = false
						}
					}
					if all {
						return true
					}
				}
			}
		}
	}
	return false
}

// c15r6: idempotent keyed-list insertion — where a value is appended to a keyed list only if a scan of that
// list did not find it, the scan must compare the list's elements with the very value that is appended.
func c15r6(c *Ctx) {
	n := 0
	for _, pkg := range []string{"testutil", "rhp"} {
		for _, f := range c.P.PkgFuncs(pkg) {
			ir.Walk(f.Body, false, func(x ast.Node) {
				as, ok := x.(*ast.AssignStmt)
				if !ok || len(as.Lhs) != 1 || len(as.Rhs) != 1 {
					return
				}
				lhs, ok := ast.Unparen(as.Lhs[0]).(*ast.IndexExpr)
				if !ok {
					return
				}
				ac, ok := ast.Unparen(as.Rhs[0]).(*ast.CallExpr)
				if !ok || len(ac.Args) != 2 {
					return
				}
				if id, ok := ac.Fun.(*ast.Ident); !ok || id.Name != "append" || !sameLvalue(f, ac.Args[0], lhs) {
					return
				}
				if _, isMap := f.TypeOf(lhs.X).Underlying().(*types.Map); !isMap {
					return
				}
				val := ac.Args[1]
				// a scan over the same keyed list in the same function
				ir.Walk(f.Body, false, func(y ast.Node) {
					rs, ok := y.(*ast.RangeStmt)
					if !ok || rs.Value == nil || !sameLvalue(f, rs.X, lhs) {
						return
					}
					elem := f.ObjOf(rs.Value)
					ir.Walk(rs.Body, false, func(z ast.Node) {
						be, ok := z.(*ast.BinaryExpr)
						if !ok || be.Op.String() != "==" {
							return
						}
						var other ast.Expr
						if f.ObjOf(be.X) == elem {
							other = be.Y
						} else if f.ObjOf(be.Y) == elem {
							other = be.X
						} else {
							return
						}
						n++
						c.VisitGraph(f)
						ob := c.Ob(f, "membership-scan-matches-insertion", be.Pos())
						ob.Check(sameLvalue(f, other, val), nil, "the list %s is scanned for %s but %s is what gets appended when the scan finds nothing: the insertion is not idempotent, so an entry attached twice is counted twice (e.g. a pool's balance is drawable twice and service is delivered underpaid)", ir.ExprString(lhs), ir.ExprString(other), ir.ExprString(val))
					})
				})
			})
		}
	}
	if n == 0 {
		ir.Fail("no scan-then-append idiom found (reference contractor's pool attachments)")
	}
}

// membershipTest recognises a leaf condition that tests membership of a key in
// a map keyed by keyType, however the set is represented: `seen[k]` on a
// map[K]bool, or the comma-ok flag of `_, ok := seen[k]` (map[K]struct{} and
// the like). It returns the map variable and the edge on which the key is absent.
func membershipTest(f *ir.Func, m *cfgx.Node, keyType types.Type) (types.Object, *cfgx.Edge, bool) {
	if m.AST == nil || m.Block == nil || m.Block.Cond != m.AST || len(m.Succs) != 2 {
		return nil, nil, false
	}
	isSet := func(e ast.Expr) types.Object {
		mo := f.ObjOf(e)
		if mo == nil {
			return nil
		}
		if mt, ok := mo.Type().Underlying().(*types.Map); ok && types.Identical(mt.Key(), keyType) {
			return mo
		}
		return nil
	}
	cond := ast.Unparen(m.AST.(ast.Expr))
	if ix, ok := cond.(*ast.IndexExpr); ok {
		if mo := isSet(ix.X); mo != nil {
			return mo, m.Succs[1], true
		}
		return nil, nil, false
	}
	flag := f.ObjOf(cond)
	if flag == nil {
		return nil, nil, false
	}
	defs := ReachingDefs(f, flag, m)
	if len(defs) != 1 || defs[0] == nil {
		return nil, nil, false
	}
	as, ok := defs[0].AST.(*ast.AssignStmt)
	if !ok || len(as.Lhs) != 2 || len(as.Rhs) != 1 || f.ObjOf(as.Lhs[1]) != flag {
		return nil, nil, false
	}
	ix, ok := ast.Unparen(as.Rhs[0]).(*ast.IndexExpr)
	if !ok {
		return nil, nil, false
	}
	if mo := isSet(ix.X); mo != nil {
		return mo, m.Succs[1], true
	}
	return nil, nil, false
}

// sumByMethod: amount (looked through single definitions) is `X.M()` where the
// list handed to the sink is X.<field>, M's body is one Add-fold of .Amount over
// its receiver's same field, and the list is not written between the call and the sink.
func sumByMethod(c *Ctx, f *ir.Func, amount ast.Expr, deposits ast.Expr, sink ir.Call) bool {
	call, ok := ast.Unparen(origin(f, amount)).(*ast.CallExpr)
	if !ok || len(call.Args) != 0 {
		return false
	}
	sel, ok := ast.Unparen(call.Fun).(*ast.SelectorExpr)
	if !ok {
		return false
	}
	dsel, ok := ast.Unparen(deposits).(*ast.SelectorExpr)
	if !ok || !sameLvalue(f, dsel.X, sel.X) {
		return false
	}
	m := c.P.DepFunc(f.Callee(call))
	if m == nil || m.Decl == nil || m.Decl.Recv == nil || len(m.Decl.Recv.List) != 1 || len(m.Decl.Recv.List[0].Names) != 1 {
		return false
	}
	recv := m.Info().Defs[m.Decl.Recv.List[0].Names[0]]
	// the fold inside M
	folds := 0
	okFold := true
	var acc types.Object
	for _, w := range m.WritesIn(m.Body, false) {
		if _, isRange := w.Stmt.(*ast.RangeStmt); isRange {
			continue
		}
		ac, isCall := ast.Unparen(w.RHS).(*ast.CallExpr)
		if w.RHS == nil || !isCall {
			if vs, isDecl := w.Stmt.(*ast.ValueSpec); isDecl && len(vs.Values) == 0 {
				continue
			}
			okFold = false
			continue
		}
		as, isSel := ac.Fun.(*ast.SelectorExpr)
		if !isSel || as.Sel.Name != "Add" || len(ac.Args) != 1 || m.ObjOf(as.X) != m.ObjOf(w.LHS) {
			okFold = false
			continue
		}
		amt, isAmt := ast.Unparen(ac.Args[0]).(*ast.SelectorExpr)
		if !isAmt || amt.Sel.Name != "Amount" {
			okFold = false
			continue
		}
		// the element ranges over recv.<same field>
		elem := m.ObjOf(amt.X)
		inLoop := false
		ir.Walk(m.Body, false, func(x ast.Node) {
			if rs, isRS := x.(*ast.RangeStmt); isRS && rs.Value != nil && m.ObjOf(rs.Value) == elem && elem != nil {
				if xs, isSel := ast.Unparen(rs.X).(*ast.SelectorExpr); isSel && xs.Sel.Name == dsel.Sel.Name && m.ObjOf(xs.X) == recv {
					inLoop = true
				}
			}
		})
		if !inLoop {
			okFold = false
		}
		acc = m.ObjOf(w.LHS)
		folds++
	}
	if !okFold || folds != 1 {
		return false
	}
	for _, r := range m.Graph().Returns() {
		rs, isRet := r.AST.(*ast.ReturnStmt)
		if !isRet {
			return false
		}
		if len(rs.Results) == 1 && m.ObjOf(rs.Results[0]) != acc {
			return false
		}
	}
	// the list is complete when summed: no write to it between the sum and the sink
	g := f.Graph()
	cn, sn := g.NodeContaining(call.Pos()), g.NodeContaining(sink.Pos())
	if cn == nil || sn == nil || !g.DominatedByNode(sn, cn) {
		return false
	}
	for n := range pathNodesBetween(g, cn, sn) {
		if n.AST == nil {
			continue
		}
		for _, w := range f.WritesIn(n.AST, false) {
			if isPrefixLvalue(f, deposits, w.LHS) || sameLvalue(f, w.LHS, dsel.X) {
				return false
			}
		}
	}
	return true
}

// c15r7: the per-account list of attached pools keeps attachment order (pools are drained in that order). The list
// field is the one the scan-then-append idiom of R6 inserts into; nowhere may an element of such a list be
// overwritten in place (swap-removal) or the list be handed to a sorting / reversing / shuffling routine.
func c15r7(c *Ctx) {
	n := 0
	for _, pkg := range []string{"testutil", "rhp"} {
		fields := map[*types.Var]bool{}
		for _, f := range c.P.PkgFuncs(pkg) {
			ir.Walk(f.Body, false, func(x ast.Node) {
				as, ok := x.(*ast.AssignStmt)
				if !ok || len(as.Lhs) != 1 || len(as.Rhs) != 1 {
					return
				}
				lhs, ok := ast.Unparen(as.Lhs[0]).(*ast.IndexExpr)
				if !ok {
					return
				}
				ac, ok := ast.Unparen(as.Rhs[0]).(*ast.CallExpr)
				if !ok || len(ac.Args) != 2 || ac.Ellipsis.IsValid() {
					return
				}
				if id, ok := ac.Fun.(*ast.Ident); !ok || id.Name != "append" || !sameLvalue(f, ac.Args[0], lhs) {
					return
				}
				if mt, isMap := f.TypeOf(lhs.X).Underlying().(*types.Map); !isMap {
					return
				} else if _, isSlice := mt.Elem().Underlying().(*types.Slice); !isSlice {
					return
				}
				if fld := f.FieldOf(lhs.X); fld != nil {
					fields[fld] = true
				}
			})
		}
		for fld := range fields {
			for _, f := range c.P.PkgFuncs(pkg) {
				if !f.MentionsField(f.Body, true, fld) {
					continue
				}
				// aliases: the keyed element itself, and locals defined from it
				alias := map[types.Object]bool{}
				isList := func(e ast.Expr) bool {
					e = ast.Unparen(e)
					if ix, ok := e.(*ast.IndexExpr); ok && f.FieldOf(ix.X) == fld {
						return true
					}
					if se, ok := e.(*ast.SliceExpr); ok {
						e = ast.Unparen(se.X)
						if ix, ok := e.(*ast.IndexExpr); ok && f.FieldOf(ix.X) == fld {
							return true
						}
					}
					o := f.ObjOf(e)
					return o != nil && alias[o]
				}
				for round := 0; round < 2; round++ {
					for _, w := range f.WritesIn(f.Body, true) {
						if w.RHS != nil && isList(w.RHS) {
							if o := f.ObjOf(w.LHS); o != nil {
								alias[o] = true
							}
						}
					}
				}
				n++
				c.VisitGraph(f)
				ob := c.Ob(f, "attachment-order-kept:"+fld.Name(), f.Body.Pos())
				bad := false
				for _, w := range f.WritesIn(f.Body, true) {
					if ix, ok := ast.Unparen(w.LHS).(*ast.IndexExpr); ok && isList(ix.X) {
						ob.Bad(nil, "an element of the attachment list %s is overwritten in place at %s: removing by swapping in the last entry changes the order in which the remaining pools are drained", fld.Name(), c.P.Pos(w.LHS.Pos()))
						bad = true
						break
					}
				}
				if !bad {
					for _, call := range f.Calls(true) {
						if call.Fn == nil || call.Fn.Pkg() == nil {
							continue
						}
						reorders := false
						switch call.Fn.Pkg().Path() + "." + call.Fn.Name() {
						case "sort.Slice", "sort.SliceStable", "sort.Sort", "sort.Stable", "slices.Sort", "slices.SortFunc", "slices.SortStableFunc", "slices.Reverse", "lukechampine.com/frand.Shuffle", "math/rand.Shuffle":
							reorders = true
						}
						if !reorders {
							continue
						}
						for _, a := range call.Expr.Args {
							if isList(a) {
								ob.Bad(nil, "the attachment list %s is reordered by %s at %s", fld.Name(), call.Fn.Name(), c.P.Pos(call.Pos()))
								bad = true
							}
						}
					}
				}
				if !bad {
					ob.OK("the list is only appended to, re-sliced or read")
				}
			}
		}
	}
	if n == 0 {
		ir.Fail("no attachment list found (reference contractor's pool attachments)")
	}
}

// literalAmountIs: e is a composite literal whose Amount field is filled with the variable v.
func literalAmountIs(f *ir.Func, e ast.Expr, v types.Object) bool {
	cl, ok := ast.Unparen(e).(*ast.CompositeLit)
	if !ok {
		return false
	}
	for _, el := range cl.Elts {
		if kv, ok := el.(*ast.KeyValueExpr); ok {
			if k, ok := kv.Key.(*ast.Ident); ok && k.Name == "Amount" && f.ObjOf(kv.Value) == v {
				return true
			}
		}
	}
	return false
}
