package rules

import (
	"go/ast"
	"go/types"

	"sialint/internal/cfgx"
	"sialint/internal/ir"
)

// LS is the must/may state of one mutex at a program point.
type LS uint8

const (
	lsNone   LS = 0 // unreachable / no information yet
	lsHeld   LS = 1
	lsUnheld LS = 2
	lsBoth   LS = 3
)

func (s LS) String() string { return [...]string{"unknown", "held", "unheld", "held-or-unheld"}[s] }

// Lockset is the result of the lock-state analysis for one mutex field.
type Lockset struct {
	P      *ir.Prog
	Mutex  *types.Var
	funcs  []*ir.Func
	entry  map[*ir.Func]LS
	in     map[*ir.Func]map[*cfgx.Node]LS // state before the node executes
	viewOf func(*ir.Func) *ir.Func
}

// lockOp classifies a call as Lock (+1), Unlock (-1) or neither on the mutex.
func (l *Lockset) lockOp(f *ir.Func, call ir.Call) int {
	if call.Fn == nil || call.Fn.Pkg() == nil || call.Fn.Pkg().Path() != "sync" {
		return 0
	}
	rcv := call.Recv()
	if rcv == nil || f.FieldOf(rcv) != l.Mutex {
		return 0
	}
	switch call.Fn.Name() {
	case "Lock", "RLock":
		return 1
	case "Unlock", "RUnlock":
		return -1
	}
	return 0
}

// NewLockset analyses every function in funcs (methods and their literals).
// Exported methods start unheld; unexported ones start with the join of the
// states at their call sites inside funcs.
func NewLockset(p *ir.Prog, mutex *types.Var, methods []*ir.Func) *Lockset {
	return NewLocksetV(p, mutex, methods, nil)
}

// NewLocksetV is NewLockset over expanded views: viewOf maps a loaded callee to
// the view that stands for it in methods.
func NewLocksetV(p *ir.Prog, mutex *types.Var, methods []*ir.Func, viewOf func(*ir.Func) *ir.Func) *Lockset {
	l := &Lockset{P: p, Mutex: mutex, entry: map[*ir.Func]LS{}, in: map[*ir.Func]map[*cfgx.Node]LS{}, viewOf: viewOf}
	for _, f := range methods {
		l.funcs = append(l.funcs, f)
		l.funcs = append(l.funcs, f.Lits...)
	}
	for _, f := range l.funcs {
		if f.Lit == nil && exported(f) {
			l.entry[f] = lsUnheld
		}
	}
	for iter := 0; iter < 20; iter++ {
		changed := false
		for _, f := range l.funcs {
			if l.entry[f] == lsNone {
				continue
			}
			l.in[f] = l.flow(f, l.entry[f])
		}
		// propagate to callees and literals
		for _, f := range l.funcs {
			st := l.in[f]
			if st == nil {
				continue
			}
			g := f.Graph()
			for _, n := range g.Nodes {
				if n.AST == nil || st[n] == lsNone {
					continue
				}
				cur := st[n]
				_, isGo := n.AST.(*ast.GoStmt)
				for _, call := range f.NodeCalls(n) {
					callee := l.P.FuncOf(call.Fn)
					if callee != nil && l.viewOf != nil {
						callee = l.viewOf(callee)
					}
					if callee != nil && l.has(callee) && !(callee.Lit == nil && exported(callee)) {
						v := cur
						if isGo {
							v = lsUnheld
						}
						if nv := l.entry[callee] | v; nv != l.entry[callee] {
							l.entry[callee] = nv
							changed = true
						}
					}
				}
				// methods taken as values at this node (`step := m.applyStep`): like a literal defined here, the value
				// is taken to be invoked within the same critical section
				called := map[ast.Expr]bool{}
				ir.Walk(n.AST, false, func(x ast.Node) {
					if ce, ok := x.(*ast.CallExpr); ok {
						called[ast.Unparen(ce.Fun)] = true
					}
				})
				ir.Walk(n.AST, false, func(x ast.Node) {
					sel, ok := x.(*ast.SelectorExpr)
					if !ok || called[sel] {
						return
					}
					fn, isFn := f.Info().Uses[sel.Sel].(*types.Func)
					if !isFn {
						return
					}
					callee := l.P.FuncOf(fn.Origin())
					if callee != nil && l.viewOf != nil {
						callee = l.viewOf(callee)
					}
					if callee == nil || !l.has(callee) || (callee.Lit == nil && exported(callee)) {
						return
					}
					v := cur
					if isGo {
						v = lsUnheld
					}
					if _, isRet := n.AST.(*ast.ReturnStmt); isRet {
						v = lsUnheld
					}
					if nv := l.entry[callee] | v; nv != l.entry[callee] {
						l.entry[callee] = nv
						changed = true
					}
				})
				// literals defined at this node
				ir.Walk(n.AST, false, func(x ast.Node) {
					lit, ok := x.(*ast.FuncLit)
					if !ok {
						return
					}
					lf := l.P.LitOf(lit)
					if lf == nil || !l.has(lf) {
						return
					}
					v := cur
					if isGo {
						v = lsUnheld
					}
					if _, isRet := n.AST.(*ast.ReturnStmt); isRet {
						v = lsUnheld // a returned closure runs later, outside this critical section
					}
					if nv := l.entry[lf] | v; nv != l.entry[lf] {
						l.entry[lf] = nv
						changed = true
					}
				})
			}
		}
		if !changed {
			break
		}
	}
	// functions never reached from an exported entry: analyse with unknown (both)
	for _, f := range l.funcs {
		if l.entry[f] == lsNone {
			l.entry[f] = lsBoth
			l.in[f] = l.flow(f, lsBoth)
		}
	}
	return l
}

func (l *Lockset) has(f *ir.Func) bool {
	for _, x := range l.funcs {
		if x == f {
			return true
		}
	}
	return false
}

// flow runs the forward dataflow inside f.
func (l *Lockset) flow(f *ir.Func, entry LS) map[*cfgx.Node]LS {
	g := f.Graph()
	in := map[*cfgx.Node]LS{}
	in[g.Entry] = entry
	work := []*cfgx.Node{g.Entry}
	for len(work) > 0 {
		n := work[len(work)-1]
		work = work[:len(work)-1]
		out := in[n]
		if n.AST != nil {
			if _, isDefer := n.AST.(*ast.DeferStmt); !isDefer {
				if _, isGo := n.AST.(*ast.GoStmt); !isGo {
					for _, call := range f.NodeCalls(n) {
						switch l.lockOp(f, call) {
						case 1:
							out = lsHeld
						case -1:
							out = lsUnheld
						}
					}
				}
			}
		}
		for _, e := range n.Succs {
			if nv := in[e.To] | out; nv != in[e.To] {
				in[e.To] = nv
				work = append(work, e.To)
			}
		}
	}
	return in
}

// At returns the lock state before node n of f executes.
func (l *Lockset) At(f *ir.Func, n *cfgx.Node) LS {
	if st := l.in[f]; st != nil {
		return st[n]
	}
	return lsNone
}

// Entry returns the state assumed at f's entry.
func (l *Lockset) Entry(f *ir.Func) LS { return l.entry[f] }

// AfterOwnOps returns the state right after node n's own lock operations
// (needed when a node both locks and accesses).
func (l *Lockset) AtAccess(f *ir.Func, n *cfgx.Node) LS {
	s := l.At(f, n)
	return s
}

// DeferredUnlock reports whether f defers an Unlock of the mutex.
func (l *Lockset) DeferredUnlock(f *ir.Func) bool {
	for _, d := range f.Defers() {
		if l.lockOp(f, d.Call) == -1 {
			return true
		}
		if d.Lit != nil {
			for _, c := range d.Lit.Calls(false) {
				if l.lockOp(d.Lit, c) == -1 {
					return true
				}
			}
		}
	}
	return false
}
