package rules

import (
	"fmt"
	"go/ast"
	"go/token"
	"go/types"
	"sort"

	"sialint/internal/cfgx"
	"sialint/internal/ir"
)

type poolFields struct {
	txns, v2txns, indices, weight, ms *types.Var
}

func getPoolFields(p *ir.Prog) poolFields {
	return poolFields{
		txns:    p.FieldPath("chain", "Manager", "txpool", "txns"),
		v2txns:  p.FieldPath("chain", "Manager", "txpool", "v2txns"),
		indices: p.FieldPath("chain", "Manager", "txpool", "indices"),
		weight:  p.FieldPath("chain", "Manager", "txpool", "weight"),
		ms:      p.FieldPath("chain", "Manager", "txpool", "ms"),
	}
}

func (pf poolFields) content() []*types.Var {
	return []*types.Var{pf.txns, pf.v2txns, pf.indices, pf.weight}
}

func init() {
	Explanations["C14"] = "Decides structural necessary conditions of the pool contracts in chain.Manager: (R1) in every error-returning Manager method that writes the pool's transaction lists, index map or weight, no return that can carry an error is reachable after the first such write, and any such return after a mid-state Apply passes the store that discards the mid-state; (R2) every use of an index loaded from the shared id→position map to subscript a pool slice is dominated by a bounds test against that slice, and every 'found' return by an ID equality test with the looked-up key; (R3) every v2 transaction flowing from the pool's v2 list to a result of an exported method passes DeepCopy and v1 lists are cloned; (R4) the v2 submission parameter reaches the pool only through slices.Clone + DeepCopy (or a deep-copying callee); (R5) every output→position map built by a helper from range positions of a pool list is filled from one list only, and positions read from it subscript that same list. (R6) the flag the set checker returns as 'known' starts true and is only ever lowered (constant false or a conjunction with itself), i.e. it is a conjunction over all transactions of the set. (R7) every write of the id→position map stores len(L) of a list L that is (or is later stored as) one of the pool's lists, and on every path from that write the transaction with that id is appended to L before the loop comes round again, the function exits or another id is registered — so the map never names a transaction that is not pooled (a stale entry makes a resubmitted set look 'known' and makes lookups return another transaction). NOT decided: the rest of the truth table of 'known', validity of what is admitted (C05), behaviour of core's DeepCopy."

	register(&Rule{ID: "C14.R1", Prop: "C14", Floor: 4,
		Doc: "all-or-nothing: no error-capable return after the first write to the pool contents; error return after ms.Apply* discards ms",
		Run: c14r1})
	register(&Rule{ID: "C14.R2", Prop: "C14", Floor: 4,
		Doc: "kind-safe lookup: index from the shared map is bounds-checked against the slice it subscripts and the element's ID compared with the key before 'found' is returned",
		Run: c14r2})
	register(&Rule{ID: "C14.R3", Prop: "C14", Floor: 8,
		Doc: "copy-out: pool transactions leave exported methods only as DeepCopy (v2) / cloned slices (v1)",
		Run: c14r3})
	register(&Rule{ID: "C14.R5", Prop: "C14", Floor: 3,
		Doc: "position maps are kind-safe: built from one pool list and used only on that list",
		Run: positionMapsKindSafe})
	register(&Rule{ID: "C14.R6", Prop: "C14", Floor: 1,
		Doc: "`known` is a conjunction over the whole set: the flag starts true and is only ever lowered",
		Run: c14r6})
	register(&Rule{ID: "C14.R4", Prop: "C14", Floor: 1,
		Doc: "copy-in: the v2 submission parameter is replaced by slices.Clone + per-element DeepCopy before any other use",
		Run: c14r4})
	register(&Rule{ID: "C14.R7", Prop: "C14", Floor: 4,
		Doc: "an id is entered into the id→position map only together with its transaction: every registration `indices[id] = len(L)` is followed, before the next iteration or any exit, by the append of that transaction to L",
		Run: c14r7})
}

// c14r1: functions of *Manager with an error result that directly write pool contents.
func c14r1(c *Ctx) {
	pf := getPoolFields(c.P)
	applyV1 := c.P.Method("consensus", "MidState", "ApplyTransaction")
	applyV2 := c.P.Method("consensus", "MidState", "ApplyV2Transaction")
	// helpers expanded and deferred clean-ups made explicit (a flag + deferred `ms = nil` is the same as the direct store)
	for _, f := range getChainRoles(c.P).methodsWithDefers() {
		g := f.Graph()
		hasErr := false
		for _, r := range g.Returns() {
			if f.ClassifyReturn(r) != ir.RetNoErr {
				hasErr = true
			}
		}
		if !hasErr {
			continue
		}
		var writes []*cfgx.Node
		for _, n := range g.Nodes {
			for _, fld := range pf.content() {
				if _, ok := writesField(f, n, fld); ok {
					writes = append(writes, n)
					break
				}
			}
		}
		if len(writes) == 0 {
			continue
		}
		c.VisitGraph(f)
		ob := c.Ob(f, "no-error-after-pool-write", writes[0].Pos())
		var start []*cfgx.Visit
		for _, w := range writes {
			for _, e := range w.Succs {
				start = append(start, cfgx.StartAfter(e, 0))
			}
		}
		reach := g.Reach(start, nil)
		kinds := f.ReturnKindsFrom(start) // per path: an error variable set to nil on the way is a success return
		bad := false
		for _, r := range g.Returns() {
			if v, ok := reach[r]; ok && errorishKinds(kinds[r]) {
				ob.Bad(c.Witness(v), "return at %s can carry an error (%s) after the pool contents were written at %s: a rejected set is partially added",
					c.P.Pos(r.Pos()), f.ClassifyReturn(r), c.P.Pos(writes[0].Pos()))
				bad = true
				break
			}
		}
		if !bad {
			ob.OK("%d write sites, every later return is a success return", len(writes))
		}

		// second clause: error return after ms.Apply* must pass `txpool.ms = nil`
		for _, call := range f.CallsTo(false, applyV1, applyV2) {
			if rcv := call.Recv(); rcv == nil || f.FieldOf(rcv) != pf.ms {
				continue
			}
			n := g.NodeContaining(call.Pos())
			ob2 := c.Ob(f, "discard-midstate-on-error", call.Pos())
			var st []*cfgx.Visit
			for _, e := range n.Succs {
				st = append(st, cfgx.StartAfter(e, 0))
			}
			discards := func(m *cfgx.Node) bool { return isNilAssign(f, m, pf.ms) }
			r2 := g.Reach(st, discards)
			k2 := f.ReturnKindsFromAvoiding(st, discards)
			bad2 := false
			for _, r := range g.Returns() {
				if v, ok := r2[r]; ok && errorishKinds(k2[r]) {
					ob2.Bad(c.Witness(v), "error-capable return at %s is reachable after %s without discarding the mid-state (txpool.ms = nil)", c.P.Pos(r.Pos()), callName(call.Fn))
					bad2 = true
					break
				}
			}
			if !bad2 {
				ob2.OK("every error-capable return after the Apply passes txpool.ms = nil")
			}
		}
	}
}

// c14r2: index provenance.
func c14r2(c *Ctx) {
	pf := getPoolFields(c.P)
	for _, f := range c.P.MethodsOf("chain", "Manager") {
		g := f.Graph()
		// find `i, ok := m.txpool.indices[key]` / `i := m.txpool.indices[key]`
		for _, n := range g.Nodes {
			as, ok := n.AST.(*ast.AssignStmt)
			if !ok || len(as.Rhs) != 1 {
				continue
			}
			ix, ok := ast.Unparen(as.Rhs[0]).(*ast.IndexExpr)
			if !ok || !isFieldExpr(f, ix.X, pf.indices) {
				continue
			}
			iobj := f.ObjOf(as.Lhs[0])
			if iobj == nil || iobj.Name() == "_" {
				continue
			}
			c.VisitGraph(f)
			keyObj := f.ObjOf(ix.Index)
			// every subscript S[i] with S a pool slice
			for _, m := range g.Nodes {
				if m.AST == nil {
					continue
				}
				var uses []*ast.IndexExpr
				ir.Walk(m.AST, false, func(x ast.Node) {
					if ie, ok := x.(*ast.IndexExpr); ok && f.ObjOf(ie.Index) == iobj {
						if fld := f.FieldOf(ie.X); fld == pf.txns || fld == pf.v2txns {
							uses = append(uses, ie)
						}
					}
				})
				for _, ie := range uses {
					slice := f.FieldOf(ie.X)
					ob := c.Ob(f, "bounds:"+slice.Name(), ie.Pos())
					isI := sameObjExpr(f, iobj)
					isLen := func(e ast.Expr) bool { x := lenOf(f, e); return x != nil && f.FieldOf(x) == slice }
					okB := dominatedByEdgeWhere(f, m, func(e *cfgx.Edge) bool { return edgeEstablishesLess(e, isI, isLen) }) ||
						// the test may be in the same condition chain before the use (short-circuit): handled by edges too
						false
					ob.Check(okB, nil, "index %s loaded from the shared id→position map subscripts %s without a dominating bounds test against len(%s): an id of the other transaction kind panics or returns a different transaction",
						iobj.Name(), slice.Name(), slice.Name())
					if _, isRet := m.AST.(*ast.ReturnStmt); isRet {
						ob2 := c.Ob(f, "id:"+slice.Name(), ie.Pos())
						isElemID := func(e ast.Expr) bool {
							call, ok := ast.Unparen(e).(*ast.CallExpr)
							if !ok {
								return false
							}
							sel, ok := call.Fun.(*ast.SelectorExpr)
							if !ok || sel.Sel.Name != "ID" {
								return false
							}
							x, ok := ast.Unparen(sel.X).(*ast.IndexExpr)
							return ok && f.FieldOf(x.X) == slice && f.ObjOf(x.Index) == iobj
						}
						isKey := sameObjExpr(f, keyObj)
						okID := keyObj != nil && dominatedByEdgeWhere(f, m, func(e *cfgx.Edge) bool { return edgeEstablishesEq(e, isElemID, isKey) })
						ob2.Check(okID, nil, "element %s[%s] is returned as found without a dominating comparison of its ID() with the looked-up key", slice.Name(), iobj.Name())
					}
				}
			}
		}
	}
}

// v2CopierCall reports whether call invokes a repository function that deep-copies
// the []V2Transaction argument it is given (summary computed from its body).
func v2CopierCall(fn *ir.Func, call *ast.CallExpr) bool {
	callee := fn.P.FuncOf(fn.Callee(call))
	if callee == nil {
		return false
	}
	i := 0
	for _, fld := range callee.Type.Params.List {
		n := len(fld.Names)
		if n == 0 {
			n = 1
		}
		if sl, ok := callee.Info().TypeOf(fld.Type).(*types.Slice); ok && ir.IsNamed(sl.Elem(), ir.PkgPath("types"), "V2Transaction") {
			if ok, _ := isDeepCopier(callee, i); ok {
				return true
			}
		}
		i += n
	}
	return false
}

// poolTaint runs the local taint analysis for pool memory inside Manager method f.
func poolTaint(f *ir.Func, fld *types.Var, deep bool, deepCopy *types.Func, leaky map[*types.Func]bool) *Taint {
	return RunTaint(TaintCfg{
		Top:         f,
		ElemCarries: deep,
		Source: func(fn *ir.Func, e ast.Expr) bool {
			if fn.FieldOf(e) == fld {
				return true
			}
			if call, ok := e.(*ast.CallExpr); ok && leaky[fn.Callee(call)] {
				return true
			}
			return false
		},
		Sanitizer: func(fn *ir.Func, call *ast.CallExpr) bool {
			if callee := fn.Callee(call); callee != nil && callee == deepCopy.Origin() {
				return true
			}
			return deep && v2CopierCall(fn, call)
		},
		// a repository function handed pool memory may return it (unless its summary says it deep-copies)
		CallCarries: func(fn *ir.Func, call *ast.CallExpr) bool {
			return fn.P.FuncOf(fn.Callee(call)) != nil
		},
	})
}

// returnsTainted reports the first return of f (not of its literals) that yields tainted memory.
func returnsTainted(f *ir.Func, t *Taint) (ast.Node, bool) {
	var named []types.Object
	if f.Type.Results != nil {
		for _, fld := range f.Type.Results.List {
			for _, nm := range fld.Names {
				named = append(named, f.Info().Defs[nm])
			}
		}
	}
	for _, r := range f.Graph().Returns() {
		rs, ok := r.AST.(*ast.ReturnStmt)
		if !ok {
			continue
		}
		for _, res := range rs.Results {
			if t.Expr(f, res) {
				return rs, true
			}
		}
		if len(rs.Results) == 0 {
			for _, o := range named {
				if t.Obj(o) {
					return rs, true
				}
			}
		}
	}
	return nil, false
}

// c14r3: copy-out.
func c14r3(c *Ctx) {
	pf := getPoolFields(c.P)
	deepCopy := c.P.Method("types", "V2Transaction", "DeepCopy")
	methods := c.P.MethodsOf("chain", "Manager")
	for _, kind := range []struct {
		fld  *types.Var
		deep bool
		what string
	}{{pf.v2txns, true, "v2 pool transactions share Merkle proofs/signatures with the pool unless they pass DeepCopy"}, {pf.txns, false, "the v1 pool slice must be cloned before it is returned"}} {
		// unexported helpers that hand out pool memory (two rounds for nesting)
		leaky := map[*types.Func]bool{}
		for round := 0; round < 2; round++ {
			for _, f := range methods {
				if exported(f) {
					continue
				}
				t := poolTaint(f, kind.fld, kind.deep, deepCopy, leaky)
				if _, bad := returnsTainted(f, t); bad {
					leaky[f.Obj] = true
				}
			}
		}
		for _, bf := range methods {
			if !exported(bf) {
				continue
			}
			f := getChainRoles(c.P).view(bf) // helpers and bracket literals expanded
			mentions := f.MentionsField(f.Body, true, kind.fld)
			if !mentions {
				for _, call := range f.Calls(true) {
					if leaky[call.Fn] {
						mentions = true
					}
				}
			}
			if !mentions {
				continue
			}
			c.VisitGraph(f)
			ob := c.Ob(f, "copy-out:"+kind.fld.Name(), f.Body.Pos())
			t := poolTaint(f, kind.fld, kind.deep, deepCopy, leaky)
			if at, bad := returnsTainted(f, t); bad {
				ob.Pos = c.P.Pos(at.Pos())
				ob.Bad(nil, "pool memory (%s) reaches the result returned at %s: %s", kind.fld.Name(), c.P.Pos(at.Pos()), kind.what)
			} else {
				ob.OK("no flow from txpool.%s to a result without a copy", kind.fld.Name())
			}
		}
	}
}

// parentChain returns the ancestors of target inside root, innermost first.
func parentChain(root ast.Node, target ast.Node) []ast.Node {
	var stack []ast.Node
	var out []ast.Node
	found := false
	ast.Inspect(root, func(n ast.Node) bool {
		if found {
			return false
		}
		if n == nil {
			stack = stack[:len(stack)-1]
			return false
		}
		if n == target {
			for i := len(stack) - 1; i >= 0; i-- {
				out = append(out, stack[i])
			}
			found = true
			return false
		}
		stack = append(stack, n)
		return true
	})
	return out
}

func containsNode(root ast.Node, target ast.Node) bool {
	if root == nil {
		return false
	}
	found := false
	ast.Inspect(root, func(n ast.Node) bool {
		if n == target {
			found = true
		}
		return !found
	})
	return found
}

// c14r4: copy-in.
func c14r4(c *Ctx) {
	bf := c.P.Fn("chain", "Manager", "AddV2PoolTransactions")
	f := getChainRoles(c.P).view(bf) // helpers and bracket literals expanded
	deepCopy := c.P.Method("types", "V2Transaction", "DeepCopy")
	g := f.Graph()
	c.VisitGraph(f)
	var param types.Object
	for _, fld := range f.Type.Params.List {
		if sl, ok := f.Info().TypeOf(fld.Type).(*types.Slice); ok && ir.IsNamed(sl.Elem(), ir.PkgPath("types"), "V2Transaction") {
			for _, nm := range fld.Names {
				param = f.Info().Defs[nm]
			}
		}
	}
	ob := c.Ob(f, "submission-copied-before-use", f.Body.Pos())
	if param == nil {
		ob.Unknown("no []types.V2Transaction parameter found")
		return
	}
	// plain copies of the parameter (`p2 := p`, as a helper's parameter binding) share its memory: they are the parameter
	isParam := map[types.Object]bool{param: true}
	aliasDef := map[*cfgx.Node]bool{}
	for changed := true; changed; {
		changed = false
		for _, n := range g.Nodes {
			as, ok := n.AST.(*ast.AssignStmt)
			if !ok || len(as.Rhs) != 1 || len(as.Lhs) != 1 || as.Tok != token.DEFINE {
				continue
			}
			if src := f.ObjOf(as.Rhs[0]); src != nil && isParam[src] {
				if _, isID := ast.Unparen(as.Rhs[0]).(*ast.Ident); isID {
					if dst := f.ObjOf(as.Lhs[0]); dst != nil && !isParam[dst] {
						isParam[dst] = true
						aliasDef[n] = true
						changed = true
					}
				}
			}
		}
	}
	// idiom A: p' = slices.Clone(p); for i := range p' { p'[i] = p'[i].DeepCopy() }
	var cloneNode, dcNode *cfgx.Node
	var cloned types.Object
	for _, n := range g.Nodes {
		as, ok := n.AST.(*ast.AssignStmt)
		if !ok || len(as.Rhs) != 1 || len(as.Lhs) != 1 {
			continue
		}
		call, ok := ast.Unparen(as.Rhs[0]).(*ast.CallExpr)
		if !ok || len(call.Args) != 1 {
			continue
		}
		fn := f.Callee(call)
		if fn != nil && fn.Pkg() != nil && fn.Pkg().Path() == "slices" && fn.Name() == "Clone" && isParam[f.ObjOf(call.Args[0])] {
			cloneNode, cloned = n, f.ObjOf(as.Lhs[0])
		}
	}
	if cloneNode != nil {
		for _, n := range g.Nodes {
			as, ok := n.AST.(*ast.AssignStmt)
			if !ok || len(as.Rhs) != 1 || len(as.Lhs) != 1 {
				continue
			}
			li, ok := ast.Unparen(as.Lhs[0]).(*ast.IndexExpr)
			if !ok || f.ObjOf(li.X) != cloned {
				continue
			}
			call, ok := ast.Unparen(as.Rhs[0]).(*ast.CallExpr)
			if !ok || f.Callee(call) != deepCopy.Origin() {
				continue
			}
			sel := call.Fun.(*ast.SelectorExpr)
			ri, ok := ast.Unparen(sel.X).(*ast.IndexExpr)
			if ok && f.ObjOf(ri.X) == cloned && f.ObjOf(ri.Index) == f.ObjOf(li.Index) {
				dcNode = n
			}
		}
	}
	var loopExit []*cfgx.Edge
	if dcNode != nil {
		for _, n := range g.Nodes {
			if rs, ok := n.AST.(*ast.RangeStmt); ok && containsNode(rs.Body, dcNode.AST) {
				for _, e := range n.Succs {
					if e.Kind == cfgx.Br1 {
						loopExit = append(loopExit, e)
					}
				}
			}
			if n.Block != nil {
				if fs, ok := n.Block.Stmt.(*ast.ForStmt); ok && containsNode(fs.Body, dcNode.AST) && n.Block.Cond == n.AST {
					for _, e := range n.Succs {
						if e.Kind == cfgx.False {
							loopExit = append(loopExit, e)
						}
					}
				}
			}
		}
	}
	idiomA := cloneNode != nil && dcNode != nil && len(loopExit) > 0
	// idiom B: the value in use was produced by a deep-copying callee
	copierDef := func(n *cfgx.Node) bool {
		if n == nil || n.AST == nil {
			return false
		}
		rhs := ir.TupleRHS(n.AST)
		if rhs == nil {
			if as, ok := n.AST.(*ast.AssignStmt); ok && len(as.Rhs) == 1 {
				rhs = as.Rhs[0]
			}
		}
		call, ok := ast.Unparen(rhs).(*ast.CallExpr)
		return ok && v2CopierCall(f, call)
	}
	var objs []types.Object
	for o := range isParam {
		objs = append(objs, o)
	}
	sort.Slice(objs, func(i, j int) bool { return objs[i].Pos() < objs[j].Pos() })
	if cloned != nil && !isParam[cloned] {
		objs = append(objs, cloned)
	}
	for _, n := range g.Nodes {
		if n == cloneNode || n == dcNode || n.AST == nil || aliasDef[n] {
			continue
		}
		if _, isRange := n.AST.(*ast.RangeStmt); isRange {
			continue
		}
		for _, obj := range objs {
			if !f.MentionsObj(n.AST, true, obj) {
				continue
			}
			if dcNode != nil && enclosingRangeX(f, n, dcNode) {
				continue
			}
			// passing the value to a deep copier is always fine
			isCopierArg := false
			for _, call := range f.NodeCalls(n) {
				if v2CopierCall(f, call.Expr) {
					for _, a := range call.Expr.Args {
						if f.ObjOf(a) == obj {
							isCopierArg = true
						}
					}
				}
			}
			onlyCopierArgUse := isCopierArg && countMentions(f, n.AST, obj) == countCopierArgMentions(f, n, obj)
			if onlyCopierArgUse {
				continue
			}
			if idiomA && f.OnlyVia(n, loopExit) {
				continue
			}
			allFresh := true
			for _, d := range ReachingDefs(f, obj, n) {
				if !copierDef(d) {
					allFresh = false
				}
			}
			if allFresh {
				continue
			}
			ob.Pos = c.P.Pos(n.Pos())
			ob.Bad(nil, "the caller's transactions are used at %s although neither slices.Clone+DeepCopy nor a deep-copying callee has replaced them: the pool may modify or retain the caller's memory", c.P.Pos(n.Pos()))
			return
		}
	}
	ob.OK("every use of the submission follows a copy (clone+DeepCopy idiom: %v; deep-copying callee summary used where needed)", idiomA)
}

// countMentions counts reads of obj in root (identifiers that are the whole
// left-hand side of an assignment are writes, not reads).
func countMentions(f *ir.Func, root ast.Node, obj types.Object) int {
	lhs := map[*ast.Ident]bool{}
	for _, w := range f.WritesIn(root, true) {
		if id, ok := ast.Unparen(w.LHS).(*ast.Ident); ok {
			lhs[id] = true
		}
	}
	n := 0
	ir.Walk(root, true, func(x ast.Node) {
		if id, ok := x.(*ast.Ident); ok && f.Info().Uses[id] == obj && !lhs[id] {
			n++
		}
	})
	return n
}

func countCopierArgMentions(f *ir.Func, n *cfgx.Node, obj types.Object) int {
	k := 0
	for _, call := range f.NodeCalls(n) {
		if v2CopierCall(f, call.Expr) {
			for _, a := range call.Expr.Args {
				if f.ObjOf(a) == obj {
					k++
				}
			}
		}
	}
	return k
}

// enclosingRangeX reports whether node n is the X operand of the range loop containing inner.
func enclosingRangeX(f *ir.Func, n, inner *cfgx.Node) bool {
	for _, m := range f.Graph().Nodes {
		if rs, ok := m.AST.(*ast.RangeStmt); ok && containsNode(rs.Body, inner.AST) && ast.Node(rs.X) == n.AST {
			return true
		}
	}
	return false
}

// positionMapsKindSafe: every map[...]int built by a Manager helper from range
// positions of a pool list is filled from one list only, and a position taken
// from it subscripts that same list at every use.
func positionMapsKindSafe(c *Ctx) {
	pf := getPoolFields(c.P)
	methods := c.P.MethodsOf("chain", "Manager")
	type built struct {
		helper *ir.Func
		result int
		fill   map[*types.Var]bool
	}
	var maps []built
	for _, h := range methods {
		if h.Type.Results == nil {
			continue
		}
		// result positions of type map[…]int
		pos := 0
		var mapResults []int
		for _, fld := range h.Type.Results.List {
			k := len(fld.Names)
			if k == 0 {
				k = 1
			}
			if mt, ok := h.Info().TypeOf(fld.Type).(*types.Map); ok {
				if b, ok := mt.Elem().Underlying().(*types.Basic); ok && b.Kind() == types.Int {
					for i := 0; i < k; i++ {
						mapResults = append(mapResults, pos+i)
					}
				}
			}
			pos += k
		}
		if len(mapResults) == 0 {
			continue
		}
		// returned map variables per position
		for _, rpos := range mapResults {
			var mobj types.Object
			// named result
			i := 0
			for _, fld := range h.Type.Results.List {
				for _, nm := range fld.Names {
					if i == rpos {
						mobj = h.Info().Defs[nm]
					}
					i++
				}
			}
			for _, ret := range h.Graph().Returns() {
				if rs, ok := ret.AST.(*ast.ReturnStmt); ok && rpos < len(rs.Results) {
					mobj = h.ObjOf(rs.Results[rpos])
				}
			}
			if mobj == nil {
				continue
			}
			b := built{helper: h, result: rpos, fill: map[*types.Var]bool{}}
			ir.Walk(h.Body, false, func(x ast.Node) {
				rs, ok := x.(*ast.RangeStmt)
				if !ok || rs.Key == nil {
					return
				}
				fld := h.FieldOf(rs.X)
				if fld != pf.txns && fld != pf.v2txns {
					return
				}
				key := h.ObjOf(rs.Key)
				for _, w := range h.WritesIn(rs.Body, false) {
					if ix, ok := ast.Unparen(w.LHS).(*ast.IndexExpr); ok && h.ObjOf(ix.X) == mobj && w.RHS != nil && h.ObjOf(w.RHS) == key {
						b.fill[fld] = true
					}
				}
			})
			if len(b.fill) > 0 {
				maps = append(maps, b)
			}
		}
	}
	if len(maps) == 0 {
		ir.Fail("no position map built from the pool lists found")
	}
	builders := map[*types.Func]bool{}
	for _, b := range maps {
		builders[b.helper.Obj] = true
	}
	roleStop := getChainRoles(c.P).stop
	callers := c.P.Views("chain", ir.ExpandOpt{Key: "position-maps", Stop: func(fn *types.Func) bool { return builders[fn] || roleStop(fn) }}).Roots
	for _, b := range maps {
		c.VisitGraph(b.helper)
		ob := c.Ob(b.helper, fmt.Sprintf("position-map-single-kind/result%d", b.result), b.helper.Body.Pos())
		if len(b.fill) != 1 {
			ob.Bad(nil, "%s fills one position map from both pool lists: a position of a v1 transaction is indistinguishable from a position of a v2 transaction, so parent lookups subscript the wrong list (wrong parent or index-out-of-range panic)", b.helper.Name())
			continue
		}
		ob.OK("filled from one list")
		var fill *types.Var
		for f := range b.fill {
			fill = f
		}
		// uses in callers (their helpers and closures expanded, the map builders kept as calls)
		for _, caller := range callers {
			for _, call := range caller.CallsTo(false, b.helper.Obj) {
				n := caller.Graph().NodeContaining(call.Pos())
				as, ok := n.AST.(*ast.AssignStmt)
				if !ok || b.result >= len(as.Lhs) {
					continue
				}
				mobj := caller.ObjOf(as.Lhs[b.result])
				if mobj == nil {
					continue
				}
				for _, fn := range append([]*ir.Func{caller}, caller.Lits...) {
					// positions read from the map
					posVars := map[types.Object]bool{}
					for _, w := range fn.WritesIn(fn.Body, false) {
						rhs := w.RHS
						if rhs == nil {
							rhs = ir.TupleRHS(w.Stmt)
						}
						if ix, ok := ast.Unparen(rhs).(*ast.IndexExpr); ok && fn.ObjOf(ix.X) == mobj {
							if as2, ok := w.Stmt.(*ast.AssignStmt); ok && as2.Lhs[0] == w.LHS {
								posVars[fn.ObjOf(w.LHS)] = true
							}
						}
					}
					// positions may be collected in a list first (a worklist of positions) and used from there
					posLists := map[types.Object]bool{}
					for _, w := range fn.WritesIn(fn.Body, false) {
						if w.RHS == nil {
							continue
						}
						if ac, ok := ast.Unparen(w.RHS).(*ast.CallExpr); ok && len(ac.Args) == 2 {
							if id, ok := ac.Fun.(*ast.Ident); ok && id.Name == "append" && posVars[fn.ObjOf(ac.Args[1])] {
								if lo := fn.ObjOf(w.LHS); lo != nil {
									posLists[lo] = true
								}
							}
						}
					}
					ir.Walk(fn.Body, false, func(x ast.Node) {
						if rs, ok := x.(*ast.RangeStmt); ok && rs.Value != nil && posLists[fn.ObjOf(rs.X)] {
							if vo := fn.ObjOf(rs.Value); vo != nil {
								posVars[vo] = true
							}
						}
					})
					isPos := func(e ast.Expr) bool {
						if posVars[fn.ObjOf(e)] {
							return true
						}
						if inner, ok := ast.Unparen(e).(*ast.IndexExpr); ok && posLists[fn.ObjOf(inner.X)] {
							return true
						}
						return false
					}
					ir.Walk(fn.Body, false, func(x ast.Node) {
						ix, ok := x.(*ast.IndexExpr)
						if !ok || !isPos(ix.Index) {
							return
						}
						fld := fn.FieldOf(ix.X)
						if fld == nil {
							// a local bound once to the list (a helper's parameter) is the list
							fld = fn.FieldOf(origin(fn, ix.X))
						}
						if fld != pf.txns && fld != pf.v2txns {
							return
						}
						c.Visit(1)
						ob2 := c.Ob(caller, "position-used-on-its-own-list", ix.Pos())
						ob2.Check(fld == fill, nil, "a position taken from the map built over txpool.%s subscripts txpool.%s at %s", fill.Name(), fld.Name(), c.P.Pos(ix.Pos()))
					})
				}
			}
		}
	}
}

// c14r6: "known" must mean that *every* transaction of the set was already
// pooled. The set checker's flag may therefore only ever be lowered: it starts
// true and every later write is the constant false (or a conjunction with
// itself). A plain `flag = inPool` per transaction makes the last transaction
// decide, and a set whose earlier members are new is dropped as known.
func c14r6(c *Ctx) {
	pf := getPoolFields(c.P)
	n := 0
	for _, f := range c.P.MethodsOf("chain", "Manager") {
		if exported(f) || f.Type.Results == nil || f.Type.Results.NumFields() != 2 {
			continue
		}
		res := f.Obj.Type().(*types.Signature).Results()
		if !isBasicKind(types.Bool)(res.At(0).Type()) || !ir.IsErrorType(res.At(1).Type()) || !f.MentionsField(f.Body, false, pf.indices) {
			continue
		}
		g := f.Graph()
		c.VisitGraph(f)
		for _, ret := range g.Returns() {
			if f.ClassifyReturn(ret) != ir.RetSuccess {
				continue
			}
			rs := ret.AST.(*ast.ReturnStmt)
			if len(rs.Results) != 2 {
				continue
			}
			k := f.ObjOf(rs.Results[0])
			if k == nil {
				continue
			}
			n++
			ob := c.Ob(f, "known-flag-only-lowered", ret.Pos())
			startsTrue, bad := false, ""
			for _, d := range wholeDefs(f, k) {
				if d.RHS == nil {
					bad = c.P.Pos(d.LHS.Pos())
					continue
				}
				if tv, ok := f.Info().Types[d.RHS]; ok && tv.Value != nil {
					if tv.Value.String() == "true" {
						if d.Tok == token.DEFINE {
							startsTrue = true
						} else {
							bad = c.P.Pos(d.LHS.Pos()) // raised again later
						}
					}
					continue // constant false
				}
				if be, ok := ast.Unparen(d.RHS).(*ast.BinaryExpr); ok && be.Op == token.LAND && (f.ObjOf(be.X) == k || f.ObjOf(be.Y) == k) {
					continue
				}
				bad = c.P.Pos(d.LHS.Pos())
			}
			ob.Check(startsTrue && bad == "", nil, "the flag returned as `known` at %s is not a conjunction over the whole set (it must start true and only ever be lowered; offending write at %s): a set whose last transaction is pooled but an earlier one is new is reported as known, dropped and not relayed", c.P.Pos(ret.Pos()), bad)
		}
	}
	// the same statement per path, on the exported adders with their helpers expanded (the test may be a library
	// search over the ids, a helper returning a bare bool, a flag): once any lookup in the id→position map has
	// missed, `known` is not reported true
	for _, raw := range c.P.MethodsOf("chain", "Manager") {
		if !exported(raw) || raw.Type.Results == nil || raw.Type.Results.NumFields() != 2 {
			continue
		}
		res := raw.Obj.Type().(*types.Signature).Results()
		if !isBasicKind(types.Bool)(res.At(0).Type()) || !ir.IsErrorType(res.At(1).Type()) {
			continue
		}
		f := getChainRoles(c.P).view(raw)
		if f == nil || !f.MentionsField(f.Body, false, pf.indices) {
			continue
		}
		_, miss := mapTests(f, pf.indices)
		if len(miss) == 0 {
			continue
		}
		n++
		c.VisitGraph(f)
		ob := c.Ob(f, "known-false-after-any-miss", f.Body.Pos())
		var st []*cfgx.Visit
		for _, e := range miss {
			st = append(st, cfgx.StartAfter(e, 0))
		}
		bad := ""
		f.ExploreFeasibleWith(st, cfgx.Walker{}, func(v *cfgx.Visit, val func(types.Object) uint64) {
			rs, isRet := v.Node.AST.(*ast.ReturnStmt)
			if !isRet || len(rs.Results) != 2 || bad != "" {
				return
			}
			k := ast.Unparen(rs.Results[0])
			if tv, ok := f.Info().Types[k]; ok && tv.Value != nil {
				if tv.Value.String() == "true" {
					bad = c.P.Pos(rs.Pos())
				}
				return
			}
			if o := f.ObjOf(k); o != nil {
				if val(o) == 2 { // known false on this path
					return
				}
				// a flag the engine does not follow here: leave it to the flag rule above
				if _, isVar := o.(*types.Var); isVar && val(o) == 3 && len(wholeDefs(f, o)) > 0 {
					onlyLowered := true
					for _, d := range wholeDefs(f, o) {
						if d.RHS == nil {
							continue
						}
						if tv, ok := f.Info().Types[d.RHS]; ok && tv.Value != nil {
							continue
						}
						if be, ok := ast.Unparen(d.RHS).(*ast.BinaryExpr); ok && be.Op == token.LAND && (f.ObjOf(be.X) == o || f.ObjOf(be.Y) == o) {
							continue
						}
						onlyLowered = false
					}
					if onlyLowered {
						return
					}
				}
			}
			bad = c.P.Pos(rs.Pos())
		})
		ob.Check(bad == "", nil, "after a transaction of the set was not found in the pool's index, %s can still report the set as known at %s: a set with a new transaction in it is dropped and not relayed", f.Name(), bad)
	}
	if n == 0 {
		ir.Fail("set checker (a Manager method returning (bool, error) that consults the pool index) not found")
	}
}

// c14r7: registrations in the id→position map are paired with the append of the transaction.
func c14r7(c *Ctx) {
	pf := getPoolFields(c.P)
	for _, f := range getChainRoles(c.P).methodsV {
		g := f.Graph()
		isReg := func(n *cfgx.Node) (ast.Expr, ast.Expr, bool) {
			if n.AST == nil {
				return nil, nil, false
			}
			for _, w := range f.WritesIn(n.AST, false) {
				if ix, ok := ast.Unparen(w.LHS).(*ast.IndexExpr); ok && f.FieldOf(ix.X) == pf.indices && w.RHS != nil {
					return ix.Index, w.RHS, true
				}
			}
			return nil, nil, false
		}
		visited := false
		for _, n := range g.Nodes {
			key, val, ok := isReg(n)
			if !ok {
				continue
			}
			if !visited {
				c.VisitGraph(f)
				visited = true
			}
			ob := c.Ob(f, "registration-paired-with-append", n.Pos())
			lst := lenOf(f, val)
			if lst == nil {
				lst = lenOf(f, origin(f, val)) // the position handed to a registering helper
			}
			// the other spelling of "append": a write cursor — `indices[id] = k; list[k] = txn; k++`, the list cut to
			// `list[:k]` afterwards; k only ever set to 0 or advanced by one
			var cursor types.Object
			if lst == nil {
				if v, ok := f.ObjOf(ast.Unparen(val)).(*types.Var); ok && !v.IsField() && v.Parent() != v.Pkg().Scope() {
					okCursor := true
					for _, w := range f.WritesIn(f.Body, false) {
						if f.ObjOf(w.LHS) != types.Object(v) {
							continue
						}
						if w.RHS == nil {
							if _, isRange := w.Stmt.(*ast.RangeStmt); isRange || w.Tok == token.DEC {
								okCursor = false
							}
							continue // k++ (or a declaration without value)
						}
						if cv, isC := f.ConstInt(w.RHS); isC && ((cv == 0 && w.Tok != token.ADD_ASSIGN) || (cv == 1 && w.Tok == token.ADD_ASSIGN)) {
							continue
						}
						if be, ok := ast.Unparen(w.RHS).(*ast.BinaryExpr); ok && be.Op == token.ADD && f.ObjOf(be.X) == types.Object(v) {
							if cv, isC := f.ConstInt(be.Y); isC && cv == 1 {
								continue
							}
						}
						okCursor = false
					}
					if okCursor {
						for _, w := range f.WritesIn(f.Body, false) {
							if ix, ok := ast.Unparen(w.LHS).(*ast.IndexExpr); ok && f.ObjOf(ix.Index) == types.Object(v) {
								if fl := f.FieldOf(ix.X); fl == pf.txns || fl == pf.v2txns {
									// the list must be cut to the cursor
									for _, w2 := range f.WritesIn(f.Body, false) {
										if se, ok := ast.Unparen(w2.RHS).(*ast.SliceExpr); w2.RHS != nil && ok && sameLvalue(f, w2.LHS, ix.X) && sameLvalue(f, se.X, ix.X) && se.Low == nil && se.High != nil && f.ObjOf(se.High) == types.Object(v) {
											// and this store must be the one that follows this registration (same iteration)
											hd, _, _ := enclosingRange(f, n)
											var from []*cfgx.Visit
											for _, e := range n.Succs {
												from = append(from, cfgx.StartAfter(e, 0))
											}
											sn := g.NodeContaining(w.LHS.Pos())
											if _, ok := g.Reach(from, func(m *cfgx.Node) bool { return m == hd })[sn]; ok || sn == n {
												cursor, lst = v, ix.X
											}
										}
									}
								}
							}
						}
					}
				}
			}
			if lst == nil {
				ob.Bad(nil, "the position stored for an id at %s is not the length of the list the transaction is appended to", c.P.Pos(n.Pos()))
				continue
			}
			// the list: a pool list, or a local that is stored as one
			lobj := f.ObjOf(lst)
			lfld := f.FieldOf(lst)
			isPoolList := lfld == pf.txns || lfld == pf.v2txns
			if !isPoolList && lobj != nil {
				for _, w := range f.WritesIn(f.Body, false) {
					if fl := f.FieldOf(w.LHS); (fl == pf.txns || fl == pf.v2txns) && w.RHS != nil && f.ObjOf(w.RHS) == lobj {
						isPoolList = true
					}
				}
			}
			if !isPoolList {
				ob.Bad(nil, "the position stored for an id at %s is the length of %s, which is not (stored as) one of the pool's lists", c.P.Pos(n.Pos()), ir.ExprString(lst))
				continue
			}
			// the transaction the id belongs to: id is X.ID() directly or through single definitions
			var txn types.Object
			if call, ok := ast.Unparen(origin(f, key)).(*ast.CallExpr); ok {
				if sel, ok := ast.Unparen(call.Fun).(*ast.SelectorExpr); ok && sel.Sel.Name == "ID" {
					txn = f.ObjOf(sel.X)
				}
			}
			appends := func(m *cfgx.Node) bool {
				if m.AST == nil {
					return false
				}
				for _, w := range f.WritesIn(m.AST, false) {
					if cursor != nil {
						// the increment that publishes the slot; the store itself is checked below
						if f.ObjOf(w.LHS) == cursor {
							return true
						}
						continue
					}
					if !sameLvalue(f, w.LHS, lst) || w.RHS == nil {
						continue
					}
					ac, ok := ast.Unparen(w.RHS).(*ast.CallExpr)
					if !ok || len(ac.Args) != 2 || ac.Ellipsis.IsValid() {
						continue
					}
					if id, ok := ac.Fun.(*ast.Ident); !ok || id.Name != "append" || !sameLvalue(f, ac.Args[0], lst) {
						continue
					}
					if txn == nil || f.ObjOf(ac.Args[1]) == txn {
						return true
					}
				}
				return false
			}
			head, _, _ := enclosingRange(f, n)
			var st []*cfgx.Visit
			for _, e := range n.Succs {
				st = append(st, cfgx.StartAfter(e, 0))
			}
			var leak *cfgx.Visit
			what := ""
			for m, v := range g.Reach(st, appends) {
				switch {
				case appends(m):
				case m == g.Exit:
					leak, what = v, "the function exits"
				case head != nil && m == head:
					leak, what = v, "the loop comes round again"
				case m != n:
					if _, _, again := isReg(m); again {
						leak, what = v, "another id is registered"
					}
				}
			}
			if leak == nil && cursor != nil {
				// between the registration and the increment the transaction is stored at the cursor
				stores := func(m *cfgx.Node) bool {
					if m.AST == nil {
						return false
					}
					for _, w := range f.WritesIn(m.AST, false) {
						if ix, ok := ast.Unparen(w.LHS).(*ast.IndexExpr); ok && sameLvalue(f, ix.X, lst) && f.ObjOf(ix.Index) == cursor && w.RHS != nil && (txn == nil || f.ObjOf(w.RHS) == txn) {
							return true
						}
					}
					return false
				}
				for m, v := range g.Reach(st, stores) {
					if !stores(m) && appends(m) {
						leak, what = v, "the cursor advances"
					}
				}
				if stores(n) {
					leak = nil
				}
			}
			if leak != nil {
				ob.Bad(c.Witness(leak), "after the id is entered into the id→position map at %s %s without its transaction having been appended to %s: the map names a transaction that is not pooled (a resubmitted set is reported as known, lookups return a different transaction)", c.P.Pos(n.Pos()), what, ir.ExprString(lst))
			} else {
				ob.OK("every path appends the transaction before the next registration, iteration or exit")
			}
		}
	}
}
