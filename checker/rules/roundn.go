package rules

import (
	"fmt"
	"go/ast"
	"go/token"
	"go/types"
	"sort"
	"strings"

	"sialint/internal/cfgx"
	"sialint/internal/ir"
)

// Rules added in seed round n.
func init() {
	Explanations["C20"] += " (R7) every one of the 64 bits of the key index reaches the derivation's hash input: the index parameter of the key-derivation function is used whole in a 64-bit position, or through narrowing conversions whose (constant-shift) bit windows together cover bits 0..63."
	Explanations["C19"] += " (R8) DBStore.PruneBlock rewrites the record header-only whenever the record exists and still has a body: the conditions guarding the write hold for every value of anything other than the existence flag and the body pointer (a guard on the supplement or on header data leaves bodies of such records in place)."

	register(&Rule{ID: "C20.R7", Prop: "C20", Floor: 1, Doc: "all 64 bits of the key index reach the hash input of the key derivation", Run: c20r7})
	register(&Rule{ID: "C19.R8", Prop: "C19", Floor: 1, Doc: "the header-only rewrite is reached for every existing record that still has a body", Run: c19r8})
	mutant(Mutant{Rule: "C20.R7", Name: "index-truncated-to-32-bits", File: "wallet/seed.go",
		Old: "binary.LittleEndian.PutUint64(buf[32:], index)", New: "binary.LittleEndian.PutUint32(buf[32:], uint32(index))"})
	mutant(Mutant{Rule: "C20.R7", Name: "index-ignored", File: "wallet/seed.go",
		Old: "binary.LittleEndian.PutUint64(buf[32:], index)", New: "binary.LittleEndian.PutUint64(buf[32:], 0)"})
	mutant(Mutant{Rule: "C19.R8", Name: "prune-only-records-with-supplement", File: "chain/db.go",
		Old: "\tif bh, _, _, ok := db.getBlock(id); ok {\n\t\tdb.putBlock(bh, nil, nil)", New: "\tif bh, _, bs, ok := db.getBlock(id); ok && bs != nil {\n\t\tdb.putBlock(bh, nil, nil)"})
}

// intWidth returns the bit width of a basic integer type (0 if not an integer).
func intWidth(t types.Type) int {
	b, ok := t.Underlying().(*types.Basic)
	if !ok || b.Info()&types.IsInteger == 0 {
		return 0
	}
	switch b.Kind() {
	case types.Int8, types.Uint8:
		return 8
	case types.Int16, types.Uint16:
		return 16
	case types.Int32, types.Uint32:
		return 32
	}
	return 64
}

func c20r7(c *Ctx) {
	f := c.P.Fn("wallet", "", "KeyFromSeed")
	c.VisitGraph(f)
	ob := c.Ob(f, "index-bits-all-used", f.Body.Pos())
	var index types.Object
	for _, fld := range f.Type.Params.List {
		if b, ok := f.Info().TypeOf(fld.Type).Underlying().(*types.Basic); ok && b.Kind() == types.Uint64 {
			for _, nm := range fld.Names {
				index = f.Info().Defs[nm]
			}
		}
	}
	if index == nil {
		ob.Unknown("no uint64 index parameter")
		return
	}
	// parents, to look at the context of every use of the parameter
	parent := map[ast.Node]ast.Node{}
	var stack []ast.Node
	ast.Inspect(f.Body, func(n ast.Node) bool {
		if n == nil {
			stack = stack[:len(stack)-1]
			return false
		}
		if len(stack) > 0 {
			parent[n] = stack[len(stack)-1]
		}
		stack = append(stack, n)
		return true
	})
	var covered uint64
	uses := 0
	var windows []string
	ast.Inspect(f.Body, func(n ast.Node) bool {
		id, ok := n.(*ast.Ident)
		if !ok || f.Info().Uses[id] != index {
			return true
		}
		uses++
		c.Visit(1)
		// climb: parens, then an optional `>> const`, then an optional narrowing conversion
		var cur ast.Node = id
		up := func() ast.Node {
			p := parent[cur]
			for {
				if pe, ok := p.(*ast.ParenExpr); ok {
					cur, p = pe, parent[pe]
					continue
				}
				return p
			}
		}
		shift, shiftKnown := int64(0), true
		p := up()
		if be, ok := p.(*ast.BinaryExpr); ok && be.Op == token.SHR && ast.Unparen(be.X) == cur {
			if k, isConst := f.ConstInt(be.Y); isConst && k >= 0 {
				shift = k
			} else {
				shiftKnown = false
			}
			cur = be
			p = up()
		}
		if call, ok := p.(*ast.CallExpr); ok && len(call.Args) == 1 && ast.Unparen(call.Args[0]) == cur {
			if tv, ok := f.Info().Types[call.Fun]; ok && tv.IsType() {
				if w := intWidth(tv.Type); w > 0 && w < 64 && shiftKnown {
					if shift < 64 {
						hi := shift + int64(w)
						if hi > 64 {
							hi = 64
						}
						for b := shift; b < hi; b++ {
							covered |= 1 << uint(b)
						}
					}
					windows = append(windows, fmt.Sprintf("%s(index>>%d)", types.ExprString(call.Fun), shift))
					return true
				}
			}
		}
		// any other use (whole 64-bit argument, copy, variable shift in a loop, arithmetic): taken as using every bit
		covered = ^uint64(0)
		return true
	})
	if uses == 0 {
		ob.Bad(nil, "the index parameter is never used: every index derives the same key")
		return
	}
	if covered != ^uint64(0) {
		var missing []string
		for b := 0; b < 64; {
			if covered&(1<<uint(b)) != 0 {
				b++
				continue
			}
			e := b
			for e < 64 && covered&(1<<uint(e)) == 0 {
				e++
			}
			missing = append(missing, fmt.Sprintf("[%d,%d)", b, e))
			b = e
		}
		sort.Strings(windows)
		ob.Bad(nil, "the index reaches the hash input only through %s: bits %s never do, so indices that differ only there derive the same key and keys for such indices differ from blake2b(seed ‖ le64(index))", strings.Join(windows, ", "), strings.Join(missing, ","))
		return
	}
	ob.OK("ok")
}

// c19r8: in DBStore.PruneBlock every `if` that encloses the header-only write (and every early return before it)
// lets an existing record with a body through, whatever the record's other parts are.
func c19r8(c *Ctx) {
	s := getStoreRoles(c.P)
	prune := c.P.Fn("chain", "DBStore", "PruneBlock")
	c.VisitGraph(prune)
	ob := c.Ob(prune, "rewrite-reached-for-every-record-with-a-body", prune.Body.Pos())
	var write *ast.CallExpr
	for _, call := range prune.Calls(false) {
		if s.writers[call.Fn] {
			write = call.Expr
		}
	}
	if write == nil {
		ob.Bad(nil, "DBStore.PruneBlock performs no write")
		return
	}
	// guards: (condition, polarity required to reach the write)
	type guard struct {
		cond ast.Expr
		want bool
	}
	var guards []guard
	var path []ast.Node
	var found []ast.Node
	ast.Inspect(prune.Body, func(n ast.Node) bool {
		if n == nil {
			path = path[:len(path)-1]
			return false
		}
		path = append(path, n)
		if n == ast.Node(write) {
			found = append([]ast.Node(nil), path...)
		}
		return true
	})
	terminates := func(b *ast.BlockStmt) bool {
		if b == nil || len(b.List) == 0 {
			return false
		}
		_, ok := b.List[len(b.List)-1].(*ast.ReturnStmt)
		return ok
	}
	for i, n := range found {
		switch x := n.(type) {
		case *ast.IfStmt:
			if i+1 < len(found) {
				switch found[i+1] {
				case ast.Node(x.Body):
					guards = append(guards, guard{x.Cond, true})
				case x.Else:
					guards = append(guards, guard{x.Cond, false})
				}
			}
		case *ast.BlockStmt:
			// early returns among the preceding siblings
			if i+1 < len(found) {
				for _, st := range x.List {
					if st == found[i+1] {
						break
					}
					if is, ok := st.(*ast.IfStmt); ok && is.Else == nil && terminates(is.Body) {
						guards = append(guards, guard{is.Cond, false})
					}
				}
			}
		}
	}
	// atoms of the guards
	isBlockPtr := func(e ast.Expr) bool {
		t := prune.TypeOf(e)
		if t == nil {
			return false
		}
		pt, ok := t.(*types.Pointer)
		if !ok {
			return false
		}
		nm, ok := pt.Elem().(*types.Named)
		return ok && nm.Obj().Name() == "Block" && nm.Obj().Pkg() != nil && strings.HasSuffix(nm.Obj().Pkg().Path(), "/types")
	}
	var free []string
	freeIdx := map[string]int{}
	var eval func(e ast.Expr, asg uint) bool
	eval = func(e ast.Expr, asg uint) bool {
		e = ast.Unparen(e)
		switch x := e.(type) {
		case *ast.BinaryExpr:
			switch x.Op {
			case token.LAND:
				return eval(x.X, asg) && eval(x.Y, asg)
			case token.LOR:
				return eval(x.X, asg) || eval(x.Y, asg)
			}
			if y, nonNilOnTrue, ok := prune.NilTest(x); ok && isBlockPtr(y) {
				return nonNilOnTrue // the record still has its body
			}
		case *ast.UnaryExpr:
			if x.Op == token.NOT {
				return !eval(x.X, asg)
			}
		case *ast.Ident:
			if b, ok := prune.TypeOf(x).Underlying().(*types.Basic); ok && b.Kind() == types.Bool {
				if _, isVar := prune.ObjOf(x).(*types.Var); isVar {
					return true // the existence flag of the lookup
				}
			}
		}
		key := types.ExprString(e)
		k, ok := freeIdx[key]
		if !ok {
			k = len(free)
			freeIdx[key] = k
			free = append(free, key)
		}
		return asg&(1<<uint(k)) != 0
	}
	for _, g := range guards {
		eval(g.cond, 0) // collect atoms
	}
	if len(free) > 10 {
		ob.Unknown("too many conditions guard the rewrite (%d)", len(free))
		return
	}
	c.Visit(len(guards) << uint(len(free)))
	for asg := uint(0); asg < 1<<uint(len(free)); asg++ {
		for _, g := range guards {
			if eval(g.cond, asg) != g.want {
				var vals []string
				for k, a := range free {
					vals = append(vals, fmt.Sprintf("%s=%v", a, asg&(1<<uint(k)) != 0))
				}
				ob.Bad(nil, "an existing record that still has its body is not rewritten when %s (guard `%s` at %s): its body stays in the store below the pruned height — e.g. a block stored again after an earlier prune, whose supplement is nil, survives every later prune", strings.Join(vals, ", "), types.ExprString(g.cond), c.P.Pos(g.cond.Pos()))
				return
			}
		}
	}
	ob.OK("ok")
}

func init() {
	Explanations["C12"] += " (R11) Manager.Headers and Manager.BlocksForHistory start serving only from a point they compared with the best-chain index at its height (Store.BestIndex): a starting point that is merely known (on a side chain) must not be answered with best-chain data, which would not attach to it."
	register(&Rule{ID: "C12.R11", Prop: "C12", Floor: 2, Doc: "headers and blocks are served only from a starting point found equal to the best-chain index at its height", Run: c12r11})
	mutant(Mutant{Rule: "C12.R11", Name: "headers-from-any-known-index", File: "chain/manager.go",
		Old: "\tif bestIndex, ok := m.store.BestIndex(index.Height); !ok || bestIndex != index {", New: "\tif cs, ok := m.store.State(index.ID); !ok || cs.Index != index {"})
	mutant(Mutant{Rule: "C12.R11", Name: "history-attaches-to-any-known-block", File: "chain/manager.go",
		Old: "\t\t} else if index, ok := m.store.BestIndex(cs.Index.Height); ok && index == cs.Index {", New: "\t\t} else if _, ok := m.store.BestIndex(cs.Index.Height); ok {"})
}

func c12r11(c *Ctx) {
	r := getChainRoles(c.P)
	bestIndex := c.P.Method("chain", "Store", "BestIndex")
	for _, name := range []string{"Headers", "BlocksForHistory"} {
		base := c.P.Fn("chain", "Manager", name)
		v := r.view(base)
		if v == nil {
			v = base
		}
		c.VisitGraph(v)
		ob := c.Ob(base, "start-compared-with-best-index", base.Body.Pos())
		fromBest := func(e ast.Expr) bool {
			obj, _ := v.RootObj(e)
			if obj == nil {
				return false
			}
			call, idx := tupleDef(v, obj)
			if call == nil || idx != 0 {
				return false
			}
			fn := v.Callee(call)
			return fn != nil && bestIndex != nil && fn.Origin() == bestIndex.Origin()
		}
		found := 0
		ir.Walk(v.Body, true, func(n ast.Node) {
			be, ok := n.(*ast.BinaryExpr)
			if !ok || (be.Op != token.EQL && be.Op != token.NEQ) {
				return
			}
			c.Visit(1)
			for _, pair := range [][2]ast.Expr{{be.X, be.Y}, {be.Y, be.X}} {
				if !fromBest(pair[0]) || fromBest(pair[1]) {
					continue
				}
				if obj, _ := v.RootObj(pair[1]); obj != nil {
					if _, isVar := obj.(*types.Var); isVar {
						found++
					}
				}
			}
		})
		ob.Check(found > 0, nil, "Manager.%s never compares its starting point with the result of Store.BestIndex at that height: a starting point that is known but on a side chain is answered with best-chain data that does not attach to it — the requester cannot add what it fetched, drops the honest peer and stays on its lighter fork", name)
	}
}

// Rules added in seed round o.
func init() {
	Explanations["C17"] += " (R7) the in-memory backend's put and delete record the write in the session's pending table (a store into an entry of a per-bucket table held in a MemDB field) on every success path, whatever the committed table holds: as the overlay of the caching wrapper its committed table is empty, so a tombstone recorded only for committed keys lets reads fall through to the wrapped database and the flush never deletes the key there."
	Explanations["C13"] += " (R16) the elements a block confirmed are collected from the Created element diffs: every loop over an apply update's siacoin / siafund element diffs that files the element's state element under its id tests the diff's Created flag."
	register(&Rule{ID: "C17.R7", Prop: "C17", Floor: 2, Doc: "the in-memory backend records every accepted put / delete in its pending tables on every success path, independent of what is committed", Run: c17r7})
	register(&Rule{ID: "C13.R16", Prop: "C13", Floor: 2, Doc: "elements confirmed by a block are collected from the Created element diffs", Run: c13r16})
	mutant(Mutant{Rule: "C17.R7", Name: "tombstone-only-for-committed-keys", File: "chain/db.go",
		Old: "\tdb.dels[bucket][string(key)] = struct{}{}\n\tdelete(db.puts[bucket], string(key))\n", New: "\tdelete(db.puts[bucket], string(key))\n\tif _, ok := db.buckets[bucket][string(key)]; ok {\n\t\tdb.dels[bucket][string(key)] = struct{}{}\n\t}\n"})
	mutant(Mutant{Rule: "C13.R16", Name: "confirmed-siafund-elements-from-spent-diffs", File: "chain/manager.go",
		Old: "\t\t\tif sfed.Created {\n\t\t\t\tconfirmedStateElements[", New: "\t\t\tif sfed.Spent {\n\t\t\t\tconfirmedStateElements["})
}

func c17r7(c *Ctx) {
	n := 0
	mbT := memBucketType(c.P)
	for _, name := range []string{"Put", "Delete"} {
		raw := c.P.Fn("chain", mbT, name)
		if raw == nil {
			continue
		}
		// the function of the backend that performs the store: the bucket method itself or a helper of package chain
		// it calls (followed three levels deep)
		f := raw
		{
			level := []*ir.Func{raw}
			seen := map[*ir.Func]bool{raw: true}
			found := false
			for depth := 0; depth < 4 && !found; depth++ {
				var next []*ir.Func
				for _, cand := range level {
					if storesIntoNestedTable(cand) {
						f, found = cand, true
						break
					}
					for _, call := range cand.Calls(false) {
						if call.Fn == nil || call.Fn.Pkg() == nil || call.Fn.Pkg().Path() != ir.PkgPath("chain") {
							continue
						}
						if g := c.P.FuncOf(call.Fn); g != nil && g.Body != nil && !seen[g] {
							seen[g] = true
							next = append(next, g)
						}
					}
				}
				level = next
			}
		}
		n++
		g := f.Graph()
		c.VisitGraph(f)
		ob := c.Ob(f, "pending-table-written-on-every-success-path", f.Body.Pos())
		recv := recvNamed(f.Obj)
		// stores into an entry of a per-bucket table: X[k] = v where X is an entry of a map field of the receiver type,
		// or a local defined from such an entry
		fromField := func(e ast.Expr) bool {
			_, path := f.RootObj(e)
			for _, fld := range path {
				if _, isMap := fld.Type().Underlying().(*types.Map); isMap && recv != nil {
					return true
				}
			}
			return false
		}
		isStore := map[ast.Node]bool{}
		ir.Walk(f.Body, false, func(x ast.Node) {
			as, ok := x.(*ast.AssignStmt)
			if !ok {
				return
			}
			for _, lhs := range as.Lhs {
				ix, ok := ast.Unparen(lhs).(*ast.IndexExpr)
				if !ok {
					continue
				}
				inner := ast.Unparen(ix.X)
				if _, twoLevel := inner.(*ast.IndexExpr); twoLevel && fromField(inner) {
					isStore[as] = true
				} else if id, isID := inner.(*ast.Ident); isID {
					if obj := f.ObjOf(id); obj != nil {
						if _, isMap := obj.Type().Underlying().(*types.Map); !isMap {
							continue
						}
						// a local table taken from an entry of a map field, directly or through a helper it is handed to
						var srcs []ast.Expr
						for _, d := range wholeDefs(f, obj) {
							if d.RHS != nil {
								srcs = append(srcs, d.RHS)
							}
						}
						if call, _ := tupleDef(f, obj); call != nil {
							srcs = append(srcs, call)
						}
						for _, src := range srcs {
							ast.Inspect(src, func(n ast.Node) bool {
								if sel, ok := n.(*ast.SelectorExpr); ok {
									if fld := f.FieldOf(sel); fld != nil {
										if mt, isMap := fld.Type().Underlying().(*types.Map); isMap {
											if _, nested := mt.Elem().Underlying().(*types.Map); nested {
												isStore[as] = true
											}
										}
									}
								}
								return true
							})
						}
					}
				}
			}
		})
		if len(isStore) == 0 {
			ob.Unknown("no store into a per-bucket pending table recognised in %s", f.Name())
			continue
		}
		records := func(nd *cfgx.Node) bool {
			if nd.AST == nil {
				return false
			}
			hit := false
			for st := range isStore {
				if nd.AST == st || (nd.AST.Pos() <= st.Pos() && st.End() <= nd.AST.End()) {
					hit = true
				}
			}
			return hit
		}
		var wit *cfgx.Visit
		for nd, v := range g.Reach([]*cfgx.Visit{cfgx.StartAt(g.Entry, 0)}, records) {
			if _, isRet := nd.AST.(*ast.ReturnStmt); isRet && f.ClassifyReturn(nd) != ir.RetError && wit == nil {
				wit = v
			}
		}
		if wit != nil {
			ob.Bad(c.Witness(wit), "%s can report success without recording the write in the session's pending table: as the caching wrapper's overlay (whose committed table is empty) it then leaves no trace, so reads fall through to the wrapped database and the flush does not carry the write", f.Name())
		} else {
			ob.OK("every success path records the write")
		}
	}
	if n == 0 {
		ir.Fail("the in-memory bucket's Put / Delete not found")
	}
}

func c13r16(c *Ctx) {
	n := 0
	for _, f := range c.P.PkgFuncs("chain") {
		if f.Body == nil {
			continue
		}
		ir.Walk(f.Body, true, func(x ast.Node) {
			rs, ok := x.(*ast.RangeStmt)
			if !ok || rs.Value == nil {
				return
			}
			call, ok := ast.Unparen(rs.X).(*ast.CallExpr)
			if !ok {
				return
			}
			fn := f.Callee(call)
			if fn == nil || (fn.Name() != "SiacoinElementDiffs" && fn.Name() != "SiafundElementDiffs") {
				return
			}
			if rn := recvNamed(fn); rn == nil || rn.Obj().Name() != "ApplyUpdate" {
				return
			}
			lv := f.ObjOf(rs.Value)
			if lv == nil {
				return
			}
			// does the body file the element's state element in a map?
			files := false
			ir.Walk(rs.Body, true, func(y ast.Node) {
				as, ok := y.(*ast.AssignStmt)
				if !ok || len(as.Lhs) != 1 || len(as.Rhs) != 1 {
					return
				}
				ix, ok := ast.Unparen(as.Lhs[0]).(*ast.IndexExpr)
				if !ok {
					return
				}
				if _, isMap := f.TypeOf(ix.X).Underlying().(*types.Map); !isMap {
					return
				}
				if f.MentionsObj(as.Rhs[0], true, lv) && strings.Contains(types.ExprString(as.Rhs[0]), "StateElement") {
					files = true
				}
			})
			if !files {
				return
			}
			n++
			c.Visit(1)
			ob := c.Ob(f, "confirmed-elements-from-created-diffs:"+fn.Name(), rs.Pos())
			tested := false
			ir.Walk(rs.Body, true, func(y ast.Node) {
				var cond ast.Expr
				switch s := y.(type) {
				case *ast.IfStmt:
					cond = s.Cond
				case *ast.CaseClause:
					for _, e := range s.List {
						if mentionsFieldOf(f, e, lv, "Created") {
							tested = true
						}
					}
				}
				if cond != nil && mentionsFieldOf(f, cond, lv, "Created") {
					tested = true
				}
			})
			ob.Check(tested, nil, "the loop over %s files state elements under their ids without testing the diff's Created flag: elements that were spent (not created) by the block are taken for the confirmed versions of ephemeral parents, and a child of a parent confirmed on the way keeps an unassigned leaf index and no proof", fn.Name())
		})
	}
	if n == 0 {
		ir.Fail("no loop collecting confirmed elements from an apply update's element diffs found in package chain")
	}
}

func mentionsFieldOf(f *ir.Func, e ast.Expr, obj types.Object, field string) bool {
	found := false
	ast.Inspect(e, func(n ast.Node) bool {
		if sel, ok := n.(*ast.SelectorExpr); ok && sel.Sel.Name == field {
			if root, _ := f.RootObj(sel.X); root == obj {
				found = true
			}
		}
		return true
	})
	return found
}

// storesIntoNestedTable: does f assign to an entry of a map (the cheap recogniser used to pick the function c17r7 analyses)?
func storesIntoNestedTable(f *ir.Func) bool {
	hit := false
	ir.Walk(f.Body, false, func(x ast.Node) {
		as, ok := x.(*ast.AssignStmt)
		if !ok {
			return
		}
		for _, lhs := range as.Lhs {
			if ix, ok := ast.Unparen(lhs).(*ast.IndexExpr); ok {
				if _, isMap := f.TypeOf(ix.X).Underlying().(*types.Map); isMap {
					if _, isBasic := f.TypeOf(ix.Index).Underlying().(*types.Basic); isBasic {
						if _, inner := ast.Unparen(ix.X).(*ast.IndexExpr); inner {
							hit = true
						} else if _, isID := ast.Unparen(ix.X).(*ast.Ident); isID {
							hit = true
						}
					}
				}
			}
		}
	})
	return hit
}

// Rule added in seed round p.
func init() {
	Explanations["C02"] += " (R8) every tree node an apply or revert update hands to the store is written: in the visitor passed to ForEachTreeNode no path reaches the end without the bucket write (a node skipped on revert keeps the hash of the reverted block and later becomes a proof sibling)."
	register(&Rule{ID: "C02.R8", Prop: "C02", Floor: 2, Doc: "the visitor handed to ForEachTreeNode writes every node it is given (no path around the bucket write)", Run: c02r8})
	mutant(Mutant{Rule: "C02.R8", Name: "revert-skips-top-rows", File: "chain/db.go",
		Old: "\tcru.ForEachTreeNode(func(row, col uint64, h types.Hash256) {\n", New: "\tcru.ForEachTreeNode(func(row, col uint64, h types.Hash256) {\n\t\tif row > 40 {\n\t\t\treturn\n\t\t}\n"})
}

func c02r8(c *Ctx) {
	put := c.P.Method("chain", "DBBucket", "Put")
	n := 0
	for _, f := range c.P.PkgFuncs("chain") {
		if f.Body == nil {
			continue
		}
		for _, call := range f.Calls(true) {
			if call.Fn == nil || call.Fn.Name() != "ForEachTreeNode" || len(call.Expr.Args) != 1 {
				continue
			}
			if rn := recvNamed(call.Fn); rn == nil || (rn.Obj().Name() != "ApplyUpdate" && rn.Obj().Name() != "RevertUpdate") {
				continue
			}
			var lf *ir.Func
			if lit, ok := ast.Unparen(call.Expr.Args[0]).(*ast.FuncLit); ok {
				lf = c.P.LitOf(lit)
			} else if fn := funcRef(f, call.Expr.Args[0]); fn != nil {
				lf = c.P.FuncOf(fn)
			}
			n++
			ob := c.Ob(f, "every-node-written", call.Pos())
			if lf == nil || lf.Body == nil {
				ob.Unknown("the visitor handed to ForEachTreeNode is not a literal or a declared function")
				continue
			}
			g := lf.Graph()
			c.VisitGraph(lf)
			writes := func(nd *cfgx.Node) bool {
				if nd.AST == nil {
					return false
				}
				for _, c2 := range lf.NodeCalls(nd) {
					if c2.Fn != nil && (c2.Fn == put || reaches(c.P, c2.Fn, put, 3)) {
						return true
					}
				}
				return false
			}
			any := false
			for _, nd := range g.Nodes {
				if writes(nd) {
					any = true
				}
			}
			if !any {
				ob.Unknown("no bucket write recognised in the visitor")
				continue
			}
			reach := g.Reach([]*cfgx.Visit{cfgx.StartAt(g.Entry, 0)}, writes)
			if v, ok := reach[g.Exit]; ok {
				ob.Bad(c.Witness(v), "the visitor handed to ForEachTreeNode can finish without writing the node it was given: the stored tree keeps a hash from another block at that position, and the proofs the store hands out later (once the node is a proof sibling) differ from those of a node that saw the chain linearly")
			} else {
				ob.OK("every path writes the node")
			}
		}
	}
	if n == 0 {
		ir.Fail("no ForEachTreeNode call found in package chain")
	}
}
