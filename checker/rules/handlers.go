package rules

import (
	"go/ast"
	"go/token"
	"go/types"
	"os"
	"strings"

	"sialint/internal/cfgx"
	"sialint/internal/ir"
)

// wholeDefs lists the whole-variable writes to obj inside f (not in nested literals).
func wholeDefs(f *ir.Func, obj types.Object) []ir.Write {
	var out []ir.Write
	for _, w := range f.WritesIn(f.Body, false) {
		if id, ok := ast.Unparen(w.LHS).(*ast.Ident); ok && f.ObjOf(id) == obj {
			out = append(out, w)
		}
	}
	if len(out) > 0 || f.Lit == nil {
		return out
	}
	// a variable captured from an enclosing function is defined there: search the whole declared function
	if _, ok := obj.(*types.Var); ok {
		for _, w := range f.WritesIn(f.Top().Body, true) {
			if id, ok := ast.Unparen(w.LHS).(*ast.Ident); ok && f.ObjOf(id) == obj {
				out = append(out, w)
			}
		}
	}
	return out
}

// origin resolves an expression through single-assignment local variables to
// the expression that defines it (at most 6 hops).
func origin(f *ir.Func, e ast.Expr) ast.Expr {
	for i := 0; i < 6; i++ {
		e = ast.Unparen(e)
		// x.F where x's only definition is a composite literal with key F
		if sel, ok := e.(*ast.SelectorExpr); ok {
			if xo := f.ObjOf(sel.X); xo != nil && f.Info().Selections[sel] != nil {
				if defs := wholeDefs(f, xo); len(defs) == 1 && defs[0].RHS != nil {
					if cl, ok := ast.Unparen(defs[0].RHS).(*ast.CompositeLit); ok && !fieldWritten(f, xo, sel.Sel.Name) {
						found := false
						for _, el := range cl.Elts {
							if kv, ok := el.(*ast.KeyValueExpr); ok {
								if k, ok := kv.Key.(*ast.Ident); ok && k.Name == sel.Sel.Name {
									e, found = kv.Value, true
								}
							}
						}
						if found {
							continue
						}
					}
				}
			}
			return e
		}
		id, ok := e.(*ast.Ident)
		if !ok {
			return e
		}
		obj := f.ObjOf(id)
		if obj == nil {
			return e
		}
		defs := wholeDefs(f, obj)
		if len(defs) == 2 {
			// `var x T` followed by one assignment that dominates this use
			if d, ok := soleAssignmentAfterDecl(f, defs, id); ok {
				e = d.RHS
				continue
			}
		}
		if len(defs) > 1 {
			// placeholders on a helper's failure path (a bare declaration, nil, `T{}`) next to the one definition
			// that carries a value, which dominates this use
			var real []ir.Write
			for _, d := range defs {
				if vs, ok := d.Stmt.(*ast.ValueSpec); ok && len(vs.Values) == 0 {
					continue
				}
				if d.RHS != nil {
					if f.IsNil(d.RHS) {
						continue
					}
					if cl, ok := ast.Unparen(d.RHS).(*ast.CompositeLit); ok && len(cl.Elts) == 0 {
						continue
					}
				}
				real = append(real, d)
			}
			if len(real) == 1 && real[0].RHS != nil {
				g := f.Graph()
				un, an := g.NodeContaining(id.Pos()), g.NodeContaining(real[0].LHS.Pos())
				if un != nil && an != nil && un != an && g.DominatedByNode(un, an) {
					e = real[0].RHS
					continue
				}
			}
		}
		if len(defs) != 1 || defs[0].RHS == nil {
			return e
		}
		e = defs[0].RHS
	}
	return e
}

// soleAssignmentAfterDecl: defs is {bare declaration, one 1:1 assignment} and
// the assignment's node dominates the node using the variable at `use`.
func soleAssignmentAfterDecl(f *ir.Func, defs []ir.Write, use ast.Node) (ir.Write, bool) {
	var decl, asg *ir.Write
	for i := range defs {
		if vs, ok := defs[i].Stmt.(*ast.ValueSpec); ok && len(vs.Values) == 0 {
			decl = &defs[i]
		} else {
			asg = &defs[i]
		}
	}
	if decl == nil || asg == nil || asg.RHS == nil {
		return ir.Write{}, false
	}
	g := f.Graph()
	un, an := g.NodeContaining(use.Pos()), g.NodeContaining(asg.LHS.Pos())
	if un == nil || an == nil || un == an || !g.DominatedByNode(un, an) {
		return ir.Write{}, false
	}
	return *asg, true
}

// deadDef: no node that mentions obj is reachable from the definition d (other than d's own node).
func deadDef(f *ir.Func, obj types.Object, d ir.Write) bool {
	g := f.Graph()
	dn := g.NodeContaining(d.LHS.Pos())
	if dn == nil || d.RHS == nil {
		return false
	}
	if _, isCall := ast.Unparen(d.RHS).(*ast.CallExpr); isCall {
		return false
	}
	var st []*cfgx.Visit
	for _, e := range dn.Succs {
		st = append(st, cfgx.StartAfter(e, 0))
	}
	for m := range g.Reach(st, nil) {
		if m.AST != nil && f.MentionsObj(m.AST, true, obj) {
			return false
		}
	}
	return true
}

// copySource follows whole-value copies `x = y` / `x, … = y, …`: when obj's
// only definition besides a bare declaration is a copy of another local
// variable, and that source is not written on any path after the copy, the
// source variable is returned (repeatedly, at most 4 hops).
func copySource(f *ir.Func, obj types.Object) types.Object {
	for i := 0; i < 4 && obj != nil; i++ {
		var asg *ir.Write
		n := 0
		defs := wholeDefs(f, obj)
		for j := range defs {
			if vs, ok := defs[j].Stmt.(*ast.ValueSpec); ok && len(vs.Values) == 0 {
				continue
			}
			// the value a helper's failure return leaves (a zero, a sentinel) when nothing reads the variable after it
			if deadDef(f, obj, defs[j]) {
				continue
			}
			asg = &defs[j]
			n++
		}
		if n != 1 || asg.RHS == nil {
			return obj
		}
		src, ok := f.ObjOf(asg.RHS).(*types.Var)
		if !ok || src.IsField() || f.ObjOf(asg.RHS) == obj {
			return obj
		}
		g := f.Graph()
		cn := g.NodeContaining(asg.LHS.Pos())
		if cn == nil {
			return obj
		}
		var st []*cfgx.Visit
		for _, e := range cn.Succs {
			st = append(st, cfgx.StartAfter(e, 0))
		}
		for m := range g.Reach(st, nil) {
			if m.AST == nil {
				continue
			}
			for _, w := range f.WritesIn(m.AST, false) {
				if f.ObjOf(rootOfLvalue(w.LHS)) == src {
					return obj
				}
			}
		}
		obj = src
	}
	return obj
}

var tupleDepth int

// tupleDef returns the call and result index that define obj in a tuple
// assignment `a, b, c := call()`, when that is obj's only definition.
func tupleDef(f *ir.Func, obj types.Object) (*ast.CallExpr, int) {
	// a whole copy of another local that is itself defined once and never written as a whole again
	// (`pending.revision := revision`): the definition of the source is the definition that matters
	for i := 0; i < 3 && obj != nil; i++ {
		ds := wholeDefs(f, obj)
		if len(ds) != 1 || ds[0].RHS == nil {
			break
		}
		src, ok := f.ObjOf(ds[0].RHS).(*types.Var)
		if !ok || src.IsField() || src == obj || !types.Identical(src.Type(), obj.Type()) {
			break
		}
		if _, isID := ast.Unparen(ds[0].RHS).(*ast.Ident); !isID || len(wholeDefs(f, src)) != 1 {
			break
		}
		obj = src
	}
	defs := wholeDefs(f, obj)
	var found *ast.CallExpr
	idx := -1
	n := 0
	bare := false
	for _, d := range defs {
		// a bare declaration hoisted in front of an expanded helper (checked below: the defining call must come first)
		if vs, isSpec := d.Stmt.(*ast.ValueSpec); isSpec && len(vs.Values) == 0 && len(defs) > 1 {
			bare = true
			continue
		}
		if d.RHS != nil {
			// `x = x` left by a helper whose variable became the caller's
			if f.ObjOf(ast.Unparen(d.RHS)) == obj {
				continue
			}
			// the zero a helper yields on a failure path, when nothing that reads the variable can follow it
			if cl, isLit := ast.Unparen(d.RHS).(*ast.CompositeLit); (isLit && len(cl.Elts) == 0) || f.IsNil(d.RHS) {
				if dn := f.Graph().NodeContaining(d.LHS.Pos()); dn != nil {
					read := false
					for m := range f.Graph().Reach([]*cfgx.Visit{cfgx.StartAt(dn, 0)}, nil) {
						if m != dn && m.AST != nil && f.MentionsObj(m.AST, true, obj) {
							read = true
						}
					}
					if !read {
						continue
					}
				}
			}
		}
		rhs := ir.TupleRHS(d.Stmt)
		if d.RHS != nil {
			// single assignment from a call returning one value
			if c, ok := ast.Unparen(d.RHS).(*ast.CallExpr); ok {
				found, idx = c, 0
				n++
			} else {
				n++
			}
			continue
		}
		call, ok := ast.Unparen(rhs).(*ast.CallExpr)
		if !ok {
			n++
			continue
		}
		var lhs []ast.Expr
		switch s := d.Stmt.(type) {
		case *ast.AssignStmt:
			lhs = s.Lhs
		case *ast.ValueSpec:
			for _, nm := range s.Names {
				lhs = append(lhs, nm)
			}
		}
		for i, l := range lhs {
			if f.ObjOf(l) == obj {
				found, idx = call, i
			}
		}
		n++
	}
	if n != 1 {
		if os.Getenv("SIALINT_DEBUGTUPLE") != "" {
			for _, d := range defs {
				println("tupleDef", obj.Name(), n, f.P.Pos(d.LHS.Pos()), d.RHS != nil, ir.ExprString(d.LHS))
			}
		}
		return nil, -1
	}
	if found == nil {
		// the one definition left is a whole copy of another local (a helper's own variable handed over at its
		// return): that variable's definition is the one that matters
		for _, d := range defs {
			if d.RHS == nil {
				continue
			}
			if src, ok := f.ObjOf(ast.Unparen(d.RHS)).(*types.Var); ok && !src.IsField() && src != obj && types.Identical(src.Type(), obj.Type()) {
				if _, isID := ast.Unparen(d.RHS).(*ast.Ident); isID && tupleDepth < 3 {
					tupleDepth++
					c, i := tupleDef(f, src)
					tupleDepth--
					return c, i
				}
			}
		}
		return nil, -1
	}
	if bare && found != nil {
		// every read of the variable lies behind the defining call
		g := f.Graph()
		dn := g.NodeContaining(found.Pos())
		if dn == nil {
			return nil, -1
		}
		for _, m := range g.Nodes {
			if m == dn || m.AST == nil || !g.Live(m) || !f.MentionsObj(m.AST, true, obj) {
				continue
			}
			if _, isDecl := m.AST.(*ast.ValueSpec); isDecl {
				continue
			}
			if !g.DominatedByNode(m, dn) {
				if os.Getenv("SIALINT_DEBUGTUPLE") != "" {
					println("tupleDef bare: not dominated", obj.Name(), f.P.Pos(m.Pos()))
				}
				return nil, -1
			}
		}
	}
	return found, idx
}

// isFieldOfObj reports whether e is `obj.fieldName` (by field name).
func isFieldOfObj(f *ir.Func, e ast.Expr, obj types.Object, field string) bool {
	sel, ok := ast.Unparen(e).(*ast.SelectorExpr)
	if !ok || sel.Sel.Name != field {
		return false
	}
	return obj != nil && denotes(f, f.ObjOf(sel.X), obj)
}

// denotes: x is obj, or a local variable that only ever holds a copy of obj
// (every definition of x is a bare declaration, an empty literal of its type —
// the value a helper returns on its failure paths — or a plain copy of obj or
// of another such variable).
func denotes(f *ir.Func, x, obj types.Object) bool {
	for depth := 0; depth < 4 && x != nil; depth++ {
		if x == obj {
			return true
		}
		var src types.Object
		n := 0
		for _, d := range wholeDefs(f, x) {
			if d.RHS == nil {
				if vs, ok := d.Stmt.(*ast.ValueSpec); ok && len(vs.Values) == 0 {
					continue
				}
				return false
			}
			if cl, ok := ast.Unparen(d.RHS).(*ast.CompositeLit); ok && len(cl.Elts) == 0 {
				continue
			}
			id, ok := ast.Unparen(d.RHS).(*ast.Ident)
			if !ok {
				return false
			}
			o := f.ObjOf(id)
			if o == nil || (src != nil && src != o) {
				return false
			}
			src = o
			n++
		}
		if n == 0 {
			return false
		}
		x = src
	}
	return false
}

// trueEdgesOfCall returns the edges on which a bool-valued call tested in a
// condition is true / false (empty when the call is not a leaf condition).
func boolCallEdges(f *ir.Func, call *ast.CallExpr) (t, fl []*cfgx.Edge) {
	chk := f.CheckOf(call)
	return chk.Succ, chk.Fail
}

// pathNodesBetween returns the nodes lying on some path from a successor of
// `from` to `to` (exclusive of both).
func pathNodesBetween(g *cfgx.Graph, from, to *cfgx.Node) map[*cfgx.Node]bool {
	return pathNodesBetweenAvoiding(g, from, to, nil)
}

// pathNodesBetweenAvoiding is pathNodesBetween restricted to paths that do not
// pass through avoid (e.g. the head of the enclosing loop: same iteration only).
func pathNodesBetweenAvoiding(g *cfgx.Graph, from, to, avoid *cfgx.Node) map[*cfgx.Node]bool {
	var st []*cfgx.Visit
	for _, e := range from.Succs {
		st = append(st, cfgx.StartAfter(e, 0))
	}
	fwd := g.Reach(st, func(n *cfgx.Node) bool { return n == to || n == avoid })
	// backward reachability from `to`
	back := map[*cfgx.Node]bool{}
	var walk func(n *cfgx.Node)
	walk = func(n *cfgx.Node) {
		for _, e := range n.Preds {
			if !back[e.From] && e.From != avoid {
				back[e.From] = true
				if e.From != from {
					walk(e.From)
				}
			}
		}
	}
	walk(to)
	out := map[*cfgx.Node]bool{}
	for n := range fwd {
		if back[n] && n != from && n != to && n != avoid {
			out[n] = true
		}
	}
	return out
}

// reqVar finds the request variable of an RPC handler: the operand of & in the
// second argument of rhp4.ReadRequest.
func reqVar(f *ir.Func, readRequest *types.Func) (types.Object, *ast.CallExpr) {
	for _, call := range f.CallsTo(false, readRequest) {
		if len(call.Expr.Args) == 2 {
			if u, ok := ast.Unparen(call.Expr.Args[1]).(*ast.UnaryExpr); ok && u.Op == token.AND {
				if obj := f.ObjOf(u.X); obj != nil {
					return obj, call.Expr
				}
			}
		}
	}
	// a handler body that is handed the decoded request by a shared read/respond/write bracket
	if o := reqParam(f); o != nil {
		return o, nil
	}
	return nil, nil
}

// reqParam returns the parameter of f that is a pointer to one of core's RPC request types, if any.
func reqParam(f *ir.Func) types.Object {
	if f.Type == nil || f.Type.Params == nil {
		return nil
	}
	for _, fld := range f.Type.Params.List {
		for _, nm := range fld.Names {
			o := f.Info().Defs[nm]
			if o == nil {
				continue
			}
			pt, ok := o.Type().(*types.Pointer)
			if !ok {
				continue
			}
			if nt, ok := pt.Elem().(*types.Named); ok && nt.Obj().Pkg() != nil && nt.Obj().Pkg().Path() == ir.PkgPath("rhp4") && strings.HasSuffix(nt.Obj().Name(), "Request") {
				return o
			}
		}
	}
	return nil
}

// hasMethodNamed reports whether *T (T = obj's type) has a method with the given name and returns it.
func methodOfVar(obj types.Object, name string) *types.Func {
	if obj == nil {
		return nil
	}
	t := obj.Type()
	if _, isPtr := t.(*types.Pointer); !isPtr {
		t = types.NewPointer(t)
	}
	m, _, _ := types.LookupFieldOrMethod(t, true, obj.Pkg(), name)
	fn, _ := m.(*types.Func)
	if fn != nil {
		return fn.Origin()
	}
	return nil
}

// fieldWritten reports whether obj.<field> is assigned anywhere in f after construction.
func fieldWritten(f *ir.Func, obj types.Object, field string) bool {
	for _, w := range f.WritesIn(f.Body, true) {
		if sel, ok := ast.Unparen(w.LHS).(*ast.SelectorExpr); ok && sel.Sel.Name == field && f.ObjOf(sel.X) == obj {
			return true
		}
	}
	return false
}

// derivesFromCall reports whether e contains a call whose callee satisfies pred,
// looking through local variables with a single whole definition (hoisted
// loop invariants, intermediates); at most 4 hops.
func derivesFromCall(f *ir.Func, e ast.Node, pred func(ir.Call) bool) bool {
	return derivesFromCallN(f, e, pred, 4)
}

func derivesFromCallN(f *ir.Func, e ast.Node, pred func(ir.Call) bool, depth int) bool {
	if e == nil {
		return false
	}
	for _, call := range f.CallsIn(e, false) {
		if pred(call) {
			return true
		}
	}
	if depth == 0 {
		return false
	}
	found := false
	ast.Inspect(e, func(n ast.Node) bool {
		if found {
			return false
		}
		if _, ok := n.(*ast.FuncLit); ok {
			return false
		}
		id, ok := n.(*ast.Ident)
		if !ok {
			return true
		}
		obj, _ := f.ObjOf(id).(*types.Var)
		if obj == nil || obj.IsField() || (obj.Parent() != nil && obj.Pkg() != nil && obj.Parent() == obj.Pkg().Scope()) { // (variables made by the expansion have no scope)
			return true
		}
		defs := wholeDefs(f, obj)
		if len(defs) == 1 && defs[0].RHS != nil && derivesFromCallN(f, defs[0].RHS, pred, depth-1) {
			found = true
		}
		return true
	})
	return found
}

// lvalueCopySource: when the only assignment to the lvalue lv in f is a copy
// of a local variable that is not written afterwards, returns that variable's
// identifier; otherwise lv.
func lvalueCopySource(f *ir.Func, lv ast.Expr) ast.Expr {
	var asg *ir.Write
	n := 0
	ws := f.WritesIn(f.Body, false)
	for i := range ws {
		if sameLvalue(f, ws[i].LHS, lv) {
			if vs, ok := ws[i].Stmt.(*ast.ValueSpec); ok && len(vs.Values) == 0 {
				continue
			}
			if o := f.ObjOf(ast.Unparen(lv)); o != nil && deadDef(f, o, ws[i]) {
				continue
			}
			asg = &ws[i]
			n++
		}
	}
	if n != 1 || asg.RHS == nil {
		return lv
	}
	src, ok := f.ObjOf(asg.RHS).(*types.Var)
	if !ok || src.IsField() {
		// a field of a local record (`quote.Deposits`, the record's address having been handed to an encoder)
		if _, isSel := ast.Unparen(asg.RHS).(*ast.SelectorExpr); !isSel {
			return lv
		}
		root, isVar := f.ObjOf(rootOfLvalue(asg.RHS)).(*types.Var)
		if !isVar || root.IsField() || isPointer(root.Type()) {
			return lv
		}
		src = root
	}
	g := f.Graph()
	cn := g.NodeContaining(asg.LHS.Pos())
	if cn == nil {
		return lv
	}
	var st []*cfgx.Visit
	for _, e := range cn.Succs {
		st = append(st, cfgx.StartAfter(e, 0))
	}
	for m := range g.Reach(st, nil) {
		if m.AST == nil {
			continue
		}
		for _, w := range f.WritesIn(m.AST, false) {
			if f.ObjOf(rootOfLvalue(w.LHS)) == src {
				return lv
			}
		}
	}
	return asg.RHS
}

// originUnwritten resolves e like origin, one hop, but only if the variables the
// defining expression reads are not written on any path from the definition to
// the node `at` (so the definition still describes the value at `at`).
func originUnwritten(f *ir.Func, e ast.Expr, at *cfgx.Node) ast.Expr {
	id, ok := ast.Unparen(e).(*ast.Ident)
	if !ok || at == nil {
		return e
	}
	obj := f.ObjOf(id)
	if obj == nil {
		return e
	}
	defs := wholeDefs(f, obj)
	if len(defs) != 1 || defs[0].RHS == nil {
		return e
	}
	g := f.Graph()
	dn := g.NodeContaining(defs[0].LHS.Pos())
	if dn == nil || dn == at || !g.DominatedByNode(at, dn) {
		return e
	}
	read := map[types.Object]bool{}
	ast.Inspect(defs[0].RHS, func(n ast.Node) bool {
		if x, ok := n.(*ast.Ident); ok {
			if o, ok := f.ObjOf(x).(*types.Var); ok && !o.IsField() {
				read[o] = true
			}
		}
		return true
	})
	for n := range pathNodesBetween(g, dn, at) {
		if n.AST == nil {
			continue
		}
		for _, w := range f.WritesIn(n.AST, false) {
			if read[f.ObjOf(rootOfLvalue(w.LHS))] {
				return e
			}
		}
	}
	return defs[0].RHS
}

// calleesThrough: the functions a call can invoke when it goes through a local
// function variable: every definition of the variable is the name of a
// declared function (`f := a; if c { f = b }; f(x)`). Empty when the callee is
// not of that form.
func calleesThrough(f *ir.Func, call *ast.CallExpr) []*types.Func {
	id, ok := ast.Unparen(call.Fun).(*ast.Ident)
	if !ok {
		return nil
	}
	v, ok := f.ObjOf(id).(*types.Var)
	if !ok || v.IsField() {
		return nil
	}
	var out []*types.Func
	for _, d := range wholeDefs(f, v) {
		if d.RHS == nil {
			if vs, isSpec := d.Stmt.(*ast.ValueSpec); isSpec && len(vs.Values) == 0 {
				continue
			}
			return nil
		}
		fn := funcRef(f, d.RHS)
		if fn == nil {
			return nil
		}
		out = append(out, fn)
	}
	return out
}

// originAt follows e, while it is a plain local, to the right-hand side of the one definition of that local that
// reaches node at (other definitions — a zero value on a failure path that returns — do not matter), provided
// nothing that right-hand side reads is written on the way from the definition to at. At most six steps.
func originAt(f *ir.Func, e ast.Expr, at *cfgx.Node) ast.Expr {
	g := f.Graph()
	for i := 0; i < 6 && at != nil; i++ {
		id, ok := ast.Unparen(e).(*ast.Ident)
		if !ok {
			return e
		}
		obj, ok := f.ObjOf(id).(*types.Var)
		if !ok || obj.IsField() {
			return e
		}
		defs := ReachingDefs(f, obj, at)
		if len(defs) != 1 || defs[0] == nil || defs[0].AST == nil {
			return e
		}
		var rhs ast.Expr
		for _, w := range f.WritesIn(defs[0].AST, false) {
			if f.ObjOf(w.LHS) == types.Object(obj) && w.RHS != nil {
				rhs = w.RHS
			}
		}
		if rhs == nil {
			return e
		}
		read := map[types.Object]bool{}
		ast.Inspect(rhs, func(n ast.Node) bool {
			if x, ok := n.(*ast.Ident); ok {
				if o, ok := f.ObjOf(x).(*types.Var); ok && !o.IsField() {
					read[o] = true
				}
			}
			return true
		})
		for n := range pathNodesBetween(g, defs[0], at) {
			if n.AST == nil || n == defs[0] {
				continue
			}
			for _, w := range f.WritesIn(n.AST, false) {
				if read[f.ObjOf(rootOfLvalue(w.LHS))] {
					return e
				}
			}
		}
		e, at = rhs, defs[0]
	}
	return e
}
