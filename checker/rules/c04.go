package rules

import (
	"go/ast"
	"go/token"
	"go/types"
	"strings"

	"sialint/internal/cfgx"
	"sialint/internal/ir"
)

func init() {
	Explanations["C04"] = "Decides structural necessary conditions of 'subscribers can follow the chain through the update stream' in chain.Manager: (R1) function values taken from the reorg/pool listener maps are invoked only in regions dominated by the success edge of a gated tip-walker call, and every path from that success edge to a return passes the invocation loop (notified whenever, and only when, the tip changed); (R2) every such invocation happens with Manager.mu definitely not held, and every return of a method with a deferred unlock is reached with the mutex held again; (R3) in the update-stream method the loop guard compares len(reverts)+len(applies) strictly below the caller's bound and no path through one iteration appends more than one update, and nothing is appended outside the loop; (R4) the store's revert step deletes the best-chain index entry of the reverted height, which the stream's on-best-chain test relies on to walk a subscriber back from an abandoned branch (same check as C03.R4). (R5) every store into the Manager's listener tables uses a key that cannot coincide with a live registration: a value drawn from a random source, a counter of the Manager that is incremented with every registration, or a key stored only on the negative side of a membership test of that table — never a quantity that shrinks when a listener unsubscribes (the table's length), a constant or a caller's value; otherwise a later subscriber silently replaces an earlier one, which then misses every tip change. (R6) in the apply step the supplement handed to consensus.ApplyBlock and the one handed to Store.AddBlock denote the same value. NOT decided: contiguity of the returned path, equality of recomputed updates with the originals, validity of the carried proofs, polls racing reorgs beyond lock discipline (C01.R6)."

	register(&Rule{ID: "C04.R1", Prop: "C04", Floor: 4, Doc: "listeners are notified exactly on the success edge of a gated reorg", Run: c04r1})
	register(&Rule{ID: "C04.R2", Prop: "C04", Floor: 6, Doc: "listeners run unlocked; the mutex is re-acquired before the deferred unlock", Run: c04r2})
	register(&Rule{ID: "C04.R3", Prop: "C04", Floor: 3, Doc: "update stream returns at most the requested number of updates", Run: c04r3})
	register(&Rule{ID: "C04.R5", Prop: "C04", Floor: 2, Doc: "registering a listener never replaces a live one: the key it is stored under is fresh", Run: c04r5})
	register(&Rule{ID: "C04.R6", Prop: "C04", Floor: 1, Doc: "the supplement stored with a block is the one it was validated and applied with (the update stream recomputes updates from the stored pair)", Run: c04r6})
	register(&Rule{ID: "C04.R4", Prop: "C04", Floor: 1, Doc: "reverting a block deletes its best-chain index entry (the update stream's on-best-chain test relies on it)", Run: func(c *Ctx) {
		s := getStoreRoles(c.P)
		ph, bw := bestIndexRoles(c, s)
		checkRevertRemovesEntry(c, s, ph, bw)
	}})
}

// listenerTaint marks values derived from the Manager's listener maps inside f.
func listenerTaint(r *chainRoles, f *ir.Func, fields ...*types.Var) *Taint {
	return RunTaint(TaintCfg{Top: f, ElemCarries: true, ValueTaint: true,
		Source: func(fn *ir.Func, e ast.Expr) bool {
			for _, fld := range fields {
				if fn.FieldOf(e) == fld {
					return true
				}
			}
			return false
		}})
}

// listenerCalls returns the graph nodes of f that make a dynamic call of a value derived from the listener maps.
func listenerCalls(f *ir.Func, t *Taint) []*cfgx.Node {
	var out []*cfgx.Node
	for _, n := range f.Graph().Nodes {
		if n.AST == nil {
			continue
		}
		for _, call := range f.NodeCalls(n) {
			if call.Fn == nil && t.Expr(f, call.Expr.Fun) {
				if _, isConv := f.Info().Types[call.Expr.Fun]; isConv && f.Info().Types[call.Expr.Fun].IsType() {
					continue
				}
				out = append(out, n)
			}
		}
	}
	return out
}

func c04r1(c *Ctx) {
	r := getChainRoles(c.P)
	for _, f := range r.gatedCallers() {
		g := f.Graph()
		c.VisitGraph(f)
		t := listenerTaint(r, f, r.onReorg)
		calls := listenerCalls(f, t)
		var gated []walkerCall
		for _, wc := range walkerCalls(r, f) {
			if wc.gated {
				gated = append(gated, wc)
			}
		}
		var succ []*cfgx.Edge
		for _, gc := range gated {
			succ = append(succ, gc.chk.Succ...)
		}
		ob := c.Ob(f, "notify-only-after-successful-reorg", f.Body.Pos())
		if len(calls) == 0 {
			ob.Bad(nil, "%s moves the tip but never invokes the reorg listeners", f.Name())
		} else {
			bad := false
			for _, n := range calls {
				if !f.OnlyVia(n, succ) {
					ob.Pos = c.P.Pos(n.Pos())
					ob.Bad(nil, "reorg listeners are invoked at %s on a path that did not pass the success edge of the gated reorg: subscribers are notified although the tip did not change (failed or absent reorg)", c.P.Pos(n.Pos()))
					bad = true
					break
				}
			}
			if !bad {
				ob.OK("%d invocation site(s), all dominated by the reorg's success edge", len(calls))
			}
		}
		ob2 := c.Ob(f, "notify-whenever-reorg-succeeded", f.Body.Pos())
		// loop heads whose body contains an invocation
		heads := map[*cfgx.Node]bool{}
		for _, n := range calls {
			if h, _, _ := enclosingRange(f, n); h != nil {
				heads[h] = true
			} else {
				heads[n] = true
			}
		}
		if v, skip := f.ReachableFromEdges(succ, func(n *cfgx.Node) bool { return heads[n] })[g.Exit]; skip || len(succ) == 0 {
			var w []string
			if v != nil {
				w = c.Witness(v)
			}
			ob2.Bad(w, "a return is reachable after the tip was moved without passing the listener invocation: subscribers miss a reorg")
		} else {
			ob2.OK("every path from the reorg's success edge passes the invocation loop")
		}
	}
}

func c04r2(c *Ctx) {
	r := getChainRoles(c.P)
	// the Manager's methods with their helpers expanded, so a listener slice
	// built in one helper and invoked in another is followed
	var methods []*ir.Func
	for _, f := range r.methods {
		methods = append(methods, r.view(f))
	}
	ls := NewLocksetV(c.P, r.mu, methods, r.view)
	for _, f := range methods {
		if r.vs.Absorbed[f.Base] {
			continue
		}
		t := listenerTaint(r, f, r.onReorg, r.onPool)
		calls := listenerCalls(f, t)
		for _, n := range calls {
			c.Visit(1)
			ob := c.Ob(f, "listener-called-unlocked", n.Pos())
			st := ls.At(f, n)
			ob.Check(st == lsUnheld, nil, "a listener is invoked at %s with Manager.mu %s: a listener that calls back into the manager deadlocks (sync.Mutex is not re-entrant)", c.P.Pos(n.Pos()), st)
		}
		if len(calls) == 0 {
			continue
		}
		c.VisitGraph(f)
		if ls.DeferredUnlock(f) {
			ob := c.Ob(f, "relocked-before-deferred-unlock", f.Body.Pos())
			good := true
			for _, ret := range f.Graph().Returns() {
				if ls.At(f, ret) != lsHeld {
					good = false
					ob.Pos = c.P.Pos(ret.Pos())
				}
			}
			ob.Check(good, nil, "a return is reached with Manager.mu not held although its unlock is deferred: the deferred Unlock panics (unlock of unlocked mutex)")
		}
	}
}

func c04r3(c *Ctx) {
	r := getChainRoles(c.P)
	ru := c.P.Named("chain", "RevertUpdate")
	au := c.P.Named("chain", "ApplyUpdate")
	for _, f := range r.methodsV {
		if !exported(f) || f.Type.Results == nil {
			continue
		}
		// results ([]RevertUpdate, []ApplyUpdate, error)
		var resObjs []types.Object
		var kinds []types.Type
		var positions []int
		pos := 0
		for _, fld := range f.Type.Results.List {
			k := len(fld.Names)
			if k == 0 {
				k = 1
			}
			if sl, ok := f.Info().TypeOf(fld.Type).(*types.Slice); ok && (types.Identical(sl.Elem(), ru) || types.Identical(sl.Elem(), au)) {
				for _, nm := range fld.Names {
					resObjs = append(resObjs, f.Info().Defs[nm])
				}
				kinds = append(kinds, sl.Elem())
				for i := 0; i < k; i++ {
					positions = append(positions, pos+i)
				}
			}
			pos += k
		}
		if len(kinds) != 2 {
			continue
		}
		g := f.Graph()
		c.VisitGraph(f)
		// unnamed results: the local lists handed back by the returns
		for _, ret := range g.Returns() {
			if rs, ok := ret.AST.(*ast.ReturnStmt); ok && len(rs.Results) == pos {
				for _, i := range positions {
					if o, ok := f.ObjOf(rs.Results[i]).(*types.Var); ok {
						resObjs = append(resObjs, o)
					}
				}
			}
		}
		isRes := func(o types.Object) bool {
			for _, x := range resObjs {
				if x == o && o != nil {
					return true
				}
			}
			return false
		}
		// the bound parameter: the int parameter
		var bound types.Object
		for _, fld := range f.Type.Params.List {
			if b, ok := f.Info().TypeOf(fld.Type).Underlying().(*types.Basic); ok && b.Info()&types.IsInteger != 0 {
				for _, nm := range fld.Names {
					bound = f.Info().Defs[nm]
				}
			}
		}
		ob := c.Ob(f, "guard-strictly-below-bound", f.Body.Pos())
		// the leaf conditions len(a)+len(b) < bound (there may be several: a loop per direction, each with the test)
		var pass []*cfgx.Edge
		strict := true
		var guardPos token.Pos
		for _, n := range g.Nodes {
			if n.Block == nil || n.Block.Cond != n.AST || len(n.Succs) != 2 {
				continue
			}
			be, ok := ast.Unparen(n.AST.(ast.Expr)).(*ast.BinaryExpr)
			if !ok {
				continue
			}
			sumSide := func(e ast.Expr) bool {
				s, ok := ast.Unparen(e).(*ast.BinaryExpr)
				if !ok || s.Op != token.ADD {
					return false
				}
				x, y := lenOf(f, s.X), lenOf(f, s.Y)
				return x != nil && y != nil && isRes(f.ObjOf(x)) && isRes(f.ObjOf(y)) && f.ObjOf(x) != f.ObjOf(y)
			}
			switch {
			case sumSide(be.X) && f.ObjOf(be.Y) == bound && bound != nil:
				if be.Op != token.LSS {
					strict = false
				}
			case sumSide(be.Y) && f.ObjOf(be.X) == bound && bound != nil:
				if be.Op != token.GTR {
					strict = false
				}
			default:
				continue
			}
			guardPos = n.Pos()
			pass = append(pass, n.Succs[0])
		}
		if len(pass) == 0 {
			ob.Bad(nil, "no guard of the form len(reverts)+len(applies) < bound found in %s", f.Name())
			continue
		}
		ob.Check(strict, nil, "a guard compares the number of collected updates with the bound non-strictly: one more update than requested can be returned")
		// appends
		isAppend := func(n *cfgx.Node) bool {
			if n.AST == nil {
				return false
			}
			for _, w := range f.WritesIn(n.AST, false) {
				if isRes(f.ObjOf(w.LHS)) && w.RHS != nil {
					if ac, ok := ast.Unparen(w.RHS).(*ast.CallExpr); ok {
						if id, ok := ac.Fun.(*ast.Ident); ok && id.Name == "append" {
							return true
						}
					}
				}
			}
			return false
		}
		// every append spends one passing of the guard: state 1 = the guard passed and nothing was appended since
		ob2 := c.Ob(f, "one-update-per-iteration", guardPos)
		isPass := map[*cfgx.Edge]bool{}
		for _, e := range pass {
			isPass[e] = true
		}
		var over *cfgx.Visit
		for _, v := range f.ExploreFeasible([]*cfgx.Visit{cfgx.StartAt(g.Entry, 0)}, cfgx.Walker{
			AtNode: func(n *cfgx.Node, s cfgx.State) (cfgx.State, bool) {
				if isAppend(n) {
					if s == 0 {
						return 2, false
					}
					return 0, true
				}
				return s, true
			},
			OnEdge: func(e *cfgx.Edge, s cfgx.State) (cfgx.State, bool) {
				if isPass[e] {
					return 1, true
				}
				return s, true
			},
		}) {
			if v.State == 2 {
				over = v
			}
		}
		if over != nil {
			ob2.Bad(c.Witness(over), "an update is appended at %s on a path that has not passed the bound test since the previous append (a second append in one trip round the loop, or an append outside the bounded loop): the number returned can exceed the bound", c.P.Pos(over.Node.Pos()))
		} else {
			ob2.OK("every append follows a passing of the bound test of its own")
		}
		c.Ob(f, "no-append-outside-loop", f.Body.Pos()).OK("covered by the per-append test")
	}
}

// c04r5: listener keys are fresh.
func c04r5(c *Ctx) {
	r := getChainRoles(c.P)
	for _, f := range r.methodsV {
		g := f.Graph()
		for _, n := range g.Nodes {
			if n.AST == nil {
				continue
			}
			for _, w := range f.WritesIn(n.AST, false) {
				ix, ok := ast.Unparen(w.LHS).(*ast.IndexExpr)
				if !ok || w.RHS == nil {
					continue
				}
				tbl := f.FieldOf(ix.X)
				if tbl != r.onReorg && tbl != r.onPool {
					continue
				}
				c.VisitGraph(f)
				ob := c.Ob(f, "listener-key-fresh:"+tbl.Name(), n.Pos())
				key := origin(f, ix.Index)
				fresh, why := false, ""
				// (a) drawn from a random source
				for _, call := range f.CallsIn(key, false) {
					if call.Fn != nil && call.Fn.Pkg() != nil && strings.Contains(call.Fn.Pkg().Path(), "rand") {
						fresh, why = true, "drawn from "+call.Fn.Pkg().Path()
					}
				}
				// (b) a counter field incremented in the same method
				ir.Walk(key, false, func(x ast.Node) {
					sel, ok := x.(*ast.SelectorExpr)
					if !ok {
						return
					}
					fld := f.FieldOf(sel)
					if fld == nil {
						return
					}
					for _, w2 := range f.WritesIn(f.Body, false) {
						if f.FieldOf(w2.LHS) == fld && (w2.Tok == token.INC || w2.Tok == token.ADD_ASSIGN) {
							fresh, why = true, "a counter incremented with every registration"
						}
					}
				})
				// (c) stored only where the table was found not to hold the key
				if !fresh {
					var absent []*cfgx.Edge
					for _, m := range g.Nodes {
						if m.AST == nil {
							continue
						}
						as, ok := m.AST.(*ast.AssignStmt)
						if !ok || len(as.Lhs) != 2 || len(as.Rhs) != 1 {
							continue
						}
						rx, ok := ast.Unparen(as.Rhs[0]).(*ast.IndexExpr)
						if !ok || f.FieldOf(rx.X) != tbl || !sameLvalue(f, rx.Index, ix.Index) {
							continue
						}
						okv := f.ObjOf(as.Lhs[1])
						for _, k := range g.Nodes {
							if k.Block != nil && k.Block.Cond == k.AST && len(k.Succs) == 2 && okv != nil && f.ObjOf(k.AST.(ast.Expr)) == okv {
								absent = append(absent, k.Succs[1])
							}
						}
					}
					if len(absent) > 0 && f.OnlyVia(n, absent) {
						fresh, why = true, "stored on the negative side of a membership test"
					}
				}
				if fresh {
					ob.OK("key is %s", why)
				} else {
					ob.Bad(nil, "the listener is stored under %s, which can equal the key of a live registration (after an earlier listener unsubscribed the table's length, a re-used constant or a caller's value names an entry still in use): the earlier subscriber is replaced and never hears of a tip change again", ir.ExprString(key))
				}
			}
		}
	}
}

// c04r6: the supplement stored with a block is the supplement the block was applied with. The update stream
// recomputes a block's update from what the store holds (block + supplement); if the apply step validated and applied
// the block with one value (e.g. after the expiring-contract order override) and stored another, subscribers get
// diffs and proofs that differ from the ledger at the tip although the node's own state is right.
func c04r6(c *Ctx) {
	r := getChainRoles(c.P)
	f := r.view(r.applyTip)
	applyBlock := c.P.FuncObj("consensus", "ApplyBlock")
	c.VisitGraph(f)
	g := f.Graph()
	strip := func(e ast.Expr) ast.Expr {
		e = ast.Unparen(e)
		switch t := e.(type) {
		case *ast.StarExpr:
			return ast.Unparen(t.X)
		case *ast.UnaryExpr:
			if t.Op == token.AND {
				return ast.Unparen(t.X)
			}
		}
		return e
	}
	n := 0
	for _, st := range f.CallsTo(false, r.storeAddBlock) {
		if len(st.Expr.Args) != 2 {
			continue
		}
		n++
		ob := c.Ob(f, "stored-supplement-is-applied-supplement", st.Pos())
		stored := strip(st.Expr.Args[1])
		sn := g.NodeContaining(st.Pos())
		// the consensus.ApplyBlock calls that can reach (or be reached from) this store step without leaving the function
		matched, seen := false, 0
		for _, ap := range f.CallsTo(false, applyBlock) {
			if len(ap.Expr.Args) < 3 {
				continue
			}
			an := g.NodeContaining(ap.Pos())
			if an == nil || sn == nil {
				continue
			}
			_, fwd := g.Reach([]*cfgx.Visit{cfgx.StartAt(an, 0)}, nil)[sn]
			_, bwd := g.Reach([]*cfgx.Visit{cfgx.StartAt(sn, 0)}, nil)[an]
			if !fwd && !bwd {
				continue
			}
			seen++
			applied := strip(ap.Expr.Args[2])
			if sameLvalue(f, applied, stored) || sameLvalue(f, strip(origin(f, applied)), stored) || sameLvalue(f, applied, strip(origin(f, stored))) {
				matched = true
			} else {
				ob.Bad(nil, "the block is applied with the supplement %s at %s but stored with %s at %s: the update stream recomputes the block's update from the stored value, so subscribers are handed diffs and proofs that do not match the tip's ledger", ir.ExprString(ap.Expr.Args[2]), c.P.Pos(ap.Pos()), ir.ExprString(st.Expr.Args[1]), c.P.Pos(st.Pos()))
				matched = false
				seen = -1
				break
			}
		}
		if seen == -1 {
			continue
		}
		if seen == 0 {
			ob.Unknown("no consensus.ApplyBlock on a path with the store step at %s", c.P.Pos(st.Pos()))
			continue
		}
		ob.Check(matched, nil, "stored and applied supplement differ")
	}
	if n == 0 {
		ir.Fail("the apply step does not store the block (Store.AddBlock)")
	}
}
