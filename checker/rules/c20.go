package rules

import (
	"fmt"
	"go/ast"
	"go/token"
	"go/types"
	"math/bits"
	"sort"
	"strconv"
	"strings"

	"sialint/internal/cfgx"
	"sialint/internal/ir"
)

func init() {
	Explanations["C20"] = "Decides structural necessary conditions of 'seed phrases and derived keys round-trip exactly' in wallet/seed.go: (R1) the word-list literal has exactly 2^W distinct, whitespace-free, lower-case entries, the decoder's map is built once from that same variable as word → position, and neither is assigned anywhere else; (R2) nothing reachable (through repository functions and one level into dependencies) from SeedFromPhrase, KeyFromSeed and the decoder reads time, randomness, the environment or a mutable global; (R3) the phrase parameter is consumed only by strings.Fields; (R4) the decoder's three rejections guard every success return: word count against the constant 12, membership of every word of the full list in the map, and the checksum comparison; (R5) the bit-packing constants of encoder and decoder are mutually consistent for one (W, E, C) = (word bits, entropy bits in the last word, checksum bits): masks 2^W−1, 2^E−1, 2^C−1, shifts W, 64−W, E, 64−E, C, E + C = W, words·W − C = 128. (R6) the arithmetic applied to the first byte of the SHA-256 digest in the checksum function is folded for all 256 byte values and must equal the leading C bits. NOT decided: the round trip itself (an exact decision needs bit-level symbolic evaluation, which is another family), correctness of sha256/blake2b/ed25519."

	register(&Rule{ID: "C20.R1", Prop: "C20", Floor: 3, Doc: "word table: 2048 distinct clean words; decoder map built from the same variable; never reassigned", Run: c20r1})
	register(&Rule{ID: "C20.R2", Prop: "C20", Floor: 3, Doc: "determinism: derivation reads no time, randomness, environment or mutable global", Run: c20r2})
	register(&Rule{ID: "C20.R3", Prop: "C20", Floor: 1, Doc: "whitespace: the phrase is tokenised only by strings.Fields", Run: c20r3})
	register(&Rule{ID: "C20.R4", Prop: "C20", Floor: 3, Doc: "the three rejections (count, membership of every word, checksum) guard every success return", Run: c20r4})
	register(&Rule{ID: "C20.R6", Prop: "C20", Floor: 1, Doc: "the checksum is the leading C bits of the first SHA-256 byte (the expression is evaluated for all 256 byte values)", Run: c20r6})
	register(&Rule{ID: "C20.R5", Prop: "C20", Floor: 2, Doc: "bit-packing constants of encoder and decoder are consistent", Run: c20r5})
}

type seedRoles struct {
	list, wmap   types.Object
	listLit      *ast.CompositeLit
	encoder, dec *ir.Func
}

func getSeedRoles(c *Ctx) *seedRoles {
	r := &seedRoles{}
	pkg := c.P.Package("wallet")
	// the word list: package-level []string literal with > 1000 elements
	for _, file := range pkg.Syntax {
		for _, d := range file.Decls {
			gd, ok := d.(*ast.GenDecl)
			if !ok || gd.Tok != token.VAR {
				continue
			}
			for _, sp := range gd.Specs {
				vs := sp.(*ast.ValueSpec)
				for i, nm := range vs.Names {
					if i >= len(vs.Values) {
						continue
					}
					if cl, ok := vs.Values[i].(*ast.CompositeLit); ok && len(cl.Elts) > 1000 {
						r.list, r.listLit = pkg.TypesInfo.Defs[nm], cl
					}
				}
			}
		}
	}
	if r.list == nil {
		ir.Fail("word list literal not found in package wallet")
	}
	// the map: package-level var of type map[string]uint64
	for _, name := range pkg.Types.Scope().Names() {
		if v, ok := pkg.Types.Scope().Lookup(name).(*types.Var); ok {
			if mt, ok := v.Type().(*types.Map); ok {
				if k, ok := mt.Key().Underlying().(*types.Basic); ok && k.Kind() == types.String {
					r.wmap = v
				}
			}
		}
	}
	for _, f := range c.P.PkgFuncs("wallet") {
		if f.Obj.Type().(*types.Signature).Recv() != nil {
			continue
		}
		if f.MentionsObj(f.Body, false, r.list) && f.Lit == nil {
			r.encoder = f
		}
	}
	// the decoder: the smallest function that, with its helpers expanded, looks words up in the map and calls a
	// function the encoder calls too (the checksum); failing that, the function mentioning the map
	if r.wmap != nil && r.encoder != nil {
		encCallees := map[*types.Func]bool{}
		for _, call := range r.encoder.Calls(true) {
			if call.Fn != nil && call.Fn.Pkg() == pkg.Types {
				encCallees[call.Fn] = true
			}
		}
		vs := seedViews(c)
		best := 0
		for _, f := range c.P.PkgFuncs("wallet") {
			if f.Obj.Type().(*types.Signature).Recv() != nil || f == r.encoder {
				continue
			}
			v := vs.Of(f)
			if !v.MentionsObj(v.Body, false, r.wmap) {
				continue
			}
			shares := false
			for _, call := range v.Calls(true) {
				if encCallees[call.Fn] {
					shares = true
				}
			}
			for _, fn := range v.Inlined { // (the shared function may have been expanded into the view)
				if encCallees[fn] && c.P.FuncOf(fn) != nil && c.P.FuncOf(fn).Obj.Type().(*types.Signature).Recv() == nil {
					shares = true
				}
			}
			if !shares {
				continue
			}
			if n := len(v.Graph().Nodes); r.dec == nil || n < best {
				r.dec, best = v, n
			}
		}
		if r.dec == nil {
			for _, f := range c.P.PkgFuncs("wallet") {
				if f.Obj.Type().(*types.Signature).Recv() == nil && f.MentionsObj(f.Body, false, r.wmap) {
					r.dec = f
				}
			}
		}
	}
	if r.wmap == nil || r.encoder == nil || r.dec == nil {
		ir.Fail("word map / encoder / decoder not found")
	}
	// both sides are read with their helpers expanded (a 128-bit shift register type, a word-index helper …)
	if !r.encoder.View {
		r.encoder = seedViews(c).Of(r.encoder)
	}
	if !r.dec.View {
		r.dec = seedViews(c).Of(r.dec)
	}
	return r
}

// seedViews: package wallet with helpers expanded, except the checksum function (the one that hashes with SHA-256),
// which encoder and decoder must share as a call.
func seedViews(c *Ctx) *ir.ViewSet {
	sum := map[*types.Func]bool{}
	for _, f := range c.P.PkgFuncs("wallet") {
		if f.Obj == nil {
			continue
		}
		for _, call := range f.Calls(false) {
			if call.Fn != nil && call.Fn.Pkg() != nil && call.Fn.Pkg().Path() == "crypto/sha256" {
				sum[f.Obj] = true
			}
		}
	}
	return c.P.Views("wallet", ir.ExpandOpt{Key: "seed", Stop: func(fn *types.Func) bool { return sum[fn] }})
}

// foldInt evaluates an integer expression made of constants, +, - and * (operands of an expanded helper's
// `64-n` are constants only after the parameter was replaced).
func foldInt(f *ir.Func, e ast.Expr) (int64, bool) {
	if v, ok := f.ConstInt(e); ok {
		return v, true
	}
	switch t := ast.Unparen(e).(type) {
	case *ast.BasicLit:
		if v, err := strconv.ParseInt(t.Value, 0, 64); err == nil {
			return v, true
		}
	case *ast.BinaryExpr:
		x, ok1 := foldInt(f, t.X)
		y, ok2 := foldInt(f, t.Y)
		if ok1 && ok2 {
			switch t.Op {
			case token.ADD:
				return x + y, true
			case token.SUB:
				return x - y, true
			case token.MUL:
				return x * y, true
			}
		}
	case *ast.CallExpr:
		if tv, ok := f.Info().Types[t.Fun]; ok && tv.IsType() && len(t.Args) == 1 {
			return foldInt(f, t.Args[0])
		}
	}
	return 0, false
}

func c20r1(c *Ctx) {
	r := getSeedRoles(c)
	c.Visit(len(r.listLit.Elts))
	ob := c.Ob(nil, "word-list-2048-distinct-clean", r.listLit.Pos())
	seen := map[string]bool{}
	bad := ""
	for _, el := range r.listLit.Elts {
		bl, ok := el.(*ast.BasicLit)
		if !ok || bl.Kind != token.STRING {
			bad = "non-literal entry"
			continue
		}
		w, err := strconv.Unquote(bl.Value)
		if err != nil || w == "" || strings.ContainsAny(w, " \t\n\r") || strings.ToLower(w) != w {
			bad = fmt.Sprintf("entry %q is empty, contains whitespace or upper case", w)
		}
		if seen[w] {
			bad = fmt.Sprintf("duplicate entry %q", w)
		}
		seen[w] = true
	}
	n := len(r.listLit.Elts)
	ob.Check(bad == "" && n == 2048 && bits.OnesCount(uint(n)) == 1, nil, "the word list has %d entries (%s): every 11-bit group must map to exactly one word and back", n, bad)

	// the map initialiser: m[v] = uint64(i) for i, v := range list
	ob2 := c.Ob(nil, "decoder-map-built-from-word-list", r.wmap.Pos())
	good := false
	for _, f := range c.P.Funcs {
		if f.Pkg.PkgPath != ir.PkgPath("wallet") || f.Lit == nil || f.Parent != nil {
			continue
		}
		ir.Walk(f.Body, false, func(x ast.Node) {
			rs, ok := x.(*ast.RangeStmt)
			if !ok || f.ObjOf(rs.X) != r.list || rs.Key == nil || rs.Value == nil {
				return
			}
			for _, w := range f.WritesIn(rs.Body, false) {
				ix, ok := ast.Unparen(w.LHS).(*ast.IndexExpr)
				if !ok || f.ObjOf(ix.Index) != f.ObjOf(rs.Value) || w.RHS == nil {
					continue
				}
				v := ast.Unparen(w.RHS)
				if call, ok := v.(*ast.CallExpr); ok && len(call.Args) == 1 {
					v = ast.Unparen(call.Args[0])
				}
				if f.ObjOf(v) == f.ObjOf(rs.Key) {
					good = true
				}
			}
		})
	}
	ob2.Check(good, nil, "the decoder's map is not built as word → position by ranging over the very list the encoder indexes")
	// never reassigned
	ob3 := c.Ob(nil, "tables-never-reassigned", r.list.Pos())
	writes := 0
	for _, f := range c.P.Funcs {
		for _, w := range f.WritesIn(f.Body, false) {
			root, _ := f.RootObj(w.LHS)
			if root == r.list || root == r.wmap {
				writes++
			}
		}
		for _, call := range f.Calls(false) {
			if id, ok := call.Expr.Fun.(*ast.Ident); ok && (id.Name == "delete" || id.Name == "clear") && len(call.Expr.Args) > 0 {
				if root, _ := f.RootObj(call.Expr.Args[0]); root == r.list || root == r.wmap {
					writes++
				}
			}
		}
	}
	ob3.Check(writes == 0, nil, "the word list or the decoder map is written after initialisation (%d site(s)): encoding and decoding can disagree", writes)
}

func c20r2(c *Ctx) {
	r := getSeedRoles(c)
	roots := []*ir.Func{c.P.Fn("wallet", "", "SeedFromPhrase"), c.P.Fn("wallet", "", "KeyFromSeed"), r.dec}
	impure := map[string]bool{"time": true, "math/rand": true, "math/rand/v2": true, "crypto/rand": true, "lukechampine.com/frand": true, "os": true, "runtime": true, "net": true}
	for _, root := range roots {
		ob := c.Ob(root, "deterministic", root.Body.Pos())
		seen := map[*ir.Func]bool{}
		bad := ""
		var visit func(f *ir.Func, depth int)
		visit = func(f *ir.Func, depth int) {
			if seen[f] || depth > 6 {
				return
			}
			seen[f] = true
			c.VisitGraph(f)
			for _, call := range f.Calls(true) {
				if call.Fn == nil || call.Fn.Pkg() == nil {
					continue
				}
				if impure[call.Fn.Pkg().Path()] {
					bad = fmt.Sprintf("%s calls %s", f.Name(), call.Fn.FullName())
				}
				if callee := c.P.FuncOf(call.Fn); callee != nil {
					visit(callee, depth+1)
				} else if strings.HasPrefix(call.Fn.Pkg().Path(), ir.CoreMod) {
					if df := c.P.DepFunc(call.Fn); df != nil && depth < 2 {
						visit(df, depth+5)
					}
				}
			}
			// package-level variables other than the two tables (and error sentinels) must not be read
			ir.Walk(f.Body, true, func(x ast.Node) {
				id, ok := x.(*ast.Ident)
				if !ok {
					return
				}
				v, ok := f.Info().Uses[id].(*types.Var)
				if !ok || v.Pkg() == nil || v.Parent() != v.Pkg().Scope() || v == r.list || v == r.wmap {
					return
				}
				if ir.IsErrorType(v.Type()) || v.Pkg().Path() != ir.PkgPath("wallet") {
					return
				}
				bad = fmt.Sprintf("%s reads the package-level variable %s", f.Name(), v.Name())
			})
		}
		visit(root, 0)
		ob.Check(bad == "", nil, "%s: the same phrase and index would not always derive the same key", bad)
	}
}

func c20r3(c *Ctx) {
	r := getSeedRoles(c)
	f := r.dec
	c.VisitGraph(f)
	var phrase types.Object
	for _, fld := range f.Type.Params.List {
		if b, ok := f.Info().TypeOf(fld.Type).Underlying().(*types.Basic); ok && b.Kind() == types.String {
			for _, nm := range fld.Names {
				phrase = f.Info().Defs[nm]
			}
		}
	}
	ob := c.Ob(f, "phrase-tokenised-by-fields-only", f.Body.Pos())
	if phrase == nil {
		ob.Unknown("no string parameter")
		return
	}
	uses, good := 0, true
	ir.Walk(f.Body, true, func(x ast.Node) {
		call, ok := x.(*ast.CallExpr)
		if !ok {
			return
		}
		for _, a := range call.Args {
			if f.ObjOf(a) == phrase {
				uses++
				fn := f.Callee(call)
				if fn == nil || fn.Pkg() == nil || fn.Pkg().Path() != "strings" || fn.Name() != "Fields" {
					good = false
				}
			}
		}
	})
	total := 0
	ir.Walk(f.Body, true, func(x ast.Node) {
		if id, ok := x.(*ast.Ident); ok && f.Info().Uses[id] == phrase {
			total++
		}
	})
	ob.Check(good && uses == 1 && total == 1, nil, "the phrase is consumed other than by a single strings.Fields call (%d use(s)): tabs, newlines or repeated spaces between words change the result", total)
}

func c20r4(c *Ctx) {
	r := getSeedRoles(c)
	// helpers, local closures and library searches expanded
	f := r.dec
	g := f.Graph()
	c.VisitGraph(f)
	// the words variable: result of strings.Fields
	var words types.Object
	for _, call := range f.Calls(false) {
		if call.Fn != nil && call.Fn.Pkg() != nil && call.Fn.Pkg().Path() == "strings" {
			n := g.NodeContaining(call.Pos())
			for _, w := range f.WritesIn(n.AST, false) {
				if w.RHS != nil && ast.Unparen(w.RHS) == ast.Expr(call.Expr) {
					words = f.ObjOf(w.LHS)
				}
			}
		}
	}
	var succ []*cfgx.Node
	for _, ret := range g.Returns() {
		if f.ClassifyReturn(ret) == ir.RetSuccess {
			succ = append(succ, ret)
		}
	}
	guards := func(pass *cfgx.Edge, fail *cfgx.Edge) bool {
		if len(succ) == 0 {
			return false
		}
		for _, s := range succ {
			if !f.OnlyVia(s, []*cfgx.Edge{pass}) {
				return false
			}
		}
		for n := range f.ReachableFromEdges([]*cfgx.Edge{fail}, nil) {
			for _, s := range succ {
				if n == s {
					// reachable from the failing side: only allowed if it crosses pass again (not the case in straight code)
					cut := map[*cfgx.Edge]bool{pass: true}
					if reachAvoidingEdges(g, fail, s, nil, cut) {
						return false
					}
				}
			}
		}
		return true
	}
	// (a) count
	{
		ob := c.Ob(f, "rejects-wrong-word-count", f.Body.Pos())
		good := false
		for _, n := range g.Nodes {
			if n.Block == nil || n.Block.Cond != n.AST || len(n.Succs) != 2 {
				continue
			}
			parts := expandCond(f, n.AST.(ast.Expr))
			hasLen, has12 := false, false
			for _, p := range parts {
				if call, ok := p.(*ast.CallExpr); ok {
					if x := lenOf(f, call); x != nil && f.ObjOf(x) == words {
						hasLen = true
					}
				}
				if e, ok := p.(ast.Expr); ok {
					if v, ok := f.ConstInt(e); ok && v == 12 {
						has12 = true
					}
				}
			}
			if !hasLen || !has12 {
				continue
			}
			if guards(n.Succs[0], n.Succs[1]) || guards(n.Succs[1], n.Succs[0]) {
				good = true
			}
		}
		ob.Check(good, nil, "no test of the number of words against 12 separates success from failure")
	}
	// (b) membership of every word
	{
		ob := c.Ob(f, "rejects-unknown-words", f.Body.Pos())
		good := false
		for _, n := range g.Nodes {
			rs, ok := n.AST.(*ast.RangeStmt)
			if !ok || rs.Value == nil || f.ObjOf(rs.X) != words || words == nil {
				continue // must range over the whole list, not a sub-slice
			}
			// comma-ok lookup of the range value in the word map
			var missEdges, hitEdges []*cfgx.Edge
			for _, m := range g.Nodes {
				as, ok := m.AST.(*ast.AssignStmt)
				if !ok || !containsNode(rs.Body, as) || len(as.Lhs) != 2 || len(as.Rhs) != 1 {
					continue
				}
				ix, ok := ast.Unparen(as.Rhs[0]).(*ast.IndexExpr)
				if !ok || f.ObjOf(ix.X) != r.wmap || f.ObjOf(ix.Index) != f.ObjOf(rs.Value) {
					continue
				}
				okv := f.ObjOf(as.Lhs[1])
				for _, k := range g.Nodes {
					if k.Block != nil && k.Block.Cond == k.AST && len(k.Succs) == 2 && f.ObjOf(k.AST.(ast.Expr)) == okv {
						hitEdges = append(hitEdges, k.Succs[0])
						missEdges = append(missEdges, k.Succs[1])
					}
				}
			}
			if len(missEdges) == 0 {
				continue
			}
			var body, exit *cfgx.Edge
			for _, e := range n.Succs {
				if e.Kind == cfgx.Br0 {
					body = e
				} else if e.Kind == cfgx.Br1 {
					exit = e
				}
			}
			cut := map[*cfgx.Edge]bool{}
			for _, e := range hitEdges {
				cut[e] = true
			}
			iterOK := !reachAvoidingEdges(g, body, n, nil, cut)
			missErr := true
			for x := range f.ReachableFromEdges(missEdges, func(y *cfgx.Node) bool { return y == n }) {
				if _, isRet := x.AST.(*ast.ReturnStmt); isRet && f.ClassifyReturn(x) != ir.RetError {
					missErr = false
				}
				if x == n {
					missErr = false
				}
			}
			via := len(succ) > 0
			for _, s := range succ {
				if !f.OnlyVia(s, []*cfgx.Edge{exit}) {
					via = false
				}
			}
			if iterOK && missErr && via {
				good = true
			}
		}
		ob.Check(good, nil, "not every word of the full phrase is looked up in the word map with a miss leading to an error (an unknown word silently decodes as position 0)")
	}
	// (c) checksum
	{
		ob := c.Ob(f, "rejects-bad-checksum", f.Body.Pos())
		good := false
		for _, n := range g.Nodes {
			if n.Block == nil || n.Block.Cond != n.AST || len(n.Succs) != 2 {
				continue
			}
			be, ok := ast.Unparen(n.AST.(ast.Expr)).(*ast.BinaryExpr)
			if !ok || (be.Op != token.NEQ && be.Op != token.EQL) {
				continue
			}
			isSumCall := func(e ast.Expr) bool {
				call, ok := ast.Unparen(e).(*ast.CallExpr)
				return ok && c.P.FuncOf(f.Callee(call)) != nil && len(r.encoder.CallsTo(false, f.Callee(call))) > 0
			}
			if !isSumCall(be.X) && !isSumCall(be.Y) {
				continue
			}
			if guards(n.Succs[0], n.Succs[1]) || guards(n.Succs[1], n.Succs[0]) {
				good = true
			}
		}
		ob.Check(good, nil, "no comparison of the recomputed checksum (the function the encoder also uses) with the phrase's checksum bits separates success from failure")
	}
}

// shiftMaskConsts collects (op, constant) pairs of shift and mask operations in f.
func shiftMaskConsts(f *ir.Func) map[string][]int64 {
	out := map[string][]int64{}
	ir.Walk(f.Body, false, func(x ast.Node) {
		be, ok := x.(*ast.BinaryExpr)
		if !ok {
			return
		}
		var key string
		switch be.Op {
		case token.SHL:
			key = "shl"
		case token.SHR:
			key = "shr"
		case token.AND:
			key = "and"
		default:
			return
		}
		if v, ok := foldInt(f, be.Y); ok {
			out[key] = append(out[key], v)
		}
	})
	for k := range out {
		sort.Slice(out[k], func(i, j int) bool { return out[k][i] < out[k][j] })
	}
	return out
}

func has(xs []int64, v int64) bool {
	for _, x := range xs {
		if x == v {
			return true
		}
	}
	return false
}

func c20r5(c *Ctx) {
	r := getSeedRoles(c)
	enc, dec := shiftMaskConsts(r.encoder), shiftMaskConsts(r.dec)
	c.VisitGraph(r.encoder)
	c.VisitGraph(r.dec)
	W := int64(bits.Len(uint(len(r.listLit.Elts))) - 1) // log2(list size)
	// C from the decoder's smallest mask, E = W - C
	var C int64
	for _, m := range dec["and"] {
		if m > 0 && (m&(m+1)) == 0 {
			C = int64(bits.OnesCount64(uint64(m)))
		}
	}
	E := W - C
	// number of words: make([]string, N) in the encoder
	var N int64
	ir.Walk(r.encoder.Body, false, func(x ast.Node) {
		if call, ok := x.(*ast.CallExpr); ok {
			if id, ok := call.Fun.(*ast.Ident); ok && id.Name == "make" && len(call.Args) == 2 {
				if v, ok := r.encoder.ConstInt(call.Args[1]); ok {
					N = v
				}
			}
		}
	})
	ob := c.Ob(r.encoder, "encoder-constants", r.encoder.Body.Pos())
	encOK := C > 0 && E > 0 && N*W-C == 128 &&
		has(enc["and"], (1<<E)-1) && has(enc["and"], (1<<W)-1) && has(enc["shl"], C) && has(enc["shr"], E) && has(enc["shl"], 64-E) && has(enc["shr"], W) && has(enc["shl"], 64-W) && len(enc["and"]) == 2+0
	ob.Check(encOK, nil, "with W=%d word bits, C=%d checksum bits, E=%d, N=%d words the encoder must use masks {%#x, %#x} and shifts {<<%d, >>%d, <<%d, >>%d, <<%d}; found and=%v shl=%v shr=%v (the checksum function's own mask is separate)", W, C, E, N, (1<<E)-1, (1<<W)-1, C, E, 64-E, W, 64-W, enc["and"], enc["shl"], enc["shr"])
	ob2 := c.Ob(r.dec, "decoder-constants", r.dec.Body.Pos())
	decOK := C > 0 && E > 0 &&
		has(dec["shl"], W) && has(dec["shr"], 64-W) && has(dec["and"], (1<<C)-1) && has(dec["shl"], E) && has(dec["shr"], 64-E) && has(dec["shr"], C) && len(dec["and"]) == 1
	ob2.Check(decOK, nil, "the decoder must use shifts {<<%d, >>%d, <<%d, >>%d, >>%d} and mask %#x for the same (W, E, C); found and=%v shl=%v shr=%v", W, 64-W, E, 64-E, C, (1<<C)-1, dec["and"], dec["shl"], dec["shr"])
}

// c20r6: the checksum of a phrase is the first four bits of the SHA-256 of the entropy (BIP-39). Encoder and decoder
// share the checksum function, so a wrong extraction keeps them consistent with each other — and with every test that
// round-trips — while rejecting every phrase written by a correct implementation. The arithmetic applied to the first
// hash byte is read as a function of that byte and evaluated for all 256 values by the checker's own folding of the
// expression tree (constants, &, |, ^, <<, >>, /, %, +, -, integer conversions); it must equal b >> (8-C).
func c20r6(c *Ctx) {
	r := getSeedRoles(c)
	var C int64
	for _, m := range shiftMaskConsts(r.dec)["and"] {
		if m > 0 && (m&(m+1)) == 0 {
			C = int64(bits.OnesCount64(uint64(m)))
		}
	}
	n := 0
	for _, f := range c.P.PkgFuncs("wallet") {
		if f.Obj == nil {
			continue
		}
		for _, call := range f.Calls(false) {
			if call.Fn == nil || call.Fn.Pkg() == nil || call.Fn.Pkg().Path() != "crypto/sha256" || call.Fn.Name() != "Sum256" {
				continue
			}
			n++
			c.VisitGraph(f)
			ob := c.Ob(f, "checksum-is-leading-bits", call.Pos())
			// the digest: a local variable, or the call itself when it is subscripted in place
			var h types.Object
			var as *ast.AssignStmt
			if a, ok := f.Graph().NodeContaining(call.Pos()).AST.(*ast.AssignStmt); ok && len(a.Lhs) == 1 && len(a.Rhs) == 1 && ast.Unparen(a.Rhs[0]) == ast.Expr(call.Expr) {
				as, h = a, f.ObjOf(a.Lhs[0])
			}
			isDigest := func(x ast.Node) bool {
				if h != nil {
					id, ok := x.(*ast.Ident)
					return ok && f.ObjOf(id) == h
				}
				return x == ast.Node(call.Expr)
			}
			// every use of the digest must be its first byte inside one arithmetic expression
			var tops []ast.Expr
			okShape := true
			parents := map[ast.Node]ast.Node{}
			var stack []ast.Node
			ast.Inspect(f.Body, func(x ast.Node) bool {
				if x == nil {
					stack = stack[:len(stack)-1]
					return true
				}
				if len(stack) > 0 {
					parents[x] = stack[len(stack)-1]
				}
				stack = append(stack, x)
				return true
			})
			ast.Inspect(f.Body, func(x ast.Node) bool {
				if x == nil || !isDigest(x) || (as != nil && parents[x] == ast.Node(as)) {
					return true
				}
				ix, ok := parents[x].(*ast.IndexExpr)
				if !ok || ast.Node(ix.X) != x {
					okShape = false
					return true
				}
				if v, isC := f.ConstInt(ix.Index); !isC || v != 0 {
					okShape = false
					return true
				}
				var top ast.Expr = ix
				for {
					p, _ := parents[top].(ast.Expr)
					if p == nil {
						break
					}
					switch p := p.(type) {
					case *ast.ParenExpr:
					case *ast.BinaryExpr:
						other := p.X
						if other == top {
							other = p.Y
						}
						if _, isC := f.ConstInt(other); !isC {
							p = nil
						}
						if p == nil {
							goto done
						}
					case *ast.CallExpr:
						if tv, ok := f.Info().Types[p.Fun]; !ok || !tv.IsType() || len(p.Args) != 1 {
							goto done
						}
					default:
						goto done
					}
					top = p
				}
			done:
				tops = append(tops, top)
				return true
			})
			if !okShape || len(tops) != 1 || C <= 0 || C >= 8 {
				ob.Unknown("the digest is not used as `arithmetic(digest[0])` exactly once (uses: %d, checksum bits: %d)", len(tops), C)
				continue
			}
			bad := -1
			var got uint64
			for b := 0; b < 256 && bad < 0; b++ {
				v, ok := evalByteExpr(f, tops[0], isDigest, uint64(b))
				if !ok {
					ob.Unknown("the checksum expression at %s uses an operator the evaluator does not know", c.P.Pos(tops[0].Pos()))
					bad = -2
					break
				}
				if v != uint64(b)>>(8-uint(C)) {
					bad, got = b, v
				}
			}
			if bad == -2 {
				continue
			}
			ob.Check(bad < 0, nil, "the checksum expression at %s is not the leading %d bits of the digest's first byte: for a first byte of %#02x it yields %#x instead of %#x — phrases written by any other BIP-39 implementation are rejected and the ones produced here are invalid elsewhere", c.P.Pos(tops[0].Pos()), C, bad, got, uint64(bad)>>(8-uint(C)))
		}
	}
	if n == 0 {
		ir.Fail("no SHA-256 checksum function found in package wallet")
	}
}

// evalByteExpr folds e, in which digest[0] stands for the value b, with Go's unsigned wrap-around per operand type.
func evalByteExpr(f *ir.Func, e ast.Expr, digest func(ast.Node) bool, b uint64) (uint64, bool) {
	width := func(x ast.Expr) uint {
		if bt, ok := f.TypeOf(x).Underlying().(*types.Basic); ok {
			switch bt.Kind() {
			case types.Uint8, types.Int8:
				return 8
			case types.Uint16, types.Int16:
				return 16
			case types.Uint32, types.Int32:
				return 32
			}
		}
		return 64
	}
	trunc := func(v uint64, w uint) uint64 {
		if w >= 64 {
			return v
		}
		return v & (1<<w - 1)
	}
	if v, ok := f.ConstInt(e); ok {
		return uint64(v), true
	}
	switch e := e.(type) {
	case *ast.ParenExpr:
		return evalByteExpr(f, e.X, digest, b)
	case *ast.IndexExpr:
		if digest(e.X) {
			return b, true
		}
	case *ast.CallExpr:
		if tv, ok := f.Info().Types[e.Fun]; ok && tv.IsType() && len(e.Args) == 1 {
			v, ok := evalByteExpr(f, e.Args[0], digest, b)
			return trunc(v, width(e)), ok
		}
	case *ast.BinaryExpr:
		x, ok1 := evalByteExpr(f, e.X, digest, b)
		y, ok2 := evalByteExpr(f, e.Y, digest, b)
		if !ok1 || !ok2 {
			return 0, false
		}
		var v uint64
		switch e.Op {
		case token.AND:
			v = x & y
		case token.OR:
			v = x | y
		case token.XOR:
			v = x ^ y
		case token.AND_NOT:
			v = x &^ y
		case token.SHL:
			if y >= 64 {
				v = 0
			} else {
				v = x << y
			}
		case token.SHR:
			if y >= 64 {
				v = 0
			} else {
				v = x >> y
			}
		case token.ADD:
			v = x + y
		case token.SUB:
			v = x - y
		case token.MUL:
			v = x * y
		case token.QUO:
			if y == 0 {
				return 0, false
			}
			v = x / y
		case token.REM:
			if y == 0 {
				return 0, false
			}
			v = x % y
		default:
			return 0, false
		}
		return trunc(v, width(e)), true
	}
	return 0, false
}
